(* C19: the MAXIMUM OR PEAK FIELD line of the near-field tables.  The code prints
       sqrt (p2 / 2 + |p1| / 2),   p2 = sum |F_i|^2,   |p1| = |sum F_i^2|      (formula extracted, translator item X22)
   for the three complex components F_i of the field at a point.  Theorem: at every instant the length of the real field
   vector Re (F e^{j theta}) is at most that value (the bound is reached at the instant where e^{2 j theta} sum F_i^2 is
   real and positive; the oracle checks the printed number against exactly this quantity). *)
From Coq Require Import Reals Lra Lia.
From Coquelicot Require Import Coquelicot.
From PM Require Import Base.Num Base.RNum Base.Cplx Base.CplxR Gen.Extracted Proofs.CxAlg.
Local Open Scope R_scope.

(* A c2 - B s2 <= sqrt (A^2 + B^2) whenever c2^2 + s2^2 = 1 *)
Lemma rot_bound (A B c2 s2 : R) : c2 * c2 + s2 * s2 = 1 -> A * c2 - B * s2 <= sqrt (A * A + B * B).
Proof.
  intros H.
  assert (Hsq : (A * c2 - B * s2) * (A * c2 - B * s2) <= A * A + B * B).
  { replace (A * A + B * B) with ((A * A + B * B) * (c2 * c2 + s2 * s2)) by (rewrite H; ring).
    replace ((A * A + B * B) * (c2 * c2 + s2 * s2)) with ((A * c2 - B * s2) * (A * c2 - B * s2) + (A * s2 + B * c2) * (A * s2 + B * c2)) by ring.
    pose proof (Rle_0_sqr (A * s2 + B * c2)) as Hq. unfold Rsqr in Hq. lra. }
  destruct (Rle_dec (A * c2 - B * s2) 0) as [Hn|Hp].
  - apply Rle_trans with 0; [exact Hn|apply sqrt_pos].
  - apply Rnot_le_lt in Hp. rewrite <- (sqrt_square (A * c2 - B * s2)) by lra. apply sqrt_le_1_alt. exact Hsq.
Qed.

(* the instantaneous squared length of the field vector *)
Definition inst_sq (x1 y1 x2 y2 x3 y3 theta : R) : R :=
  (x1 * cos theta - y1 * sin theta)² + (x2 * cos theta - y2 * sin theta)² + (x3 * cos theta - y3 * sin theta)².

Theorem peak_bounds_instant (x1 y1 x2 y2 x3 y3 theta : R) :
  let p2 := x1 * x1 + y1 * y1 + (x2 * x2 + y2 * y2) + (x3 * x3 + y3 * y3) in
  let p1 : @Cx RNum := ((x1 * x1 - y1 * y1) + (x2 * x2 - y2 * y2) + (x3 * x3 - y3 * y3), 2 * x1 * y1 + 2 * x2 * y2 + 2 * x3 * y3) in
  inst_sq x1 y1 x2 y2 x3 y3 theta <= (@nf_peak RNum p1 p2)².
Proof.
  cbv zeta. unfold nf_peak, cabs, cabs2. cbn [fst snd add mul div nsqrt of_Z RNum].
  set (A := x1 * x1 - y1 * y1 + (x2 * x2 - y2 * y2) + (x3 * x3 - y3 * y3)).
  set (B := 2 * x1 * y1 + 2 * x2 * y2 + 2 * x3 * y3).
  set (p2 := x1 * x1 + y1 * y1 + (x2 * x2 + y2 * y2) + (x3 * x3 + y3 * y3)).
  assert (Hp2 : 0 <= p2) by (unfold p2; nra).
  rewrite Rsqr_sqrt by (pose proof (sqrt_pos (A * A + B * B)); lra).
  set (c := cos theta). set (s := sin theta).
  assert (Hcs : c * c + s * s = 1) by (unfold c, s; pose proof (sin2_cos2 theta) as H; unfold Rsqr in H; lra).
  assert (Hrot : A * (c * c - s * s) - B * (2 * c * s) <= sqrt (A * A + B * B)).
  { apply rot_bound. nra. }
  unfold inst_sq, Rsqr. fold c s.
  replace ((x1 * c - y1 * s) * (x1 * c - y1 * s) + (x2 * c - y2 * s) * (x2 * c - y2 * s) + (x3 * c - y3 * s) * (x3 * c - y3 * s))
    with (p2 / 2 * (c * c + s * s) + (A * (c * c - s * s) - B * (2 * c * s)) / 2) by (unfold p2, A, B; field).
  rewrite Hcs. lra.
Qed.
