(* C08 / C01: loads on the matrix diagonal. *)
From Coq Require Import ZArith List Bool Reals Lra Lia Arith.
From Coquelicot Require Import Coquelicot.
From PM Require Import Base.Num Base.RNum Base.Cplx Base.CplxR Gen.Extracted Model.Solve
     Proofs.CxAlg Proofs.Linear.
Import ListNotations.

Definition square (n : nat) (Z : matR) : Prop :=
  length Z = n /\ List.Forall (fun r : vecR => length r = n) Z.

Lemma upd_nth_length {A} (l : list A) i f : length (upd_nth l i f) = length l.
Proof. revert i; induction l as [|a l IH]; intros [|i]; cbn; auto. Qed.

Lemma upd_nth_nth {A} (l : list A) i f k d :
  nth k (upd_nth l i f) d = if (Nat.eqb k i && Nat.ltb i (length l))%bool then f (nth k l d) else nth k l d.
Proof.
  revert i k; induction l as [|a l IH]; intros i k; cbn [upd_nth length].
  - rewrite andb_false_r. reflexivity.
  - destruct i as [|i], k as [|k]; cbn [nth Nat.eqb andb]; try reflexivity.
    rewrite IH. reflexivity.
Qed.

Lemma square_row n (Z : matR) i : square n Z -> (i < n)%nat -> length (nth i Z []) = n.
Proof.
  intros [HL HF] Hi. rewrite Forall_forall in HF. apply HF. apply nth_In. lia.
Qed.

Lemma Forall_upd_nth {A} (P : A -> Prop) (l : list A) i f :
  List.Forall P l -> (forall a, P a -> P (f a)) -> List.Forall P (upd_nth l i f).
Proof.
  intros H Hf. revert i. induction H as [|a l Ha Hl IH]; intros [|i]; cbn [upd_nth]; constructor; auto.
Qed.

Lemma add_diag_square n Z j d : square n Z -> square n (add_diag Z j d).
Proof.
  intros [HL HF]. split.
  - unfold add_diag. rewrite upd_nth_length. exact HL.
  - unfold add_diag. apply Forall_upd_nth; [exact HF|].
    intros r Hr. rewrite upd_nth_length. exact Hr.
Qed.

Lemma mnth_add_diag n Z j d i k : square n Z ->
  mnth (add_diag Z j d) i k =
  if (Nat.eqb i j && Nat.eqb k j && Nat.ltb j n)%bool then cadd (mnth Z i k) d else mnth Z i k.
Proof.
  intros Hsq. unfold mnth, add_diag. rewrite upd_nth_nth. destruct Hsq as [HL HF].
  rewrite HL.
  destruct (Nat.eqb_spec i j) as [->|Hij]; cbn [andb]; [|reflexivity].
  destruct (Nat.ltb_spec j n) as [Hj|Hj]; cbn [andb].
  - rewrite upd_nth_nth. rewrite (square_row n Z j (conj HL HF) Hj).
    destruct (Nat.eqb k j); cbn [andb].
    + apply Nat.ltb_lt in Hj. rewrite Hj. reflexivity.
    + reflexivity.
  - rewrite andb_false_r. reflexivity.
Qed.

(* entry-wise description of the loaded matrix: every attachment on pulse i
   adds its own diagonal term; nothing else changes *)
Fixpoint load_sum (m : R) (gnd : nat -> bool) (h : bool) (n i : nat) (loads : list (@loadatt RNum)) : CR :=
  match loads with
  | [] => c0
  | l :: r =>
      cadd (if (Nat.eqb (l_idx l) i && Nat.ltb i n)%bool
            then load_diag m (gnd i) h (l_z l) (Z.of_nat i) else c0)
           (load_sum m gnd h n i r)
  end.

Lemma load_matrix_square m gnd h n Z0 loads : square n Z0 -> square n (load_matrix m gnd h Z0 loads).
Proof.
  unfold load_matrix. revert Z0. induction loads as [|l loads IH]; intros Z0 H; cbn [fold_left]; [exact H|].
  apply IH. apply add_diag_square. exact H.
Qed.

Lemma mnth_load_matrix m gnd h n Z0 loads i k : square n Z0 ->
  mnth (load_matrix m gnd h Z0 loads) i k =
  if Nat.eqb i k then cadd (mnth Z0 i k) (load_sum m gnd h n i loads) else mnth Z0 i k.
Proof.
  unfold load_matrix. revert Z0. induction loads as [|l loads IH]; intros Z0 H; cbn [fold_left load_sum].
  - destruct (Nat.eqb i k); [rewrite cadd_0_r|]; reflexivity.
  - rewrite IH by (apply add_diag_square; exact H).
    rewrite (mnth_add_diag n Z0 _ _ i k H).
    destruct (Nat.eqb_spec i k) as [->|Hik].
    + destruct (Nat.eqb_spec k (l_idx l)) as [->|Hkl].
      * rewrite Nat.eqb_refl. cbn [andb].
        destruct (Nat.ltb (l_idx l) n); [|rewrite cadd_0_l; reflexivity].
        generalize (mnth Z0 (l_idx l) (l_idx l)) (load_sum m gnd h n (l_idx l) loads)
                   (load_diag m (gnd (l_idx l)) h (l_z l) (Z.of_nat (l_idx l))).
        cx_ring.
      * cbn [andb]. assert (Nat.eqb (l_idx l) k = false) as -> by (apply Nat.eqb_neq; congruence).
        cbn [andb]. rewrite cadd_0_l. reflexivity.
    + assert ((Nat.eqb i (l_idx l) && Nat.eqb k (l_idx l))%bool = false) as E.
      { destruct (Nat.eqb_spec i (l_idx l)), (Nat.eqb_spec k (l_idx l)); cbn; congruence. }
      rewrite E. reflexivity.
Qed.

(* ---------- action of the loaded matrix on a vector ---------- *)

Lemma cdot_upd_nth (row x : vecR) j d : (j < length row)%nat ->
  cdot (upd_nth row j (fun z => cadd z d)) x = cadd (cdot row x) (cmul d (nth j x c0)).
Proof.
  revert x j. induction row as [|r row IH]; intros x j Hj; [cbn in Hj; lia|].
  destruct x as [|a x].
  - destruct j; cbn; cx_ring.
  - destruct j as [|j]; cbn [upd_nth cdot nth].
    + generalize (cdot row x). cx_ring.
    + rewrite IH by (cbn in Hj; lia). generalize (cdot row x) (cmul r a) (cmul d (nth j x c0)). cx_ring.
Qed.

Lemma mvmul_nth (Z : matR) x i : nth i (mvmul Z x) c0 = cdot (nth i Z []) x.
Proof.
  unfold mvmul. change (@c0 RNum) with ((fun row : vecR => cdot row x) []) at 1.
  apply (map_nth (fun row : vecR => cdot row x)).
Qed.

Lemma mvmul_add_diag_nth n Z j d x i : square n Z -> (j < n)%nat ->
  nth i (mvmul (add_diag Z j d) x) c0 =
  cadd (nth i (mvmul Z x) c0) (if Nat.eqb i j then cmul d (nth j x c0) else c0).
Proof.
  intros Hsq Hj. rewrite !mvmul_nth. unfold add_diag. rewrite upd_nth_nth.
  destruct Hsq as [HL HF]. rewrite HL.
  apply Nat.ltb_lt in Hj. rewrite Hj, andb_true_r. apply Nat.ltb_lt in Hj.
  destruct (Nat.eqb_spec i j) as [->|_].
  - apply cdot_upd_nth. rewrite (square_row n Z j (conj HL HF) Hj). exact Hj.
  - rewrite cadd_0_r. reflexivity.
Qed.

Lemma mvmul_load_matrix_nth m gnd h n Z0 loads x i : square n Z0 ->
  nth i (mvmul (load_matrix m gnd h Z0 loads) x) c0 =
  cadd (nth i (mvmul Z0 x) c0) (cmul (load_sum m gnd h n i loads) (nth i x c0)).
Proof.
  unfold load_matrix. revert Z0. induction loads as [|l loads IH]; intros Z0 H; cbn [fold_left load_sum].
  - rewrite cmul_0_l, cadd_0_r. reflexivity.
  - rewrite IH by (apply add_diag_square; exact H).
    destruct (Nat.ltb_spec (l_idx l) n) as [Hl|Hl].
    + rewrite (mvmul_add_diag_nth n) by assumption.
      destruct (Nat.eqb_spec i (l_idx l)) as [->|Hne].
      * rewrite Nat.eqb_refl. apply Nat.ltb_lt in Hl. rewrite Hl. cbn [andb].
        generalize (nth (l_idx l) (mvmul Z0 x) c0) (nth (l_idx l) x c0)
                   (load_diag m (gnd (l_idx l)) h (l_z l) (Z.of_nat (l_idx l)))
                   (load_sum m gnd h n (l_idx l) loads). cx_ring.
      * assert (Nat.eqb (l_idx l) i = false) as -> by (apply Nat.eqb_neq; congruence).
        cbn [andb]. rewrite cadd_0_r, cadd_0_l. reflexivity.
    + (* attachment index out of range: no effect on the matrix *)
      assert (add_diag Z0 (l_idx l) (load_diag m (gnd (l_idx l)) h (l_z l) (Z.of_nat (l_idx l))) = Z0) as ->.
      { unfold add_diag. destruct H as [HL _]. clear - HL Hl. revert HL Hl. generalize (l_idx l) as j.
        revert n. induction Z0 as [|r Z IH]; intros n j HL Hl; [reflexivity|].
        destruct j as [|j]; cbn in HL; [lia|]. cbn [upd_nth].
        (* the row update uses the outer index; generalise *)
        f_equal. destruct n; [lia|]. 
        assert (forall k (Z' : matR) (f : vecR -> vecR), (length Z' <= k)%nat -> upd_nth Z' k f = Z') as Hgen.
        { clear. intros k Z'; revert k. induction Z' as [|a Z' IH]; intros [|k] f Hk; cbn in *; try reflexivity; try lia.
          f_equal. apply IH. lia. }
        apply Hgen. lia. }
      destruct (Nat.eqb (l_idx l) i) eqn:E; cbn [andb].
      * apply Nat.eqb_eq in E. subst i. assert (Nat.ltb (l_idx l) n = false) as -> by (apply Nat.ltb_ge; exact Hl).
        rewrite cadd_0_l. reflexivity.
      * rewrite cadd_0_l. reflexivity.
Qed.

(* ---------- C08: a lumped load on the feed pulse adds to the feed impedance ---------- *)

Lemma Cdiv_series (V z a b : C) : a <> RtoC 0 -> b <> RtoC 0 ->
  Cmult b V = Cmult (Cminus V (Cmult z b)) a -> Cdiv V b = Cplus (Cdiv V a) z.
Proof.
  intros Ha Hb H.
  assert (Cmult V a = Cplus (Cmult b V) (Cmult (Cmult z b) a)) as H2 by (rewrite H; ring).
  replace (Cdiv V b) with (Cdiv (Cmult V a) (Cmult a b)) by (field; split; assumption).
  replace (Cplus (Cdiv V a) z) with (Cdiv (Cplus (Cmult b V) (Cmult (Cmult z b) a)) (Cmult a b))
    by (field; split; assumption).
  rewrite H2. reflexivity.
Qed.

Lemma rhs_single_nth m gnd n j (V : CR) k : (j < n)%nat ->
  nth k (rhs_vec m gnd n [mkSource j V]) c0 = if Nat.eqb k j then rhs_entry m (gnd j) V else c0.
Proof.
  intros Hj. unfold rhs_vec. cbn [fold_left s_idx s_volt]. rewrite set_nth_nth, repeat_length.
  apply Nat.ltb_lt in Hj. rewrite Hj, andb_true_r.
  destruct (Nat.eqb k j); [reflexivity|].
  clear. revert k. induction n; intros [|k]; cbn; auto.
Qed.

Lemma feed_alg (w m : R) (V z y : CR) : m <> 0%R -> V <> RtoC 0 ->
  csub (cmul (cscale w (cdivr (copp cj) m)) V) (cmul (cmul (cscale (w / m)%R (copp cj)) z) y)
  = cmul (cdiv (csub V (cmul z y)) V) (cmul (cscale w (cdivr (copp cj) m)) V).
Proof.
  intros Hm HV. pose proof (cabs2_pos V HV) as Hp.
  destruct V as [v1 v2], z as [z1 z2], y as [y1 y2]. cx_unfold. f_equal; field; split; lra.
Qed.

Lemma final_alg (V z x y : CR) : V <> RtoC 0 ->
  y = cmul (cdiv (csub V (cmul z y)) V) x -> cmul y V = cmul (csub V (cmul z y)) x.
Proof.
  intros HV E. rewrite E at 1. pose proof (cabs2_pos V HV) as Hp.
  destruct V as [v1 v2], z as [z1 z2], y as [y1 y2], x as [x1 x2]. cx_unfold. f_equal; field; lra.
Qed.

Lemma feed_load_adds_proof :
  forall (n : nat) (Z0 : matR) (m : R) (gnd : nat -> bool) (h : bool) (j : nat) (V z : CR) (I I' : vecR),
    square n Z0 -> injective_on n Z0 -> (j < n)%nat -> m <> 0%R ->
    (gnd j = true -> h = true) ->
    length I = n -> length I' = n ->
    V <> RtoC 0 -> vnth I j <> RtoC 0 -> vnth I' j <> RtoC 0 ->
    mvmul Z0 I = rhs_vec m gnd n [mkSource j V] ->
    mvmul (load_matrix m gnd h Z0 [mkLoad j z]) I' = rhs_vec m gnd n [mkSource j V] ->
    src_impedance V (vnth I' j) = cadd (src_impedance V (vnth I j)) z.
Proof.
  intros n Z0 m gnd h j V z I I' Hsq Hinj Hj Hm Hgh HI HI' HV HIj HI'j E0 E1.
  set (c := cdiv (csub V (cmul z (vnth I' j))) V).
  (* Z0 I' = Z0 (c I) *)
  assert (I' = vscale c I) as EI.
  { apply Hinj; [exact HI' | rewrite vscale_length; exact HI |].
    rewrite mvmul_vscale, E0.
    apply nth_ext with (d := c0) (d' := c0).
    - rewrite mvmul_length, vscale_length, rhs_vec_length. destruct Hsq; assumption.
    - intros k _.
      assert (nth k (mvmul Z0 I') c0 =
              csub (nth k (rhs_vec (N:=RNum) m gnd n [mkSource j V]) c0)
                   (cmul (load_sum m gnd h n k [mkLoad j z]) (nth k I' c0))) as ->.
      { rewrite <- E1, (mvmul_load_matrix_nth m gnd h n) by exact Hsq.
        generalize (nth k (mvmul Z0 I') c0) (cmul (load_sum m gnd h n k [mkLoad j z]) (nth k I' c0)).
        cx_ring. }
      change (nth k (vscale c (rhs_vec (N:=RNum) m gnd n [mkSource j V])) c0)
        with (vnth (vscale c (rhs_vec (N:=RNum) m gnd n [mkSource j V])) k).
      rewrite vnth_vscale. unfold vnth. rewrite rhs_single_nth by exact Hj.
      cbn [load_sum l_idx l_z].
      destruct (Nat.eqb_spec k j) as [->|Hkj].
      + rewrite Nat.eqb_refl. apply Nat.ltb_lt in Hj. rewrite Hj. cbn [andb]. apply Nat.ltb_lt in Hj.
        rewrite rhs_entry_eq, load_diag_eq by exact Hm.
        assert ((gnd j && h)%bool = gnd j) as Egh.
        { destruct (gnd j) eqn:Eg; [rewrite Hgh by reflexivity|]; reflexivity. }
        rewrite Egh. subst c. unfold vnth.
        rewrite cadd_0_r. apply feed_alg; assumption.
      + assert (Nat.eqb j k = false) as -> by (apply Nat.eqb_neq; congruence).
        cbn [andb]. cx_ring. }
  (* read off entry j *)
  assert (vnth I' j = cmul c (vnth I j)) as Ej.
  { rewrite EI at 1. apply vnth_vscale. }
  rewrite !src_impedance_eq by assumption. rewrite cadd_C.
  apply Cdiv_series; [exact HIj | exact HI'j |].
  apply final_alg; [exact HV | exact Ej].
Qed.

Lemma loads_sum_proof m gnd h n (Z0 : matR) j (z1 z2 : CR) i k : square n Z0 ->
  mnth (load_matrix m gnd h Z0 [mkLoad j z1; mkLoad j z2]) i k =
  mnth (load_matrix m gnd h Z0 [mkLoad j (cadd z1 z2)]) i k.
Proof.
  intros Hsq. rewrite !(mnth_load_matrix m gnd h n) by exact Hsq.
  destruct (Nat.eqb i k); [|reflexivity]. f_equal.
  cbn [load_sum l_idx l_z]. destruct (Nat.eqb j i && Nat.ltb i n)%bool.
  - rewrite load_diag_additive.
    generalize (load_diag m (gnd i) h z1 (Z.of_nat i)) (load_diag m (gnd i) h z2 (Z.of_nat i)). cx_ring.
  - cx_ring.
Qed.

Lemma zero_load_noop_proof m gnd h n (Z0 : matR) j i k : square n Z0 ->
  mnth (load_matrix m gnd h Z0 [mkLoad j c0]) i k = mnth Z0 i k.
Proof.
  intros Hsq. rewrite (mnth_load_matrix m gnd h n) by exact Hsq.
  destruct (Nat.eqb i k); [|reflexivity].
  cbn [load_sum l_idx l_z]. rewrite load_diag_0.
  destruct (Nat.eqb j i && Nat.ltb i n)%bool; generalize (mnth Z0 i k); cx_ring.
Qed.
