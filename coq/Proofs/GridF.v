(* Binary64 witnesses for C16 (evaluated by the kernel's VM). *)
From Coq Require Import ZArith List PrimFloat.
From PM Require Import Base.Num Base.FNum Base.NumpyLib Gen.Extracted.

Lemma C16_binary64_tenth_example_proof :
  (Z.to_nat (@ntrunc FNum 3%float) <=
     @np_arange_len FNum 0%float (PrimFloat.add 0 (PrimFloat.mul 3 0x1.999999999999ap-4))%float 0x1.999999999999ap-4%float)%nat
  /\ length (@grid_axis FNum 0%float 0x1.999999999999ap-4%float 3%float) = 3%nat
  /\ length (@np_arange FNum 0%float (PrimFloat.add 0 (PrimFloat.mul 3 0x1.999999999999ap-4))%float 0x1.999999999999ap-4%float) = 4%nat.
Proof. vm_compute. repeat split. apply le_S, le_n. Qed.
