(* Reading the text of the number formatter back, character by character (C19). *)
From Coq Require Import ZArith NArith List Bool Arith Lia Reals Lra.
From PM Require Import Model.Format Proofs.FormatP Proofs.FormatR.
Import ListNotations.

(* ---- reading a number back from its characters ---- *)
Definition is_digit (c : N) : bool := (48 <=? c)%N && (c <=? 57)%N.
Fixpoint read_digits (acc : N) (cnt : nat) (l : list N) : N * nat * list N :=
  match l with
  | c :: r => if is_digit c then read_digits (10 * acc + (c - 48))%N (S cnt) r else (acc, cnt, l)
  | [] => (acc, cnt, [])
  end.
Definition all_spaces (l : list N) : bool := forallb (N.eqb 32) l.

Record dec := mkDec { d_neg : bool; d_mant : N; d_scale : Z }.      (* value = +- mant * 10^scale *)

Definition parse (s : list N) : option dec :=
  match s with
  | sg :: r0 =>
      if (sg =? 32)%N || (sg =? 45)%N then
        let neg := (sg =? 45)%N in
        let '(ip, ni, r1) := read_digits 0 0 r0 in
        let '(fp, nf, r2) := match r1 with
                             | c :: r => if (c =? 46)%N then read_digits ip 0 r else (ip, 0%nat, r1)
                             | [] => (ip, 0%nat, r1)
                             end in
        if (ni + nf =? 0)%nat then None
        else match r2 with
             | c :: es :: r3 =>
                 if (c =? 69)%N then
                   if (es =? 43)%N || (es =? 45)%N then
                     let '(e, ne, r4) := read_digits 0 0 r3 in
                     if (ne =? 0)%nat || negb (all_spaces r4) then None
                     else Some (mkDec neg fp ((if (es =? 45)%N then - Z.of_N e else Z.of_N e) - Z.of_nat nf))
                   else None
                 else if all_spaces r2 then Some (mkDec neg fp (- Z.of_nat nf)) else None
             | _ => if all_spaces r2 then Some (mkDec neg fp (- Z.of_nat nf)) else None
             end
      else None
  | [] => None
  end.

Definition dec_value (d : dec) : R := sgn (d_neg d) * NR (d_mant d) * powerRZ 10 (d_scale d).

(* digit lists as the formatter produces them *)
Definition digits_ok (l : list N) : Prop := Forall (fun d => (d < 10)%N) l.
Definition wf_rep (r : rep) : Prop :=
  match r with
  | Fixed _ i f _ => digits_ok i /\ match f with None => i <> [] | Some l => digits_ok l /\ l <> [] end
  | Expo _ d0 f _ ed => (d0 < 10)%N /\ digits_ok f /\ digits_ok ed /\ ed <> []
  end.

Lemma is_digit_dch d : (d < 10)%N -> is_digit (dch d) = true.
Proof. intros H. unfold is_digit, dch. apply andb_true_iff. split; apply N.leb_le; lia. Qed.
Lemma dch_sub d : (dch d - 48 = d)%N. Proof. unfold dch. lia. Qed.

Lemma read_digits_spec l : digits_ok l -> forall acc cnt rest,
  match rest with [] => True | c :: _ => is_digit c = false end ->
  read_digits acc cnt (map dch l ++ rest) = (dval_aux acc l, (cnt + length l)%nat, rest).
Proof.
  induction 1 as [|d l Hd Hl IH]; intros acc cnt rest Hr.
  - cbn [map app length dval_aux]. rewrite Nat.add_0_r. destruct rest as [|c r]; [reflexivity|]. cbn [read_digits]. rewrite Hr. reflexivity.
  - cbn [map app read_digits length dval_aux]. rewrite is_digit_dch by exact Hd. rewrite dch_sub.
    rewrite IH by exact Hr. f_equal. f_equal. lia.
Qed.

Lemma all_spaces_repeat k : all_spaces (repeat 32%N k) = true.
Proof. induction k; [reflexivity|]. cbn. exact IHk. Qed.

Lemma spaces_head k : match repeat 32%N k with [] => True | c :: _ => is_digit c = false end.
Proof. destruct k; [exact I|reflexivity]. Qed.

(* what comes after the number in a fixed-point text: only blanks *)
Lemma parse_tail neg mant nf (sp : list N) : all_spaces sp = true ->
  match sp with
  | c :: es :: r3 =>
      if (c =? 69)%N then
        if (es =? 43)%N || (es =? 45)%N then
          let '(e, ne, r4) := read_digits 0 0 r3 in
          if (ne =? 0)%nat || negb (all_spaces r4) then None
          else Some (mkDec neg mant ((if (es =? 45)%N then - Z.of_N e else Z.of_N e) - Z.of_nat nf))
        else None
      else if all_spaces sp then Some (mkDec neg mant (- Z.of_nat nf)) else None
  | _ => if all_spaces sp then Some (mkDec neg mant (- Z.of_nat nf)) else None
  end = Some (mkDec neg mant (- Z.of_nat nf)).
Proof.
  intros H. destruct sp as [|c [|es r3]]; try (rewrite H; reflexivity).
  assert (c = 32%N) as ->. { cbn in H. apply andb_true_iff in H. destruct H as [H _]. apply N.eqb_eq in H. symmetry. exact H. }
  cbn [N.eqb Pos.eqb]. rewrite H. reflexivity.
Qed.

Lemma render_fixed neg i f pad : exists k,
  render (Fixed neg i f pad) = (if neg then 45%N else 32%N) :: map dch i ++ match f with None => [] | Some l => 46%N :: map dch l end ++ repeat 32%N k.
Proof.
  cbn [render]. destruct pad.
  - eexists. cbn [app]. rewrite <- app_assoc. reflexivity.
  - exists 0%nat. cbn [repeat]. rewrite app_nil_r. reflexivity.
Qed.

Lemma powerRZ_neg_nat n : powerRZ 10 (- Z.of_nat n) = (/ 10 ^ n)%R.
Proof. destruct n; [cbn; lra|]. cbn [Z.of_nat Z.opp powerRZ]. rewrite SuccNat2Pos.id_succ. reflexivity. Qed.
Local Open Scope R_scope.

Theorem parse_render_fixed neg i f pad : wf_rep (Fixed neg i f pad) ->
  exists d, parse (render (Fixed neg i f pad)) = Some d /\ dec_value d = rep_value (Fixed neg i f pad).
Proof.
  intros [Hi Hf]. destruct (render_fixed neg i f pad) as [k ->].
  unfold parse.
  assert (Hs : ((if neg then 45 else 32) =? 32)%N || ((if neg then 45 else 32) =? 45)%N = true) by (destruct neg; reflexivity).
  rewrite Hs. assert (Hn : ((if neg then 45 else 32) =? 45)%N = neg) by (destruct neg; reflexivity). rewrite Hn.
  destruct f as [l|].
  - destruct Hf as [Hl Hne].
    rewrite (read_digits_spec i Hi 0%N 0%nat) by reflexivity. cbn [Nat.add].
    cbn [app]. cbn [N.eqb Pos.eqb]. rewrite (read_digits_spec l Hl) by apply spaces_head. cbn [Nat.add].
    assert (((length i + length l)%nat =? 0)%nat = false) as ->.
    { apply Nat.eqb_neq. destruct l; [contradiction|cbn; lia]. }
    rewrite parse_tail by apply all_spaces_repeat.
    eexists. split; [reflexivity|].
    unfold dec_value. cbn [d_neg d_mant d_scale rep_value frac_list].
    rewrite dval_aux_lin, NR_add, NR_mul, NR_p10, powerRZ_neg_nat.
    change (dval_aux 0 i) with (dval i). pose proof (pow10_pos (length l)). field. lra.
  - rewrite (read_digits_spec i Hi 0%N 0%nat) by apply spaces_head. cbn [Nat.add app].
    assert (Hr1 : match repeat 32%N k with
                  | c :: r => if (c =? 46)%N then read_digits (dval_aux 0 i) 0 r else (dval_aux 0 i, 0%nat, repeat 32%N k)
                  | [] => (dval_aux 0 i, 0%nat, repeat 32%N k) end = (dval_aux 0 i, 0%nat, repeat 32%N k)) by (destruct k; reflexivity).
    rewrite Hr1. assert (((length i + 0)%nat =? 0)%nat = false) as ->.
    { apply Nat.eqb_neq. destruct i; [contradiction|cbn; lia]. }
    rewrite parse_tail by apply all_spaces_repeat.
    eexists. split; [reflexivity|].
    unfold dec_value. cbn [d_neg d_mant d_scale rep_value frac_list length dval pow Z.of_nat Z.opp powerRZ].
    change (dval_aux 0 i) with (dval i). change (NR (dval [])) with 0. unfold Rdiv. ring.
Qed.

Lemma powerRZ_ofN e : powerRZ 10 (Z.of_N e) = 10 ^ N.to_nat e.
Proof. rewrite <- (N2Nat.id e) at 1. rewrite nat_N_Z. symmetry. apply pow_powerRZ. Qed.

Theorem parse_render_expo neg d0 f eneg ed : wf_rep (Expo neg d0 f eneg ed) ->
  exists d, parse (render (Expo neg d0 f eneg ed)) = Some d /\ dec_value d = rep_value (Expo neg d0 f eneg ed).
Proof.
  intros (H0 & Hf & He & Hne). cbn [render]. unfold parse.
  assert (Hs : ((if neg then 45 else 32) =? 32)%N || ((if neg then 45 else 32) =? 45)%N = true) by (destruct neg; reflexivity).
  rewrite Hs. assert (Hn : ((if neg then 45 else 32) =? 45)%N = neg) by (destruct neg; reflexivity). rewrite Hn.
  change (dch d0 :: 46%N :: map dch f ++ 69%N :: (if eneg then 45%N else 43%N) :: map dch ed)
    with (map dch [d0] ++ 46%N :: map dch f ++ 69%N :: (if eneg then 45%N else 43%N) :: map dch ed).
  assert (Hd0 : digits_ok [d0]) by (constructor; [exact H0|constructor]).
  rewrite (read_digits_spec [d0] Hd0) by reflexivity.
  cbn [Nat.add length]. cbn [N.eqb Pos.eqb].
  rewrite (read_digits_spec f Hf) by reflexivity. cbn [Nat.add].
  cbn [Nat.eqb]. cbn [N.eqb Pos.eqb].
  assert (Hes : ((if eneg then 45 else 43) =? 43)%N || ((if eneg then 45 else 43) =? 45)%N = true) by (destruct eneg; reflexivity).
  rewrite Hes. assert (Hen : ((if eneg then 45 else 43) =? 45)%N = eneg) by (destruct eneg; reflexivity). rewrite Hen.
  rewrite <- (app_nil_r (map dch ed)). rewrite (read_digits_spec ed He) by exact I. cbn [Nat.add].
  assert ((length ed =? 0)%nat = false) as -> by (apply Nat.eqb_neq; destruct ed; [contradiction|cbn; lia]).
  cbn [orb negb all_spaces forallb].
  eexists. split; [reflexivity|].
  unfold dec_value. cbn [d_neg d_mant d_scale rep_value].
  change (dval_aux 0 [d0]) with (10 * 0 + d0)%N. replace (10 * 0 + d0)%N with d0 by lia.
  rewrite dval_aux_lin, NR_add, NR_mul, NR_p10.
  change (dval_aux 0 ed) with (dval ed).
  pose proof (pow10_pos (length f)) as Pf. pose proof (pow10_pos (N.to_nat (dval ed))) as Pe.
  assert (H10 : (10 <> 0)%R) by lra.
  unfold Z.sub. rewrite powerRZ_add by exact H10. rewrite powerRZ_neg_nat.
  destruct eneg.
  - rewrite <- (N2Nat.id (dval ed)) at 1. rewrite nat_N_Z, powerRZ_neg_nat. field. lra.
  - rewrite powerRZ_ofN. field. lra.
Qed.

Theorem parse_render r : wf_rep r -> exists d, parse (render r) = Some d /\ dec_value d = rep_value r.
Proof. destruct r; [apply parse_render_fixed|apply parse_render_expo]. Qed.

Lemma fdigits_ok k n : digits_ok (fdigits k n).
Proof. unfold digits_ok. apply Forall_forall. intros d Hd. eapply fdigits_digit. exact Hd. Qed.
Lemma idigits_ok n : digits_ok (idigits n).
Proof. apply fdigits_ok. Qed.
Lemma idigits_nonempty n : idigits n <> [].
Proof. intros E. pose proof (idigits_length n) as H. rewrite E in H. destruct (ndig_spec n) as (_ & _ & C). cbn in H. lia. Qed.
Lemma firstn_ok k l : digits_ok l -> digits_ok (firstn k l).
Proof.
  unfold digits_ok. intros H. apply Forall_forall. intros d Hd. pose proof (proj1 (Forall_forall _ _) H) as H'. apply H'.
  revert k Hd. clear. induction l as [|x l IH]; intros k Hd; destruct k; cbn in Hd; try contradiction.
  destruct Hd as [<-|Hd]; [left; reflexivity|right; eapply IH; exact Hd].
Qed.
Lemma rstrip0_incl l d : In d (rstrip0 l) -> In d l.
Proof.
  revert d. induction l as [|x l IH]; intros d H; [exact H|]. cbn [rstrip0] in H.
  destruct (rstrip0 l) as [|r0 r] eqn:E.
  - destruct (x =? 0)%N; [destruct H|]. destruct H as [<-|[]]. left. reflexivity.
  - destruct H as [<-|H]; [left; reflexivity|right; apply IH; exact H].
Qed.
Lemma rstrip0_ok l : digits_ok l -> digits_ok (rstrip0 l).
Proof. unfold digits_ok. intros H. apply Forall_forall. intros d Hd. pose proof (proj1 (Forall_forall _ _) H) as H'. apply H'. apply rstrip0_incl. exact Hd. Qed.

Lemma drop_lead0_cases i f : drop_lead0 i f = i \/ (drop_lead0 i f = [] /\ exists l, f = Some l).
Proof.
  unfold drop_lead0. destruct i as [|x [|y t]]; auto; destruct x; auto; destruct f as [l|]; auto. right. split; [reflexivity|exists l; reflexivity].
Qed.

Lemma fixed_rep_wf neg n prec : (prec = 0%nat \/ (ndig (n / p10 prec) <= 7)%nat) -> wf_rep (fixed_rep neg n prec).
Proof.
  intros H. unfold fixed_rep. destruct prec as [|p].
  - destruct (neg && (n =? 0)%N); cbn [wf_rep]; split; try apply idigits_ok; apply idigits_nonempty.
  - destruct H as [H|H]; [discriminate|]. set (prec := S p) in *.
    set (ip := idigits (n / p10 prec)). set (fp := fdigits prec (n mod p10 prec)).
    unfold take9. assert (Hlen : length ip = ndig (n / p10 prec)) by apply idigits_length.
    assert ((8 <=? length ip)%nat = false) as -> by (apply Nat.leb_gt; lia).
    assert (Hip : digits_ok ip) by apply idigits_ok. assert (Hne : ip <> []) by apply idigits_nonempty.
    unfold strip_frac. destruct (rstrip0 (firstn (7 - length ip) fp)) as [|r0 r] eqn:Er.
    + cbn [wf_rep]. destruct (drop_lead0_cases ip None) as [->|[_ [l E]]]; [split; assumption|discriminate].
    + cbn [wf_rep]. assert (Hrs : digits_ok (r0 :: r)) by (rewrite <- Er; apply rstrip0_ok, firstn_ok, fdigits_ok).
      split; [|split; [exact Hrs|discriminate]].
      destruct (drop_lead0_cases ip (Some (r0 :: r))) as [->|[-> _]]; [exact Hip|constructor].
Qed.

Lemma expo_rep_wf neg a den : (0 < den)%N -> (0 < a)%N -> (10 * a < den)%N -> (den <= a * p10 400)%N -> wf_rep (expo_rep neg a den).
Proof.
  intros Hd Ha Hs Hbig. unfold expo_rep.
  destruct (find_k_spec 400 0 a den ltac:(intros j Hj; lia) Hbig) as (K1 & K2 & K3). cbv zeta in K1, K2, K3.
  set (k := find_k 400 0 a den) in *.
  assert (Hk2 : (2 <= k)%nat).
  { destruct k as [|[|k]]; try lia.
    - change (p10 0) with 1%N in K1. lia.
    - change (p10 1) with 10%N in K1. lia. }
  specialize (K2 (k - 1)%nat ltac:(lia)).
  set (m := rhe (a * p10 (6 + k)) den).
  assert (E6 : p10 (6 + k) = (p10 6 * p10 k)%N) by apply p10_add.
  assert (Ek : p10 k = (10 * p10 (k - 1))%N) by (rewrite <- p10_S; f_equal; lia).
  assert (Hm2 : (m <= p10 7)%N).
  { apply rhe_mono_upper; [exact Hd|]. rewrite E6. change (p10 7) with (10 * p10 6)%N. nia. }
  assert (Hgen : forall m' k', (m' < p10 7)%N ->
     wf_rep (Expo neg (m' / p10 6) (fdigits 6 (m' mod p10 6)) (negb (k' =? 0)%nat)
               (if (k' <? 100)%nat then fdigits 2 (N.of_nat k') else fdigits 3 (N.of_nat k')))).
  { intros m' k' Hm'. cbn [wf_rep]. repeat split.
    - apply N.div_lt_upper_bound; [change (p10 6) with 1000000%N; lia|]. change (p10 6) with 1000000%N. change (p10 7) with 10000000%N in Hm'. lia.
    - apply fdigits_ok.
    - destruct (k' <? 100)%nat; apply fdigits_ok.
    - destruct (k' <? 100)%nat; intros E; apply (f_equal (@length N)) in E; rewrite fdigits_length in E; discriminate. }
  destruct (p10 7 <=? m)%N eqn:E7.
  - apply Hgen. change (p10 6) with 1000000%N. change (p10 7) with 10000000%N. lia.
  - apply N.leb_gt in E7. apply Hgen. exact E7.
Qed.

(* ---- the text of format_float, read back character by character, is the value the theorems of FormatR bound ---- *)
Theorem format_text_reads_back neg a den t use_e :
  (0 < den)%N ->
  (* the cases the error theorems cover: |f| >= 1 with prec from the exact digit position or none, |f| < 1, exponent format *)
  (a = 0%N \/ (use_e = true /\ (0 < a)%N /\ (10 * a < den)%N /\ (den <= a * p10 400)%N)
   \/ ((use_e = false \/ (den <= 10 * a)%N) /\ (0 < a)%N /\
       let prec := Z.to_nat (Z.max 0 (6 - t)) in
       (prec = 0%nat \/ (ndig (rhe (a * p10 prec) den / p10 prec) <= 7)%nat))) ->
  exists d, parse (render (format_float neg a den t use_e)) = Some d /\ dec_value d = rep_value (format_float neg a den t use_e).
Proof.
  intros Hd H. apply parse_render. unfold format_float.
  destruct H as [->|[(-> & Ha & Hs & Hb)|(Hu & Ha & Hp)]].
  - cbn [N.eqb]. destruct use_e; apply fixed_rep_wf; [left; reflexivity|right; vm_compute; lia].
  - assert ((a =? 0)%N = false) as -> by (apply N.eqb_neq; lia).
    assert ((10 * a <? den)%N = true) as -> by (apply N.ltb_lt; lia). cbn [andb]. apply expo_rep_wf; assumption.
  - assert ((a =? 0)%N = false) as -> by (apply N.eqb_neq; lia).
    assert (use_e && (10 * a <? den)%N = false) as ->.
    { destruct Hu as [->|Hu]; [reflexivity|]. assert ((10 * a <? den)%N = false) as -> by (apply N.ltb_ge; lia). apply andb_false_r. }
    apply fixed_rep_wf. exact Hp.
Qed.

Lemma seven_digits_ndig a den prec : (0 < den)%N -> (1 <= prec <= 6)%nat ->
  (a * p10 prec < p10 7 * den)%N -> (ndig (rhe (a * p10 prec) den / p10 prec) <= 7)%nat.
Proof.
  intros Hd Hp Hhi. set (n := rhe (a * p10 prec) den).
  assert (Hn2 : (n <= p10 7)%N) by (apply rhe_mono_upper; [exact Hd|lia]).
  pose proof (p10_pos prec) as Pp.
  assert (E8 : p10 8 = (p10 (8 - prec) * p10 prec)%N) by (rewrite <- p10_add; f_equal; lia).
  assert (Hip : (n / p10 prec < p10 (8 - prec))%N).
  { apply N.div_lt_upper_bound; [lia|]. rewrite N.mul_comm, <- E8. change (p10 8) with 100000000%N. change (p10 7) with 10000000%N in Hn2. lia. }
  pose proof (ndig_upper (n / p10 prec) (8 - prec) ltac:(lia) Hip). lia.
Qed.

(* the headline: for |f| >= 1 the characters format_float produces, parsed back, are within 5e-7 relative of f *)
Theorem seven_digits_text neg a den (L : nat) use_e : (0 < den)%N ->
  (p10 L * den <= a)%N -> (a < p10 (S L) * den)%N ->
  let x := (NR a / NR den)%R in
  exists d, parse (render (format_float neg a den (Z.of_nat L) use_e)) = Some d /\
            (Rabs (dec_value d - sgn neg * x) <= x / 2000000)%R.
Proof.
  intros Hd Hlo Hhi x. pose proof (p10_pos L) as PL.
  destruct (format_text_reads_back neg a den (Z.of_nat L) use_e Hd) as (d & Hp & Hv).
  { right. right. split; [right; nia|]. split; [nia|]. cbv zeta.
    destruct (Nat.le_gt_cases L 5) as [H5|H6].
    - right. replace (Z.to_nat (Z.max 0 (6 - Z.of_nat L))) with (6 - L)%nat by lia.
      apply seven_digits_ndig; [exact Hd|lia|].
      assert (E7 : p10 7 = (p10 (S L) * p10 (6 - L))%N) by (rewrite <- p10_add; f_equal; lia).
      pose proof (p10_pos (6 - L)). rewrite E7. nia.
    - left. lia. }
  exists d. split; [exact Hp|]. rewrite Hv. apply format_seven_digits; assumption.
Qed.
