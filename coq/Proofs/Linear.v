(* C07 / C08 / C01: linear-algebra theorems about the solve layer. *)
From Coq Require Import ZArith List Bool Reals Lra Lia.
From Coquelicot Require Import Coquelicot.
From PM Require Import Base.Num Base.RNum Base.Cplx Base.CplxR Gen.Extracted Model.Solve Proofs.CxAlg.
Import ListNotations.

(* ---------- the extracted leaf formulas, in mathematical form ---------- *)

Lemma rhs_entry_eq (m : R) (g : bool) (v : CR) : m <> 0%R ->
  @rhs_entry RNum m g v = cmul (cscale (if g then 2 else 1)%R (cdivr (copp cj) m)) v.
Proof.
  intros Hm. unfold rhs_entry. destruct g; destruct v as [x y]; cx_unfold; f_equal; field; exact Hm.
Qed.

Lemma rhs_entry_linear (m : R) g (a b v w : CR) :
  @rhs_entry RNum m g (cadd (cmul a v) (cmul b w)) =
  cadd (cmul a (rhs_entry m g v)) (cmul b (rhs_entry m g w)).
Proof. unfold rhs_entry. destruct g; cx_ring. Qed.

Lemma rhs_entry_0 (m : R) g : @rhs_entry RNum m g c0 = c0.
Proof. unfold rhs_entry. destruct g; cx_ring. Qed.

Lemma load_diag_additive (m : R) g h (z1 z2 : CR) j :
  @load_diag RNum m g h (cadd z1 z2) j = cadd (load_diag m g h z1 j) (load_diag m g h z2 j).
Proof. unfold load_diag. destruct (g && h)%bool; cx_ring. Qed.

Lemma load_diag_0 (m : R) g h j : @load_diag RNum m g h c0 j = c0.
Proof. unfold load_diag. destruct (g && h)%bool; cx_ring. Qed.

(* weight w = 2 on a grounded pulse over ground, else 1; entry = -j * w/m * z *)
Lemma load_diag_eq (m : R) g h (z : CR) j : m <> 0%R ->
  @load_diag RNum m g h z j = cmul (cscale ((if (g && h)%bool then 2 else 1) / m)%R (copp cj)) z.
Proof.
  intros Hm. unfold load_diag. destruct (g && h)%bool; destruct z as [x y]; cx_unfold; f_equal; field; exact Hm.
Qed.

Lemma src_impedance_eq (v i : CR) : i <> RtoC 0 -> @src_impedance RNum v i = Cdiv v i.
Proof. intros H. unfold src_impedance. apply cdiv_C. exact H. Qed.

Lemma src_power_eq (v i : CR) : @src_power RNum v i = (Re (Cmult v (Cconj i)) / 2)%R.
Proof. unfold src_power. destruct v, i; cx_unfold; unfold Re, Cmult, Cconj; cbn. field. Qed.

(* ---------- rhs as a function of the voltages ---------- *)

Lemma set_nth_length {A} (l : list A) i x : length (set_nth l i x) = length l.
Proof. revert i; induction l as [|a l IH]; intros [|i]; cbn; auto. Qed.

Lemma set_nth_nth {A} (l : list A) i k x d :
  nth k (set_nth l i x) d = if (Nat.eqb k i && Nat.ltb i (length l))%bool then x else nth k l d.
Proof.
  revert i k; induction l as [|a l IH]; intros i k; cbn [set_nth length].
  - rewrite andb_false_r. reflexivity.
  - destruct i as [|i], k as [|k]; cbn [nth Nat.eqb andb]; try reflexivity.
    rewrite IH. reflexivity.
Qed.

Section Rhs.
Variable m : R.
Variable gnd : nat -> bool.

Definition with_volts (idxs : list nat) (vs : list CR) : list (@source RNum) :=
  map (fun p => mkSource (fst p) (snd p)) (combine idxs vs).

Lemma rhs_vec_length n srcs : length (@rhs_vec RNum m gnd n srcs) = n.
Proof.
  unfold rhs_vec. rewrite <- (repeat_length (@c0 RNum) n) at 2.
  generalize (repeat (@c0 RNum) n) as r. induction srcs as [|s srcs IH]; intros r; cbn [fold_left].
  - reflexivity.
  - rewrite IH, set_nth_length. reflexivity.
Qed.

(* invariant of the fold: linear combination is preserved entry-wise *)
Lemma rhs_fold_linear a b idxs : forall (vs ws : list CR) (r1 r2 r3 : vecR),
  length vs = length idxs -> length ws = length idxs ->
  length r1 = length r2 -> length r1 = length r3 ->
  (forall k, nth k r3 c0 = cadd (cmul a (nth k r1 c0)) (cmul b (nth k r2 c0))) ->
  forall k,
   nth k (fold_left (fun rhs s => set_nth rhs (s_idx s) (rhs_entry m (gnd (s_idx s)) (s_volt s)))
            (with_volts idxs (map (fun p => cadd (cmul a (fst p)) (cmul b (snd p))) (combine vs ws))) r3) c0 =
   cadd (cmul a (nth k (fold_left (fun rhs s => set_nth rhs (s_idx s) (rhs_entry m (gnd (s_idx s)) (s_volt s)))
            (with_volts idxs vs) r1) c0))
        (cmul b (nth k (fold_left (fun rhs s => set_nth rhs (s_idx s) (rhs_entry m (gnd (s_idx s)) (s_volt s)))
            (with_volts idxs ws) r2) c0)).
Proof.
  induction idxs as [|i idxs IH]; intros vs ws r1 r2 r3 Hv Hw H12 H13 Hinv k.
  - destruct vs; [|discriminate]. destruct ws; [|discriminate]. cbn. apply Hinv.
  - destruct vs as [|v vs]; [discriminate|]. destruct ws as [|w ws]; [discriminate|].
    cbn [combine map with_volts fold_left fst snd s_idx s_volt].
    apply IH.
    + cbn in Hv; lia.
    + cbn in Hw; lia.
    + rewrite !set_nth_length; exact H12.
    + rewrite !set_nth_length; exact H13.
    + intros k'. rewrite !set_nth_nth. rewrite <- H12, <- H13.
      destruct (Nat.eqb k' i && Nat.ltb i (length r1))%bool.
      * apply rhs_entry_linear.
      * apply Hinv.
Qed.

Lemma rhs_vec_linear n a b idxs (vs ws : list CR) :
  length vs = length idxs -> length ws = length idxs ->
  rhs_vec m gnd n (with_volts idxs (map (fun p => cadd (cmul a (fst p)) (cmul b (snd p))) (combine vs ws))) =
  vlin a (rhs_vec m gnd n (with_volts idxs vs)) b (rhs_vec m gnd n (with_volts idxs ws)).
Proof.
  intros Hv Hw.
  apply nth_ext with (d := c0) (d' := c0).
  - rewrite vlin_length by (rewrite !rhs_vec_length; reflexivity). rewrite !rhs_vec_length. reflexivity.
  - intros k _. unfold rhs_vec.
    rewrite (rhs_fold_linear a b idxs vs ws (repeat c0 n) (repeat c0 n) (repeat c0 n)); auto.
    + fold (rhs_vec m gnd n (with_volts idxs vs)). fold (rhs_vec m gnd n (with_volts idxs ws)).
      symmetry. apply vnth_vlin. rewrite !rhs_vec_length. reflexivity.
    + intros k'. assert (nth k' (repeat (@c0 RNum) n) c0 = c0) as ->.
      { clear. revert k'; induction n; intros [|k']; cbn; auto. }
      cx_ring.
Qed.
End Rhs.

(* ---------- C07: currents are linear in the voltages ---------- *)

Lemma currents_linear_proof :
  forall (n : nat) (Z : matR) (m : R) (gnd : nat -> bool) (idxs : list nat)
         (a b : CR) (vs ws : list CR) (I J K : vecR),
    injective_on n Z ->
    length vs = length idxs -> length ws = length idxs ->
    length I = n -> length J = n -> length K = n ->
    mvmul Z I = rhs_vec m gnd n (with_volts idxs vs) ->
    mvmul Z J = rhs_vec m gnd n (with_volts idxs ws) ->
    mvmul Z K = rhs_vec m gnd n
       (with_volts idxs (map (fun p => cadd (cmul a (fst p)) (cmul b (snd p))) (combine vs ws))) ->
    K = vlin a I b J.
Proof.
  intros n Z m gnd idxs a b vs ws I J K Hinj Hv Hw HI HJ HK EI EJ EK.
  apply Hinj; auto.
  - rewrite vlin_length; congruence.
  - rewrite EK, rhs_vec_linear by assumption.
    rewrite mvmul_vlin by congruence. rewrite EI, EJ. reflexivity.
Qed.

Lemma Cdiv_scale_cancel (a v i : C) : a <> RtoC 0 -> i <> RtoC 0 ->
  Cdiv (Cmult a v) (Cmult a i) = Cdiv v i.
Proof. intros. field. split; assumption. Qed.

(* scaling all voltages by a leaves every source impedance unchanged and
   multiplies every source power by |a|^2 *)
Lemma scale_invariance_proof :
  forall (a v i : CR), a <> RtoC 0 -> i <> RtoC 0 ->
    @src_impedance RNum (cmul a v) (cmul a i) = src_impedance v i /\
    @src_power RNum (cmul a v) (cmul a i) = (cabs2 a * src_power v i)%R.
Proof.
  intros a v i Ha Hi. split.
  - assert (cmul a i <> RtoC 0) as Hai.
    { rewrite cmul_C. apply Cmult_neq_0; assumption. }
    rewrite !src_impedance_eq by assumption. rewrite !cmul_C. apply Cdiv_scale_cancel; assumption.
  - unfold src_power. destruct a, v, i; cx_unfold. ring.
Qed.

Lemma source_data_proof :
  forall (I : vecR) (s : @source RNum),
    vnth I (s_idx s) <> RtoC 0 ->
    source_imp I s = Cdiv (s_volt s) (vnth I (s_idx s)) /\
    source_pwr I s = (Re (Cmult (s_volt s) (Cconj (vnth I (s_idx s)))) / 2)%R.
Proof.
  intros I s H. unfold source_imp, source_pwr, source_current. split.
  - apply src_impedance_eq. exact H.
  - apply src_power_eq.
Qed.

Lemma example_hypotheses_proof :
  injective_on 2 [[RtoC 2; RtoC 0]; [RtoC 0; RtoC 3]] /\
  length (rhs_vec 1%R (fun _ => false) 2 (with_volts [0%nat; 1%nat] [RtoC 1; Ci])) = 2%nat.
Proof.
  split; [|apply rhs_vec_length].
  intros x y Hx Hy H.
  destruct x as [|x0 [|x1 [|]]]; try discriminate. destruct y as [|y0 [|y1 [|]]]; try discriminate.
  cbn in H. inversion H as [[H0 H1 H2 H3]].
  destruct x0 as [a b], x1 as [c d], y0 as [e f], y1 as [g h]. cx_unfold. cbn in *.
  repeat f_equal; lra.
Qed.

Lemma source_power_proof :
  forall (I : vecR) (s : @source RNum),
    source_pwr I s = (Re (Cmult (s_volt s) (Cconj (vnth I (s_idx s)))) / 2)%R.
Proof. intros. unfold source_pwr, source_current. apply src_power_eq. Qed.
