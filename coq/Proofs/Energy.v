(* C01: exact split of the delivered power into load dissipation and a
   quadratic form of the unloaded matrix. *)
From Coq Require Import ZArith List Bool Reals Lra Lia Arith.
From Coquelicot Require Import Coquelicot.
From PM Require Import Base.Num Base.RNum Base.Cplx Base.CplxR Gen.Extracted Model.Solve
     Proofs.CxAlg Proofs.Linear Proofs.Loads.
Import ListNotations.

(* ---- finite sums of complex numbers ---- *)
Definition csum_n (f : nat -> CR) (n : nat) : CR := csum (map f (seq 0 n)).

Lemma csum_app (l1 l2 : list CR) : csum (l1 ++ l2) = cadd (csum l1) (csum l2).
Proof.
  induction l1 as [|a l IH]; cbn [csum app]; [rewrite cadd_0_l; reflexivity|].
  rewrite IH. apply cadd_assoc.
Qed.

Lemma csum_n_S f n : csum_n f (S n) = cadd (csum_n f n) (f n).
Proof.
  unfold csum_n. rewrite seq_S, map_app, csum_app. cbn [map csum plus]. rewrite cadd_0_r. reflexivity.
Qed.

Lemma csum_n_ext f g n : (forall i, (i < n)%nat -> f i = g i) -> csum_n f n = csum_n g n.
Proof.
  induction n as [|n IH]; intros H; [reflexivity|].
  rewrite !csum_n_S, IH, H by (intros; try apply H; lia). reflexivity.
Qed.

Lemma csum_n_add f g n : csum_n (fun i => cadd (f i) (g i)) n = cadd (csum_n f n) (csum_n g n).
Proof.
  induction n as [|n IH]; [cbn; cx_ring|].
  rewrite !csum_n_S, IH.
  generalize (csum_n f n) (csum_n g n) (f n) (g n). cx_ring.
Qed.

Lemma csum_n_zero n : csum_n (fun _ => c0) n = c0.
Proof. induction n as [|n IH]; [reflexivity|]. rewrite csum_n_S, IH. cx_ring. Qed.

(* indicator sum *)
Lemma csum_n_indicator (j n : nat) (x : CR) :
  csum_n (fun i => if Nat.eqb j i then x else c0) n = if Nat.ltb j n then x else c0.
Proof.
  induction n as [|n IH]; [reflexivity|].
  rewrite csum_n_S, IH.
  destruct (Nat.ltb_spec j n) as [H|H]; destruct (Nat.eqb_spec j n) as [E|E];
    destruct (Nat.ltb_spec j (S n)) as [H'|H']; try lia; cx_ring.
Qed.

(* swapping a sum over indices with a sum over a list of attachments *)
Lemma csum_swap {A} (idx : A -> nat) (g : A -> CR) (xs : list A) n :
  csum_n (fun i => csum (map (fun x => if Nat.eqb (idx x) i then g x else c0) xs)) n =
  csum (map (fun x => if Nat.ltb (idx x) n then g x else c0) xs).
Proof.
  induction xs as [|x xs IH]; cbn [map csum].
  - apply csum_n_zero.
  - rewrite csum_n_add, IH, csum_n_indicator. reflexivity.
Qed.

Lemma cdot_csum_n (a b : vecR) n : length a = n -> length b = n ->
  cdot a b = csum_n (fun i => cmul (nth i a c0) (nth i b c0)) n.
Proof.
  revert b n. induction a as [|x a IH]; intros b n Ha Hb.
  - cbn in Ha. subst n. reflexivity.
  - destruct b as [|y b]; [cbn in Hb; subst n; discriminate|].
    destruct n as [|n]; [discriminate|].
    cbn [cdot]. rewrite (IH b n) by (cbn in *; lia).
    unfold csum_n. cbn [seq map csum nth]. f_equal.
    rewrite <- seq_shift, map_map. reflexivity.
Qed.

(* ---- the right-hand side with distinct source pulses ---- *)
Lemma rhs_fold_nth m gnd (srcs : list (@source RNum)) : forall (r : vecR) i,
  NoDup (map s_idx srcs) ->
  nth i (fold_left (fun rhs s => set_nth rhs (s_idx s) (rhs_entry m (gnd (s_idx s)) (s_volt s))) srcs r) c0 =
  if (existsb (fun s => Nat.eqb (s_idx s) i) srcs && Nat.ltb i (length r))%bool
  then csum (map (fun s => if Nat.eqb (s_idx s) i then rhs_entry m (gnd (s_idx s)) (s_volt s) else c0) srcs)
  else nth i r c0.
Proof.
  induction srcs as [|s srcs IH]; intros r i Hnd; cbn [fold_left existsb map csum andb].
  - reflexivity.
  - inversion Hnd as [|? ? Hnin Hnd']; subst.
    rewrite IH by exact Hnd'. rewrite set_nth_length, set_nth_nth.
    destruct (Nat.eqb_spec (s_idx s) i) as [E|E].
    + subst i. cbn [orb].
      assert (existsb (fun s0 => Nat.eqb (s_idx s0) (s_idx s)) srcs = false) as Hex.
      { apply not_true_is_false. intros Hex. apply existsb_exists in Hex. destruct Hex as [s' [Hin Heq]].
        apply Nat.eqb_eq in Heq. apply Hnin. rewrite <- Heq. apply in_map. exact Hin. }
      rewrite Hex. cbn [andb]. rewrite Nat.eqb_refl. cbn [andb].
      assert (csum (map (fun s0 => if Nat.eqb (s_idx s0) (s_idx s) then rhs_entry m (gnd (s_idx s0)) (s_volt s0) else c0) srcs) = c0) as ->.
      { clear - Hex. induction srcs as [|a l IHl]; [reflexivity|]. cbn [existsb] in Hex.
        apply orb_false_elim in Hex. destruct Hex as [H1 H2]. cbn [map csum]. rewrite H1, IHl by exact H2. cx_ring. }
      rewrite cadd_0_r. destruct (Nat.ltb (s_idx s) (length r)); reflexivity.
    + cbn [orb]. rewrite cadd_0_l.
      assert (Nat.eqb i (s_idx s) = false) as -> by (apply Nat.eqb_neq; congruence).
      cbn [andb]. reflexivity.
Qed.

Lemma rhs_vec_nth_nodup m gnd n (srcs : list (@source RNum)) i :
  NoDup (map s_idx srcs) -> (i < n)%nat ->
  nth i (rhs_vec m gnd n srcs) c0 =
  csum (map (fun s => if Nat.eqb (s_idx s) i then rhs_entry m (gnd (s_idx s)) (s_volt s) else c0) srcs).
Proof.
  intros Hnd Hi. unfold rhs_vec. rewrite rhs_fold_nth by exact Hnd. rewrite repeat_length.
  apply Nat.ltb_lt in Hi. rewrite Hi, andb_true_r.
  destruct (existsb (fun s => Nat.eqb (s_idx s) i) srcs) eqn:Hex; [reflexivity|].
  assert (nth i (repeat (@c0 RNum) n) c0 = c0) as ->.
  { clear. revert i. induction n; intros [|i]; cbn; auto. }
  symmetry. clear - Hex. induction srcs as [|a l IHl]; [reflexivity|]. cbn [existsb] in Hex.
  apply orb_false_elim in Hex. destruct Hex as [H1 H2]. cbn [map csum]. rewrite H1, IHl by exact H2. cx_ring.
Qed.

Lemma load_sum_as_csum m gnd h n i (loads : list (@loadatt RNum)) : (i < n)%nat ->
  load_sum m gnd h n i loads =
  csum (map (fun l => if Nat.eqb (l_idx l) i then load_diag m (gnd (l_idx l)) h (l_z l) (Z.of_nat (l_idx l)) else c0) loads).
Proof.
  intros Hi. induction loads as [|l loads IH]; [reflexivity|]. cbn [load_sum map csum]. rewrite IH.
  apply Nat.ltb_lt in Hi. rewrite Hi, andb_true_r.
  destruct (Nat.eqb_spec (l_idx l) i) as [->|]; reflexivity.
Qed.

Lemma cmul_csum_l (c : CR) (l : list CR) : cmul c (csum l) = csum (map (cmul c) l).
Proof. induction l as [|a l IH]; cbn [csum map]; [cx_ring|]. rewrite <- IH. generalize (csum l). cx_ring. Qed.

(* ---- the quadratic identity, complex form ---- *)
Definition qform (Z0 : matR) (I : vecR) : CR := cdot (map cconj I) (mvmul Z0 I).

Lemma nth_map_cconj (I : vecR) i : nth i (map cconj I) c0 = cconj (nth i I c0).
Proof.
  revert i. induction I as [|a I IH]; intros [|i]; cbn [map nth]; try reflexivity; try apply IH;
    cx_unfold; f_equal; ring.
Qed.

Lemma energy_complex m gnd h n (Z0 : matR) (I : vecR) srcs loads :
  square n Z0 -> length I = n -> NoDup (map s_idx srcs) ->
  mvmul (load_matrix m gnd h Z0 loads) I = rhs_vec m gnd n srcs ->
  cadd (qform Z0 I)
       (csum (map (fun l => if Nat.ltb (l_idx l) n
                            then cmul (cconj (vnth I (l_idx l)))
                                      (cmul (load_diag m (gnd (l_idx l)) h (l_z l) (Z.of_nat (l_idx l))) (vnth I (l_idx l)))
                            else c0) loads)) =
  csum (map (fun s => if Nat.ltb (s_idx s) n
                      then cmul (cconj (vnth I (s_idx s))) (rhs_entry m (gnd (s_idx s)) (s_volt s))
                      else c0) srcs).
Proof.
  intros Hsq HI Hnd E.
  assert (forall i, (i < n)%nat ->
            cmul (cconj (nth i I c0)) (nth i (mvmul Z0 I) c0) =
            csub (cmul (cconj (nth i I c0)) (nth i (rhs_vec m gnd n srcs) c0))
                 (cmul (cconj (nth i I c0)) (cmul (load_sum m gnd h n i loads) (nth i I c0)))) as Hrow.
  { intros i Hi. rewrite <- E, (mvmul_load_matrix_nth m gnd h n) by exact Hsq.
    generalize (cconj (nth i I c0)) (nth i (mvmul Z0 I) c0) (cmul (load_sum m gnd h n i loads) (nth i I c0)). cx_ring. }
  unfold qform.
  rewrite (cdot_csum_n _ _ n) by (rewrite ?map_length, ?mvmul_length; destruct Hsq; congruence).
  rewrite (csum_n_ext _ (fun i => csub
      (csum (map (fun s => if Nat.eqb (s_idx s) i
                           then cmul (cconj (vnth I (s_idx s))) (rhs_entry m (gnd (s_idx s)) (s_volt s)) else c0) srcs))
      (csum (map (fun l => if Nat.eqb (l_idx l) i
                           then cmul (cconj (vnth I (l_idx l)))
                                     (cmul (load_diag m (gnd (l_idx l)) h (l_z l) (Z.of_nat (l_idx l))) (vnth I (l_idx l)))
                           else c0) loads))) n).
  2:{ intros i Hi. rewrite nth_map_cconj, Hrow by exact Hi.
      rewrite rhs_vec_nth_nodup by assumption. rewrite load_sum_as_csum by exact Hi.
      rewrite cmul_csum_l, map_map.
      f_equal.
      - f_equal. apply map_ext. intros s. destruct (Nat.eqb_spec (s_idx s) i) as [->|]; [reflexivity|cx_ring].
      - replace (cmul (csum (map (fun l => if Nat.eqb (l_idx l) i then load_diag m (gnd (l_idx l)) h (l_z l) (Z.of_nat (l_idx l)) else c0) loads)) (nth i I c0))
          with (cmul (nth i I c0) (csum (map (fun l => if Nat.eqb (l_idx l) i then load_diag m (gnd (l_idx l)) h (l_z l) (Z.of_nat (l_idx l)) else c0) loads)))
          by apply cmul_comm.
        rewrite !cmul_csum_l, !map_map. f_equal. apply map_ext. intros l.
        destruct (Nat.eqb_spec (l_idx l) i) as [->|]; unfold vnth; [|cx_ring].
        generalize (cconj (nth i I c0)) (nth i I c0) (load_diag m (gnd i) h (l_z l) (Z.of_nat i)). cx_ring. }
  assert (forall f g k, csum_n (fun i => csub (f i) (g i)) k = csub (csum_n f k) (csum_n g k)) as Hsub.
  { intros f g k. induction k as [|k IHk]; [cbn; cx_ring|]. rewrite !csum_n_S, IHk.
    generalize (csum_n f k) (csum_n g k) (f k) (g k). cx_ring. }
  rewrite Hsub, !csum_swap.
  match goal with |- cadd (csub ?a ?b) ?b' = ?a' => generalize a b; intros x y end. cx_ring.
Qed.

(* ---- real form ---- *)
Fixpoint rsum (l : list R) : R := match l with [] => 0%R | x :: r => (x + rsum r)%R end.

Lemma cim_csum (l : list CR) : cim (csum l) = rsum (map cim l).
Proof. induction l as [|a l IH]; cbn [csum map rsum]; [reflexivity|]. rewrite <- IH. destruct a, (csum l). reflexivity. Qed.

Lemma rsum_scale {A} (c : R) (f : A -> R) (l : list A) :
  rsum (map (fun x => (c * f x)%R) l) = (c * rsum (map f l))%R.
Proof. induction l as [|a l IH]; cbn [map rsum]; [ring|]. rewrite IH. ring. Qed.

Definition wgt (b : bool) : R := if b then 2%R else 1%R.

Lemma im_src_term (m : R) g (v x : CR) : m <> 0%R ->
  cim (cmul (cconj x) (rhs_entry m g v)) = (- (2 / m) * (wgt g * src_power v x))%R.
Proof.
  intros Hm. unfold rhs_entry, src_power, wgt. destruct g; destruct v, x; cx_unfold; field; exact Hm.
Qed.

Lemma im_load_term (m : R) g h (z x : CR) j : m <> 0%R ->
  cim (cmul (cconj x) (cmul (load_diag m g h z j) x)) =
  (- (2 / m) * (wgt (g && h) * (cre z * cabs2 x / 2)))%R.
Proof.
  intros Hm. unfold load_diag, wgt. destruct (g && h)%bool; destruct z, x; cx_unfold; field; exact Hm.
Qed.

Definition p_sources (gnd : nat -> bool) n (I : vecR) (srcs : list (@source RNum)) : R :=
  rsum (map (fun s => if Nat.ltb (s_idx s) n then (wgt (gnd (s_idx s)) * source_pwr I s)%R else 0%R) srcs).
Definition p_loads (gnd : nat -> bool) (h : bool) n (I : vecR) (loads : list (@loadatt RNum)) : R :=
  rsum (map (fun l => if Nat.ltb (l_idx l) n
                      then (wgt (gnd (l_idx l) && h) * (cre (l_z l) * cabs2 (vnth I (l_idx l)) / 2))%R else 0%R) loads).

Lemma energy_split_proof :
  forall (m : R) (gnd : nat -> bool) (h : bool) (n : nat) (Z0 : matR) (I : vecR)
         (srcs : list (@source RNum)) (loads : list (@loadatt RNum)),
    m <> 0%R -> square n Z0 -> length I = n -> NoDup (map s_idx srcs) ->
    mvmul (load_matrix m gnd h Z0 loads) I = rhs_vec m gnd n srcs ->
    p_sources gnd n I srcs = (p_loads gnd h n I loads - m / 2 * cim (qform Z0 I))%R.
Proof.
  intros m gnd h n Z0 I srcs loads Hm Hsq HI Hnd E.
  pose proof (energy_complex m gnd h n Z0 I srcs loads Hsq HI Hnd E) as H.
  apply (f_equal cim) in H.
  assert (forall a b : CR, cim (cadd a b) = (cim a + cim b)%R) as Hadd by (intros [] []; reflexivity).
  rewrite Hadd, !cim_csum, !map_map in H.
  assert (rsum (map (fun s => cim (if Nat.ltb (s_idx s) n
              then cmul (cconj (vnth I (s_idx s))) (rhs_entry m (gnd (s_idx s)) (s_volt s)) else c0)) srcs)
          = (- (2 / m) * p_sources gnd n I srcs)%R) as Es.
  { unfold p_sources. rewrite <- rsum_scale. f_equal. apply map_ext. intros s.
    destruct (Nat.ltb (s_idx s) n); [|cbn; ring].
    unfold source_pwr, source_current. apply im_src_term. exact Hm. }
  assert (rsum (map (fun l => cim (if Nat.ltb (l_idx l) n
              then cmul (cconj (vnth I (l_idx l)))
                        (cmul (load_diag m (gnd (l_idx l)) h (l_z l) (Z.of_nat (l_idx l))) (vnth I (l_idx l)))
              else c0)) loads)
          = (- (2 / m) * p_loads gnd h n I loads)%R) as El.
  { unfold p_loads. rewrite <- rsum_scale. f_equal. apply map_ext. intros l.
    destruct (Nat.ltb (l_idx l) n); [|cbn; ring].
    apply im_load_term. exact Hm. }
  rewrite Es, El in H.
  assert (p_sources gnd n I srcs = (p_loads gnd h n I loads - m / 2 * cim (qform Z0 I))%R); [|assumption].
  apply (Rmult_eq_reg_l (- (2 / m))%R).
  - rewrite <- H. field. exact Hm.
  - apply Ropp_neq_0_compat. unfold Rdiv. apply Rmult_integral_contrapositive_currified;
      [lra | apply Rinv_neq_0_compat; exact Hm].
Qed.
