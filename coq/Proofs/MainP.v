(* Theorems about the exception flow of main and its numeric guards (C20). *)
From Coq Require Import List Bool Arith Lia Reals Lra.
From Coquelicot Require Import Coquelicot.
From Interval Require Import Tactic.
From PM Require Import Base.Num Base.RNum Gen.Extracted Model.Main Proofs.CxAlg.
Import ListNotations.

Lemma exn_eqb_eq a b : exn_eqb a b = true -> a = b.
Proof. destruct a, b; cbn; intros H; try reflexivity; discriminate. Qed.

Lemma run_from_safe : forall (l all : list stage) (k : nat) (fault : nat -> option exn),
  (forall j, nth (k + j) all (mkStage [] [] false) = nth j l (mkStage [] [] false)) ->
  forallb (fun s => forallb (caught s) (st_raises s)) l = true ->
  admissible all fault ->
  forall j e, run_from k l fault <> Uncaught j e.
Proof.
  induction l as [|s r IH]; intros all k fault Hnth Hsafe Hadm j e; cbn [run_from]; [discriminate|].
  cbn [forallb] in Hsafe. apply andb_true_iff in Hsafe. destruct Hsafe as [Hs Hr].
  destruct (fault k) as [x|] eqn:Hf.
  - assert (Hc : caught s x = true).
    { specialize (Hadm k x Hf). specialize (Hnth 0%nat). rewrite Nat.add_0_r in Hnth. cbn [nth] in Hnth. rewrite Hnth in Hadm.
      apply existsb_exists in Hadm. destruct Hadm as (y & Hy & Hxy). apply exn_eqb_eq in Hxy. subst y.
      rewrite forallb_forall in Hs. apply Hs. exact Hy. }
    rewrite Hc. discriminate.
  - apply (IH all (S k) fault); [|exact Hr|exact Hadm].
    intros i. specialize (Hnth (S i)). cbn [nth] in Hnth. rewrite <- Hnth. f_equal. lia.
Qed.

Theorem no_uncaught_proof (fault : nat -> option exn) :
  admissible stages fault -> forall j e, run stages fault <> Uncaught j e.
Proof.
  intros Hadm. unfold run. apply (run_from_safe stages stages 0%nat fault); [intros j; reflexivity|vm_compute; reflexivity|exact Hadm].
Qed.

(* before the repairs the same argument fails: a frequency of zero escapes *)
Theorem before_refuted_proof :
  exists fault, admissible stages_before fault /\ run stages_before fault = Uncaught 0%nat EZeroDiv.
Proof.
  exists (fun k => if Nat.eqb k 0%nat then Some EZeroDiv else None). split.
  - intros k e H. destruct k; [inversion H; subst; reflexivity|discriminate].
  - reflexivity.
Qed.

(* the frequency guard 0 < f < 1e150 is sufficient: wave length, m, small-radius limit, wave number and its
   half square are positive and far inside the binary64 range (no division by zero, no overflow) *)
Theorem frequency_guard_proof (f : R) : (0 < f < 1e150)%R ->
  (0 < @f_wavelen RNum f /\ 0 < @f_m RNum f /\ 0 < @f_srm RNum f /\
   0 < @f_w RNum f < 1e150 /\ 0 < @f_w2 RNum f < 1e300)%R.
Proof.
  intros [H0 H1]. unfold f_wavelen, f_m, f_srm, f_w, f_w2, fset. cbv zeta. cx_unfold. cbn [npi npow RNum].
  assert (Hl : (0 < 2998 / 10 / f)%R) by (apply Rdiv_lt_0_compat; lra).
  assert (Hw : (2 * PI / (2998 / 10 / f) = 2 * PI * f * (10 / 2998))%R) by (field; lra).
  repeat split.
  - exact Hl.
  - apply Rmult_lt_0_compat; [lra|exact Hl].
  - apply Rmult_lt_0_compat; [lra|exact Hl].
  - rewrite Hw. assert (0 < PI)%R by apply PI_RGT_0. nra.
  - rewrite Hw. interval.
  - cbn [npow mul one RNum]. rewrite Hw. assert (Hp : (0 < PI)%R) by apply PI_RGT_0.
    assert (Hpf : (0 < PI * f)%R) by (apply Rmult_lt_0_compat; lra).
    assert (Hx : (0 < 2 * PI * f * (10 / 2998))%R) by lra.
    set (x := (2 * PI * f * (10 / 2998))%R) in *. clearbody x. clear -Hx.
    apply Rdiv_lt_0_compat; [|lra]. apply Rmult_lt_0_compat; [exact Hx|]. apply Rmult_lt_0_compat; [exact Hx|exact Rlt_0_1].
  - cbn [npow mul one RNum]. rewrite Hw.
    assert (Hb : (0 < 2 * PI * f * (10 / 2998) < 1e149)%R).
    { assert (Hp : (0 < PI)%R) by apply PI_RGT_0. assert (Hpf : (0 < PI * f)%R) by (apply Rmult_lt_0_compat; lra). split; [lra|interval]. }
    set (x := (2 * PI * f * (10 / 2998))%R) in *. clearbody x. clear -Hb. change (@one RNum) with 1%R.
    interval.
Qed.
