(* C17: addressing lemmas. *)
From Coq Require Import ZArith List Bool Arith Lia.
From PM Require Import Base.Num Base.Cplx Model.Topology Model.Report Proofs.TopologyP.
Import ListNotations.

Section AddrP.
Context {N : Num}.

Lemma index_of_spec (tg : Z) tags i0 i : index_of tg tags i0 = Some i ->
  (i0 <= i < i0 + length tags)%nat /\ nth (i - i0) tags 0%Z = tg.
Proof.
  revert i0. induction tags as [|x tags IH]; intros i0 H; [discriminate|].
  cbn [index_of] in H. destruct (Z.eqb_spec x tg) as [->|Hne].
  - inversion H; subst. cbn [length]. split; [lia|]. rewrite Nat.sub_diag. reflexivity.
  - destruct (IH (S i0) H) as [A B]. cbn [length]. split; [lia|].
    replace (i - i0)%nat with (S (i - S i0)) by lia. exact B.
Qed.

Lemma rel_is_kth_row_proof (t : topology) (tags : list Z) k tg g d :
  resolve_rel t tags k tg = Some g ->
  exists i, index_of tg tags O = Some i /\ nth i tags 0%Z = tg /\
    g = (obj_start t i + k)%nat /\
    nth g (tp_pulses t) d = nth k (nth i (tp_by_obj t) []) d.
Proof.
  unfold resolve_rel. destruct (index_of tg tags 0) as [i|] eqn:Ei; [|discriminate].
  destruct (Nat.ltb_spec k (length (nth i (tp_by_obj t) []))) as [Hk|]; [|discriminate].
  intros H. inversion H; subst. exists i. destruct (index_of_spec tg tags 0 i Ei) as [_ Hn].
  rewrite Nat.sub_0_r in Hn. repeat split; try assumption. apply numbering_proof. exact Hk.
Qed.

Lemma obj_start_mono (t : topology) i : (i <= length (tp_by_obj t))%nat ->
  (obj_start t i <= length (tp_pulses t))%nat.
Proof.
  intros Hi. unfold obj_start, tp_pulses.
  rewrite <- (firstn_skipn i (tp_by_obj t)) at 2. rewrite concat_app, app_length. lia.
Qed.

Lemma forms_agree_proof (t : topology) (tags : list Z) k tg g :
  resolve_rel t tags k tg = Some g -> (length (tp_by_obj t) = length tags) -> resolve_abs t g = Some g.
Proof.
  unfold resolve_rel, resolve_abs. destruct (index_of tg tags 0) as [i|] eqn:Ei; [|discriminate].
  destruct (Nat.ltb_spec k (length (nth i (tp_by_obj t) []))) as [Hk|]; [|discriminate].
  intros H Hl. inversion H; subst.
  destruct (index_of_spec tg tags 0 i Ei) as [Hi _].
  assert (i < length (tp_by_obj t))%nat as Hi' by lia.
  pose proof (obj_start_S t i Hi') as HS. pose proof (obj_start_mono t (S i) Hi') as HM.
  destruct (Nat.ltb_spec (obj_start t i + k) (length (tp_pulses t))); [reflexivity|lia].
Qed.

Lemma all_of_object_proof (t : topology) (tags : list Z) tg l :
  all_of_object t tags tg = Some l ->
  NoDup l /\ exists i, index_of tg tags O = Some i /\
    forall g, In g l <-> (obj_start t i <= g < obj_start t i + length (nth i (tp_by_obj t) []))%nat.
Proof.
  unfold all_of_object. destruct (index_of tg tags 0) as [i|] eqn:Ei; [|discriminate].
  intros H. inversion H; subst. split; [apply seq_NoDup|].
  exists i. split; [reflexivity|]. intros g. rewrite in_seq. reflexivity.
Qed.

Lemma all_from (ls : list (list pulse)) : forall n0,
  flat_map (fun i => seq (length (concat (firstn i ls)) + n0) (length (nth i ls []))) (seq 0 (length ls)) =
  seq n0 (length (concat ls)).
Proof.
  induction ls as [|l ls IH]; intros n0; [reflexivity|].
  cbn [length seq flat_map firstn concat nth]. rewrite app_length, seq_app. f_equal.
  rewrite <- seq_shift, flat_map_concat_map, map_map, <- flat_map_concat_map.
  rewrite <- (IH (n0 + length l)%nat).
  apply flat_map_ext. intros i. cbn [firstn concat nth]. rewrite app_length. f_equal. lia.
Qed.

Lemma all_once_proof (t : topology) : all_pulses_idx t = seq 0 (length (tp_pulses t)).
Proof.
  unfold all_pulses_idx, obj_start, tp_pulses. rewrite <- (all_from (tp_by_obj t) 0).
  apply flat_map_ext. intros i. f_equal. lia.
Qed.

End AddrP.

Lemma max_tag_fold_ge tags : forall m, (m <= fold_left (fun m o => match o with Some t => Z.max m t | None => m end) tags m)%Z.
Proof. induction tags as [|[t|] tags IH]; intros m; cbn [fold_left]; [lia| |apply IH]. specialize (IH (Z.max m t)). lia. Qed.

Lemma auto_tags_gen (tags : list (option Z)) : forall next,
  length (auto_tags next tags) = length tags /\
  (forall i t, nth_error tags i = Some (Some t) -> nth_error (auto_tags next tags) i = Some t) /\
  (forall i, nth_error tags i = Some None -> exists t, nth_error (auto_tags next tags) i = Some t /\ (next <= t)%Z).
Proof.
  induction tags as [|[t0|] tags IH]; intros next.
  - repeat split; intros; destruct i; discriminate.
  - destruct (IH next) as [A [B C]]. cbn [auto_tags length]. split; [lia|]. split.
    + intros [|i] t H; cbn in *; [congruence|apply B; exact H].
    + intros [|i] H; cbn in *; [discriminate|apply C; exact H].
  - destruct (IH (next + 1)%Z) as [A [B C]]. cbn [auto_tags length]. split; [lia|]. split.
    + intros [|i] t H; cbn in *; [discriminate|apply B; exact H].
    + intros [|i] H; cbn in *.
      * exists next. split; [reflexivity|lia].
      * destruct (C i H) as [t [Ht Hl]]. exists t. split; [exact Ht|lia].
Qed.

Lemma auto_tags_proof :
  forall (tags : list (option Z)),
    length (assign_tags tags) = length tags /\
    (forall i t, nth_error tags i = Some (Some t) -> nth_error (assign_tags tags) i = Some t) /\
    (forall i, nth_error tags i = Some None ->
       exists t, nth_error (assign_tags tags) i = Some t /\ (max_tag tags < t)%Z).
Proof.
  intros tags. unfold assign_tags. destruct (auto_tags_gen tags (max_tag tags + 1)%Z) as [A [B C]].
  split; [exact A|]. split; [exact B|].
  intros i H. destruct (C i H) as [t [Ht Hl]]. exists t. split; [exact Ht|lia].
Qed.
