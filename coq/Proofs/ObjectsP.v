(* Written objects reproduce the model: tags, automatic tags, order (C15). *)
From Coq Require Import ZArith List Bool Arith Lia Permutation Sorted.
From PM Require Import Model.Objects.
Import ListNotations.
Local Open Scope Z_scope.


Definition parts (l : list gobj) : list gobj :=
  filter (fun g => kind_eqb (g_kind g) KArc) l ++ filter (fun g => kind_eqb (g_kind g) KHelix) l ++ filter (fun g => kind_eqb (g_kind g) KWire) l.
Definition untag (l : list gobj) : list gobj := filter (fun g => negb (g_had g)) l.
Fixpoint consecutive (n : Z) (l : list gobj) : Prop :=
  match l with [] => True | g :: r => g_tag g = n /\ consecutive (n + 1) r end.

(* ---- writing then reading line by line ---- *)
Lemma by_kind_write k X : by_kind k (write_objs X) = write_objs (filter (fun g => kind_eqb (g_kind g) k) X).
Proof.
  unfold by_kind, write_objs. induction X as [|g X IH]; [reflexivity|]. cbn [map filter ol_kind].
  destruct (kind_eqb (g_kind g) k); cbn [map]; rewrite IH; reflexivity.
Qed.
Lemma write_app X Y : write_objs (X ++ Y) = write_objs X ++ write_objs Y.
Proof. apply map_app. Qed.
Lemma read_order_write X : read_order (write_objs X) = write_objs (parts X).
Proof. unfold read_order, parts. rewrite !by_kind_write, !write_app. reflexivity. Qed.

(* an object list whose untagged members carry n, n+1, ... in list order is reproduced by compute_tags *)
Lemma reassign n X : consecutive n (untag X) -> assign n (write_objs X) = X.
Proof.
  revert n. induction X as [|g X IH]; intros n H; [reflexivity|].
  destruct g as [k t h b]. cbn [write_objs map assign ol_tag g_had g_tag g_kind g_body ol_kind ol_body].
  destruct h; cbn [untag filter g_had negb] in H.
  - cbn. f_equal. apply IH. exact H.
  - cbn [consecutive g_tag] in H. destruct H as [Ht Hr]. subst t. cbn. f_equal. apply IH. exact Hr.
Qed.

(* ---- sorting ---- *)
Definition tags (l : list gobj) : list Z := map g_tag l.
Lemma insert_perm g l : Permutation (insert g l) (g :: l).
Proof.
  induction l as [|h t IH]; [reflexivity|]. cbn [insert]. destruct (g_tag g <=? g_tag h); [reflexivity|].
  rewrite IH. apply perm_swap.
Qed.
Lemma sort_perm l : Permutation (sort l) l.
Proof. induction l as [|h t IH]; [reflexivity|]. cbn [sort]. rewrite insert_perm, IH. reflexivity. Qed.

Definition ssorted (l : list gobj) : Prop := StronglySorted (fun a b => g_tag a < g_tag b) l.
Definition wsorted (l : list gobj) : Prop := StronglySorted (fun a b => g_tag a <= g_tag b) l.

Lemma insert_sorted g l : wsorted l -> wsorted (insert g l).
Proof.
  induction l as [|h t IH]; intros H; cbn [insert]; [repeat constructor|].
  destruct (Z.leb_spec (g_tag g) (g_tag h)) as [L|L].
  - constructor; [exact H|]. inversion H as [|? ? Ht Hall]; subst. constructor; [exact L|].
    rewrite Forall_forall in *. intros x Hx. specialize (Hall x Hx). cbn in *. lia.
  - inversion H as [|? ? Ht Hall]; subst. constructor; [apply IH; exact Ht|].
    rewrite Forall_forall in *. intros x Hx. apply (Permutation_in _ (insert_perm g t)) in Hx. destruct Hx as [<-|Hx]; [cbn; lia|apply Hall; exact Hx].
Qed.
Lemma sort_sorted l : wsorted (sort l).
Proof. induction l as [|h t IH]; [constructor|]. cbn [sort]. apply insert_sorted. exact IH. Qed.

Lemma insert_head g l : Forall (fun x => g_tag g < g_tag x) l -> insert g l = g :: l.
Proof. destruct l as [|h t]; intros H; [reflexivity|]. cbn [insert]. inversion H; subst. destruct (Z.leb_spec (g_tag g) (g_tag h)); [reflexivity|lia]. Qed.
Lemma sort_id l : ssorted l -> sort l = l.
Proof.
  induction l as [|h t IH]; intros H; [reflexivity|]. inversion H as [|? ? Ht Hall]; subst. cbn [sort]. rewrite IH by exact Ht.
  apply insert_head. exact Hall.
Qed.

Lemma insert_comm a b l : g_tag a <> g_tag b -> wsorted l -> insert a (insert b l) = insert b (insert a l).
Proof.
  intros Hab. induction l as [|h t IH]; intros Hs.
  - cbn. destruct (Z.leb_spec (g_tag a) (g_tag b)), (Z.leb_spec (g_tag b) (g_tag a)); try reflexivity; lia.
  - inversion Hs as [|? ? Ht Hall]; subst. cbn [insert].
    destruct (Z.leb_spec (g_tag b) (g_tag h)) as [B|B], (Z.leb_spec (g_tag a) (g_tag h)) as [A|A]; cbn [insert].
    + destruct (Z.leb_spec (g_tag a) (g_tag b)), (Z.leb_spec (g_tag b) (g_tag a)); try lia;
        repeat match goal with |- context [?x <=? ?y] => destruct (Z.leb_spec x y); try lia end; reflexivity.
    + repeat match goal with |- context [?x <=? ?y] => destruct (Z.leb_spec x y); try lia end; reflexivity.
    + repeat match goal with |- context [?x <=? ?y] => destruct (Z.leb_spec x y); try lia end; reflexivity.
    + repeat match goal with |- context [?x <=? ?y] => destruct (Z.leb_spec x y); try lia end. rewrite IH by exact Ht. reflexivity.
Qed.

Lemma sort_of_perm l l' : NoDup (tags l) -> Permutation l l' -> sort l = sort l'.
Proof.
  intros Hnd Hp. induction Hp as [|x l l' Hp IH|x y l|l l' l'' H1 IH1 H2 IH2].
  - reflexivity.
  - cbn [sort]. rewrite IH; [reflexivity|]. cbn in Hnd. inversion Hnd; assumption.
  - cbn [sort]. apply insert_comm; [|apply sort_sorted]. cbn in Hnd. inversion Hnd as [|? ? Hni _]; subst. intros E. apply Hni. left. symmetry. exact E.
  - rewrite IH1 by exact Hnd. apply IH2. unfold tags in *. eapply Permutation_NoDup; [apply Permutation_map; exact H1|exact Hnd].
Qed.


Definition etags (X : list gobj) : list Z := map g_tag (filter g_had X).
Lemma explicit_tags_write X : explicit_tags (write_objs X) = etags X.
Proof.
  unfold explicit_tags, etags, write_objs. induction X as [|g X IH]; [reflexivity|].
  cbn [map flat_map filter ol_tag]. destruct (g_had g); cbn [app map]; rewrite IH; reflexivity.
Qed.

Lemma nodupb_true l : NoDup l -> nodupb l = true.
Proof.
  induction 1 as [|x l Hni Hnd IH]; [reflexivity|]. cbn. rewrite IH, andb_true_r. apply negb_true_iff.
  destruct (existsb (Z.eqb x) l) eqn:E; [|reflexivity]. apply existsb_exists in E. destruct E as (y & Hy & Hxy). apply Z.eqb_eq in Hxy. subst. contradiction.
Qed.
Lemma nodupb_spec l : nodupb l = true -> NoDup l.
Proof.
  induction l as [|x r IH]; intros H; [constructor|]. cbn in H. apply andb_true_iff in H. destruct H as [H1 H2].
  constructor; [|apply IH; exact H2]. intros Hin. apply negb_true_iff in H1.
  assert (existsb (Z.eqb x) r = true) by (apply existsb_exists; exists x; split; [exact Hin|apply Z.eqb_refl]). congruence.
Qed.

Lemma parts_perm l : Permutation (parts l) l.
Proof.
  unfold parts. induction l as [|g l IH]; [reflexivity|]. cbn [filter].
  destruct (g_kind g); cbn [kind_eqb].
  - cbn [app]. constructor. exact IH.
  - etransitivity; [symmetry; apply Permutation_middle|]. constructor. exact IH.
  - rewrite app_assoc. etransitivity; [symmetry; apply Permutation_middle|]. rewrite <- app_assoc. constructor. exact IH.
Qed.

Lemma untag_parts l : untag (parts l) = parts (untag l).
Proof.
  unfold untag, parts. rewrite !filter_app.
  assert (H : forall (f g : gobj -> bool) (x : list gobj), filter f (filter g x) = filter g (filter f x)).
  { intros f g x. induction x as [|a x IH]; [reflexivity|]. cbn [filter]. destruct (g a) eqn:G, (f a) eqn:F; cbn [filter]; rewrite ?G, ?F, IH; reflexivity. }
  rewrite !(H (fun g => negb (g_had g))). reflexivity.
Qed.

Lemma ssorted_nodup l : ssorted l -> NoDup (tags l).
Proof.
  induction 1 as [|g l Hs IH Hall]; [constructor|]. cbn. constructor; [|exact IH].
  intros Hin. apply in_map_iff in Hin. destruct Hin as (x & Hx & Hin). rewrite Forall_forall in Hall. specialize (Hall x Hin). lia.
Qed.

(* what the reader needs to know about a model for the written objects to reproduce it *)
Record Inv (M : Z) (gs : list gobj) : Prop := {
  inv_sorted : ssorted gs;                                   (* sorted by tag, tags distinct *)
  inv_auto : consecutive (M + 1) (untag gs);                 (* automatic tags are M+1, M+2, ... in model order *)
  inv_kinds : parts (untag gs) = untag gs;                   (* ... arcs first, then helices, then wires *)
  inv_max : fold_right Z.max 0 (etags gs) = M;               (* M is the largest explicit tag (0 if none) *)
  inv_pos : Forall (fun t => 0 < t) (etags gs);
  inv_nodup : NoDup (etags gs);
}.

Theorem write_read_objs M gs : Inv M gs -> read_objs (write_objs gs) = Some gs.
Proof.
  intros [Hs Ha Hk Hm Hp Hn]. unfold read_objs, valid, max_tag. rewrite explicit_tags_write.
  assert (forallb (fun t => 0 <? t) (etags gs) = true) as ->.
  { apply forallb_forall. intros t Ht. rewrite Forall_forall in Hp. apply Z.ltb_lt. apply Hp. exact Ht. }
  rewrite (nodupb_true _ Hn). cbn [andb]. rewrite Hm, read_order_write.
  rewrite reassign by (rewrite untag_parts, Hk; exact Ha).
  f_equal. rewrite (sort_of_perm (parts gs) gs).
  - apply sort_id. exact Hs.
  - unfold tags. eapply Permutation_NoDup; [apply Permutation_map; symmetry; apply parts_perm|apply ssorted_nodup; exact Hs].
  - apply parts_perm.
Qed.


(* ---- facts about compute_tags ---- *)
Lemma assign_tag_in n L t : In t (tags (assign n L)) -> In t (explicit_tags L) \/ n <= t.
Proof.
  revert n. induction L as [|l L IH]; intros n H; [destruct H|].
  cbn [assign] in H. unfold explicit_tags. cbn [flat_map]. destruct (ol_tag l) as [x|]; cbn [tags map g_tag] in H.
  - destruct H as [<-|H]; [left; left; reflexivity|]. destruct (IH n H) as [A|A]; [left; right; exact A|right; exact A].
  - destruct H as [<-|H]; [right; lia|]. destruct (IH (n + 1) H) as [A|A]; [left; exact A|right; lia].
Qed.

Lemma assign_nodup n L : NoDup (explicit_tags L) -> (forall t, In t (explicit_tags L) -> t < n) -> NoDup (tags (assign n L)).
Proof.
  revert n. induction L as [|l L IH]; intros n Hnd Hlt; [constructor|].
  unfold explicit_tags in *. cbn [flat_map] in *. cbn [assign]. destruct (ol_tag l) as [x|]; cbn [tags map g_tag].
  - cbn [app] in *. inversion Hnd as [|? ? Hni Hnd']; subst. constructor.
    + intros Hin. destruct (assign_tag_in n L x Hin) as [A|A]; [exact (Hni A)|]. specialize (Hlt x (or_introl eq_refl)). lia.
    + apply IH; [exact Hnd'|]. intros t Ht. apply Hlt. right. exact Ht.
  - cbn [app] in *. constructor.
    + intros Hin. destruct (assign_tag_in (n + 1) L n Hin) as [A|A]; [specialize (Hlt n A); lia|lia].
    + apply IH; [exact Hnd|]. intros t Ht. specialize (Hlt t Ht). lia.
Qed.

Lemma assign_consecutive n L : consecutive n (untag (assign n L)).
Proof.
  revert n. induction L as [|l L IH]; intros n; [exact I|].
  cbn [assign]. destruct (ol_tag l); cbn [untag filter g_had negb]; [apply IH|]. cbn [consecutive g_tag]. split; [reflexivity|apply IH].
Qed.

Lemma assign_etags n L : etags (assign n L) = explicit_tags L.
Proof.
  revert n. unfold etags, explicit_tags. induction L as [|l L IH]; intros n; [reflexivity|].
  cbn [assign flat_map]. destruct (ol_tag l); cbn [filter g_had map g_tag app]; rewrite IH; reflexivity.
Qed.

Lemma assign_kinds n L : map g_kind (assign n L) = map ol_kind L.
Proof. revert n. induction L as [|l L IH]; intros n; [reflexivity|]. cbn [assign]. destruct (ol_tag l); cbn [map g_kind]; rewrite IH; reflexivity. Qed.

(* ---- sorting and the untagged objects ---- *)
Lemma consecutive_lower n l : consecutive n l -> Forall (fun x => n <= g_tag x) l.
Proof.
  revert n. induction l as [|g l IH]; intros n H; [constructor|]. destruct H as [Hg Hr]. constructor; [lia|].
  specialize (IH _ Hr). rewrite Forall_forall in *. intros x Hx. specialize (IH x Hx). cbn in IH. lia.
Qed.
Lemma consecutive_ssorted n l : consecutive n l -> ssorted l.
Proof.
  revert n. induction l as [|g l IH]; intros n H; [constructor|]. destruct H as [Hg Hr]. constructor; [eapply IH; exact Hr|].
  pose proof (consecutive_lower _ _ Hr) as Hl. rewrite Forall_forall in *. intros x Hx. specialize (Hl x Hx). cbn in Hl. lia.
Qed.

Lemma untag_insert g l : wsorted l -> untag (insert g l) = if g_had g then untag l else insert g (untag l).
Proof.
  induction l as [|h t IH]; intros Hs; [cbn; destruct (g_had g); reflexivity|].
  inversion Hs as [|? ? Ht Hall]; subst. cbn [insert].
  destruct (Z.leb_spec (g_tag g) (g_tag h)) as [L|L].
  - cbn [untag filter]. destruct (g_had g) eqn:Hg; cbn [negb]; [reflexivity|].
    destruct (g_had h) eqn:Hh; cbn [negb].
    + (* h is tagged: g is inserted before the first untagged element, all of which are >= g *)
      fold (untag t).
      destruct (untag t) as [|u r] eqn:E; [reflexivity|]. cbn [insert].
      assert (Hu : In u (untag t)) by (rewrite E; left; reflexivity). unfold untag in Hu. apply filter_In in Hu. destruct Hu as [Hu _].
      rewrite Forall_forall in Hall. specialize (Hall u Hu). cbn in Hall. destruct (Z.leb_spec (g_tag g) (g_tag u)); [reflexivity|lia].
    + fold (untag t). cbn [insert]. destruct (Z.leb_spec (g_tag g) (g_tag h)); [reflexivity|lia].
  - cbn [untag filter]. fold (untag (insert g t)). fold (untag t). rewrite IH by exact Ht.
    destruct (g_had h) eqn:Hh; cbn [negb]; destruct (g_had g) eqn:Hg; try reflexivity.
    cbn [insert]. destruct (Z.leb_spec (g_tag g) (g_tag h)); [lia|reflexivity].
Qed.

Lemma untag_wsorted l : wsorted l -> wsorted (untag l).
Proof.
  induction 1 as [|g l Hs IH Hall]; [constructor|]. cbn [untag filter]. destruct (negb (g_had g)); [|exact IH].
  constructor; [exact IH|]. rewrite Forall_forall in *. intros x Hx. apply filter_In in Hx. apply Hall. apply Hx.
Qed.

Lemma untag_sort Y : untag (sort Y) = sort (untag Y).
Proof.
  induction Y as [|g Y IH]; [reflexivity|]. cbn [sort]. rewrite untag_insert by apply sort_sorted.
  cbn [untag filter]. destruct (g_had g); cbn [negb]; [exact IH|]. cbn [sort]. fold (untag Y). rewrite IH. reflexivity.
Qed.

Lemma wsorted_nodup_ssorted l : wsorted l -> NoDup (tags l) -> ssorted l.
Proof.
  induction 1 as [|g l Hs IH Hall]; intros Hnd; [constructor|]. cbn in Hnd. inversion Hnd as [|? ? Hni Hnd']; subst.
  constructor; [apply IH; exact Hnd'|]. rewrite Forall_forall in *. intros x Hx. specialize (Hall x Hx). cbn in Hall.
  assert (g_tag g <> g_tag x) by (intros E; apply Hni; rewrite E; apply in_map; exact Hx). lia.
Qed.

(* ---- arcs, helices, wires in that order ---- *)
Definition rank (k : okind) : nat := match k with KArc => 0 | KHelix => 1 | KWire => 2 end.
Definition korder (ks : list okind) : Prop := StronglySorted (fun a b => (rank a <= rank b)%nat) ks.

Lemma korder_app a b : korder a -> korder b -> (forall x y, In x a -> In y b -> (rank x <= rank y)%nat) -> korder (a ++ b).
Proof.
  induction 1 as [|x a Ha IH Hall]; intros Hb Hc; [exact Hb|]. cbn. constructor.
  - apply IH; [exact Hb|]. intros u v Hu Hv. apply Hc; [right; exact Hu|exact Hv].
  - apply Forall_app. split; [exact Hall|]. apply Forall_forall. intros y Hy. apply Hc; [left; reflexivity|exact Hy].
Qed.
Lemma korder_same k (l : list oline) : korder (map ol_kind (by_kind k l)).
Proof.
  unfold by_kind. induction l as [|x l IH]; [constructor|]. cbn [filter]. destruct (kind_eqb (ol_kind x) k) eqn:E; [|exact IH].
  cbn. constructor; [exact IH|]. apply Forall_forall. intros y Hy. apply in_map_iff in Hy. destruct Hy as (z & <- & Hz). apply filter_In in Hz. destruct Hz as [_ Hz].
  destruct (ol_kind x), (ol_kind z), k; cbn in *; try discriminate; lia.
Qed.
Lemma by_kind_kind k l x : In x (map ol_kind (by_kind k l)) -> x = k.
Proof. intros H. apply in_map_iff in H. destruct H as (z & <- & Hz). apply filter_In in Hz. destruct Hz as [_ Hz]. destruct (ol_kind z), k; cbn in Hz; try discriminate; reflexivity. Qed.
Lemma korder_read_order ls : korder (map ol_kind (read_order ls)).
Proof.
  unfold read_order. rewrite !map_app. apply korder_app; [apply korder_same|apply korder_app; [apply korder_same|apply korder_same|]|].
  - intros x y Hx Hy. apply by_kind_kind in Hx, Hy. subst. cbn. lia.
  - intros x y Hx Hy. apply by_kind_kind in Hx. apply in_app_iff in Hy. destruct Hy as [Hy|Hy]; apply by_kind_kind in Hy; subst; cbn; lia.
Qed.
Lemma korder_filter (f : gobj -> bool) l : korder (map g_kind l) -> korder (map g_kind (filter f l)).
Proof.
  induction l as [|g l IH]; intros H; [constructor|]. cbn in H. inversion H as [|? ? Hs Hall]; subst. cbn [filter]. destruct (f g); [|apply IH; exact Hs].
  cbn. constructor; [apply IH; exact Hs|]. rewrite Forall_forall in *. intros x Hx. apply Hall. apply in_map_iff in Hx. destruct Hx as (z & <- & Hz). apply in_map. apply filter_In in Hz. apply Hz.
Qed.
Lemma filter_none (f : gobj -> bool) l : (forall x, In x l -> f x = false) -> filter f l = [].
Proof. induction l as [|g l IH]; intros H; [reflexivity|]. cbn. rewrite (H g (or_introl eq_refl)). apply IH. intros x Hx. apply H. right. exact Hx. Qed.
Lemma parts_id l : korder (map g_kind l) -> parts l = l.
Proof.
  induction l as [|g l IH]; intros H; [reflexivity|]. cbn in H. inversion H as [|? ? Hs Hall]; subst. specialize (IH Hs).
  unfold parts in *. cbn [filter]. rewrite Forall_forall in Hall.
  destruct (g_kind g) eqn:K; cbn [kind_eqb].
  - cbn [app]. f_equal. exact IH.
  - assert (A : filter (fun x => kind_eqb (g_kind x) KArc) l = []).
    { apply filter_none. intros x Hx. specialize (Hall (g_kind x) (in_map g_kind _ _ Hx)). destruct (g_kind x); cbn in *; try reflexivity; lia. }
    rewrite A in *. cbn [app] in *. f_equal. exact IH.
  - assert (A : filter (fun x => kind_eqb (g_kind x) KArc) l = []).
    { apply filter_none. intros x Hx. specialize (Hall (g_kind x) (in_map g_kind _ _ Hx)). destruct (g_kind x); cbn in *; try reflexivity; lia. }
    assert (B : filter (fun x => kind_eqb (g_kind x) KHelix) l = []).
    { apply filter_none. intros x Hx. specialize (Hall (g_kind x) (in_map g_kind _ _ Hx)). destruct (g_kind x); cbn in *; try reflexivity; lia. }
    rewrite A, B in *. cbn [app] in *. f_equal. exact IH.
Qed.

(* ---- permutation invariance of what validity looks at ---- *)
Lemma maxfold_perm l l' : Permutation l l' -> fold_right Z.max 0 l = fold_right Z.max 0 l'.
Proof. induction 1; cbn; try lia; congruence. Qed.
Lemma filter_perm {A} (f : A -> bool) l l' : Permutation l l' -> Permutation (filter f l) (filter f l').
Proof.
  induction 1 as [|x l l' H IH|x y l|l l' l'' H1 IH1 H2 IH2]; cbn; [reflexivity| | |etransitivity; eassumption].
  - destruct (f x); [constructor|]; exact IH.
  - destruct (f x), (f y); try reflexivity. apply perm_swap.
Qed.
Lemma read_order_perm ls : Permutation (read_order ls) ls.
Proof.
  unfold read_order, by_kind. induction ls as [|l ls IH]; [reflexivity|]. cbn [filter].
  destruct (ol_kind l); cbn [kind_eqb].
  - cbn [app]. constructor. exact IH.
  - etransitivity; [symmetry; apply Permutation_middle|]. constructor. exact IH.
  - rewrite app_assoc. etransitivity; [symmetry; apply Permutation_middle|]. rewrite <- app_assoc. constructor. exact IH.
Qed.
Lemma explicit_tags_perm l l' : Permutation l l' -> Permutation (explicit_tags l) (explicit_tags l').
Proof. intros H. unfold explicit_tags. induction H; cbn; try reflexivity; [apply Permutation_app_head; assumption| |etransitivity; eassumption].
  rewrite !app_assoc. apply Permutation_app_tail. apply Permutation_app_comm. Qed.

(* ---- every model the reader produces satisfies the invariant ---- *)
Theorem read_objs_inv ls gs : read_objs ls = Some gs -> Inv (max_tag ls) gs.
Proof.
  unfold read_objs. destruct (valid ls) eqn:V; [|discriminate]. intros E. inversion E; subst gs; clear E.
  unfold valid in V. apply andb_true_iff in V. destruct V as [Vp Vn]. apply nodupb_spec in Vn.
  set (M := max_tag ls). set (Y := assign (M + 1) (read_order ls)).
  pose proof (explicit_tags_perm _ _ (read_order_perm ls)) as Pe.
  assert (Hlt : forall t, In t (explicit_tags (read_order ls)) -> t < M + 1).
  { intros t Ht. apply (Permutation_in _ Pe) in Ht. unfold M, max_tag. clear -Ht. induction (explicit_tags ls) as [|x l IH]; [destruct Ht|].
    cbn. destruct Ht as [<-|Ht]; [lia|specialize (IH Ht); lia]. }
  assert (HndY : NoDup (tags Y)).
  { apply assign_nodup; [eapply Permutation_NoDup; [symmetry; exact Pe|exact Vn]|exact Hlt]. }
  assert (Huy : untag (sort Y) = untag Y).
  { rewrite untag_sort. apply sort_id. eapply consecutive_ssorted. apply assign_consecutive. }
  assert (Pet : Permutation (etags (sort Y)) (explicit_tags ls)).
  { unfold etags. etransitivity; [apply Permutation_map; apply filter_perm; apply sort_perm|]. fold (etags Y). unfold Y. rewrite assign_etags. exact Pe. }
  constructor.
  - apply wsorted_nodup_ssorted; [apply sort_sorted|]. unfold tags. eapply Permutation_NoDup; [apply Permutation_map; symmetry; apply sort_perm|exact HndY].
  - rewrite Huy. apply assign_consecutive.
  - rewrite Huy. apply parts_id. apply korder_filter. unfold Y. rewrite assign_kinds. apply korder_read_order.
  - rewrite (maxfold_perm _ _ Pet). reflexivity.
  - apply Forall_forall. intros t Ht. apply (Permutation_in _ Pet) in Ht. rewrite forallb_forall in Vp. apply Z.ltb_lt. apply Vp. exact Ht.
  - eapply Permutation_NoDup; [symmetry; exact Pet|exact Vn].
Qed.

(* the written objects reproduce every model the reader can produce; hence writing again gives the same options *)
Theorem objects_round_trip ls gs : read_objs ls = Some gs -> read_objs (write_objs gs) = Some gs.
Proof. intros H. eapply write_read_objs. eapply read_objs_inv. exact H. Qed.
