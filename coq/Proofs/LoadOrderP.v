(* The numbering of the lumped loads survives writing and reading (C15). *)
From Coq Require Import List Bool Arith Lia Permutation.
From PM Require Import Model.LoadOrder.
Import ListNotations.

Section P.
Variables P A : Type.
Notation lumped := (lumped P A).
Notation lopt := (lopt P A).
Implicit Types (M cl : list lumped) (os : list lopt).

Lemma lkind_eqb_eq a b : lkind_eqb a b = true <-> a = b.
Proof. destruct a, b; cbn; split; intros H; try reflexivity; try discriminate. Qed.

Lemma filter_filter {X} (f g : X -> bool) l : filter f (filter g l) = filter (fun x => f x && g x) l.
Proof. induction l as [|x r IH]; [reflexivity|]. cbn. destruct (g x) eqn:G; cbn; rewrite ?andb_true_r, ?andb_false_r, IH; reflexivity. Qed.
Lemma filter_false {X} (f : X -> bool) l : (forall x, f x = false) -> filter f l = [].
Proof. intros H. induction l as [|x r IH]; [reflexivity|]. cbn. rewrite H. exact IH. Qed.

(* grouping by kind is idempotent: the written order is already the parser's order *)
Lemma filter_kind_kind k k' M :
  filter (fun l : lumped => lkind_eqb (l_kind l) k) (filter (fun l : lumped => lkind_eqb (l_kind l) k') M)
  = if lkind_eqb k k' then filter (fun l : lumped => lkind_eqb (l_kind l) k) M else [].
Proof.
  rewrite filter_filter. destruct (lkind_eqb k k') eqn:E.
  - apply filter_ext. intros x. destruct k, k', (l_kind x); first [reflexivity|discriminate].
  - apply filter_false. intros x. destruct k, k', (l_kind x); first [reflexivity|discriminate].
Qed.
Lemma of_kind_cmdline k M : of_kind P A k (cmdline_loads P A M) = of_kind P A k M.
Proof.
  unfold cmdline_loads, kinds, of_kind. cbn [flat_map]. rewrite app_nil_r, !filter_app, !filter_kind_kind.
  destruct k; cbn [lkind_eqb app]; rewrite ?app_nil_r; reflexivity.
Qed.
Theorem cmdline_idem M : cmdline_loads P A (cmdline_loads P A M) = cmdline_loads P A M.
Proof. unfold cmdline_loads at 1 3. unfold kinds. cbn [flat_map]. rewrite !of_kind_cmdline. reflexivity. Qed.

Definition kp (l : lumped) : lkind * P := (l_kind l, l_par l).

Lemma all_defs_app os1 os2 : all_defs P A (os1 ++ os2) = all_defs P A os1 ++ all_defs P A os2.
Proof. unfold all_defs. apply flat_map_app. Qed.
Lemma atts_app os1 os2 : atts P A (os1 ++ os2) = atts P A os1 ++ atts P A os2.
Proof. unfold atts. apply flat_map_app. Qed.
Lemma all_defs_atts n (l : list A) : all_defs P A (map (OAtt n) l) = [].
Proof. induction l as [|a r IH]; [reflexivity|]. cbn. exact IH. Qed.
Lemma atts_atts n (l : list A) : atts P A (map (OAtt n) l) = map (fun a => (n, a)) l.
Proof. induction l as [|a r IH]; [reflexivity|]. cbn. f_equal. exact IH. Qed.

Lemma all_defs_write n cl : all_defs P A (write_from P A n cl) = map kp cl.
Proof.
  revert n. induction cl as [|l r IH]; intros n; [reflexivity|].
  cbn [write_from map]. change (all_defs P A (ODef (l_kind l) (l_par l) :: ?x)) with (kp l :: all_defs P A x).
  rewrite all_defs_app, all_defs_atts, IH. reflexivity.
Qed.

Lemma filter_map_kp k cl : filter (fun d => lkind_eqb (fst d) k) (map kp cl) = map kp (of_kind P A k cl).
Proof. induction cl as [|l r IH]; [reflexivity|]. cbn. destruct (lkind_eqb (l_kind l) k); cbn; rewrite IH; reflexivity. Qed.

Lemma parser_loads_write M : parser_loads P A (write_loads P A M) = map kp (cmdline_loads P A M).
Proof.
  unfold parser_loads, write_loads. rewrite all_defs_write. unfold kinds. cbn [flat_map]. rewrite !filter_map_kp, !of_kind_cmdline.
  unfold cmdline_loads, kinds. cbn [flat_map]. rewrite !map_app. reflexivity.
Qed.

(* the attachments of the written list: load n, n+1, ... in turn *)
Lemma atts_write_cons n l r :
  atts P A (write_from P A n (l :: r)) = map (fun a => (n, a)) (l_att l) ++ atts P A (write_from P A (S n) r).
Proof. cbn [write_from]. change (atts P A (ODef ?k ?p :: ?x)) with (atts P A x). rewrite atts_app, atts_atts. reflexivity. Qed.

Lemma atts_write_ge n cl x : In x (atts P A (write_from P A n cl)) -> n <= fst x < n + length cl.
Proof.
  revert n. induction cl as [|l r IH]; intros n H; [destruct H|].
  rewrite atts_write_cons in H. apply in_app_or in H. destruct H as [H|H].
  - apply in_map_iff in H. destruct H as (a & <- & _). cbn. lia.
  - specialize (IH (S n) H). cbn [length]. lia.
Qed.

Lemma first_occ_skip seen n (m : list A) X : existsb (Nat.eqb n) seen = true ->
  first_occ seen (map fst (map (fun a => (n, a)) m) ++ X) = first_occ seen X.
Proof. intros H. induction m as [|a r IH]; [reflexivity|]. cbn [map fst app first_occ]. rewrite H. exact IH. Qed.

Lemma first_occ_write seen n cl : (forall x, In x seen -> x < n) -> Forall (fun l => l_att l <> []) cl ->
  first_occ seen (map fst (atts P A (write_from P A n cl))) = seq n (length cl).
Proof.
  revert seen n. induction cl as [|l r IH]; intros seen n Hs Hne; [reflexivity|].
  inversion Hne as [|? ? Hl Hr]; subst. rewrite atts_write_cons, map_app.
  destruct (l_att l) as [|a m] eqn:E; [contradiction|]. cbn [map fst app first_occ].
  assert (existsb (Nat.eqb n) seen = false) as ->.
  { destruct (existsb (Nat.eqb n) seen) eqn:X; [|reflexivity]. apply existsb_exists in X. destruct X as (y & Hy & Hny).
    apply Nat.eqb_eq in Hny. subst y. specialize (Hs n Hy). lia. }
  rewrite first_occ_skip by (cbn; rewrite Nat.eqb_refl; reflexivity).
  cbn [length seq]. f_equal. apply IH; [|exact Hr]. intros x [<-|Hx]; [lia|]. specialize (Hs x Hx). lia.
Qed.

Lemma filter_eq_none j (l : list (nat * A)) : (forall x, In x l -> fst x <> j) -> filter (fun na => fst na =? j) l = [].
Proof.
  induction l as [|x r IH]; intros H; [reflexivity|]. cbn. destruct (Nat.eqb_spec (fst x) j) as [E|_].
  - exfalso. exact (H x (or_introl eq_refl) E).
  - apply IH. intros y Hy. apply H. right. exact Hy.
Qed.
Lemma filter_eq_all j (m : list A) : filter (fun na : nat * A => fst na =? j) (map (fun a => (j, a)) m) = map (fun a => (j, a)) m.
Proof. induction m as [|a r IH]; [reflexivity|]. cbn. rewrite Nat.eqb_refl. f_equal. exact IH. Qed.

Lemma assemble_write cl : forall n (Lpre : list (lkind * P)) (apre : list (nat * A)),
  length Lpre = n -> (forall x, In x apre -> fst x < n) ->
  assemble P A (Lpre ++ map kp cl) (apre ++ atts P A (write_from P A n cl)) (seq n (length cl)) = cl.
Proof.
  induction cl as [|l r IH]; intros n Lpre apre HL Ha; [reflexivity|].
  cbn [length seq]. unfold assemble. cbn [flat_map].
  assert (Hn : nth_error (Lpre ++ map kp (l :: r)) n = Some (kp l)).
  { rewrite nth_error_app2 by lia. rewrite HL, Nat.sub_diag. reflexivity. }
  rewrite Hn. cbn [app]. f_equal.
  - rewrite atts_write_cons, !filter_app.
    rewrite (filter_eq_none n apre) by (intros x Hx; specialize (Ha x Hx); lia).
    rewrite filter_eq_all.
    rewrite (filter_eq_none n (atts P A (write_from P A (S n) r))) by (intros x Hx; apply atts_write_ge in Hx; lia).
    cbn [app]. rewrite app_nil_r, map_map. cbn [snd]. rewrite map_id. destruct l; reflexivity.
  - specialize (IH (S n) (Lpre ++ [kp l]) (apre ++ map (fun a => (n, a)) (l_att l))).
    rewrite <- !app_assoc in IH. cbn [app] in IH. rewrite atts_write_cons. cbn [map]. apply IH.
    + rewrite app_length. cbn. lia.
    + intros x Hx. apply in_app_or in Hx. destruct Hx as [Hx|Hx]; [specialize (Ha x Hx); lia|].
      apply in_map_iff in Hx. destruct Hx as (a & <- & _). cbn. lia.
Qed.

(* reading the written loads gives the model's loads in the parser's order, each with its attachments in order *)
Theorem loads_round_trip M : Forall (fun l => l_att l <> []) M ->
  read_loads P A (write_loads P A M) = Some (cmdline_loads P A M).
Proof.
  intros Hne. unfold read_loads. rewrite parser_loads_write.
  assert (Hne' : Forall (fun l => l_att l <> []) (cmdline_loads P A M)).
  { apply Forall_forall. intros l Hl. unfold cmdline_loads in Hl. apply in_flat_map in Hl. destruct Hl as (k & _ & Hl).
    apply filter_In in Hl. rewrite Forall_forall in Hne. apply Hne. apply Hl. }
  unfold write_loads. rewrite (first_occ_write [] 0 _ (fun x H => match H with end) Hne').
  rewrite seq_length, map_length, Nat.eqb_refl, andb_true_r.
  assert (forallb (fun na : nat * A => fst na <? length (cmdline_loads P A M)) (atts P A (write_from P A 0 (cmdline_loads P A M))) = true) as ->.
  { apply forallb_forall. intros x Hx. apply atts_write_ge in Hx. apply Nat.ltb_lt. lia. }
  f_equal. exact (assemble_write (cmdline_loads P A M) 0 [] [] eq_refl (fun x H => match H with end)).
Qed.

(* hence writing the re-read model gives the same options again *)
Theorem loads_fixpoint M : Forall (fun l => l_att l <> []) M ->
  option_map (write_loads P A) (read_loads P A (write_loads P A M)) = Some (write_loads P A M).
Proof. intros H. rewrite (loads_round_trip M H). cbn [option_map]. unfold write_loads. rewrite cmdline_idem. reflexivity. Qed.

(* and it has the same loads (same kinds, parameters, attachments), only grouped by kind *)
Lemma filter_partition_perm {X} (f : X -> bool) (l : list X) : Permutation (filter f l ++ filter (fun x => negb (f x)) l) l.
Proof.
  induction l as [|x r IH]; [constructor|]. cbn. destruct (f x); cbn.
  - constructor. exact IH.
  - apply Permutation_sym. apply Permutation_cons_app. apply Permutation_sym. exact IH.
Qed.
Theorem cmdline_loads_perm M : Permutation (cmdline_loads P A M) M.
Proof.
  unfold cmdline_loads, kinds, of_kind. cbn [flat_map]. rewrite app_nil_r.
  set (rest3 := filter (fun l : lumped => negb (lkind_eqb (l_kind l) LImp)) M).
  apply Permutation_trans with (filter (fun l : lumped => lkind_eqb (l_kind l) LImp) M ++ rest3); [|apply filter_partition_perm].
  apply Permutation_app_head.
  assert (E1 : forall k, k <> LImp -> filter (fun l : lumped => lkind_eqb (l_kind l) k) M = filter (fun l : lumped => lkind_eqb (l_kind l) k) rest3).
  { intros k Hk. unfold rest3. rewrite filter_filter. apply filter_ext. intros x. destruct (l_kind x), k; try reflexivity; congruence. }
  rewrite !E1 by discriminate.
  set (rest2 := filter (fun l : lumped => negb (lkind_eqb (l_kind l) LRlc)) rest3).
  apply Permutation_trans with (filter (fun l : lumped => lkind_eqb (l_kind l) LRlc) rest3 ++ rest2); [|apply filter_partition_perm].
  apply Permutation_app_head.
  assert (E2 : forall k, k <> LRlc -> filter (fun l : lumped => lkind_eqb (l_kind l) k) rest3 = filter (fun l : lumped => lkind_eqb (l_kind l) k) rest2).
  { intros k Hk. unfold rest2. rewrite filter_filter. apply filter_ext. intros x. destruct (l_kind x), k; try reflexivity; congruence. }
  rewrite !E2 by discriminate.
  apply Permutation_trans with (filter (fun l : lumped => lkind_eqb (l_kind l) LTrap) rest2 ++ filter (fun l : lumped => negb (lkind_eqb (l_kind l) LTrap)) rest2);
    [|apply filter_partition_perm].
  apply Permutation_app_head.
  assert (E3 : filter (fun l : lumped => lkind_eqb (l_kind l) LLap) rest2 = filter (fun l : lumped => negb (lkind_eqb (l_kind l) LTrap)) rest2).
  { unfold rest2, rest3. rewrite !filter_filter. apply filter_ext. intros x. destruct (l_kind x); reflexivity. }
  rewrite E3. apply Permutation_refl.
Qed.
End P.
