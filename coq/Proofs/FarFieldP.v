(* Theorems about the far-field model (C10, C11, C01, C07). *)
From Coq Require Import ZArith List Bool Reals Lra Lia.
From Coquelicot Require Import Coquelicot.
From Interval Require Import Tactic.
From PM Require Import Base.Num Base.RNum Base.Cplx Base.CplxR Gen.Extracted Model.FarField Proofs.CxAlg.
Import ListNotations.

Notation C3R := (@C3 RNum).
Definition c3cmul (a : CR) (v : C3R) : C3R :=
  (cmul a (fst (fst v)), cmul a (snd (fst v)), cmul a (snd v)).

Ltac c3_destruct :=
  repeat match goal with
  | x : C3R |- _ => destruct x as [[? ?] ?]
  | x : (@V3 RNum) |- _ => destruct x as [[? ?] ?]
  end.
Ltac ff_unfold :=
  cbv [c3cmul c3add c3scale c3dotr c3zero v3mulc v3dot v3sub v3zero vx vy vz] in *.

(* ---------- linearity in the currents ---------- *)
Lemma c3cmul_add a (u v : C3R) : c3cmul a (c3add u v) = c3add (c3cmul a u) (c3cmul a v).
Proof. c3_destruct. ff_unfold. cbn [fst snd]. (f_equal; [f_equal|]); cx_ring. Qed.

Lemma c3cmul_zero a : c3cmul a c3zero = c3zero.
Proof. ff_unfold. cbn [fst snd]. (f_equal; [f_equal|]); cx_ring. Qed.

Lemma half_std_linear w k a I ph len sgn dir gt go :
  @half_std RNum w k (cmul a I) ph len sgn dir gt go = c3cmul a (half_std w k I ph len sgn dir gt go).
Proof.
  unfold half_std. cbv zeta. generalize (v3mulc (mask_std k gt go) dir) (ff_f3 sgn w len). intros v f.
  c3_destruct. ff_unfold. cbn [fst snd]. (f_equal; [f_equal|]); cx_ring.
Qed.

Lemma pulse_std_linear w k dd p a I :
  @pulse_std RNum w k dd p (cmul a I) = c3cmul a (pulse_std w k dd p I).
Proof. unfold pulse_std. cbv zeta. rewrite !half_std_linear, c3cmul_add. reflexivity. Qed.

Lemma half_real_linear w dd v89 h89 ph a I len sgn dir gt go :
  @half_real RNum w dd v89 h89 ph (cmul a I) len sgn dir gt go =
  c3cmul a (half_real w dd v89 h89 ph I len sgn dir gt go).
Proof.
  unfold half_real. cbv zeta. generalize (mask_real gt go) (ff_f3 sgn w len). intros mk f.
  destruct dd as [st ct sp cp]. cbn [d_sp d_cp].
  c3_destruct. ff_unfold. cbn [fst snd]. (f_equal; [f_equal|]); cx_ring.
Qed.

Lemma pulse_real_linear w env dd p a I :
  @pulse_real RNum w env dd p (cmul a I) = c3cmul a (pulse_real w env dd p I).
Proof. unfold pulse_real. cbv zeta. rewrite !half_real_linear, c3cmul_add. reflexivity. Qed.

Lemma c3sum_map_linear {A} (f g : A -> C3R) a (l : list A) :
  (forall x, f x = c3cmul a (g x)) -> c3sum (map f l) = c3cmul a (c3sum (map g l)).
Proof.
  intros H. induction l as [|x l IH]; cbn [map c3sum fold_right].
  - symmetry. apply c3cmul_zero.
  - fold (c3sum (map f l)). fold (c3sum (map g l)). rewrite H, IH, c3cmul_add. reflexivity.
Qed.

Lemma combine_vscale {A} (ps : list A) a (cur : vecR) :
  combine ps (vscale a cur) = map (fun x => (fst x, cmul a (snd x))) (combine ps cur).
Proof.
  revert cur. induction ps as [|p ps IH]; intros [|c cur]; cbn; try reflexivity. f_equal. apply IH.
Qed.

Lemma ff_vector_linear w env pulses a cur dd :
  @ff_vector RNum w env pulses (vscale a cur) dd = c3cmul a (ff_vector w env pulses cur dd).
Proof.
  unfold ff_vector. cbv zeta. rewrite combine_vscale, !map_map. cbn [fst snd].
  set (pc := combine pulses cur).
  assert (c3sum (map (fun x => pulse_std w one dd (fst x) (cmul a (snd x))) pc) =
          c3cmul a (c3sum (map (fun x => pulse_std w one dd (fst x) (snd x)) pc))) as E1
    by (apply c3sum_map_linear; intros; apply pulse_std_linear).
  assert (c3sum (map (fun x => pulse_real w env dd (fst x) (cmul a (snd x))) pc) =
          c3cmul a (c3sum (map (fun x => pulse_real w env dd (fst x) (snd x)) pc))) as E2
    by (apply c3sum_map_linear; intros; apply pulse_real_linear).
  assert (c3sum (map (fun x => pulse_std w (- one)%num dd (fst x) (cmul a (snd x))) pc) =
          c3cmul a (c3sum (map (fun x => pulse_std w (- one)%num dd (fst x) (snd x)) pc))) as E3
    by (apply c3sum_map_linear; intros; apply pulse_std_linear).
  rewrite E1, E2, E3.
  destruct (fe_ground env); [|reflexivity].
  destruct (fe_real env); symmetry; apply c3cmul_add.
Qed.

Lemma ff_fields_linear_proof w env pulses a cur dd :
  @ff_fields_d RNum w env pulses (vscale a cur) dd =
  (cmul a (fst (ff_fields_d w env pulses cur dd)), cmul a (snd (ff_fields_d w env pulses cur dd))).
Proof.
  unfold ff_fields_d. cbv zeta. rewrite ff_vector_linear.
  generalize (ff_vector w env pulses cur dd). intros g. cbn [fst snd].
  destruct dd as [st ct sp cp]. unfold thhat, ff_theta, ff_phi. cbn [d_st d_ct d_sp d_cp].
  c3_destruct. ff_unfold. cbn [fst snd]. f_equal; cx_ring.
Qed.

(* ---------- units: dBi and V/m describe the same field ---------- *)
Lemma ff_t1_eq (P : R) (e : CR) : P <> 0%R ->
  @ff_t1 RNum (ff_k9 P) e = (16678 / 1000000 / P * cabs2 e)%R.
Proof. intros HP. unfold ff_t1, ff_k9. destruct e. cx_unfold. cbn [npow]. cx_unfold. field. exact HP. Qed.

Lemma ff_t2_eq (P : R) (e : CR) : P <> 0%R ->
  @ff_t2 RNum (ff_k9 P) e = (16678 / 1000000 / P * cabs2 e)%R.
Proof. intros HP. unfold ff_t2, ff_k9. destruct e. cx_unfold. cbn [npow]. cx_unfold. field. exact HP. Qed.

Lemma gain_scale_invariant_proof (P : R) (a e : CR) : P <> 0%R -> a <> RtoC 0 ->
  @ff_t1 RNum (ff_k9 (cabs2 a * P)) (cmul a e) = ff_t1 (ff_k9 P) e /\
  @ff_t2 RNum (ff_k9 (cabs2 a * P)) (cmul a e) = ff_t2 (ff_k9 P) e.
Proof.
  intros HP Ha. pose proof (cabs2_pos a Ha) as Hp.
  assert (cabs2 a * P <> 0)%R by (apply Rmult_integral_contrapositive_currified; lra).
  assert (cabs2 (cmul a e) = cabs2 a * cabs2 e)%R as Em by (destruct a, e; cx_unfold; ring).
  split.
  - rewrite !ff_t1_eq by assumption. rewrite Em. Rgoal. field; split; lra.
  - rewrite !ff_t2_eq by assumption. rewrite Em. Rgoal. field; split; lra.
Qed.

Lemma sqrt_sqr_pos x : (0 <= x)%R -> (R_sqrt.sqrt x * R_sqrt.sqrt x = x)%R.
Proof. intros. apply sqrt_sqrt. assumption. Qed.

(* gain_pol = k9c |E_pol|^2 r^2 / P_req for the V/m values *)
Lemma units_proof (P Preq r : R) (e : CR * CR) : (0 < P)%R -> (0 < Preq)%R -> (0 < r)%R ->
  let v := @ff_vm RNum P Preq r e in
  @ff_t1 RNum (ff_k9 P) (fst e) = (16678 / 1000000 * (cabs2 (fst v) * (r * r) / Preq))%R /\
  @ff_t2 RNum (ff_k9 P) (snd e) = (16678 / 1000000 * (cabs2 (snd v) * (r * r) / Preq))%R /\
  @ff_t3 RNum (ff_t1 (ff_k9 P) (fst e)) (ff_t2 (ff_k9 P) (snd e)) =
    (ff_t1 (ff_k9 P) (fst e) + ff_t2 (ff_k9 P) (snd e))%R.
Proof.
  intros HP HQ Hr v. subst v.
  rewrite (ff_t1_eq P) by lra. rewrite (ff_t2_eq P) by lra.
  unfold ff_vm, ffp_scale, ff_rat. cbv zeta.
  assert (@eqb RNum r zero = false) as ->.
  { cbn. unfold Reqb. destruct (Req_EM_T r 0); [lra|reflexivity]. }
  destruct e as [[a b] [c d]]. cbn [fst snd].
  assert (0 <= Preq / P)%R as Hq by (apply Rlt_le, Rdiv_lt_0_compat; assumption).
  pose proof (sqrt_sqr_pos _ Hq) as Hs.
  cx_unfold. cbv [nsqrt RNum].
  set (s := R_sqrt.sqrt (Preq / P)) in *.
  repeat split.
  - replace (s * (a / r) * (s * (a / r)) + s * (b / r) * (s * (b / r)))%R
      with ((s * s) * ((a * a + b * b) / (r * r)))%R by (field; lra).
    rewrite Hs. field. repeat split; lra.
  - replace (s * (c / r) * (s * (c / r)) + s * (d / r) * (s * (d / r)))%R
      with ((s * s) * ((c * c + d * d) / (r * r)))%R by (field; lra).
    rewrite Hs. field. repeat split; lra.
Qed.

Lemma k9_constant_proof : (Rabs (16678 / 1000000 - 1 / (2 * (29979221 / 1000000))) <= 3 / 10000000)%R
                          /\ (Rabs (16678 / 1000000 - 1 / (5996 / 100)) <= 3 / 10000000)%R.
Proof. split; interval. Qed.

Lemma db_eq_proof (t : R) : @ff_db RNum t = (10 * (ln t / ln 10))%R.
Proof. unfold ff_db. cx_unfold. cbv [nln RNum]. field. 
  assert (0 < ln 10)%R by (rewrite <- ln_1; apply ln_increasing; lra). lra. Qed.

Lemma floor_proof (t : R) : (t <= 1 / 10 ^ 30)%R -> @ff_gain_of RNum t = (-999)%R.
Proof.
  intros H. unfold ff_gain_of, ff_above. cx_unfold. cbn. unfold Rltb.
  destruct (Rlt_dec _ t) as [Hl|]; [|reflexivity].
  exfalso. revert H Hl. replace (10 ^ 30)%R with 1000000000000000000000000000000%R by (simpl; ring). lra.
Qed.

(* V/m values scale with sqrt(P_req) and 1/distance *)
Lemma vm_scaling_proof (P Preq r c : R) (e : CR * CR) : (0 < P)%R -> (0 < Preq)%R -> (0 < r)%R -> (0 < c)%R ->
  cabs2 (fst (@ff_vm RNum P (c * Preq) r e)) = (c * cabs2 (fst (ff_vm P Preq r e)))%R /\
  cabs2 (fst (@ff_vm RNum P Preq (c * r) e)) = (cabs2 (fst (ff_vm P Preq r e)) / (c * c))%R.
Proof.
  intros HP HQ Hr Hc.
  unfold ff_vm, ffp_scale, ff_rat. cbv zeta.
  assert (forall x, (0 < x)%R -> @eqb RNum x zero = false) as Hz.
  { intros x Hx. cbn. unfold Reqb. destruct (Req_EM_T x 0); [lra|reflexivity]. }
  rewrite (Hz r Hr), (Hz (c * r)%R) by (apply Rmult_lt_0_compat; assumption).
  destruct e as [[a b] [c' d]]. cbn [fst snd].
  assert (0 <= Preq / P)%R as Hq by (apply Rlt_le, Rdiv_lt_0_compat; assumption).
  assert (0 <= c * Preq / P)%R as Hq2.
  { apply Rlt_le, Rdiv_lt_0_compat; [apply Rmult_lt_0_compat|]; assumption. }
  pose proof (sqrt_sqr_pos _ Hq) as Hs. pose proof (sqrt_sqr_pos _ Hq2) as Hs2.
  cx_unfold. cbv [nsqrt RNum].
  set (s := R_sqrt.sqrt (Preq / P)) in *. set (s2 := R_sqrt.sqrt (c * Preq / P)) in *.
  split.
  - replace (s2 * (a / r) * (s2 * (a / r)) + s2 * (b / r) * (s2 * (b / r)))%R
      with ((s2 * s2) * ((a * a + b * b) / (r * r)))%R by (field; lra).
    replace (s * (a / r) * (s * (a / r)) + s * (b / r) * (s * (b / r)))%R
      with ((s * s) * ((a * a + b * b) / (r * r)))%R by (field; lra).
    rewrite Hs, Hs2. field. split; lra.
  - replace (s * (a / (c * r)) * (s * (a / (c * r))) + s * (b / (c * r)) * (s * (b / (c * r))))%R
      with ((s * s) * ((a * a + b * b) / (r * r)) / (c * c))%R by (field; lra).
    replace (s * (a / r) * (s * (a / r)) + s * (b / r) * (s * (b / r)))%R
      with ((s * s) * ((a * a + b * b) / (r * r)))%R by (field; lra).
    reflexivity.
Qed.

(* ---------- 360 degree periodicity ---------- *)
Lemma sin_period_Z (x : R) (k : Z) : sin (x + 2 * IZR k * PI) = sin x.
Proof.
  destruct k as [|p|p].
  - f_equal. simpl. ring.
  - rewrite <- (sin_period x (Pos.to_nat p)). f_equal. rewrite INR_IZR_INZ, positive_nat_Z. reflexivity.
  - rewrite <- (sin_period (x + 2 * IZR (Z.neg p) * PI) (Pos.to_nat p)). f_equal.
    rewrite INR_IZR_INZ, positive_nat_Z. change (Z.neg p) with (- Z.pos p)%Z. rewrite opp_IZR. ring.
Qed.
Lemma cos_period_Z (x : R) (k : Z) : cos (x + 2 * IZR k * PI) = cos x.
Proof.
  destruct k as [|p|p].
  - f_equal. simpl. ring.
  - rewrite <- (cos_period x (Pos.to_nat p)). f_equal. rewrite INR_IZR_INZ, positive_nat_Z. reflexivity.
  - rewrite <- (cos_period (x + 2 * IZR (Z.neg p) * PI) (Pos.to_nat p)). f_equal.
    rewrite INR_IZR_INZ, positive_nat_Z. change (Z.neg p) with (- Z.pos p)%Z. rewrite opp_IZR. ring.
Qed.

Lemma dir_of_period (th ph : R) (k l : Z) :
  @dir_of RNum (th + 2 * IZR k * PI)%R (ph + 2 * IZR l * PI)%R = dir_of th ph.
Proof.
  unfold dir_of. cbv [nsin ncos RNum].
  rewrite (sin_period_Z th k), (cos_period_Z th k), (sin_period_Z ph l), (cos_period_Z ph l). reflexivity.
Qed.

Lemma period_proof w env pulses cur (th ph : R) (k l : Z) :
  @ff_fields RNum w env pulses cur (th + 2 * IZR k * PI)%R (ph + 2 * IZR l * PI)%R =
  ff_fields w env pulses cur th ph.
Proof. unfold ff_fields. rewrite dir_of_period. reflexivity. Qed.

(* degrees: (d + 360 k) / 180 * pi = d / 180 * pi + 2 k pi *)
Lemma deg_period (d : R) (k : Z) : ((d + 360 * IZR k) / 180 * PI = d / 180 * PI + 2 * IZR k * PI)%R.
Proof. field. Qed.

(* ---------- the field is the radiation sum of current moments (C10), with
   mirror-image elements over ideal ground (C03) ---------- *)
Definition mirror_pt (p : @V3 RNum) : @V3 RNum := (vx p, vy p, (- vz p)%R).
Definition mirror_dir (d : @V3 RNum) : @V3 RNum := ((- vx d)%R, (- vy d)%R, vz d).

(* one half-segment's current moment placed at the pulse point:
   dir * sigma * (k0 len / 2) * exp(j k0 p.rhat) * I *)
Definition elem (w : R) (dd : @dirsc RNum) (pt dir : @V3 RNum) (len sgn : R) (I : CR) : C3R :=
  c3scale dir (cmul (cscale (ff_f3 sgn w len) (cexpj (w * v3dot pt (rhat dd))%R)) I).

Lemma v3mulc_ones (pt : @V3 RNum) : v3mulc pt (one, one, one) = pt.
Proof. destruct pt as [[x y] z]. unfold v3mulc, vx, vy, vz. cx_unfold. cbn. repeat f_equal; Rgoal; ring. Qed.

Lemma free_space_sum_proof w dd (p : @fpulse RNum) I : fp_gnd p = (false, false) ->
  pulse_std w one dd p I =
  c3add (elem w dd (fp_point p) (fst (fp_dir p)) (fst (fp_len p)) (fst (fp_sgn p)) I)
        (elem w dd (fp_point p) (snd (fp_dir p)) (snd (fp_len p)) (snd (fp_sgn p)) I).
Proof.
  intros Hg. unfold pulse_std, half_std, elem. cbv zeta. rewrite Hg. cbn [fst snd].
  unfold mask_std. rewrite v3mulc_ones.
  assert (forall d : @V3 RNum, v3mulc (one, one, one) d = d) as Hd.
  { intros [[a b] c]. unfold v3mulc, vx, vy, vz. cx_unfold. cbn. repeat f_equal; Rgoal; ring. }
  rewrite !Hd. reflexivity.
Qed.

Lemma image_sum_free_pulse_proof w dd (p : @fpulse RNum) I : fp_gnd p = (false, false) ->
  c3add (pulse_std w one dd p I) (pulse_std w (- one)%num dd p I) =
  c3add (c3add (elem w dd (fp_point p) (fst (fp_dir p)) (fst (fp_len p)) (fst (fp_sgn p)) I)
               (elem w dd (mirror_pt (fp_point p)) (mirror_dir (fst (fp_dir p))) (fst (fp_len p)) (fst (fp_sgn p)) I))
        (c3add (elem w dd (fp_point p) (snd (fp_dir p)) (snd (fp_len p)) (snd (fp_sgn p)) I)
               (elem w dd (mirror_pt (fp_point p)) (mirror_dir (snd (fp_dir p))) (snd (fp_len p)) (snd (fp_sgn p)) I)).
Proof.
  intros Hg. rewrite (free_space_sum_proof w dd p I Hg).
  unfold pulse_std, half_std, elem. cbv zeta. rewrite Hg. cbn [fst snd].
  unfold mask_std.
  assert (@ltb RNum (- one)%num zero = true) as Hlt by (cbn; apply Rltb_true; lra).
  assert (v3mulc (fp_point p) (one, one, (- one)%num) = mirror_pt (fp_point p)) as Hm.
  { destruct (fp_point p) as [[x y] z]. unfold v3mulc, mirror_pt, vx, vy, vz. cx_unfold. cbn. repeat f_equal; Rgoal; ring. }
  assert (forall d : @V3 RNum, v3mulc ((- one)%num, (- one)%num, one) d = mirror_dir d) as Hd.
  { intros [[a b] c]. unfold v3mulc, mirror_dir, vx, vy, vz. cx_unfold. cbn. repeat f_equal; Rgoal; ring. }
  rewrite Hm, !Hd.
  set (e0 := c3scale (fst (fp_dir p)) _). set (e1 := c3scale (snd (fp_dir p)) _).
  set (m0 := c3scale (mirror_dir (fst (fp_dir p))) _). set (m1 := c3scale (mirror_dir (snd (fp_dir p))) _).
  clearbody e0 e1 m0 m1. c3_destruct. ff_unfold. cbn [fst snd]. (f_equal; [f_equal|]); cx_ring.
Qed.

(* grounded pulse (image half = half 0): only the real half radiates, together
   with its own mirror image; the code's (0,0,2) mask is exactly that *)
Lemma image_sum_grounded_pulse_proof w dd (p : @fpulse RNum) I :
  fp_gnd p = (true, false) -> vz (fp_point p) = 0%R ->
  c3add (pulse_std w one dd p I) (pulse_std w (- one)%num dd p I) =
  c3add (elem w dd (fp_point p) (snd (fp_dir p)) (snd (fp_len p)) (snd (fp_sgn p)) I)
        (elem w dd (mirror_pt (fp_point p)) (mirror_dir (snd (fp_dir p))) (snd (fp_len p)) (snd (fp_sgn p)) I).
Proof.
  intros Hg Hz. unfold pulse_std, half_std, elem. cbv zeta. rewrite Hg. cbn [fst snd].
  unfold mask_std.
  assert (@ltb RNum (- one)%num zero = true) as Hlt by (cbn; apply Rltb_true; lra).
  assert (@ltb RNum one zero = false) as Hlt1 by (cbn; apply Rltb_false; lra).
  rewrite Hlt, Hlt1.
  assert (mirror_pt (fp_point p) = fp_point p) as Hmp.
  { destruct (fp_point p) as [[x y] z]. unfold mirror_pt, vx, vy, vz in *. cbn [fst snd] in *. subst z. replace (- 0)%R with 0%R by ring. reflexivity. }
  assert (v3mulc (fp_point p) (one, one, (- one)%num) = fp_point p) as Hm.
  { rewrite <- Hmp at 2. destruct (fp_point p) as [[x y] z]. unfold v3mulc, mirror_pt, vx, vy, vz. cx_unfold. cbn. repeat f_equal; Rgoal; ring. }
  rewrite Hmp, Hm, v3mulc_ones.
  set (b := cmul (cscale (ff_f3 (snd (fp_sgn p)) w (snd (fp_len p))) (cexpj _)) I). clearbody b.
  destruct (snd (fp_dir p)) as [[dx dy] dz]. destruct (fst (fp_dir p)) as [[ex ey] ez].
  unfold c3scale, c3add, v3mulc, mirror_dir, v3zero, two, vx, vy, vz. cbn [fst snd].
  destruct b as [b1 b2]. cx_unfold. (f_equal; [f_equal|]); f_equal; Rgoal; ring.
Qed.

(* E_theta, E_phi are -j * g0 * (S . theta_hat), -j * g0 * (S . phi_hat) *)
Lemma projection_proof (g : C3R) (dd : @dirsc RNum) :
  let S_th := c3dotr g (thhat dd) in
  let S_ph := cadd (cscale (- d_sp dd)%R (fst (fst g))) (cscale (d_cp dd) (snd (fst g))) in
  ff_theta S_th = cmul (copp cj) (cscale (29979221 / 1000000)%R S_th) /\
  ff_phi S_ph = cmul (copp cj) (cscale (29979221 / 1000000)%R S_ph).
Proof.
  cbv zeta. generalize (c3dotr g (thhat dd)). intros a.
  generalize (cadd (cscale (- d_sp dd)%R (fst (fst g))) (cscale (d_cp dd) (snd (fst g)))). intros b.
  unfold ff_theta, ff_phi. destruct a, b. cx_unfold. split; f_equal; field.
Qed.

Lemma gain_normalisation_proof :
  forall (P : R) (e : CR * CR), P <> 0%R ->
    @ff_t1 RNum (ff_k9 P) (fst e) = (16678 / 1000000 / P * cabs2 (fst e))%R /\
    @ff_t2 RNum (ff_k9 P) (snd e) = (16678 / 1000000 / P * cabs2 (snd e))%R /\
    @ff_t3 RNum (ff_t1 (ff_k9 P) (fst e)) (ff_t2 (ff_k9 P) (snd e)) =
      (16678 / 1000000 / P * (cabs2 (fst e) + cabs2 (snd e)))%R.
Proof.
  intros P e HP. rewrite (ff_t1_eq P) by exact HP. rewrite (ff_t2_eq P) by exact HP.
  repeat split. unfold ff_t3. cx_unfold. Rgoal. ring.
Qed.

Lemma c01_constants_proof :
  (Rabs (16678 / 1000000 - 1 / (2 * (29979221 / 1000000))) <= 3 / 10000000)%R /\
  (Rabs (4 * PI * (29979221 / 1000000) - 37673 / 100) <= 1 / 100)%R.
Proof. split; interval. Qed.
