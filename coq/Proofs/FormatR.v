(* Error bounds of the number formatter over the reals (C19). *)
From Coq Require Import ZArith NArith List Bool Arith Lia Reals Lra.
From Coquelicot Require Import Rcomplements.
From PM Require Import Model.Format Proofs.FormatP.
Import ListNotations.
Local Open Scope R_scope.

Definition NR (n : N) : R := IZR (Z.of_N n).
Definition sgn (neg : bool) : R := if neg then -1 else 1.
Definition rep_value (r : rep) : R :=
  match r with
  | Fixed neg i f _ => sgn neg * (NR (dval i) + NR (dval (frac_list f)) / 10 ^ length (frac_list f))
  | Expo neg d0 f eneg ed =>
    sgn neg * (NR d0 + NR (dval f) / 10 ^ length f) * (if eneg then / 10 ^ N.to_nat (dval ed) else 10 ^ N.to_nat (dval ed))
  end.

Lemma NR_add a b : NR (a + b) = NR a + NR b. Proof. unfold NR. rewrite N2Z.inj_add, plus_IZR. reflexivity. Qed.
Lemma NR_mul a b : NR (a * b) = NR a * NR b. Proof. unfold NR. rewrite N2Z.inj_mul, mult_IZR. reflexivity. Qed.
Lemma NR_p10 k : NR (p10 k) = 10 ^ k.
Proof. induction k as [|k IH]; [reflexivity|]. rewrite p10_S, NR_mul, IH. cbn [pow]. unfold NR. cbn. lra. Qed.
Lemma NR_le a b : (a <= b)%N -> NR a <= NR b. Proof. intros H. apply IZR_le. lia. Qed.
Lemma NR_lt a b : (a < b)%N -> NR a < NR b. Proof. intros H. apply IZR_lt. lia. Qed.
Lemma NR_pos a : 0 <= NR a. Proof. apply IZR_le. lia. Qed.
Lemma pow10_pos k : 0 < 10 ^ k. Proof. apply pow_lt. lra. Qed.

(* the value of the fixed-point text is (sign) V / 10^k *)
Lemma fixed_value_R neg n prec :
  (0 < prec)%nat -> (ndig (n / p10 prec) <= 7)%nat ->
  let k := Nat.min prec (7 - ndig (n / p10 prec)) in
  rep_value (fixed_rep neg n prec) = sgn neg * (NR (n / p10 (prec - k)) / 10 ^ k).
Proof.
  intros Hp Hn k. destruct (fixed_value neg n prec Hp Hn) as (neg' & i & f & E & Hv & Hs). fold k in Hv, Hs.
  rewrite E. cbn [rep_value]. unfold fixed_num in Hv.
  apply (f_equal NR) in Hv. rewrite !NR_mul, NR_add, NR_mul, !NR_p10 in Hv.
  pose proof (pow10_pos k) as Pk. pose proof (pow10_pos (length (frac_list f))) as Pf.
  set (V := NR (n / p10 (prec - k))) in *. set (I := NR (dval i)) in *. set (F := NR (dval (frac_list f))) in *.
  assert (Hval : I + F / 10 ^ length (frac_list f) = V / 10 ^ k).
  { apply (Rmult_eq_reg_r (10 ^ k * 10 ^ length (frac_list f))); [|apply Rgt_not_eq; nra].
    field_simplify; [|lra|lra]. nra. }
  rewrite Hval. destruct Hs as [->|Hz]; [reflexivity|].
  unfold V. rewrite Hz. unfold NR. cbn. unfold Rdiv. rewrite !Rmult_0_l, !Rmult_0_r. reflexivity.
Qed.

Lemma rhe_R a den : (0 < den)%N -> Rabs (NR (rhe a den) - NR a / NR den) <= 1 / 2.
Proof.
  intros Hd. destruct (rhe_spec a den Hd) as [H1 H2].
  apply NR_le in H1, H2. rewrite ?NR_add, ?NR_mul in H1, H2. change (NR 2) with 2 in *.
  pose proof (NR_lt _ _ Hd) as Pd. change (NR 0) with 0 in Pd.
  set (n := NR (rhe a den)) in *. set (A := NR a) in *. set (D := NR den) in *.
  assert (Hq : A / D * D = A) by (field; lra). set (q := A / D) in *. clearbody q.
  apply Rabs_le. split; apply (Rmult_le_reg_r D); try lra; nra.
Qed.

Lemma trunc_R n j : NR (n / p10 j) * 10 ^ j <= NR n /\ NR n <= NR (n / p10 j) * 10 ^ j + (10 ^ j - 1).
Proof.
  pose proof (p10_pos j) as Pj.
  pose proof (N.div_mod n (p10 j) ltac:(lia)) as E. pose proof (N.mod_lt n (p10 j) ltac:(lia)) as M.
  set (q := (n / p10 j)%N) in *. set (r := (n mod p10 j)%N) in *. clearbody q r.
  assert (H1 : (p10 j * q <= n)%N) by lia. assert (H2 : (n + 1 <= p10 j * q + p10 j)%N) by lia.
  apply NR_le in H1; apply NR_le in H2. rewrite NR_mul, NR_p10 in H1. rewrite !NR_add, NR_mul, NR_p10 in H2. change (NR 1) with 1 in H2. lra.
Qed.

(* rounding to prec decimals, then cutting to k = prec - j decimals *)
Lemma fixed_error a den prec j : (0 < den)%N -> (j <= prec)%nat ->
  let x := NR a / NR den in
  let n := rhe (a * p10 prec) den in
  let v := NR (n / p10 j) / 10 ^ (prec - j) in
  - (10 ^ j - 1 / 2) / 10 ^ prec <= v - x <= (1 / 2) / 10 ^ prec.
Proof.
  intros Hd Hj x n v. pose proof (rhe_R (a * p10 prec) den Hd) as Hr. fold n in Hr.
  rewrite NR_mul, NR_p10 in Hr. apply Rabs_le_between in Hr.
  destruct (trunc_R n j) as [T1 T2]. set (V := NR (n / p10 j)) in *.
  pose proof (pow10_pos j) as Pj. pose proof (pow10_pos (prec - j)) as Pk. pose proof (pow10_pos prec) as Pp.
  assert (E : 10 ^ prec = 10 ^ (prec - j) * 10 ^ j) by (rewrite <- pow_add; f_equal; lia).
  assert (Hx : NR a * 10 ^ prec / NR den = x * 10 ^ prec) by (unfold x; unfold Rdiv; ring).
  rewrite Hx in Hr.
  assert (Hv : v * 10 ^ prec = V * 10 ^ j) by (unfold v; rewrite E; field; lra).
  split.
  - apply (Rmult_le_reg_r (10 ^ prec)); [lra|].
    replace (- (10 ^ j - 1 / 2) / 10 ^ prec * 10 ^ prec) with (- (10 ^ j - 1 / 2)) by (field; lra).
    rewrite Rmult_minus_distr_r, Hv. lra.
  - apply (Rmult_le_reg_r (10 ^ prec)); [lra|].
    replace (1 / 2 / 10 ^ prec * 10 ^ prec) with (1 / 2) by (field; lra).
    rewrite Rmult_minus_distr_r, Hv. lra.
Qed.

Lemma p10_le j k : (j <= k)%nat -> (p10 j <= p10 k)%N.
Proof. intros H. unfold p10. apply N.pow_le_mono_r; lia. Qed.
Lemma ndig_upper m d : (1 <= d)%nat -> (m < p10 d)%N -> (ndig m <= d)%nat.
Proof.
  intros Hd Hm. destruct (ndig_spec m) as (A & B & C).
  destruct (N.eq_dec m 0) as [->|Hz]; [vm_compute; lia|].
  destruct (Nat.le_gt_cases (ndig m) d) as [H|H]; [exact H|].
  assert (p10 d <= p10 (ndig m - 1))%N by (apply p10_le; lia). specialize (B ltac:(lia)). lia.
Qed.
Lemma rhe_mono_upper a den b : (0 < den)%N -> (a <= b * den)%N -> (rhe a den <= b)%N.
Proof. intros Hd H. destruct (rhe_spec a den Hd) as [H1 _]. nia. Qed.
Lemma rhe_mono_lower a den b : (0 < den)%N -> (b * den <= a)%N -> (b <= rhe a den)%N.
Proof. intros Hd H. destruct (rhe_spec a den Hd) as [_ H2]. nia. Qed.
Lemma Rabs_sgn neg u v : Rabs (sgn neg * u - sgn neg * v) = Rabs (u - v).
Proof. unfold sgn. destruct neg; [replace (-1 * u - -1 * v) with (- (u - v)) by ring; apply Rabs_Ropp | f_equal; ring]. Qed.

(* |f| < 1 printed with at least six decimals: off by less than 1e-6 (exactly rounded when six) *)
Lemma small_abs neg a den prec : (0 < den)%N -> (a < den)%N -> (6 <= prec)%nat ->
  let x := NR a / NR den in
  let v := rep_value (fixed_rep neg (rhe (a * p10 prec) den) prec) in
  Rabs (v - sgn neg * x) < 1 / 10 ^ 6 /\ (prec = 6%nat -> Rabs (v - sgn neg * x) <= (1 / 2) / 10 ^ 6).
Proof.
  intros Hd Ha Hp x v. set (n := rhe (a * p10 prec) den) in *.
  assert (Hn : (n <= p10 prec)%N) by (apply rhe_mono_upper; [exact Hd|]; pose proof (p10_pos prec); nia).
  assert (Hip : (n / p10 prec < 10)%N).
  { apply N.div_lt_upper_bound; [pose proof (p10_pos prec); lia|]. pose proof (p10_pos prec). lia. }
  assert (Hnd : ndig (n / p10 prec) = 1%nat).
  { pose proof (ndig_upper (n / p10 prec) 1 ltac:(lia) Hip). destruct (ndig_spec (n / p10 prec)) as (_ & _ & C). lia. }
  unfold v. rewrite fixed_value_R by lia. rewrite Hnd. replace (Nat.min prec (7 - 1)) with 6%nat by lia.
  rewrite Rabs_sgn.
  pose proof (fixed_error a den prec (prec - 6) Hd ltac:(lia)) as He. cbv zeta in He. fold n in He.
  replace (prec - (prec - 6))%nat with 6%nat in He by lia. fold x in He.
  set (V := NR (n / p10 (prec - 6)) / 10 ^ 6) in *.
  pose proof (pow10_pos (prec - 6)) as Pj. pose proof (pow10_pos prec) as Pp.
  assert (E : 10 ^ prec = 10 ^ 6 * 10 ^ (prec - 6)) by (rewrite <- pow_add; f_equal; lia).
  assert (Hlo : - (1 / 10 ^ 6) < - (10 ^ (prec - 6) - 1 / 2) / 10 ^ prec).
  { rewrite E. apply (Rmult_lt_reg_r (10 ^ 6 * 10 ^ (prec - 6))); [nra|]. field_simplify; nra. }
  assert (Pj1 : 1 <= 10 ^ (prec - 6)) by (apply pow_R1_Rle; lra).
  assert (Hhi : 1 / 2 / 10 ^ prec <= 1 / 2 / 10 ^ 6).
  { rewrite E. pose proof (pow10_pos 6) as P6. set (S6 := 10 ^ 6) in *. set (J := 10 ^ (prec - 6)) in *.
    apply (Rmult_le_reg_r (S6 * J)); [nra|]. field_simplify; nra. }
  split.
  - apply Rabs_def1; lra.
  - intros ->. rewrite Nat.sub_diag in He. cbn [pow] in He. apply Rabs_le. lra.
Qed.

(* 1 <= |f|: seven significant digits, correctly rounded; the cut to nine
   characters loses nothing (also when rounding carries into a new digit) *)
Lemma seven_digits neg a den prec : (0 < den)%N -> (1 <= prec <= 6)%nat ->
  (p10 6 * den <= a * p10 prec)%N -> (a * p10 prec < p10 7 * den)%N ->
  let x := NR a / NR den in
  let v := rep_value (fixed_rep neg (rhe (a * p10 prec) den) prec) in
  Rabs (v - sgn neg * x) <= (1 / 2) / 10 ^ prec /\ Rabs (v - sgn neg * x) <= x / 2000000.
Proof.
  intros Hd Hp Hlo Hhi x v. set (n := rhe (a * p10 prec) den) in *.
  assert (Hn1 : (p10 6 <= n)%N) by (apply rhe_mono_lower; [exact Hd|lia]).
  assert (Hn2 : (n <= p10 7)%N) by (apply rhe_mono_upper; [exact Hd|lia]).
  pose proof (p10_pos prec) as Pp.
  assert (E8 : p10 8 = (p10 (8 - prec) * p10 prec)%N) by (rewrite <- p10_add; f_equal; lia).
  assert (Hip : (n / p10 prec < p10 (8 - prec))%N).
  { apply N.div_lt_upper_bound; [lia|]. rewrite N.mul_comm, <- E8. change (p10 8) with 100000000%N. change (p10 7) with 10000000%N in Hn2. lia. }
  assert (Hnd : (ndig (n / p10 prec) <= 8 - prec)%nat) by (apply ndig_upper; [lia|exact Hip]).
  (* the kept digits are worth n / 10^prec exactly *)
  assert (Hval : v = sgn neg * (NR n / 10 ^ prec)).
  { unfold v. rewrite fixed_value_R by lia. f_equal.
    set (nd := ndig (n / p10 prec)) in *.
    destruct (Nat.eq_dec nd (8 - prec)) as [Heq|Hne].
    - (* carry: n = 10^7 *)
      destruct (ndig_spec (n / p10 prec)) as (_ & B & _). fold nd in B.
      assert (Hpos : (0 < n / p10 prec)%N).
      { apply N.div_str_pos. split; [lia|]. change (p10 6) with 1000000%N in Hn1.
        assert (p10 prec <= p10 6)%N by (apply p10_le; lia). change (p10 6) with 1000000%N in H. lia. }
      specialize (B Hpos). rewrite Heq in B. replace (8 - prec - 1)%nat with (7 - prec)%nat in B by lia.
      assert (E7 : p10 7 = (p10 (7 - prec) * p10 prec)%N) by (rewrite <- p10_add; f_equal; lia).
      assert (Hn7 : n = p10 7).
      { apply N.le_antisymm; [exact Hn2|]. rewrite E7.
        pose proof (N.mul_div_le n (p10 prec) ltac:(lia)). nia. }
      replace (Nat.min prec (7 - nd)) with (prec - 1)%nat by lia.
      replace (prec - (prec - 1))%nat with 1%nat by lia. rewrite Hn7.
      change (p10 7 / p10 1)%N with (p10 6). rewrite !NR_p10.
      replace prec with (S (prec - 1)) at 2 by lia. cbn [pow]. pose proof (pow10_pos (prec - 1)). field. lra.
    - replace (Nat.min prec (7 - nd)) with prec by lia. rewrite Nat.sub_diag. change (p10 0) with 1%N. rewrite N.div_1_r. reflexivity. }
  rewrite Hval, Rabs_sgn.
  pose proof (rhe_R (a * p10 prec) den Hd) as Hr. fold n in Hr. rewrite NR_mul, NR_p10 in Hr.
  pose proof (pow10_pos prec) as PP.
  pose proof (NR_lt _ _ Hd) as PD. change (NR 0) with 0 in PD.
  assert (Hx : NR a * 10 ^ prec / NR den = x * 10 ^ prec) by (unfold x; field; lra). rewrite Hx in Hr.
  apply Rabs_le_between in Hr.
  assert (H1 : Rabs (NR n / 10 ^ prec - x) <= 1 / 2 / 10 ^ prec).
  { apply Rabs_le. split; apply (Rmult_le_reg_r (10 ^ prec)); try lra.
    - replace (- (1 / 2 / 10 ^ prec) * 10 ^ prec) with (- (1 / 2)) by (field; lra).
      replace ((NR n / 10 ^ prec - x) * 10 ^ prec) with (NR n - x * 10 ^ prec) by (field; lra). lra.
    - replace (1 / 2 / 10 ^ prec * 10 ^ prec) with (1 / 2) by (field; lra).
      replace ((NR n / 10 ^ prec - x) * 10 ^ prec) with (NR n - x * 10 ^ prec) by (field; lra). lra. }
  split; [exact H1|]. eapply Rle_trans; [exact H1|].
  (* x * 10^prec >= 10^6 *)
  apply NR_le in Hlo. rewrite !NR_mul, !NR_p10 in Hlo.
  assert (Hx6 : 10 ^ 6 <= x * 10 ^ prec).
  { rewrite <- Hx. apply (Rmult_le_reg_r (NR den)); [lra|]. replace (NR a * 10 ^ prec / NR den * NR den) with (NR a * 10 ^ prec) by (field; lra). lra. }
  apply (Rmult_le_reg_r (10 ^ prec)); [lra|].
  replace (1 / 2 / 10 ^ prec * 10 ^ prec) with (1 / 2) by (field; lra).
  replace (10 ^ 6) with 1000000 in Hx6 by (cbn; lra). lra.
Qed.

(* no decimals: the integer nearest to |f|, every digit printed *)
Lemma integer_digits neg a den : (0 < den)%N ->
  let x := NR a / NR den in
  Rabs (rep_value (fixed_rep neg (rhe (a * p10 0) den) 0) - sgn neg * x) <= 1 / 2.
Proof.
  intros Hd x. set (n := rhe (a * p10 0) den). pose proof (rhe_R (a * p10 0) den Hd) as Hr. fold n in Hr.
  rewrite NR_mul in Hr. change (NR (p10 0)) with 1 in Hr. rewrite Rmult_1_r in Hr. fold x in Hr.
  unfold fixed_rep. change (p10 0) with 1%N. rewrite N.div_1_r.
  destruct (neg && (n =? 0)%N) eqn:Hz; cbn [rep_value frac_list length pow]; rewrite idigits_val; change (NR (dval [])) with 0.
  - apply andb_prop in Hz. destruct Hz as [-> Hz]. apply N.eqb_eq in Hz. rewrite Hz in *.
    change (NR 0) with 0 in *. unfold sgn.
    replace (1 * (0 + 0 / 1) - -1 * x) with (- (0 - x)) by field. rewrite Rabs_Ropp. exact Hr.
  - replace (sgn neg * (NR n + 0 / 1) - sgn neg * x) with (sgn neg * NR n - sgn neg * x) by field.
    rewrite Rabs_sgn. exact Hr.
Qed.

(* ---- exponent format ---- *)
Lemma find_k_spec fuel k a den :
  (forall j, (j < k)%nat -> (a * p10 j < den)%N) -> (den <= a * p10 (k + fuel))%N ->
  let r := find_k fuel k a den in
  (den <= a * p10 r)%N /\ (forall j, (j < r)%nat -> (a * p10 j < den)%N) /\ (r <= k + fuel)%nat.
Proof.
  revert k. induction fuel as [|f IH]; intros k Hlt Hle; cbn [find_k].
  - rewrite Nat.add_0_r in Hle. repeat split; [exact Hle|exact Hlt|lia].
  - destruct (den <=? a * p10 k)%N eqn:E.
    + apply N.leb_le in E. repeat split; [exact E|exact Hlt|lia].
    + apply N.leb_gt in E. specialize (IH (S k)). cbv zeta in IH.
      replace (S k + f)%nat with (k + S f)%nat in IH by lia.
      destruct IH as (A & B & C); [|exact Hle|repeat split; [exact A|exact B|lia]].
      intros j Hj. destruct (Nat.eq_dec j k) as [->|]; [exact E|apply Hlt; lia].
Qed.

Lemma expo_digits neg a den : (0 < den)%N -> (0 < a)%N -> (10 * a < den)%N -> (den <= a * p10 400)%N ->
  let x := NR a / NR den in
  Rabs (rep_value (expo_rep neg a den) - sgn neg * x) <= x / 2000000.
Proof.
  intros Hd Ha Hs Hbig x. unfold expo_rep.
  destruct (find_k_spec 400 0 a den ltac:(intros j Hj; lia) Hbig) as (K1 & K2 & K3). cbv zeta in K1, K2, K3.
  set (k := find_k 400 0 a den) in *.
  assert (Hk2 : (2 <= k)%nat).
  { destruct k as [|[|k]]; try lia.
    - change (p10 0) with 1%N in K1. lia.
    - change (p10 1) with 10%N in K1. lia. }
  specialize (K2 (k - 1)%nat ltac:(lia)).
  set (m := rhe (a * p10 (6 + k)) den).
  assert (E6 : p10 (6 + k) = (p10 6 * p10 k)%N) by apply p10_add.
  assert (Ek : p10 k = (10 * p10 (k - 1))%N) by (rewrite <- p10_S; f_equal; lia).
  assert (Hm1 : (p10 6 <= m)%N) by (apply rhe_mono_lower; [exact Hd|rewrite E6; nia]).
  assert (Hm2 : (m <= p10 7)%N).
  { apply rhe_mono_upper; [exact Hd|]. rewrite E6. change (p10 7) with (10 * p10 6)%N. nia. }
  (* the printed mantissa and exponent are worth m / 10^(6+k) *)
  assert (Hval : rep_value (let '(m', k') := if (p10 7 <=? m)%N then (p10 6, (k - 1)%nat) else (m, k) in
                   Expo neg (m' / p10 6) (fdigits 6 (m' mod p10 6)) (negb (k' =? 0)%nat)
                     (if (k' <? 100)%nat then fdigits 2 (N.of_nat k') else fdigits 3 (N.of_nat k')))
                = sgn neg * (NR m / 10 ^ (6 + k))).
  { assert (Hgen : forall m' k', (1 <= k' <= 400)%nat ->
       rep_value (Expo neg (m' / p10 6) (fdigits 6 (m' mod p10 6)) (negb (k' =? 0)%nat)
                     (if (k' <? 100)%nat then fdigits 2 (N.of_nat k') else fdigits 3 (N.of_nat k')))
       = sgn neg * (NR m' / 10 ^ (6 + k'))).
    { intros m' k' Hk'. cbn [rep_value]. rewrite fdigits_length, fdigits_val.
      assert ((k' =? 0)%nat = false) as -> by (apply Nat.eqb_neq; lia). cbn [negb].
      assert (Hed : dval (if (k' <? 100)%nat then fdigits 2 (N.of_nat k') else fdigits 3 (N.of_nat k')) = N.of_nat k').
      { destruct (k' <? 100)%nat eqn:E; rewrite fdigits_val; apply N.mod_small.
        - apply Nat.ltb_lt in E. change (p10 2) with 100%N. lia.
        - change (p10 3) with 1000%N. lia. }
      rewrite Hed, Nat2N.id. rewrite N.mod_mod by (change (p10 6) with 1000000%N; lia).
      pose proof (N.div_mod m' (p10 6) ltac:(change (p10 6) with 1000000%N; lia)) as Edm.
      apply (f_equal NR) in Edm. rewrite NR_add, NR_mul, NR_p10 in Edm.
      rewrite Rmult_assoc. f_equal. rewrite pow_add.
      pose proof (pow10_pos 6); pose proof (pow10_pos k').
      set (q := NR (m' / p10 6)) in *. set (r := NR (m' mod p10 6)) in *. rewrite Edm. field. lra. }
    destruct (p10 7 <=? m)%N eqn:E7.
    - apply N.leb_le in E7. assert (m = p10 7) by lia. subst m. rewrite Hgen by lia.
      f_equal. rewrite H, !NR_p10. replace (6 + k)%nat with (S (6 + (k - 1))) by lia. cbn [pow].
      pose proof (pow10_pos (6 + (k - 1))). replace (10 ^ 7) with (10 * 10 ^ 6) by (cbn; lra). field. lra.
    - apply Hgen. lia. }
  rewrite Hval, Rabs_sgn.
  pose proof (rhe_R (a * p10 (6 + k)) den Hd) as Hr. fold m in Hr. rewrite NR_mul, NR_p10 in Hr.
  pose proof (pow10_pos (6 + k)) as PP. pose proof (NR_lt _ _ Hd) as PD. change (NR 0) with 0 in PD.
  assert (Hx : NR a * 10 ^ (6 + k) / NR den = x * 10 ^ (6 + k)) by (unfold x; field; lra). rewrite Hx in Hr.
  apply Rabs_le_between in Hr.
  apply NR_le in K1. rewrite NR_mul, NR_p10 in K1.
  assert (Hx1 : 10 ^ 6 <= x * 10 ^ (6 + k)).
  { rewrite pow_add. pose proof (pow10_pos 6). pose proof (pow10_pos k).
    assert (1 <= x * 10 ^ k).
    { unfold x. apply (Rmult_le_reg_r (NR den)); [lra|]. replace (NR a / NR den * 10 ^ k * NR den) with (NR a * 10 ^ k) by (field; lra). lra. }
    nra. }
  replace (10 ^ 6) with 1000000 in Hx1 by (cbn; lra).
  apply Rabs_le. split; apply (Rmult_le_reg_r (10 ^ (6 + k))); try lra.
  - replace ((NR m / 10 ^ (6 + k) - x) * 10 ^ (6 + k)) with (NR m - x * 10 ^ (6 + k)) by (field; lra). lra.
  - replace ((NR m / 10 ^ (6 + k) - x) * 10 ^ (6 + k)) with (NR m - x * 10 ^ (6 + k)) by (field; lra). lra.
Qed.

(* ---- format_float ---- *)
Theorem format_seven_digits neg a den (L : nat) use_e : (0 < den)%N ->
  (p10 L * den <= a)%N -> (a < p10 (S L) * den)%N ->
  let x := NR a / NR den in
  Rabs (rep_value (format_float neg a den (Z.of_nat L) use_e) - sgn neg * x) <= x / 2000000.
Proof.
  intros Hd Hlo Hhi x. pose proof (p10_pos L) as PL. unfold format_float.
  assert ((a =? 0)%N = false) as -> by (apply N.eqb_neq; nia).
  assert ((10 * a <? den)%N = false) as -> by (apply N.ltb_ge; nia). rewrite andb_false_r.
  destruct (Nat.le_gt_cases L 5) as [H5|H6].
  - replace (Z.to_nat (Z.max 0 (6 - Z.of_nat L))) with (6 - L)%nat by lia.
    assert (E6 : p10 6 = (p10 L * p10 (6 - L))%N) by (rewrite <- p10_add; f_equal; lia).
    assert (E7 : p10 7 = (p10 (S L) * p10 (6 - L))%N) by (rewrite <- p10_add; f_equal; lia).
    pose proof (p10_pos (6 - L)).
    apply seven_digits; try lia; [rewrite E6|rewrite E7]; nia.
  - replace (Z.to_nat (Z.max 0 (6 - Z.of_nat L))) with 0%nat by lia.
    eapply Rle_trans; [apply integer_digits; exact Hd|].
    assert (p10 6 <= p10 L)%N by (apply p10_le; lia).
    assert (Hx : (p10 6 * den <= a)%N) by nia. apply NR_le in Hx. rewrite NR_mul, NR_p10 in Hx.
    pose proof (NR_lt _ _ Hd) as PD. change (NR 0) with 0 in PD.
    assert (10 ^ 6 <= x).
    { unfold x. apply (Rmult_le_reg_r (NR den)); [lra|]. replace (NR a / NR den * NR den) with (NR a) by (field; lra). lra. }
    replace (10 ^ 6) with 1000000 in H0 by (cbn; lra). lra.
Qed.

Theorem format_six_digits neg a den use_e : (0 < den)%N -> (den <= 10 * a)%N -> (a < den)%N ->
  let x := NR a / NR den in
  Rabs (rep_value (format_float neg a den 0 use_e) - sgn neg * x) <= x / 200000.
Proof.
  intros Hd Hlo Hhi x. unfold format_float.
  assert ((a =? 0)%N = false) as -> by (apply N.eqb_neq; lia).
  assert ((10 * a <? den)%N = false) as -> by (apply N.ltb_ge; lia). rewrite andb_false_r.
  change (Z.to_nat (Z.max 0 (6 - 0))) with 6%nat.
  destruct (small_abs neg a den 6 Hd Hhi ltac:(lia)) as [_ H]. specialize (H eq_refl). cbv zeta in H. fold x in H.
  eapply Rle_trans; [exact H|].
  apply NR_le in Hlo. rewrite NR_mul in Hlo. change (NR 10) with 10 in Hlo.
  pose proof (NR_lt _ _ Hd) as PD. change (NR 0) with 0 in PD.
  assert (1 / 10 <= x).
  { unfold x. apply (Rmult_le_reg_r (NR den)); [lra|]. replace (NR a / NR den * NR den) with (NR a) by (field; lra). lra. }
  replace (10 ^ 6) with 1000000 by (cbn; lra). lra.
Qed.

Theorem format_fixed_small neg a den t : (0 < den)%N -> (0 < a)%N -> (a < den)%N -> (t <= 0)%Z ->
  let x := NR a / NR den in
  Rabs (rep_value (format_float neg a den t false) - sgn neg * x) < 1 / 1000000.
Proof.
  intros Hd Ha Hhi Ht x. unfold format_float.
  assert ((a =? 0)%N = false) as -> by (apply N.eqb_neq; lia). cbn [andb].
  destruct (small_abs neg a den (Z.to_nat (Z.max 0 (6 - t))) Hd Hhi ltac:(lia)) as [H _]. cbv zeta in H. fold x in H.
  replace (10 ^ 6) with 1000000 in H by (cbn; lra). exact H.
Qed.

Theorem format_exponent neg a den t : (0 < den)%N -> (0 < a)%N -> (10 * a < den)%N -> (den <= a * p10 400)%N ->
  let x := NR a / NR den in
  Rabs (rep_value (format_float neg a den t true) - sgn neg * x) <= x / 2000000.
Proof.
  intros Hd Ha Hs Hb x. unfold format_float.
  assert ((a =? 0)%N = false) as -> by (apply N.eqb_neq; lia).
  assert ((10 * a <? den)%N = true) as -> by (apply N.ltb_lt; lia). cbn [andb].
  apply expo_digits; assumption.
Qed.

Theorem format_zero neg den t use_e : rep_value (format_float neg 0 den t use_e) = 0.
Proof. unfold format_float. cbn. destruct use_e, neg; cbn; unfold NR; cbn; lra. Qed.

(* the float logarithm is one too small at exact powers of ten (np.log (1000) / np.log (10) = 2.9999999999999996):
   the extra decimal is cut again and the text is exact *)
Theorem format_power_of_ten neg den (L : nat) use_e : (0 < den)%N -> (L <= 6)%nat ->
  rep_value (format_float neg (p10 L * den) den (Z.of_nat L - 1) use_e) = sgn neg * 10 ^ L.
Proof.
  intros Hd HL. pose proof (p10_pos L) as PL. unfold format_float.
  assert ((p10 L * den =? 0)%N = false) as -> by (apply N.eqb_neq; nia).
  assert ((10 * (p10 L * den) <? den)%N = false) as -> by (apply N.ltb_ge; nia). rewrite andb_false_r.
  replace (Z.to_nat (Z.max 0 (6 - (Z.of_nat L - 1)))) with (7 - L)%nat by lia.
  assert (E7 : p10 7 = (p10 L * p10 (7 - L))%N) by (rewrite <- p10_add; f_equal; lia).
  assert (Hn : rhe (p10 L * den * p10 (7 - L)) den = p10 7).
  { unfold rhe. replace (p10 L * den * p10 (7 - L))%N with (p10 7 * den)%N by (rewrite E7; lia).
    rewrite N.div_mul, N.mod_mul by lia. replace (2 * 0)%N with 0%N by lia.
    destruct (N.compare_spec 0 den); try lia; reflexivity. }
  rewrite Hn. pose proof (p10_pos (7 - L)) as P7.
  assert (Hip : (p10 7 / p10 (7 - L) = p10 L)%N) by (rewrite E7, N.div_mul by lia; reflexivity).
  assert (Hnd : ndig (p10 L) = S L).
  { destruct (ndig_spec (p10 L)) as (A & _ & _).
    assert (ndig (p10 L) <= S L)%nat by (apply ndig_upper; [lia|rewrite p10_S; lia]).
    destruct (Nat.le_gt_cases (ndig (p10 L)) L) as [H1|H1]; [|lia].
    apply p10_le in H1. lia. }
  rewrite fixed_value_R by (rewrite ?Hip, ?Hnd; lia). rewrite Hip, Hnd. f_equal.
  replace (Nat.min (7 - L) (7 - S L)) with (6 - L)%nat by lia.
  replace (7 - L - (6 - L))%nat with 1%nat by lia. change (p10 7 / p10 1)%N with (p10 6). rewrite NR_p10.
  replace 6%nat with (L + (6 - L))%nat at 1 by lia. rewrite pow_add. pose proof (pow10_pos (6 - L)). field. lra.
Qed.
