(* C18: the VALUES on the answer lines, for the formulas the translator extracts from the source:
   (a) a source is written as magnitude and phase in DEGREES (Excitation.__init__ / as_basic_input): reading them back
       as BASIC does, magnitude * e^{j * phase * pi / 180}, gives the complex voltage of the model;
   (b) the coefficients of S^d of an S-parameter load are scaled by 10^(6 d) for BASIC version 9, which reads
       inductances and capacitances in micro-units, and not at all for later versions (Laplace_Load.as_basic_input):
       the value BASIC works with is the model's coefficient. *)
From Coq Require Import ZArith Reals Lra Lia.
From Coquelicot Require Import Coquelicot.
From PM Require Import Base.Num Base.RNum Base.Cplx Base.CplxR Gen.Extracted Proofs.CxAlg.

Local Open Scope R_scope.

Lemma sqrt_sum_factor (x y : R) : 0 < x -> sqrt (x * x + y * y) = x * sqrt (1 + (y / x)²).
Proof.
  intros Hx. replace (x * x + y * y) with ((x * x) * (1 + (y / x)²)) by (unfold Rsqr; field; lra).
  rewrite sqrt_mult_alt by nra. rewrite sqrt_square by lra. reflexivity.
Qed.
Lemma sqrt_1_sq_pos (t : R) : 0 < sqrt (1 + t²).
Proof. apply sqrt_lt_R0. unfold Rsqr. nra. Qed.

(* |z| (cos (arg z), sin (arg z)) = z with Ratan2 as the argument *)
Lemma polar_form (x y : R) : (x, y) <> (0, 0) ->
  sqrt (x * x + y * y) * cos (Ratan2 y x) = x /\ sqrt (x * x + y * y) * sin (Ratan2 y x) = y.
Proof.
  intros Hnz. unfold Ratan2.
  destruct (Rlt_dec 0 x) as [Hx|Hx].
  - rewrite cos_atan, sin_atan, (sqrt_sum_factor x y Hx). pose proof (sqrt_1_sq_pos (y / x)). split; field; lra.
  - destruct (Rlt_dec x 0) as [Hx'|Hx'].
    + assert (Hm : 0 < - x) by lra.
      assert (Hs : sqrt (x * x + y * y) = - x * sqrt (1 + (y / x)²)).
      { replace (x * x + y * y) with ((- x) * (- x) + (- y) * (- y)) by ring. rewrite (sqrt_sum_factor (- x) (- y) Hm).
        replace (- y / - x) with (y / x) by (field; lra). reflexivity. }
      pose proof (sqrt_1_sq_pos (y / x)).
      destruct (Rle_dec 0 y) as [Hy|Hy].
      * rewrite neg_cos, neg_sin, cos_atan, sin_atan, Hs. split; field; lra.
      * unfold Rminus. rewrite cos_plus, sin_plus, cos_neg, sin_neg, cos_PI, sin_PI, cos_atan, sin_atan, Hs. split; field; lra.
    + assert (x = 0) by lra. subst x.
      destruct (Rlt_dec 0 y) as [Hy|Hy].
      * rewrite cos_PI2, sin_PI2. replace (0 * 0 + y * y) with (y * y) by ring. rewrite sqrt_square by lra. split; ring.
      * destruct (Rlt_dec y 0) as [Hy'|Hy'].
        -- replace (- PI / 2) with (- (PI / 2)) by field. rewrite cos_neg, sin_neg, cos_PI2, sin_PI2.
           replace (0 * 0 + y * y) with ((- y) * (- y)) by ring. rewrite sqrt_square by lra. split; ring.
        -- exfalso. apply Hnz. f_equal; lra.
Qed.

(* (a) magnitude and phase in degrees, read back as BASIC reads them *)
Definition basic_source_voltage (mag phase_deg : R) : R * R :=
  (mag * cos (phase_deg * PI / 180), mag * sin (phase_deg * PI / 180)).

Theorem source_answer_round_trip (v : @Cx RNum) : v <> (0, 0) ->
  basic_source_voltage (@src_magnitude RNum v) (@src_phase_d RNum v) = v.
Proof.
  destruct v as [x y]. intros Hnz. unfold src_magnitude, src_phase_d, src_polar, basic_source_voltage. cbv zeta.
  unfold cabs, cabs2, carg. cbn [fst snd]. cbn [mul div add nsqrt natan2 npi of_Z RNum].
  replace (Ratan2 y x / PI * 180 * PI / 180) with (Ratan2 y x) by (field; apply PI_neq0).
  destruct (polar_form x y Hnz) as [A B]. rewrite A, B. reflexivity.
Qed.

(* the mistake repaired by fd91e6f: the phase in radians, read as degrees, is not the voltage (1 V at 90 degrees) *)
Theorem radians_refuted : basic_source_voltage 1 (PI / 2) <> (0, 1).
Proof.
  unfold basic_source_voltage. intros H. injection H as H1 H2. rewrite Rmult_1_l in H1.
  assert (Hb : 0 < PI / 2 * PI / 180 < PI / 2).
  { pose proof PI_RGT_0. pose proof PI_4. split; [apply Rdiv_lt_0_compat; nra|]. nra. }
  pose proof (cos_gt_0 (PI / 2 * PI / 180) ltac:(lra) ltac:(lra)). lra.
Qed.

(* (b) S-parameter coefficients: BASIC version 9 multiplies the coefficient of S^d it reads by 10^(-6 d) *)
Definition basic_coefficient_value (version9 : bool) (d : Z) (answer : R) : R :=
  if version9 then answer * exp (- (IZR (6 * d) * ln 10)) else answer.

Theorem coefficient_answer_round_trip (version9 : bool) (d : Z) (c : R) :
  basic_coefficient_value version9 d (c * @bas_coef_scale RNum d (negb version9)) = c.
Proof.
  unfold basic_coefficient_value, bas_coef_scale. cbv zeta. cbn [mul nexp nln of_Z RNum].
  destruct version9; cbn [negb].
  - rewrite Rmult_assoc, <- exp_plus. replace (IZR (6 * d) * ln (IZR 10) + - (IZR (6 * d) * ln 10)) with 0 by ring.
    rewrite exp_0. ring.
  - ring.
Qed.
