(* C14: a computation does not depend on what was computed on the object before. *)
From Coq Require Import List Bool Arith Lia.
From PM Require Import Model.Session.
Import ListNotations.

Section P.
Variables F V : Type.

(* after ANY session, a compute leaves exactly what a compute on a fresh object with the same frequency and the same
   sources leaves: matrix filled at the current frequency, loads added once, right-hand side of the current sources *)
Theorem session_history_free (f0 : F) (l0 : list (nat * V)) (ops : list (sop F V)) :
  let s := srun F V Faithful (fresh_session F V f0 l0) ops in
  sstep F V Faithful s SCompute = sstep F V Faithful (fresh_session F V (s_f s) (s_srcs s)) SCompute.
Proof. reflexivity. Qed.

(* frequency and sources in force are the last ones set *)
Lemma srun_app v (s : sstate F V) a b : srun F V v s (a ++ b) = srun F V v (srun F V v s a) b.
Proof. unfold srun. apply fold_left_app. Qed.
Theorem session_last_settings (f0 : F) l0 ops f l :
  let s := srun F V Faithful (fresh_session F V f0 l0) (ops ++ [SSetF f; SSources l; SCompute]) in
  s_f s = f /\ s_srcs s = l /\ s_loads s = 1 /\ s_rhs s = l.
Proof. cbv zeta. rewrite srun_app. cbn. repeat split. Qed.
End P.

(* the two variants a maintainer might write are not history free *)
Theorem lazy_matrix_refuted :
  s_loads (srun nat nat LazyMatrix (fresh_session nat nat 7 [(0, 1)]) [SCompute; SCompute]) = 2.
Proof. reflexivity. Qed.
Theorem stale_rhs_refuted :
  s_rhs (srun nat nat StaleRhs (fresh_session nat nat 7 [(0, 1)]) [SCompute; SSources [(3, 1)]; SCompute]) = [(3, 1); (0, 1)].
Proof. reflexivity. Qed.
