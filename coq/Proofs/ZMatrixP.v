(* Structure of the impedance-matrix entries (C02, C03). *)
From Coq Require Import ZArith List Bool Arith Lia Reals Lra.
From Coquelicot Require Import Coquelicot.
From Interval Require Import Tactic.
From PM Require Import Base.Num Base.RNum Base.Cplx Base.CplxR Gen.Extracted Model.Kernel Model.ZMatrix Model.FarField
     Proofs.CxAlg Proofs.FarFieldP.
Import ListNotations.

Section Struct.
Context {N : Num}.
Variable w srm w2 : T.
Variable psi_f : V3 -> V3 -> T -> T -> kparam -> bool -> bool -> Cx.
Variable conn : nat -> nat -> bool.
Variable ps : list zpulse.

Notation VP := (vecpot w srm psi_f conn ps).
Notation SP := (scapot w srm psi_f conn ps).
Notation Pn := (P ps).

(* a directly computed entry (no optimisation) is the MININEC-3 expression:
   k0^2/2 * [sigma1 (d1.chord) psi(m; n, n+1/2) + sigma0 (d0.chord) psi(m; n-1/2, n)]
   + [psi(m-1/2; n, n+1) - psi(m+1/2; n, n+1)] / Delta1
   + [psi(m+1/2; n-1, n) - psi(m-1/2; n-1, n)] / Delta0 *)
Lemma direct_entry_proof (k : T) (m n : nat) :
  entry w srm w2 psi_f conn ps k 0 m n =
  let pn := Pn n in
  let z := zzz ps m in
  let dot3 (g d : V3) : T :=
      add (add (mul (mul (vx g) (vx d)) (vx z)) (mul (mul (vy g) (vy d)) (vy z))) (mul k (mul (mul (vz g) (vz d)) (vz z))) in
  cadd (cscale w2 (cadd (cscale (dot3 (one, one, snd (zp_gsgn pn)) (snd (zp_dir pn))) (cscale (zp_sign pn true) (VP k m n true)))
                        (cscale (dot3 (one, one, fst (zp_gsgn pn)) (fst (zp_dir pn))) (cscale (zp_sign pn false) (VP k m n false)))))
       (cadd (cdivr (csub (SP k m n false true) (SP k m n true true)) (snd (zp_len pn)))
             (cdivr (csub (SP k m n true false) (SP k m n false false)) (fst (zp_len pn)))).
Proof. reflexivity. Qed.

(* over a ground plane: the free-space style term of the k = +1 pass minus the
   same expression for the mirrored source, except for grounded source pulses *)
Lemma image_term_proof (m n : nat) :
  zentry w srm w2 psi_f conn ps true m n =
  cadd (zentry w srm w2 psi_f conn ps false m n)
       (if ngnd ps n then copp (entry w srm w2 psi_f conn ps (opp one) 0 m n) else c0).
Proof. reflexivity. Qed.

End Struct.

(* same fields, half the power: gain ratio exactly 2, i.e. 3.0103 dB *)
Lemma gain_3db_proof (P : R) (e : CR) : P <> 0%R ->
  @ff_t1 RNum (ff_k9 (P / 2)%R) e = (2 * @ff_t1 RNum (ff_k9 P) e)%R /\
  (Rabs (10 * (ln 2 / ln 10) - 30103 / 10000) <= 1 / 100000)%R.
Proof.
  intros HP. split.
  - rewrite (ff_t1_eq (P / 2)%R) by lra. rewrite (ff_t1_eq P) by lra. Rgoal. field. exact HP.
  - interval.
Qed.
