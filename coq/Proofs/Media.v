(* C11: medium lookup lemmas — splitting a medium, appending a far medium. *)
From Coq Require Import ZArith List Bool Reals Lra Lia.
From PM Require Import Base.Num Base.RNum Base.Cplx Gen.Extracted Model.FarField.
Import ListNotations.

Notation fmR := (@fmedium RNum).

Lemma first_le_shift (b9 : R) (ms : list fmR) i :
  @first_le RNum b9 ms i = option_map (fun k => (k + i)%nat) (@first_le RNum b9 ms 0).
Proof.
  revert i. induction ms as [|m ms IH]; intros i; cbn [first_le option_map]; [reflexivity|].
  destruct (@ltb RNum (fm_coord m) b9).
  - rewrite (IH (S i)), (IH 1%nat). destruct (@first_le RNum b9 ms 0); cbn; [f_equal; lia|reflexivity].
  - reflexivity.
Qed.

Notation fl := (@first_le RNum).
Notation mi := (@medium_index RNum).
Notation lt_b := (@ltb RNum).

Lemma fl_true (b9 : R) m ms : lt_b (fm_coord m) b9 = true ->
  fl b9 (m :: ms) 0 = option_map S (fl b9 ms 0).
Proof.
  intros H. cbn [first_le]. rewrite H, first_le_shift. destruct (fl b9 ms 0); cbn; [f_equal; lia|reflexivity].
Qed.
Lemma fl_false (b9 : R) m ms : lt_b (fm_coord m) b9 = false -> fl b9 (m :: ms) 0 = Some O.
Proof. intros H. cbn [first_le]. rewrite H. reflexivity. Qed.
Lemma some_true (b9 : R) m ms : lt_b (fm_coord m) b9 = true ->
  (fl b9 (m :: ms) 0 <> None <-> fl b9 ms 0 <> None).
Proof. intros H. rewrite (fl_true b9 m ms H). destruct (fl b9 ms 0); cbn; split; intros; congruence. Qed.
Lemma some_false (b9 : R) m ms : lt_b (fm_coord m) b9 = false -> fl b9 (m :: ms) 0 <> None.
Proof. intros H. rewrite (fl_false b9 m ms H). discriminate. Qed.

(* the constants (impedance, height) of the medium selected for distance b9 *)
Definition selected (b9 : R) (ms : list fmR) : fmR := nth (mi b9 ms) ms fm_default.

Lemma selected_cons_skip (b9 : R) m ms : lt_b (fm_coord m) b9 = true -> fl b9 ms 0 <> None ->
  selected b9 (m :: ms) = selected b9 ms /\ mi b9 (m :: ms) = S (mi b9 ms).
Proof.
  intros H Hn. unfold selected, medium_index. rewrite (fl_true b9 m ms H).
  destruct (fl b9 ms 0) as [k|]; [|contradiction]. cbn [option_map]. split; reflexivity.
Qed.

Lemma selected_cons_hit (b9 : R) m ms : lt_b (fm_coord m) b9 = false ->
  selected b9 (m :: ms) = m /\ mi b9 (m :: ms) = O.
Proof. intros H. unfold selected, medium_index. rewrite (fl_false b9 m ms H). split; reflexivity. Qed.

Lemma split_selected (b9 : R) (pre post : list fmR) (m m1 : fmR) :
  fm_imp m1 = fm_imp m -> fm_height m1 = fm_height m -> (fm_coord m1 <= fm_coord m)%R ->
  fl b9 (pre ++ m :: post) 0 <> None ->
  fm_imp (selected b9 (pre ++ m1 :: m :: post)) = fm_imp (selected b9 (pre ++ m :: post)) /\
  fm_height (selected b9 (pre ++ m1 :: m :: post)) = fm_height (selected b9 (pre ++ m :: post)) /\
  fl b9 (pre ++ m1 :: m :: post) 0 <> None.
Proof.
  intros Hi Hh Hc. induction pre as [|q pre IH]; intros Hn; cbn [app] in *.
  - destruct (lt_b (fm_coord m) b9) eqn:Em.
    + assert (lt_b (fm_coord m1) b9 = true) as Em1.
      { cbn in *. apply Rltb_true in Em. apply Rltb_true. lra. }
      destruct (selected_cons_skip b9 m1 (m :: post) Em1 Hn) as [E1 _].
      rewrite E1. repeat split; try reflexivity. apply (some_true b9 m1 _ Em1). exact Hn.
    + destruct (selected_cons_hit b9 m post Em) as [E0 _]. rewrite E0.
      destruct (lt_b (fm_coord m1) b9) eqn:Em1.
      * destruct (selected_cons_skip b9 m1 (m :: post) Em1 Hn) as [E1 _]. rewrite E1, E0.
        repeat split; try reflexivity. apply (some_true b9 m1 _ Em1). exact Hn.
      * destruct (selected_cons_hit b9 m1 (m :: post) Em1) as [E1 _]. rewrite E1.
        repeat split; try assumption. apply some_false. exact Em1.
  - destruct (lt_b (fm_coord q) b9) eqn:Eq.
    + assert (fl b9 (pre ++ m :: post) 0 <> None) as Hp by (apply (some_true b9 q _ Eq); exact Hn).
      destruct (IH Hp) as [A [B C]].
      destruct (selected_cons_skip b9 q _ Eq Hp) as [E0 _].
      destruct (selected_cons_skip b9 q _ Eq C) as [E1 _].
      rewrite E0, E1. repeat split; try assumption. apply (some_true b9 q _ Eq). exact C.
    + destruct (selected_cons_hit b9 q (pre ++ m :: post) Eq) as [E0 _].
      destruct (selected_cons_hit b9 q (pre ++ m1 :: m :: post) Eq) as [E1 _].
      rewrite E0, E1. repeat split; try reflexivity. apply some_false. exact Eq.
Qed.

Lemma tail_some (b9 : R) (pre : list fmR) m tl : lt_b (fm_coord m) b9 = false -> fl b9 (pre ++ m :: tl) 0 <> None.
Proof.
  intros E. induction pre as [|a pre IH]; cbn [app].
  - apply some_false. exact E.
  - destruct (lt_b (fm_coord a) b9) eqn:Ea; [apply (some_true b9 a _ Ea); exact IH | apply some_false; exact Ea].
Qed.

Lemma append_selected (b9 : R) (pre : list fmR) (mlast mlast' mnew : fmR) :
  fm_imp mlast' = fm_imp mlast -> fm_height mlast' = fm_height mlast ->
  (b9 <= fm_coord mlast)%R -> (b9 <= fm_coord mlast')%R ->
  fm_imp (selected b9 (pre ++ [mlast'; mnew])) = fm_imp (selected b9 (pre ++ [mlast])) /\
  fm_height (selected b9 (pre ++ [mlast'; mnew])) = fm_height (selected b9 (pre ++ [mlast])) /\
  mi b9 (pre ++ [mlast'; mnew]) = mi b9 (pre ++ [mlast]).
Proof.
  intros Hi Hh H1 H2.
  assert (lt_b (fm_coord mlast) b9 = false) as E1 by (cbn; apply Rltb_false; lra).
  assert (lt_b (fm_coord mlast') b9 = false) as E2 by (cbn; apply Rltb_false; lra).
  induction pre as [|q pre IH]; cbn [app].
  - destruct (selected_cons_hit b9 mlast [] E1) as [A0 B0].
    destruct (selected_cons_hit b9 mlast' [mnew] E2) as [A1 B1].
    rewrite A0, A1, B0, B1. repeat split; assumption.
  - destruct IH as [A [B C]].
    destruct (lt_b (fm_coord q) b9) eqn:Eq.
    + pose proof (tail_some b9 pre mlast [] E1) as N0.
      pose proof (tail_some b9 pre mlast' [mnew] E2) as N1.
      destruct (selected_cons_skip b9 q _ Eq N0) as [S0 I0].
      destruct (selected_cons_skip b9 q _ Eq N1) as [S1 I1].
      rewrite S0, S1, I0, I1, C. repeat split; assumption.
    + destruct (selected_cons_hit b9 q (pre ++ [mlast]) Eq) as [S0 I0].
      destruct (selected_cons_hit b9 q (pre ++ [mlast'; mnew]) Eq) as [S1 I1].
      rewrite S0, S1, I0, I1. repeat split; reflexivity.
Qed.

(* ---------- lifted to the reflected field ---------- *)
From PM Require Import Base.CplxR Proofs.CxAlg.

Definition with_media (env : @fenv RNum) (ms : list fmR) : @fenv RNum :=
  mkFE (fe_ground env) (fe_real env) (fe_circ env) (fe_nr env) (fe_rr env) ms.

Lemma Reqb_zero_true : @eqb RNum 0%R (@zero RNum) = true.
Proof. cbn. unfold Reqb. destruct (Req_EM_T 0 0); [reflexivity|contradiction]. Qed.

Lemma real_coefs_md_noradials w rr dd p b9 imp height f1 f2 :
  @real_coefs_md RNum w 0%R rr dd p b9 imp height f1 = real_coefs_md w 0%R rr dd p b9 imp height f2.
Proof. unfold real_coefs_md. cbv zeta. rewrite Reqb_zero_true. reflexivity. Qed.

(* splitting a medium (no radial screen) leaves every pulse's reflection
   coefficients unchanged, for every direction whose specular point falls
   into some medium *)
Lemma split_coefs w env dd p (pre post : list fmR) (m m1 : fmR) :
  fe_nr env = 0%R ->
  fm_imp m1 = fm_imp m -> fm_height m1 = fm_height m -> (fm_coord m1 <= fm_coord m)%R ->
  fl (refl_dist (fe_circ env) dd p) (pre ++ m :: post) 0 <> None ->
  real_coefs w (with_media env (pre ++ m1 :: m :: post)) dd p =
  real_coefs w (with_media env (pre ++ m :: post)) dd p.
Proof.
  intros Hnr Hi Hh Hc Hn. unfold real_coefs. cbv zeta. cbn [with_media fe_circ fe_media fe_nr fe_rr].
  rewrite Hnr.
  destruct (split_selected _ pre post m m1 Hi Hh Hc Hn) as [A [B _]].
  unfold selected in A, B. rewrite A, B.
  apply real_coefs_md_noradials.
Qed.

Lemma split_pulse_real w env dd p I (pre post : list fmR) (m m1 : fmR) :
  fe_nr env = 0%R ->
  fm_imp m1 = fm_imp m -> fm_height m1 = fm_height m -> (fm_coord m1 <= fm_coord m)%R ->
  fl (refl_dist (fe_circ env) dd p) (pre ++ m :: post) 0 <> None ->
  pulse_real w (with_media env (pre ++ m1 :: m :: post)) dd p I =
  pulse_real w (with_media env (pre ++ m :: post)) dd p I.
Proof. intros. unfold pulse_real. cbv zeta. rewrite split_coefs by assumption. reflexivity. Qed.

Lemma ff_vector_real_ext w env env' pulses cur dd :
  fe_ground env' = fe_ground env -> fe_real env' = fe_real env ->
  (forall p I, In p pulses -> pulse_real w env' dd p I = pulse_real w env dd p I) ->
  ff_vector w env' pulses cur dd = ff_vector w env pulses cur dd.
Proof.
  intros Hg Hr H. unfold ff_vector. cbv zeta. rewrite Hg, Hr.
  destruct (fe_ground env); [|reflexivity]. destruct (fe_real env); [|reflexivity].
  f_equal. f_equal. apply map_ext_in. intros [p I] Hin. cbn [fst snd].
  apply H. apply (in_combine_l _ _ _ _ Hin).
Qed.

Lemma split_medium_proof w env pulses cur dd (pre post : list fmR) (m m1 : fmR) :
  fe_nr env = 0%R ->
  fm_imp m1 = fm_imp m -> fm_height m1 = fm_height m -> (fm_coord m1 <= fm_coord m)%R ->
  List.Forall (fun p => fl (refl_dist (fe_circ env) dd p) (pre ++ m :: post) 0 <> None) pulses ->
  ff_fields_d w (with_media env (pre ++ m1 :: m :: post)) pulses cur dd =
  ff_fields_d w (with_media env (pre ++ m :: post)) pulses cur dd.
Proof.
  intros Hnr Hi Hh Hc HF. unfold ff_fields_d. cbv zeta.
  rewrite (ff_vector_real_ext w (with_media env (pre ++ m :: post)) (with_media env (pre ++ m1 :: m :: post)));
    try reflexivity.
  intros p I Hin. rewrite Forall_forall in HF.
  apply (split_pulse_real w env dd p I pre post m m1); try assumption. apply HF. exact Hin.
Qed.

(* appending a further medium beyond every reflection point *)
Lemma append_coefs w env dd p (pre : list fmR) (mlast mlast' mnew : fmR) :
  fm_imp mlast' = fm_imp mlast -> fm_height mlast' = fm_height mlast ->
  (refl_dist (fe_circ env) dd p <= fm_coord mlast)%R -> (refl_dist (fe_circ env) dd p <= fm_coord mlast')%R ->
  real_coefs w (with_media env (pre ++ [mlast'; mnew])) dd p =
  real_coefs w (with_media env (pre ++ [mlast])) dd p.
Proof.
  intros Hi Hh H1 H2. unfold real_coefs. cbv zeta. cbn [with_media fe_circ fe_media fe_nr fe_rr].
  destruct (append_selected _ pre mlast mlast' mnew Hi Hh H1 H2) as [A [B C]].
  unfold selected in A, B. rewrite A, B, C. reflexivity.
Qed.

Lemma append_medium_proof w env pulses cur dd (pre : list fmR) (mlast mlast' mnew : fmR) :
  fm_imp mlast' = fm_imp mlast -> fm_height mlast' = fm_height mlast ->
  List.Forall (fun p => (refl_dist (fe_circ env) dd p <= fm_coord mlast)%R /\
                        (refl_dist (fe_circ env) dd p <= fm_coord mlast')%R) pulses ->
  ff_fields_d w (with_media env (pre ++ [mlast'; mnew])) pulses cur dd =
  ff_fields_d w (with_media env (pre ++ [mlast])) pulses cur dd.
Proof.
  intros Hi Hh HF. unfold ff_fields_d. cbv zeta.
  rewrite (ff_vector_real_ext w (with_media env (pre ++ [mlast])) (with_media env (pre ++ [mlast'; mnew])));
    try reflexivity.
  intros p I Hin. rewrite Forall_forall in HF. destruct (HF p Hin) as [H1 H2].
  unfold pulse_real. cbv zeta.
  rewrite (append_coefs w env dd p pre mlast mlast' mnew Hi Hh H1 H2). reflexivity.
Qed.

Lemma medium_lookup_proof :
  forall (b9 : R) (m : fmR) (ms : list fmR),
    (lt_b (fm_coord m) b9 = false -> selected b9 (m :: ms) = m) /\
    (lt_b (fm_coord m) b9 = true -> fl b9 ms 0 <> None -> selected b9 (m :: ms) = selected b9 ms).
Proof.
  intros. split; intros.
  - apply selected_cons_hit. assumption.
  - apply selected_cons_skip; assumption.
Qed.

From PM Require Import Model.Solve.
Lemma solve_ignores_media_proof :
  forall (m : R) (gnd : nat -> bool) (n : nat) (srcs : list (@source RNum)) (Z0 : @cmat RNum) loads
         (env1 env2 : @fenv RNum), fe_ground env1 = fe_ground env2 ->
    rhs_vec m gnd n srcs = rhs_vec m gnd n srcs /\
    load_matrix m gnd (fe_ground env1) Z0 loads = load_matrix m gnd (fe_ground env2) Z0 loads.
Proof. intros. rewrite H. split; reflexivity. Qed.
