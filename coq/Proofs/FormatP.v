(* Theorems about the number formatter (C19). *)
From Coq Require Import ZArith NArith List Bool Arith Lia.
From PM Require Import Model.Format.
Import ListNotations.
Local Open Scope N_scope.

Lemma p10_S k : p10 (S k) = 10 * p10 k.
Proof. unfold p10. rewrite Nat2N.inj_succ, N.pow_succ_r'. reflexivity. Qed.
Lemma p10_0 : p10 0 = 1. Proof. reflexivity. Qed.
Lemma p10_pos k : 0 < p10 k.
Proof. unfold p10. apply N.neq_0_lt_0, N.pow_nonzero. discriminate. Qed.
Lemma p10_add j k : p10 (j + k) = p10 j * p10 k.
Proof. unfold p10. rewrite Nat2N.inj_add, N.pow_add_r. reflexivity. Qed.

(* ---- digit lists ---- *)
Lemma dval_aux_app acc l m : dval_aux acc (l ++ m) = dval_aux (dval_aux acc l) m.
Proof. revert acc. induction l as [|d l IH]; intros acc; cbn; [reflexivity|apply IH]. Qed.
Lemma dval_aux_lin acc l : dval_aux acc l = acc * p10 (length l) + dval l.
Proof.
  unfold dval. revert acc. induction l as [|d l IH]; intros acc; cbn [dval_aux length].
  - rewrite p10_0. lia.
  - rewrite IH, (IH (10 * 0 + d)), p10_S. lia.
Qed.
Lemma dval_app l m : dval (l ++ m) = dval l * p10 (length m) + dval m.
Proof. unfold dval at 1. rewrite dval_aux_app, dval_aux_lin. reflexivity. Qed.

Lemma fdigits_length k n : length (fdigits k n) = k.
Proof. revert n. induction k as [|k IH]; intros n; cbn; [reflexivity|]. rewrite app_length, IH. cbn. lia. Qed.

Lemma fdigits_val k n : dval (fdigits k n) = n mod p10 k.
Proof.
  revert n. induction k as [|k IH]; intros n; cbn [fdigits].
  - rewrite p10_0, N.mod_1_r. reflexivity.
  - rewrite dval_app, IH. cbn [length]. change (p10 1) with 10. unfold dval; cbn [dval_aux].
    rewrite p10_S. pose proof (p10_pos k) as Hk.
    rewrite N.mod_mul_r by lia. lia.
Qed.

Lemma fdigits_digit k n d : In d (fdigits k n) -> d < 10.
Proof.
  revert n. induction k as [|k IH]; intros n; cbn [fdigits]; [intros []|].
  rewrite in_app_iff. intros [H|[H|[]]]; [eapply IH; exact H|]. subst. apply N.mod_lt. discriminate.
Qed.

(* the first j digits are the digits of the quotient *)
Lemma fdigits_firstn j k n : (j <= k)%nat -> firstn j (fdigits k n) = fdigits j (n / p10 (k - j)).
Proof.
  revert n j. induction k as [|k IH]; intros n j Hj.
  - assert (j = 0)%nat by lia. subst. reflexivity.
  - cbn [fdigits]. destruct (Nat.eq_dec j (S k)) as [->|Hne].
    + rewrite Nat.sub_diag, p10_0, N.div_1_r.
      rewrite <- (fdigits_length (S k) n) at 1. cbn [fdigits]. apply firstn_all.
    + rewrite firstn_app, fdigits_length. replace (j - k)%nat with 0%nat by lia. cbn [firstn]. rewrite app_nil_r.
      rewrite IH by lia. replace (S k - j)%nat with (S (k - j)) by lia.
      rewrite p10_S, <- N.div_div by (try discriminate; pose proof (p10_pos (k - j)); lia). reflexivity.
Qed.

Lemma dval_cons d l : dval (d :: l) = d * p10 (length l) + dval l.
Proof. change (d :: l) with ([d] ++ l). rewrite dval_app. unfold dval at 1; cbn [dval_aux]. lia. Qed.

(* stripping trailing zeros keeps the fraction dval l / 10^|l| *)
Lemma rstrip0_val l : dval l * p10 (length (rstrip0 l)) = dval (rstrip0 l) * p10 (length l).
Proof.
  induction l as [|d l IH]; [reflexivity|].
  cbn [rstrip0]. destruct (rstrip0 l) as [|r0 r] eqn:Hr.
  - cbn [length] in IH. rewrite p10_0 in IH. change (dval []) with 0 in IH.
    assert (Hl : dval l = 0) by lia.
    rewrite dval_cons, Hl. destruct (d =? 0) eqn:Hd.
    + apply N.eqb_eq in Hd. subst. cbn [length]. change (dval []) with 0. lia.
    + cbn [length]. rewrite dval_cons. cbn [length]. change (dval []) with 0. rewrite !p10_S, p10_0. lia.
  - set (R := r0 :: r) in *. clearbody R. rewrite !dval_cons. cbn [length]. rewrite !p10_S.
    pose proof (p10_pos (length R)); pose proof (p10_pos (length l)). nia.
Qed.
Lemma rstrip0_length l : (length (rstrip0 l) <= length l)%nat.
Proof.
  induction l as [|d l IH]; [cbn; lia|]. cbn [rstrip0]. destruct (rstrip0 l) as [|r0 r].
  - destruct (d =? 0); cbn; lia.
  - cbn [length] in *. lia.
Qed.

(* ---- number of digits ---- *)
Lemma ndig_aux_spec fuel n : n < 2 ^ N.of_nat fuel ->
  n < p10 (ndig_aux fuel n) /\ (0 < n -> p10 (ndig_aux fuel n - 1) <= n) /\ (1 <= ndig_aux fuel n)%nat.
Proof.
  revert n. induction fuel as [|f IH]; intros n Hn.
  - cbn in Hn. assert (n = 0) by lia. subst. cbn. repeat split; try lia.
  - cbn [ndig_aux]. destruct (n <? 10) eqn:H10.
    + apply N.ltb_lt in H10. change (p10 1) with 10. change (p10 (1 - 1)) with 1. repeat split; lia.
    + apply N.ltb_ge in H10.
      assert (Hq : n / 10 < 2 ^ N.of_nat f).
      { rewrite Nat2N.inj_succ, N.pow_succ_r' in Hn. apply N.div_lt_upper_bound; lia. }
      destruct (IH _ Hq) as (A & B & C).
      replace (S (ndig_aux f (n / 10)) - 1)%nat with (S (ndig_aux f (n / 10) - 1)) by lia.
      rewrite !p10_S. pose proof (N.div_mod n 10 ltac:(discriminate)) as E.
      pose proof (N.mod_lt n 10 ltac:(discriminate)) as M.
      assert (0 < n / 10) by (apply N.div_str_pos; lia).
      specialize (B H). set (q := n / 10) in *. set (r := n mod 10) in *. clearbody q r. repeat split; lia.
Qed.
Lemma ndig_spec n : n < p10 (ndig n) /\ (0 < n -> p10 (ndig n - 1) <= n) /\ (1 <= ndig n)%nat.
Proof.
  unfold ndig. apply ndig_aux_spec. rewrite N2Nat.id.
  destruct n as [|p]; [cbn; lia|]. apply N.size_gt.
Qed.
Lemma idigits_val n : dval (idigits n) = n.
Proof. unfold idigits. rewrite fdigits_val. apply N.mod_small, ndig_spec. Qed.
Lemma idigits_length n : length (idigits n) = ndig n.
Proof. apply fdigits_length. Qed.

(* ---- round half even is within half a unit ---- *)
Lemma rhe_spec a d : 0 < d -> 2 * (rhe a d * d) <= 2 * a + d /\ 2 * a <= 2 * (rhe a d * d) + d.
Proof.
  intros Hd. unfold rhe. pose proof (N.div_mod a d ltac:(lia)) as E. pose proof (N.mod_lt a d ltac:(lia)) as M.
  set (q := a / d) in *. set (r := a mod d) in *.
  destruct (N.compare_spec (2 * r) d) as [H|H|H]; [destruct (N.even q)| |]; nia.
Qed.

(* ---- the fixed-point branch: what the nine characters are worth ---- *)
Definition frac_list (f : option (list N)) : list N := match f with None => [] | Some l => l end.
(* |value| of a fixed representation, as the fraction num / 10^digits *)
Definition fixed_num (i : list N) (f : option (list N)) : N := dval i * p10 (length (frac_list f)) + dval (frac_list f).

Lemma div_split n j k : n / p10 (j + k) * p10 j + (n mod p10 (j + k)) / p10 k = n / p10 k.
Proof.
  pose proof (p10_pos j); pose proof (p10_pos k).
  rewrite p10_add. rewrite (N.mul_comm (p10 j) (p10 k)).
  rewrite N.mod_mul_r by lia. rewrite <- N.div_div by lia.
  set (q := n / p10 k). 
  rewrite (N.mul_comm (p10 k) (q mod p10 j)), N.div_add by lia.
  rewrite (N.div_small (n mod p10 k)) by (apply N.mod_lt; lia).
  pose proof (N.div_mod q (p10 j) ltac:(lia)). lia.
Qed.

Lemma drop_lead0_val i f : dval (drop_lead0 i f) = dval i.
Proof. unfold drop_lead0. destruct i as [|d [|d' l]]; try reflexivity; destruct d; try reflexivity; destruct f; reflexivity. Qed.
Lemma fix_sign_some neg i l : fix_sign neg i (Some l) = neg.
Proof. unfold fix_sign. destruct i as [|d [|d' t]]; try reflexivity; destruct d; reflexivity. Qed.
Lemma fix_sign_none neg i : fix_sign neg i None = neg \/ dval i = 0.
Proof. unfold fix_sign. destruct i as [|d [|d' t]]; auto; destruct d; auto. Qed.

Lemma fixed_value neg n prec :
  (0 < prec)%nat -> (ndig (n / p10 prec) <= 7)%nat ->
  let k := Nat.min prec (7 - ndig (n / p10 prec)) in
  exists neg' i f,
    fixed_rep neg n prec = Fixed neg' i f true /\
    fixed_num i f * p10 k = (n / p10 (prec - k)) * p10 (length (frac_list f)) /\
    (neg' = neg \/ n / p10 (prec - k) = 0).
Proof.
  intros Hp Hn k. unfold fixed_rep. destruct prec as [|p]; [lia|]. set (prec := S p) in *.
  set (ip := idigits (n / p10 prec)). set (fp := fdigits prec (n mod p10 prec)).
  unfold take9. assert (Hlen : length ip = ndig (n / p10 prec)) by apply idigits_length.
  assert ((8 <=? length ip)%nat = false) as -> by (apply Nat.leb_gt; lia).
  rewrite Hlen.
  assert (Hk : (k <= prec)%nat) by (unfold k; lia).
  set (R := (n mod p10 prec) / p10 (prec - k)).
  assert (Hfirst : firstn (7 - ndig (n / p10 prec)) fp = fdigits k R).
  { unfold R, fp. rewrite <- fdigits_firstn by exact Hk.
    destruct (Nat.le_gt_cases prec (7 - ndig (n / p10 prec))) as [H|H].
    - replace k with prec by (unfold k; lia). rewrite !firstn_all2 by (rewrite fdigits_length; lia). reflexivity.
    - replace k with (7 - ndig (n / p10 prec))%nat by (unfold k; lia). reflexivity. }
  rewrite Hfirst. clear Hfirst.
  assert (HR : R < p10 k).
  { unfold R. apply N.div_lt_upper_bound; [pose proof (p10_pos (prec - k)); lia|].
    rewrite <- p10_add. replace (prec - k + k)%nat with prec by lia. apply N.mod_lt. pose proof (p10_pos prec); lia. }
  assert (Hsplit : n / p10 prec * p10 k + R = n / p10 (prec - k)).
  { unfold R. replace prec with (k + (prec - k))%nat at 1 2 by lia. apply div_split. }
  assert (Hip : dval ip = n / p10 prec) by apply idigits_val.
  pose proof (rstrip0_val (fdigits k R)) as Hrs. rewrite fdigits_length, fdigits_val, (N.mod_small _ _ HR) in Hrs.
  unfold strip_frac. destruct (rstrip0 (fdigits k R)) as [|r0 r] eqn:Er.
  - exists (fix_sign neg (drop_lead0 ip None) None), (drop_lead0 ip None), None. split; [reflexivity|].
    cbn [length] in Hrs. rewrite p10_0 in Hrs. change (dval []) with 0 in Hrs.
    unfold fixed_num. cbn [frac_list length]. rewrite p10_0. change (dval []) with 0. rewrite drop_lead0_val, Hip.
    split; [lia|]. destruct (fix_sign_none neg (drop_lead0 ip None)) as [H|H]; [left; exact H|right].
    rewrite drop_lead0_val, Hip in H. lia.
  - set (rs := r0 :: r) in *. clearbody rs.
    exists (fix_sign neg (drop_lead0 ip (Some rs)) (Some rs)), (drop_lead0 ip (Some rs)), (Some rs). split; [reflexivity|].
    unfold fixed_num. cbn [frac_list]. rewrite drop_lead0_val, Hip, fix_sign_some. split; [|left; reflexivity].
    pose proof (p10_pos k); pose proof (p10_pos (length rs)). nia.
Qed.
