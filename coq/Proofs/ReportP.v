(* C09 (Kirchhoff on the junction lines) and C17 (addressing). *)
From Coq Require Import ZArith List Bool Arith Lia Reals Lra.
From Coquelicot Require Import Coquelicot.
From PM Require Import Base.Num Base.RNum Base.Cplx Base.CplxR Model.Topology Model.Report
     Proofs.CxAlg Proofs.TopologyP.
Import ListNotations.

Notation topoR := (@topology RNum).

(* well-formed statuses: the sense flag of a joined end is determined by the
   two end indices, exactly as match_end sets it *)
Definition wf_end (x : nat * bool * status) : Prop :=
  match snd x with
  | Joined _ e2 same => same = negb (Bool.eqb e2 (snd (fst x)))
  | _ => True
  end.

Lemma fold_sum_shift (t : topoR) (I : vecR) J a :
  fold_left (fun c x => cadd c (joiner_term t I x)) J a =
  cadd a (fold_left (fun c x => cadd c (joiner_term t I x)) J c0).
Proof.
  revert a. induction J as [|x J IH]; intros a; cbn [fold_left]; [cx_ring|].
  rewrite (IH (cadd a _)), (IH (cadd c0 _)).
  generalize (joiner_term t I x) (fold_left (fun c x0 => cadd c (joiner_term t I x0)) J c0). cx_ring.
Qed.

(* one joiner: its own line and its term in the owner's line cancel *)
Lemma joiner_cancels (t : topoR) (I : vecR) i0 e0 x :
  joins i0 e0 x = true -> wf_end x ->
  cadd (cmul (into e0) (joiner_term t I x))
       (cmul (into (snd (fst x))) (vnth I (pulse_at t (fst (fst x)) (snd (fst x))))) = c0.
Proof.
  destruct x as [[i e] st]. unfold joins, wf_end, joiner_term. cbn [fst snd].
  destruct st as [| |j e2 same]; try discriminate.
  intros Hj Hw. apply andb_prop in Hj. destruct Hj as [_ He]. apply eqb_prop in He. subst e2 same.
  cbn [same_of]. generalize (vnth I (pulse_at t i e)). intros v.
  destruct e0, e; cbn [Bool.eqb negb sgnC into]; destruct v; cx_unfold; f_equal; ring.
Qed.

Lemma kcl_sum_proof (t : topoR) (I : vecR) i0 e0 :
  List.Forall wf_end (joiners t i0 e0) ->
  cadd (cmul (into e0) (owner_current_sum t I (joiners t i0 e0)))
       (csum (map (fun x => cmul (into (snd (fst x))) (vnth I (pulse_at t (fst (fst x)) (snd (fst x)))))
                  (joiners t i0 e0))) = c0.
Proof.
  unfold joiners. set (all := ends_from 0 (tp_status t)). clearbody all.
  unfold owner_current_sum.
  induction all as [|x all IH]; intros HF; cbn [filter].
  - cbn. cx_ring.
  - destruct (joins i0 e0 x) eqn:Ej; [|apply IH; cbn [filter] in HF; rewrite Ej in HF; exact HF].
    cbn [filter] in HF. rewrite Ej in HF. inversion HF as [|? ? Hx HF']; subst.
    cbn [fold_left map csum]. rewrite fold_sum_shift.
    specialize (IH HF').
    pose proof (joiner_cancels t I i0 e0 x Ej Hx) as Hc.
    set (S1 := fold_left _ (filter _ all) c0) in *. set (S2 := csum _) in *.
    set (a := joiner_term t I x) in *. set (b := cmul (into (snd (fst x))) _) in *.
    clearbody S1 S2 a b.
    assert (cadd (cmul (into e0) (cadd (cadd c0 a) S1)) (cadd b S2) =
            cadd (cadd (cmul (into e0) a) b) (cadd (cmul (into e0) S1) S2)) as -> by (destruct (into e0); cx_ring).
    rewrite Hc, IH. cx_ring.
Qed.

(* the code's owner line equals the sum at end 2, and at end 1 when at most one wire joined *)
Lemma owner_code_is_sum (t : topoR) (I : vecR) e0 J :
  (e0 = true \/ length J <= 1)%nat -> owner_current_code t I e0 J = owner_current_sum t I J.
Proof.
  intros [->|H]; [reflexivity|].
  unfold owner_current_code, owner_current_sum. destruct e0; [reflexivity|].
  destruct J as [|x [|y J]]; cbn [fold_left]; [reflexivity| |cbn in H; lia].
  generalize (joiner_term t I x). cx_ring.
Qed.

(* ---------- addressing ---------- *)
Lemma index_of_bound (tg : Z) tags i0 i : index_of tg tags i0 = Some i ->
  (i0 <= i < i0 + length tags)%nat /\ nth (i - i0) tags 0%Z = tg.
Proof.
  revert i0. induction tags as [|x tags IH]; intros i0 H; [discriminate|].
  cbn [index_of] in H. destruct (Z.eqb_spec x tg) as [->|Hne].
  - inversion H; subst. cbn [length]. split; [lia|]. rewrite Nat.sub_diag. reflexivity.
  - destruct (IH (S i0) H) as [A B]. cbn [length]. split; [lia|].
    replace (i - i0)%nat with (S (i - S i0)) by lia. exact B.
Qed.

(* statuses produced by the end scan are well formed *)
Lemma ends_from_in (sts : list (status * status)) : forall i0 x, In x (ends_from i0 sts) ->
  exists p st, nth_error sts p = Some st /\ fst (fst x) = (i0 + p)%nat /\
    ((snd (fst x) = false /\ snd x = fst st) \/ (snd (fst x) = true /\ snd x = snd st)).
Proof.
  induction sts as [|[s0 s1] sts IH]; intros i0 x Hin; [destruct Hin|].
  cbn [ends_from] in Hin. destruct Hin as [<-|[<-|Hin]].
  - exists O, (s0, s1). cbn. split; [reflexivity|]. split; [lia|]. left. split; reflexivity.
  - exists O, (s0, s1). cbn. split; [reflexivity|]. split; [lia|]. right. split; reflexivity.
  - destruct (IH (S i0) x Hin) as [p [st [A [B C]]]]. exists (S p), st. cbn. split; [exact A|]. split; [lia|exact C].
Qed.

Lemma build_wf (tol : R) (os : list (@obj RNum)) i0 e0 :
  List.Forall wf_end (joiners (build tol os) i0 e0).
Proof.
  unfold joiners. apply Forall_forall. intros x Hx. apply filter_In in Hx. destruct Hx as [Hin _].
  cbn [build tp_status] in Hin.
  destruct (ends_from_in _ _ _ Hin) as [p [st [Hn [_ Hc]]]].
  destruct (scan_same (N:=RNum) tol os [] O p st Hn) as [A B].
  unfold wf_end. destruct x as [[i e] s]. cbn [fst snd] in *.
  destruct s as [| |j e2 same]; try exact I.
  destruct Hc as [[-> Hs]|[-> Hs]]; [apply (A j e2 same); symmetry; exact Hs|apply (B j e2 same); symmetry; exact Hs].
Qed.

Lemma kcl_build_proof (tol : R) (os : list (@obj RNum)) (I : vecR) i0 e0 :
  let t := build tol os in
  cadd (cmul (into e0) (owner_current_sum t I (joiners t i0 e0)))
       (csum (map (fun x => cmul (into (snd (fst x))) (vnth I (pulse_at t (fst (fst x)) (snd (fst x)))))
                  (joiners t i0 e0))) = c0.
Proof. intros t. apply kcl_sum_proof. apply build_wf. Qed.

Lemma kcl_code_proof (tol : R) (os : list (@obj RNum)) (I : vecR) i0 e0 :
  let t := build tol os in
  (e0 = true \/ length (joiners t i0 e0) <= 1)%nat ->
  cadd (cmul (into e0) (owner_current_code t I e0 (joiners t i0 e0)))
       (csum (map (fun x => cmul (into (snd (fst x))) (vnth I (pulse_at t (fst (fst x)) (snd (fst x)))))
                  (joiners t i0 e0))) = c0.
Proof. intros t H. rewrite owner_code_is_sum by exact H. apply kcl_build_proof. Qed.

(* the known deviation: two wires joining the FIRST end of an earlier wire;
   the owner's line shows only the last joiner *)
Definition refute_I : vecR := [RtoC 1; RtoC 1; RtoC 1].
Definition refute_J : list (nat * bool * status) :=
  [(1%nat, false, Joined 0 false false); (2%nat, false, Joined 0 false false)].
Lemma kcl_refuted_proof (t : topoR) :
  pulse_at t 1 false <> pulse_at t 2 false ->
  (pulse_at t 1 false < 3)%nat -> (pulse_at t 2 false < 3)%nat ->
  owner_current_code t refute_I false refute_J <> owner_current_sum t refute_I refute_J.
Proof.
  intros Hne H1 H2. unfold owner_current_code, owner_current_sum, refute_J, refute_I. cbn [fold_left].
  unfold joiner_term. cbn [fst snd same_of sgnC].
  assert (forall k, (k < 3)%nat -> @vnth RNum [RtoC 1; RtoC 1; RtoC 1] k = RtoC 1) as Hv.
  { intros k Hk. unfold vnth. destruct k as [|[|[|k]]]; try reflexivity. lia. }
  rewrite !Hv by assumption.
  unfold RtoC. cx_unfold. intros E. inversion E. lra.
Qed.

Lemma end_lines_proof :
  forall (t : topoR) (I : vecR) (i : nat) (e : bool),
    let st := nth i (tp_status t) (Free, Free) in
    let s := if e then snd st else fst st in
    (s = Grounded -> end_line t I i e = NoLine) /\
    (forall j e2 sm, s = Joined j e2 sm -> end_line t I i e = JLine (vnth I (pulse_at t i e))) /\
    (s = Free -> joiners t i e = [] -> end_line t I i e = ELine) /\
    (s = Free -> joiners t i e <> [] -> end_line t I i e = JLine (owner_current_code t I e (joiners t i e))).
Proof.
  intros t I i e st s. subst st s. unfold end_line. cbv zeta.
  destruct (if e then snd (nth i (tp_status t) (Free, Free)) else fst (nth i (tp_status t) (Free, Free))) as [| |j e2 sm];
    repeat split; try discriminate; try reflexivity.
  - intros _ H. rewrite H. reflexivity.
  - intros _ H. destruct (joiners t i e); [contradiction|reflexivity].
Qed.
