(* Sources survive writing and reading (C15). *)
From Coq Require Import ZArith List Bool Arith Lia.
From PM Require Import Model.SourceOpts.
Import ListNotations.

Section P.
Variable V : Type.
Variable one : V.
Variable is_one : V -> bool.
Hypothesis is_one_spec : forall v, is_one v = true -> v = one.

Notation src := (src V).

(* with two or more sources every one writes its voltage and its pulse *)
Lemma many_volts n (l : list src) : 1 < n -> Forall (fun s => s_default s = false) l ->
  volts V (flat_map (write_src V is_one n) l) = map s_volt l /\ pulses V (flat_map (write_src V is_one n) l) = map s_addr l.
Proof.
  intros Hn H. induction H as [|s r Hs Hr IH]; [split; reflexivity|]. destruct IH as [IH1 IH2].
  cbn [flat_map]. unfold volts, pulses in *. rewrite !flat_map_app, IH1, IH2. unfold write_src. rewrite Hs.
  assert ((1 <? n) = true) as -> by (apply Nat.ltb_lt; exact Hn). rewrite orb_true_r. split; reflexivity.
Qed.

Lemma rebuild (l : list src) : Forall (fun s => s_default s = false) l ->
  map (fun pv => mkSrc (snd pv) (fst pv) false) (combine (map s_addr l) (map s_volt l)) = l.
Proof. induction 1 as [|s r Hs Hr IH]; [reflexivity|]. cbn. rewrite IH. destruct s; cbn in *. subst. reflexivity. Qed.

Theorem sources_round_trip (l : list src) : wf_srcs V l -> read_srcs V one (write_srcs V is_one l) = Some l.
Proof.
  intros Hwf. destruct l as [|s [|s2 r]]; [destruct Hwf| |].
  - (* one source *)
    cbn in Hwf. unfold write_srcs. cbn [length flat_map]. rewrite app_nil_r. unfold write_src. cbn [Nat.ltb Nat.leb]. rewrite orb_false_r.
    destruct s as [v a d]. cbn [s_volt s_addr s_default] in *.
    destruct (is_one v) eqn:E1, d; cbn.
    + rewrite (is_one_spec v E1), (Hwf eq_refl). reflexivity.
    + rewrite (is_one_spec v E1). reflexivity.
    + rewrite (Hwf eq_refl). reflexivity.
    + reflexivity.
  - (* several *)
    cbn in Hwf. set (l := s :: s2 :: r) in *. unfold write_srcs.
    assert (Hn : 1 < length l) by (cbn; lia).
    destruct (many_volts (length l) l Hn Hwf) as [Hv Hp]. unfold read_srcs. rewrite Hv, Hp.
    cbn [map l]. cbn [length]. rewrite !map_length, Nat.eqb_refl.
    f_equal. exact (rebuild (s :: s2 :: r) Hwf).
Qed.

Theorem sources_fixpoint (l : list src) : wf_srcs V l ->
  option_map (write_srcs V is_one) (read_srcs V one (write_srcs V is_one l)) = Some (write_srcs V is_one l).
Proof. intros H. rewrite (sources_round_trip l H). reflexivity. Qed.
End P.

(* the writer before the repair (voltage omitted whenever it is 1 V): two sources, the second of 1 V, are rejected *)
Definition write_src_before {V} (is_one : V -> bool) (s : SourceOpts.src V) : list (sopt V) :=
  (if negb (is_one (s_volt s)) then [OVolt (s_volt s)] else []) ++ (if s_default s then [] else [OPulse (s_addr s)]).
Lemma before_refuted :
  read_srcs Z 1%Z (flat_map (write_src_before (Z.eqb 1)) [mkSrc 2%Z (SAbs 0) false; mkSrc 1%Z (SAbs 1) false]) = None.
Proof. vm_compute. reflexivity. Qed.
