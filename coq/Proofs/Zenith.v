(* C10: total gain at the zenith is the same for every azimuth. *)
From Coq Require Import ZArith List Bool Reals Lra Lia.
From Coquelicot Require Import Coquelicot.
From PM Require Import Base.Num Base.RNum Base.Cplx Base.CplxR Gen.Extracted Model.FarField Proofs.CxAlg Proofs.FarFieldP.
Import ListNotations.

(* ---------- zenith: total gain independent of azimuth (free space, ideal ground) ---------- *)
Require Import Nsatz.

Lemma pulse_std_rhat w k dd dd' p I : rhat dd = rhat dd' ->
  @pulse_std RNum w k dd p I = pulse_std w k dd' p I.
Proof. intros H. unfold pulse_std. rewrite H. reflexivity. Qed.

Lemma ff_vector_zenith w env pulses cur (sp cp : R) : fe_real env = false ->
  @ff_vector RNum w env pulses cur (mkDir 0%R 1%R sp cp) = ff_vector w env pulses cur (mkDir 0%R 1%R 0%R 1%R).
Proof.
  intros Hr. unfold ff_vector. cbv zeta. rewrite Hr.
  assert (@rhat RNum (mkDir 0%R 1%R sp cp) = rhat (mkDir 0%R 1%R 0%R 1%R)) as Hh.
  { unfold rhat. cbn [d_st d_ct d_sp d_cp]. cx_unfold.
    replace (0 * cp)%R with (0 * 1)%R by ring. replace (0 * sp)%R with (0 * 0)%R by ring. reflexivity. }
  assert (forall k, map (fun x => pulse_std w k (mkDir 0%R 1%R sp cp) (fst x) (snd x)) (combine pulses cur) =
                    map (fun x => pulse_std w k (mkDir 0%R 1%R 0%R 1%R) (fst x) (snd x)) (combine pulses cur)) as Hm.
  { intros k. apply map_ext. intros x. apply pulse_std_rhat. exact Hh. }
  rewrite !Hm. reflexivity.
Qed.

Lemma zenith_proof w env pulses cur (sp cp : R) : fe_real env = false -> (sp * sp + cp * cp = 1)%R ->
  let e := @ff_fields_d RNum w env pulses cur (mkDir 0%R 1%R sp cp) in
  let e0 := @ff_fields_d RNum w env pulses cur (mkDir 0%R 1%R 0%R 1%R) in
  (cabs2 (fst e) + cabs2 (snd e) = cabs2 (fst e0) + cabs2 (snd e0))%R.
Proof.
  intros Hr Hsc e e0. subst e e0. unfold ff_fields_d. cbv zeta. rewrite (ff_vector_zenith w env pulses cur sp cp Hr).
  generalize (ff_vector w env pulses cur (mkDir 0%R 1%R 0%R 1%R)). intros g.
  unfold thhat, ff_theta, ff_phi. cbn [d_st d_ct d_sp d_cp fst snd].
  destruct g as [[[gx1 gx2] [gy1 gy2]] [gz1 gz2]]. ff_unfold. cbn [fst snd]. cx_unfold.
  nsatz.
Qed.

