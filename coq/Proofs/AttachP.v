(* C08 / C06: every half-segment of loaded conductor that a pulse represents is charged exactly once. *)
From Coq Require Import List Bool Arith Lia.
From PM Require Import Model.Attach.
Import ListNotations.

Lemma nodup_all_eq (l : list nat) (g : nat) : NoDup l -> (forall x, In x l -> x = g) -> length l <= 1.
Proof.
  intros Hnd H. destruct l as [|a [|b r]]; cbn; try lia. exfalso.
  inversion Hnd as [|? ? Hni _]; subst. apply Hni. left.
  rewrite (H a (or_introl eq_refl)), (H b (or_intror (or_introl eq_refl))). reflexivity.
Qed.
Lemma filter_single (f : nat -> bool) (objs : list nat) (g : nat) :
  NoDup objs -> In g objs -> (forall x, f x = true -> x = g) -> f g = true -> length (filter f objs) = 1.
Proof.
  intros Hnd Hin Hu Hg.
  assert (H1 : length (filter f objs) <= 1).
  { apply (nodup_all_eq _ g); [apply NoDup_filter; exact Hnd|]. intros x Hx. apply filter_In in Hx. apply Hu. apply Hx. }
  assert (H2 : In g (filter f objs)) by (apply filter_In; split; assumption).
  destruct (filter f objs); [destruct H2|cbn in *; lia].
Qed.
Lemma filter_none_len (f : nat -> bool) (objs : list nat) : (forall x, f x = false) -> length (filter f objs) = 0.
Proof. intros H. induction objs as [|x r IH]; [reflexivity|]. cbn. rewrite H. exact IH. Qed.

(* a pulse is on the list of at most one load, and on exactly one as soon as one of its halves lies on a loaded object --
   for every pulse owned by one of the objects its halves lie on (all pulses the topology builds) *)
Theorem attached_once (loaded : nat -> bool) (objs : list nat) (p : apulse) :
  NoDup objs -> In (ap_g0 p) objs -> In (ap_g1 p) objs ->
  (ap_owner p = ap_g0 p \/ ap_owner p = ap_g1 p) ->
  length (filter (attached loaded p) objs) = if loaded (ap_g0 p) || loaded (ap_g1 p) then 1 else 0.
Proof.
  intros Hnd H0 H1 Ho. destruct p as [o g0 g1]. cbn [ap_owner ap_g0 ap_g1] in *.
  unfold attached. cbn [ap_owner ap_g0 ap_g1].
  destruct (loaded g0) eqn:L0, (loaded g1) eqn:L1; cbn [orb xorb andb negb].
  - (* both loaded: only the owner's load *)
    apply (filter_single _ objs o Hnd); [destruct Ho; subst; assumption| |].
    + intros x Hx. apply andb_true_iff in Hx. destruct Hx as [_ Hx]. rewrite !andb_false_r, orb_false_r in Hx. apply Nat.eqb_eq in Hx. congruence.
    + destruct Ho; subst; rewrite ?L0, ?L1, Nat.eqb_refl; reflexivity.
  - (* only the object of half 0 *)
    apply (filter_single _ objs g0 Hnd H0).
    + intros x Hx. apply andb_true_iff in Hx. destruct Hx as [Lx Hx]. apply orb_true_iff in Hx. destruct Hx as [Hx|Hx].
      * apply Nat.eqb_eq in Hx. subst x. destruct Ho; subst; congruence.
      * rewrite !andb_true_iff in Hx. destruct Hx as [[_ Hx] _]. apply Nat.eqb_eq in Hx. congruence.
    + rewrite L0. cbn [andb]. destruct (Nat.eqb_spec o g0) as [E|E]; [reflexivity|]. cbn [orb].
      destruct Ho as [Ho|Ho]; [contradiction|]. subst o.
      assert (Nat.eqb g0 g1 = false) as -> by (apply Nat.eqb_neq; congruence). rewrite Nat.eqb_refl. reflexivity.
  - (* only the object of half 1 *)
    apply (filter_single _ objs g1 Hnd H1).
    + intros x Hx. apply andb_true_iff in Hx. destruct Hx as [Lx Hx]. apply orb_true_iff in Hx. destruct Hx as [Hx|Hx].
      * apply Nat.eqb_eq in Hx. subst x. destruct Ho; subst; congruence.
      * rewrite !andb_true_iff in Hx. destruct Hx as [[_ Hx] _]. apply Nat.eqb_eq in Hx. congruence.
    + rewrite L1. cbn [andb]. destruct (Nat.eqb_spec o g1) as [E|E]; [reflexivity|]. cbn [orb].
      destruct Ho as [Ho|Ho]; [|contradiction]. subst o.
      assert (Nat.eqb g0 g1 = false) as -> by (apply Nat.eqb_neq; congruence). rewrite Nat.eqb_refl. reflexivity.
  - apply filter_none_len. intros x. destruct (loaded x) eqn:Lx; [|reflexivity]. cbn [andb].
    rewrite andb_false_r. cbn [andb orb]. rewrite orb_false_r. apply Nat.eqb_neq. intros E. subst x. destruct Ho; subst; congruence.
Qed.

(* hence every half on a loaded object is charged exactly once, every other half never *)
Theorem half_charged_once (loaded : nat -> bool) (objs : list nat) (p : apulse) (h : bool) :
  NoDup objs -> In (ap_g0 p) objs -> In (ap_g1 p) objs -> (ap_owner p = ap_g0 p \/ ap_owner p = ap_g1 p) ->
  charged loaded objs p h = if loaded (if h then ap_g1 p else ap_g0 p) then 1 else 0.
Proof.
  intros Hnd H0 H1 Ho. unfold charged. rewrite (attached_once loaded objs p Hnd H0 H1 Ho).
  destruct h; destruct (loaded (ap_g0 p)), (loaded (ap_g1 p)); reflexivity.
Qed.

(* the one-sided rule loses the junction pulse owned by a bare wire whose FIRST half lies on the loaded wire *)
Theorem second_only_refuted :
  let loaded := fun g => Nat.eqb g 0 in
  let p := mkAP 1 0 1 in            (* junction pulse of bare wire 1: half 0 on the end segment of loaded wire 0 *)
  length (filter (attached_second_only loaded p) [0; 1]) = 0 /\ length (filter (attached loaded p) [0; 1]) = 1.
Proof. split; reflexivity. Qed.

(* recorded finding C06-partial-load-at-multiwire-junction: k later wires join the end of wire 0; its end half-segment is
   a half of each of the k junction pulses and is charged k times when only wire 0 is loaded *)
Lemma overcount_gen (n k : nat) : k <= n ->
  fold_right Nat.add 0 (map (fun p => charged (fun g => Nat.eqb g 0) (seq 0 (S n)) p false) (map (fun j => mkAP (S j) 0 (S j)) (seq 0 k))) = k.
Proof.
  induction k as [|k IH]; intros Hk; [reflexivity|].
  rewrite (seq_S k 0), !map_app, fold_right_app. cbn [map fold_right Nat.add].
  rewrite half_charged_once; [|apply seq_NoDup|apply in_seq; cbn; lia|apply in_seq; cbn; lia|right; reflexivity].
  cbn [ap_g0 Nat.eqb]. rewrite Nat.add_0_r.
  assert (forall l acc, fold_right Nat.add acc l = fold_right Nat.add 0 l + acc) as Hf.
  { induction l as [|x r IHr]; intros acc; cbn; [reflexivity|]. rewrite IHr. lia. }
  rewrite Hf, IH by lia. lia.
Qed.
Theorem multiwire_junction_overcount (k : nat) :
  let loaded := fun g => Nat.eqb g 0 in
  let pulses := map (fun j => mkAP (S j) 0 (S j)) (seq 0 k) in
  fold_right Nat.add 0 (map (fun p => charged loaded (seq 0 (S k)) p false) pulses) = k.
Proof. cbv zeta. apply overcount_gen. lia. Qed.
