(* Theorems about the potential integral (C02, C05, C06, C03). *)
From Coq Require Import ZArith List Bool Arith Lia Reals Lra.
From Coquelicot Require Import Coquelicot.
From PM Require Import Base.Num Base.RNum Base.Cplx Base.CplxR Gen.Tables Model.Kernel Model.Geometry
     Proofs.CxAlg Proofs.GeometryR.
Import ListNotations.

(* ---- the image pass integrates the same kernel over the reversed chord ---- *)
Lemma integrand_image (w srm t : R) (a b : V3R) (r : R) (ex : bool) :
  @integrand RNum w srm t a b (-1)%R r ex = @integrand RNum w srm t b a 1%R r ex.
Proof.
  unfold integrand.
  assert (@ltb RNum (-1)%R zero = true) as -> by (cbn; apply Rltb_true; lra).
  assert (@ltb RNum 1%R zero = false) as -> by (cbn; apply Rltb_false; lra).
  reflexivity.
Qed.

Lemma fast_quad_image w srm bb tab (a b : V3R) r ex :
  @fast_quad RNum w srm bb tab a b (-1)%R r ex = @fast_quad RNum w srm bb tab b a 1%R r ex.
Proof.
  unfold fast_quad. generalize (@c0 RNum). induction tab as [|xw tab IH]; intros acc; cbn [fold_left]; [reflexivity|].
  rewrite integrand_image. apply IH.
Qed.

Lemma v3norm_sym_sum (a b : V3R) : (v3norm a + v3norm b = v3norm b + v3norm a)%R.
Proof. ring. Qed.

Lemma psi_image_proof (w srm : R) (a b : V3R) (scale : R) kp ex fvs :
  @psi RNum w srm a b (-1)%R scale kp ex fvs = @psi RNum w srm b a 1%R scale kp ex fvs.
Proof.
  unfold psi. cbv zeta. cbn [add RNum]. rewrite (Rplus_comm (v3norm a) (v3norm b)).
  rewrite fast_quad_image. reflexivity.
Qed.

(* ---- rotations (and any linear isometry acting on the chord) leave psi unchanged ---- *)
Lemma m3apply_affine (M : @M3 RNum) (a b : V3R) (t : R) :
  m3apply M (v3add a (@v3scale RNum t (v3sub b a))) = v3add (m3apply M a) (@v3scale RNum t (v3sub (m3apply M b) (m3apply M a))).
Proof.
  destruct M as [[[[a1 a2] a3] [[a4 a5] a6]] [[a7 a8] a9]]. destruct a as [[x y] z], b as [[p q] s].
  v3_unfold. f_equal; [f_equal|]; Rgoal; ring.
Qed.

Lemma rotation_norm (ax ay az : R) (v : V3R) : v3norm (m3apply (@rotation RNum ax ay az) v) = v3norm v.
Proof.
  unfold v3norm. f_equal. destruct (rotation_isometry_proof ax ay az v v) as [H _]. exact H.
Qed.

Lemma integrand_rot (w srm t : R) (ax ay az : R) (a b : V3R) (k r : R) ex :
  @integrand RNum w srm t (m3apply (@rotation RNum ax ay az) a) (m3apply (@rotation RNum ax ay az) b) k r ex =
  @integrand RNum w srm t a b k r ex.
Proof.
  unfold integrand. destruct (@ltb RNum k zero); cbv zeta;
    rewrite <- m3apply_affine, rotation_norm; reflexivity.
Qed.

Lemma fast_quad_rot w srm bb tab ax ay az (a b : V3R) k r ex :
  @fast_quad RNum w srm bb tab (m3apply (@rotation RNum ax ay az) a) (m3apply (@rotation RNum ax ay az) b) k r ex =
  @fast_quad RNum w srm bb tab a b k r ex.
Proof.
  unfold fast_quad. generalize (@c0 RNum). induction tab as [|xw tab IH]; intros acc; cbn [fold_left]; [reflexivity|].
  rewrite integrand_rot. apply IH.
Qed.

Lemma psi_rotation_proof (w srm : R) (ax ay az : R) (a b : V3R) (k scale : R) kp ex fvs :
  @psi RNum w srm (m3apply (@rotation RNum ax ay az) a) (m3apply (@rotation RNum ax ay az) b) k scale kp ex fvs =
  @psi RNum w srm a b k scale kp ex fvs.
Proof. unfold psi. cbv zeta. rewrite !rotation_norm, fast_quad_rot. reflexivity. Qed.

(* translations: psi only sees differences source - observer *)
Lemma diff_translate (a o c : V3R) : v3sub (v3add a c) (v3add o c) = v3sub a o.
Proof. destruct a as [[x y] z], o as [[p q] s], c as [[u v] t]. v3_unfold. f_equal; [f_equal|]; Rgoal; ring. Qed.

(* ---- electromagnetic scaling: lengths x s, wave number / s ---- *)
Lemma v3norm_scale_pos (s : R) (v : V3R) : (0 < s)%R -> v3norm (@v3scale RNum s v) = (s * v3norm v)%R.
Proof. intros Hs. rewrite v3norm_scale, Rabs_right by lra. reflexivity. Qed.

Lemma integrand_thin_scaling (w srm t s : R) (a b : V3R) (r : R) :
  (0 < s)%R -> (r <= srm)%R ->
  v3norm (v3add a (@v3scale RNum t (v3sub b a))) <> 0%R ->
  @integrand RNum (w / s)%R (s * srm)%R t (@v3scale RNum s a) (@v3scale RNum s b) 1%R (s * r)%R false =
  @cdivr RNum (@integrand RNum w srm t a b 1%R r false) s.
Proof.
  intros Hs Hr Hn. unfold integrand.
  assert (@ltb RNum 1%R zero = false) as -> by (cbn; apply Rltb_false; lra).
  assert (@ltb RNum srm r = false) as -> by (cbn; apply Rltb_false; lra).
  assert (@ltb RNum (s * srm)%R (s * r)%R = false) as -> by (cbn; apply Rltb_false; nra).
  cbn [andb]. cbv zeta.
  assert (v3add (@v3scale RNum s a) (@v3scale RNum t (v3sub (@v3scale RNum s b) (@v3scale RNum s a))) =
          @v3scale RNum s (v3add a (@v3scale RNum t (v3sub b a)))) as ->.
  { destruct a as [[x y] z], b as [[p q] u]. v3_unfold. f_equal; [f_equal|]; Rgoal; ring. }
  rewrite v3norm_scale_pos by exact Hs. set (d := v3norm _) in *.
  unfold cexpj, cdivr, cadd, cofR. cx_unfold. cbv [ncos nsin RNum].
  replace (- (s * d * (w / s)))%R with (- (d * w))%R by (field; lra).
  f_equal; field; split; lra.
Qed.

(* ---- the Gauss tables are symmetric, so both orientations of a source
   segment give the same psi (far pairs: non-exact kernel) ---- *)
Definition negz (p : (Z * Z) * (Z * Z)) : (Z * Z) * (Z * Z) := ((- fst (fst p), snd (fst p))%Z, snd p).
Lemma gauss_tables_symmetric :
  map negz gauss2z = rev gauss2z /\ map negz gauss4z = rev gauss4z /\ map negz gauss8z = rev gauss8z.
Proof. repeat split; vm_compute; reflexivity. Qed.

Definition negx (p : R * R) : R * R := ((- fst p)%R, snd p).
Lemma dyad2_negz p : @dyad2 RNum (negz p) = negx (dyad2 p).
Proof.
  destruct p as [[m k] wk]. unfold dyad2, negz, negx, dyad. cbn [fst snd].
  f_equal. cx_unfold. rewrite opp_IZR. unfold Rdiv. ring.
Qed.

Lemma csum_rev (l : list CR) : csum (rev l) = csum l.
Proof.
  induction l as [|a l IH]; [reflexivity|]. cbn [rev csum].
  assert (forall l1 l2 : list CR, csum (l1 ++ l2) = cadd (csum l1) (csum l2)) as Happ.
  { induction l1 as [|x l1 IH1]; intros l2; cbn [csum app]; [rewrite cadd_0_l; reflexivity|]. rewrite IH1. apply cadd_assoc. }
  rewrite Happ, IH. cbn [csum]. rewrite cadd_0_r. apply cadd_comm.
Qed.

Lemma fast_quad_csum w srm bb (tab : list (R * R)) (a b : V3R) k r ex :
  @fast_quad RNum w srm bb tab a b k r ex =
  csum (map (fun xw => cscale (snd xw) (@integrand RNum w srm (@mul RNum (@add RNum (fst xw) half) bb) a b k r ex)) tab).
Proof.
  unfold fast_quad.
  assert (forall acc, fold_left (fun acc xw => cadd acc (cscale (snd xw) (@integrand RNum w srm (mul (add (fst xw) half) bb) a b k r ex))) tab acc
                      = cadd acc (csum (map (fun xw => cscale (snd xw) (@integrand RNum w srm (@mul RNum (@add RNum (fst xw) half) bb) a b k r ex)) tab))) as H.
  { induction tab as [|xw tab IH]; intros acc; cbn [fold_left map csum]; [rewrite cadd_0_r; reflexivity|].
    rewrite IH. rewrite cadd_assoc. reflexivity. }
  rewrite H. apply cadd_0_l.
Qed.

Lemma integrand_reverse (w srm t : R) (a b : V3R) (r : R) ex :
  @integrand RNum w srm t b a 1%R r ex = @integrand RNum w srm (1 - t)%R a b 1%R r ex.
Proof.
  unfold integrand.
  assert (@ltb RNum 1%R zero = false) as -> by (cbn; apply Rltb_false; lra).
  cbv zeta.
  assert (v3add b (@v3scale RNum t (v3sub a b)) = v3add a (@v3scale RNum (1 - t)%R (v3sub b a))) as ->.
  { destruct a as [[x y] z], b as [[p q] u]. v3_unfold. f_equal; [f_equal|]; Rgoal; ring. }
  reflexivity.
Qed.

Lemma fast_quad_reverse w srm (tabz : list ((Z * Z) * (Z * Z))) (a b : V3R) r ex :
  map negz tabz = rev tabz ->
  @fast_quad RNum w srm 1%R (map dyad2 tabz) b a 1%R r ex = @fast_quad RNum w srm 1%R (map dyad2 tabz) a b 1%R r ex.
Proof.
  intros Hsym. rewrite !fast_quad_csum.
  rewrite (map_ext _ (fun xw => @cscale RNum (snd (negx xw)) (@integrand RNum w srm (@mul RNum (@add RNum (fst (negx xw)) half) 1%R) a b 1%R r ex))).
  2:{ intros [x wt]. unfold negx. cbn [fst snd]. rewrite integrand_reverse. f_equal. f_equal. cx_unfold. Rgoal. field. }
  rewrite <- (map_map negx (fun xw => @cscale RNum (snd xw) (@integrand RNum w srm (@mul RNum (@add RNum (fst xw) half) 1%R) a b 1%R r ex))).
  assert (map negx (map dyad2 tabz) = rev (map (@dyad2 RNum) tabz)) as ->.
  { rewrite <- map_rev, <- Hsym, !map_map. apply map_ext. intros p. symmetry. apply dyad2_negz. }
  rewrite map_rev. apply csum_rev.
Qed.

(* psi for a far pair (non-exact kernel) does not depend on the orientation of
   the source segment: the tables used are gauss2 / gauss4 / gauss8 *)
Lemma psi_reverse_proof (w srm : R) (a b : V3R) (scale : R) kp fvs :
  @psi RNum w srm b a 1%R scale kp false fvs = @psi RNum w srm a b 1%R scale kp false fvs.
Proof.
  destruct gauss_tables_symmetric as [S2 [S4 S8]].
  unfold psi. cbv zeta. cbn [andb]. cbn [add RNum]. rewrite (Rplus_comm (v3norm b) (v3norm a)).
  assert (@div RNum one one = 1%R) as -> by (cx_unfold; Rgoal; field).
  unfold gauss2, gauss4, gauss8.
  destruct (@ltb RNum (of_Z 10) _); [rewrite (fast_quad_reverse _ _ gauss2z) by exact S2; reflexivity|].
  destruct (@ltb RNum (of_Z 6) _); [rewrite (fast_quad_reverse _ _ gauss4z) by exact S4; reflexivity|].
  rewrite (fast_quad_reverse _ _ gauss8z) by exact S8. reflexivity.
Qed.
