(* Theorems about the near-field model (C04). *)
From Coq Require Import ZArith List Bool Arith Lia Reals Lra.
From Coquelicot Require Import Coquelicot.
From Interval Require Import Tactic.
From PM Require Import Base.Num Base.RNum Base.Cplx Base.CplxR Gen.Extracted Gen.Tables Model.Kernel Model.Geometry
     Model.ZMatrix Model.NearField Proofs.CxAlg Proofs.GeometryR Proofs.KernelP.
Import ListNotations.

(* ---- psi only sees the distance between source and observer ---- *)
Definition diff_even (psi_f : V3R -> V3R -> R -> R -> @kparam RNum -> bool -> bool -> CR) : Prop :=
  forall o x y k s kp e f, psi_f (v3sub o x) (v3sub o y) k s kp e f = psi_f (v3sub x o) (v3sub y o) k s kp e f.

Lemma v3norm_swap (o x : V3R) : v3norm (v3sub o x) = v3norm (v3sub x o).
Proof.
  destruct o as [[a b] c], x as [[p q] r]. unfold v3norm. f_equal. v3_unfold. Rgoal. ring.
Qed.

Lemma affine_swap (o x y : V3R) (t : R) :
  v3norm (v3add (v3sub o x) (@v3scale RNum t (v3sub (v3sub o y) (v3sub o x)))) =
  v3norm (v3add (v3sub x o) (@v3scale RNum t (v3sub (v3sub y o) (v3sub x o)))).
Proof.
  destruct o as [[a b] c], x as [[p q] r], y as [[u v] z]. unfold v3norm. f_equal. v3_unfold. Rgoal. ring.
Qed.

Lemma integrand_swap (w srm t : R) (o x y : V3R) (k r : R) ex :
  @integrand RNum w srm t (v3sub o x) (v3sub o y) k r ex = @integrand RNum w srm t (v3sub x o) (v3sub y o) k r ex.
Proof.
  unfold integrand. destruct (@ltb RNum k zero); cbv zeta; rewrite affine_swap; reflexivity.
Qed.

Lemma fast_quad_swap w srm bb tab (o x y : V3R) k r ex :
  @fast_quad RNum w srm bb tab (v3sub o x) (v3sub o y) k r ex = @fast_quad RNum w srm bb tab (v3sub x o) (v3sub y o) k r ex.
Proof.
  unfold fast_quad. generalize (@c0 RNum). induction tab as [|xw tab IH]; intros acc; cbn [fold_left]; [reflexivity|].
  rewrite integrand_swap. apply IH.
Qed.

Lemma psi_diff_even (w srm : R) : diff_even (@psi RNum w srm).
Proof.
  intros o x y k s kp e f. unfold psi. cbv zeta.
  rewrite (v3norm_swap o x), (v3norm_swap o y), fast_quad_swap. reflexivity.
Qed.

(* ---- the E-field kernel is the impedance-matrix formula applied to a virtual
   test dipole of half-length s0 along axis i at the observation point ---- *)
Definition vdip (obs : V3R) (s0 : R) (i : nat) (obj : nat) : @zpulse RNum :=
  mkZP obs (v3sub obs (@unit_v RNum i s0), v3add obs (@unit_v RNum i s0)) (s0, s0)
       (@unit_v RNum i 1%R, @unit_v RNum i 1%R) (1%R, 1%R) (0%R, 0%R) (1%R, 1%R) (1%R, 1%R) (false, false) obj (obj, obj).

Lemma ltb_half_zero : @ltb RNum (@half RNum) zero = false.
Proof. cbn. apply Rltb_false. unfold half, one, two; cbn. lra. Qed.
Lemma ltb_zero_half : @ltb RNum zero (@half RNum) = true.
Proof. cbn. apply Rltb_true. unfold half, one, two; cbn. lra. Qed.
Lemma ltb_mhalf_zero : @ltb RNum (- @half RNum)%R zero = true.
Proof. cbn. apply Rltb_true. unfold half, one, two; cbn. lra. Qed.
Lemma ltb_zero_mhalf : @ltb RNum zero (- @half RNum)%R = false.
Proof. cbn. apply Rltb_false. unfold half, one, two; cbn. lra. Qed.
Lemma ltb_one_zero : @ltb RNum one zero = false.
Proof. cbn. apply Rltb_false. lra. Qed.
Lemma ltb_mone_zero : @ltb RNum (- 1)%R zero = true.
Proof. cbn. apply Rltb_true. lra. Qed.

Lemma endseg_vdip_plus obs s0 i obj :
  endseg (vdip obs s0 i obj) (@half RNum) = v3add obs (@unit_v RNum i (s0 / 2)%R).
Proof.
  unfold endseg. rewrite ltb_zero_half. cbn [vdip zp_ends zp_point pick snd].
  destruct obs as [[a b] c]. destruct i as [|[|i]]; v3_unfold; cbn [unit_v]; v3_unfold;
    unfold half, two, one; cbn; rewrite Rabs_right by lra; f_equal; [f_equal| |f_equal| |f_equal|]; field.
Qed.
Lemma endseg_vdip_minus obs s0 i obj :
  endseg (vdip obs s0 i obj) (- @half RNum)%R = v3add obs (@unit_v RNum i (- (s0 / 2))%R).
Proof.
  unfold endseg. rewrite ltb_zero_mhalf. cbn [vdip zp_ends zp_point pick fst].
  destruct obs as [[a b] c]. destruct i as [|[|i]]; v3_unfold; cbn [unit_v]; v3_unfold;
    unfold half, two, one; cbn; rewrite Rabs_left by lra; f_equal; [f_equal| |f_equal| |f_equal|]; field.
Qed.

Section VirtualRow.
Variable w srm w2 : R.
Variable psi_f : V3R -> V3R -> R -> R -> @kparam RNum -> bool -> bool -> CR.
Variable conn : nat -> nat -> bool.
Hypothesis Heven : diff_even psi_f.
Hypothesis Hconn : forall a b, conn a b = false.

Lemma vecpot_virtual k obs s0 i (p : @zpulse RNum) pos :
  vecpot w srm psi_f conn [vdip obs s0 i (S (zp_obj p)); p] k 0 1 pos =
  let ds := if pos then @half RNum else (- @half RNum)%R in
  let dv := dvecs p ds in
  psi_f (v3sub obs (kv k (fst dv))) (v3sub obs (kv k (snd dv))) k ds (kparam_of p pos) false false.
Proof.
  unfold vecpot. cbn [Nat.eqb andb P nth vdip zp_point zp_obj]. rewrite Hconn. cbv zeta.
  rewrite Heven. reflexivity.
Qed.

Lemma scapot_virtual k obs s0 i (p : @zpulse RNum) pos1 pos2 :
  scapot w srm psi_f conn [vdip obs s0 i (S (zp_obj p)); p] k 0 1 pos1 pos2 =
  psi56 psi_f k obs s0 i pos1 p pos2.
Proof.
  unfold scapot, psi56. cbn [P nth]. 
  assert (Nat.eqb (zp_obj (vdip obs s0 i (S (zp_obj p)))) (zp_obj p) = false) as ->.
  { cbn [vdip zp_obj]. apply Nat.eqb_neq. lia. }
  rewrite andb_false_r. cbn [andb]. cbv zeta. rewrite Hconn.
  destruct pos1; [rewrite endseg_vdip_plus | rewrite endseg_vdip_minus]; rewrite Heven; reflexivity.
Qed.
End VirtualRow.

Lemma virtual_row_proof (w srm w2 : R) psi_f conn k obs s0 (p : @zpulse RNum) (i : nat) :
  diff_even psi_f -> (forall a b, conn a b = false) -> (i < 3)%nat ->
  e_kernel w2 psi_f k obs s0 p i =
  @cscale RNum k (entry w srm w2 psi_f conn [vdip obs s0 i (S (zp_obj p)); p] k 0 0 1).
Proof.
  intros He Hc Hi. unfold e_kernel, entry. cbv zeta. cbn [Nat.ltb Nat.leb Nat.eqb].
  rewrite !(scapot_virtual w srm psi_f conn He Hc), !(vecpot_virtual w srm psi_f conn He Hc).
  cbv zeta. unfold nf_helper. cbv zeta.
  unfold dvecs. rewrite ltb_half_zero, ltb_mhalf_zero. cbn [fst snd P nth].
  change (@opp RNum (@half RNum)) with (- @half RNum)%R.
  set (U := psi_f _ _ k (@half RNum) _ _ _). set (V := psi_f _ _ k (- @half RNum)%R _ _ _).
  set (A := psi56 _ _ _ _ _ false _ true). set (B := psi56 _ _ _ _ _ true _ true).
  set (C := psi56 _ _ _ _ _ true _ false). set (D := psi56 _ _ _ _ _ false _ false).
  set (X := cadd (cdivr _ _) (cdivr _ _)). clearbody U V X. clear A B C D.
  set (su := zp_sign p true). set (sv := zp_sign p false). clearbody su sv.
  unfold zzz. cbn [P nth vdip zp_dsgn zp_len zp_dir fst snd].
  destruct (zp_dir p) as [[[d0x d0y] d0z] [[d1x d1y] d1z]]. destruct (zp_gsgn p) as [g0 g1].
  destruct U as [ur ui], V as [vr vi], X as [xr xi].
  destruct i as [|[|[|i]]]; [| | |lia]; cbn [c3comp unit_v fst snd]; v3_unfold; cx_unfold; cbn [fst snd];
    unfold two, one; cbn; f_equal; ring.
Qed.


(* ---- both fields scale with the square root of the requested power ---- *)
Definition c3scale (s : R) (a : @C3 RNum) : @C3 RNum :=
  (@cscale RNum s (fst (fst a)), @cscale RNum s (snd (fst a)), @cscale RNum s (snd a)).

Lemma power_scaling_proof w2 psi_f m s0 power pwr c g ps cur obs :
  (0 <= c)%R -> (0 <= pwr / power)%R ->
  @near_field RNum w2 psi_f m s0 power (c * pwr)%R g ps cur obs =
  let r := @near_field RNum w2 psi_f m s0 power pwr g ps cur obs in
  (c3scale (sqrt c) (fst r), c3scale (sqrt c) (snd r)).
Proof.
  intros Hc Hp. unfold near_field. cbv zeta. cbn [fst snd c3scale].
  assert (@nsqrt RNum (@div RNum (c * pwr)%R power) = (sqrt c * @nsqrt RNum (@div RNum pwr power))%R) as ->.
  { cbn. replace (c * pwr / power)%R with (c * (pwr / power))%R by (unfold Rdiv; ring).
    apply sqrt_mult; assumption. }
  set (q := @nsqrt RNum _). clearbody q.
  assert (Hs : forall a b (z : CR), @cscale RNum (a * b)%R z = @cscale RNum a (@cscale RNum b z)) by cx_ring.
  replace (@div RNum (@div RNum (sqrt c * q)%R s0) (@mul RNum (@of_Z RNum 4) (@npi RNum)))
     with (sqrt c * (@div RNum (@div RNum q s0) (@mul RNum (@of_Z RNum 4) (@npi RNum))))%R by (cbn; unfold Rdiv; ring).
  rewrite !Hs. reflexivity.
Qed.

Ltac pair_ring := repeat match goal with |- (_, _) = (_, _) => apply f_equal2 end; ring.
(* ---- the fields are linear in the currents ---- *)
Definition c3lin (a : CR) (x : @C3 RNum) (b : CR) (y : @C3 RNum) : @C3 RNum := c3a (c3k a x) (c3k b y).

Lemma csum_map_lin {A} (f : A -> CR) (a b : CR) (l : list A) (x y : vecR) :
  length x = length y ->
  csum (map (fun pc => cmul (f (fst pc)) (snd pc)) (combine l (vlin a x b y))) =
  cadd (cmul a (csum (map (fun pc => cmul (f (fst pc)) (snd pc)) (combine l x))))
       (cmul b (csum (map (fun pc => cmul (f (fst pc)) (snd pc)) (combine l y)))).
Proof.
  revert x y. induction l as [|p l IH]; intros x y Hl.
  - cbn. cx_ring.
  - destruct x as [|x0 x], y as [|y0 y]; try discriminate.
    + cbn. cx_ring.
    + unfold vlin in *. cbn [vadd vscale map combine csum fst snd]. 
      change (map (fun p0 : CR * CR => cadd (fst p0) (snd p0)) (combine (map (cmul a) x) (map (cmul b) y)))
        with (vadd (vscale a x) (vscale b y)).
      rewrite IH by (cbn in Hl; lia).
      generalize (csum (map (fun pc : A * CR => cmul (f (fst pc)) (snd pc)) (combine l x))).
      generalize (csum (map (fun pc : A * CR => cmul (f (fst pc)) (snd pc)) (combine l y))).
      generalize (f p). cx_ring.
Qed.

Lemma e_component_linear w2 psi_f ks obs s0 ps (a b : CR) (x y : vecR) i :
  length x = length y ->
  @e_component RNum w2 psi_f ks obs s0 ps (vlin a x b y) i =
  cadd (cmul a (@e_component RNum w2 psi_f ks obs s0 ps x i)) (cmul b (@e_component RNum w2 psi_f ks obs s0 ps y i)).
Proof. intros H. unfold e_component. apply (csum_map_lin (fun p => csum (map (fun k => if image_ok k p then e_kernel w2 psi_f k obs s0 p i else c0) ks))). exact H. Qed.

Lemma c3a_fold_shift (l : list (@C3 RNum)) (acc : @C3 RNum) :
  fold_left c3a l acc = c3a acc (fold_left c3a l c3z).
Proof.
  revert acc. induction l as [|h l IH]; intros acc; cbn [fold_left].
  - destruct acc as [[[a1 a2] [b1 b2]] [c1 c2]]. unfold c3a, c3z. cbn [fst snd]. cx_unfold. cbn [fst snd zero one RNum]. pair_ring.
  - rewrite IH, (IH (c3a c3z h)).
    destruct acc as [[[a1 a2] [b1 b2]] [c1 c2]], h as [[[h1 h2] [h3 h4]] [h5 h6]].
    destruct (fold_left c3a l c3z) as [[[f1 f2] [f3 f4]] [f5 f6]].
    unfold c3a, c3z. cbn [fst snd]. cx_unfold. cbn [fst snd zero one RNum]. pair_ring.
Qed.

Lemma a_total_linear psi_f ks obs ps (a b : CR) (x y : vecR) :
  length x = length y ->
  @a_total RNum psi_f ks obs ps (vlin a x b y) = c3lin a (@a_total RNum psi_f ks obs ps x) b (@a_total RNum psi_f ks obs ps y).
Proof.
  unfold a_total.
  set (F := fun p => fold_left c3a (map (fun k => if image_ok k p then c3k (cofR k) (nf_helper psi_f k obs p) else c3z) ks) c3z).
  change (fun pc : zpulse * Cx => c3k (snd pc) (fold_left c3a (map (fun k : T => if image_ok k (fst pc) then c3k (cofR k) (nf_helper psi_f k obs (fst pc)) else c3z) ks) c3z))
    with (fun pc : @zpulse RNum * CR => c3k (snd pc) (F (fst pc))).
  clearbody F. revert x y. induction ps as [|p ps IH]; intros x y Hl.
  - cbn. unfold c3lin, c3a, c3k, c3z. cbn [fst snd]. destruct a, b. cx_unfold. cbn [fst snd zero one RNum]. pair_ring.
  - destruct x as [|x0 x], y as [|y0 y]; try discriminate.
    + cbn. unfold c3lin, c3a, c3k, c3z. cbn [fst snd]. destruct a, b. cx_unfold. cbn [fst snd zero one RNum]. pair_ring.
    + unfold vlin. cbn [vadd vscale map combine fold_left fst snd].
      change (map (fun p0 : CR * CR => cadd (fst p0) (snd p0)) (combine (map (cmul a) x) (map (cmul b) y)))
        with (vlin a x b y).
      rewrite c3a_fold_shift, IH by (cbn in Hl; lia).
      rewrite (c3a_fold_shift _ (c3a c3z (c3k x0 (F p)))), (c3a_fold_shift _ (c3a c3z (c3k y0 (F p)))).
      generalize (fold_left c3a (map (fun pc : zpulse * CR => c3k (snd pc) (F (fst pc))) (combine ps x)) c3z).
      generalize (fold_left c3a (map (fun pc : zpulse * CR => c3k (snd pc) (F (fst pc))) (combine ps y)) c3z).
      generalize (F p). intros [[[f1 f2] [f3 f4]] [f5 f6]] [[[u1 u2] [u3 u4]] [u5 u6]] [[[v1 v2] [v3 v4]] [v5 v6]].
      destruct a as [a1 a2], b as [b1 b2], x0 as [x1 x2], y0 as [y1 y2].
      unfold c3lin, c3a, c3k, c3z. cbn [fst snd]. cx_unfold. cbn [fst snd zero one RNum]. pair_ring.
Qed.

Lemma near_field_linear_proof w2 psi_f m s0 power pwr g ps (a b : CR) (x y : vecR) obs :
  length x = length y ->
  @near_field RNum w2 psi_f m s0 power pwr g ps (vlin a x b y) obs =
  let rx := @near_field RNum w2 psi_f m s0 power pwr g ps x obs in
  let ry := @near_field RNum w2 psi_f m s0 power pwr g ps y obs in
  (c3lin a (fst rx) b (fst ry), c3lin a (snd rx) b (snd ry)).
Proof.
  intros Hl. unfold near_field. cbv zeta. cbn [fst snd].
  rewrite !(e_component_linear _ _ _ _ _ _ _ _ _ _ _ Hl), !(a_total_linear _ _ _ _ _ _ _ _ Hl).
  set (q := @nsqrt RNum _). set (qh := @div RNum (@div RNum q s0) _). clearbody q qh.
  repeat match goal with |- context [@e_component RNum ?a ?b ?c ?d ?e ?f ?g ?h] =>
    let n := fresh "e" in set (n := @e_component RNum a b c d e f g h); clearbody n end.
  repeat match goal with |- context [@a_total RNum ?a ?b ?c ?d ?e] =>
    let n := fresh "A" in set (n := @a_total RNum a b c d e); clearbody n end.
  repeat match goal with A : @C3 RNum |- _ => destruct A as [[[? ?] [? ?]] [? ?]] end.
  repeat match goal with e : CR |- _ => destruct e as [? ?] end.
  repeat match goal with e : @Cx RNum |- _ => destruct e as [? ?] end.
  unfold c3lin, c3a, c3k, c3comp. cbn [fst snd]. cx_unfold. cbn [fst snd zero one RNum]. pair_ring.
Qed.

Lemma wave_impedance_constant_proof (f : R) : (0 < f)%R ->
  (Rabs (4 * PI * (@f_m RNum f * @f_w RNum f) - 376.73) <= 0.6)%R.
Proof.
  intros Hf. unfold f_m, f_w, fset. cbv zeta. cx_unfold. cbn [npi RNum].
  replace (4 * PI * (477783352 / 100000000 * (2998 / 10 / f) * (2 * PI / (2998 / 10 / f))))%R
     with (4 * PI * (477783352 / 100000000 * (2 * PI)))%R by (field; lra).
  interval.
Qed.

