(* The exception flow of main as regenerated from its syntax tree (Gen/MainFlow.v): no exception a primitive can
   raise escapes the try statements around the place where main performs it (C20). *)
From Coq Require Import ZArith List Bool Arith Lia Reals Lra.
From PM Require Import Model.Main Gen.MainFlow.
Import ListNotations.

Lemma exn_eqb_refl e : exn_eqb e e = true.
Proof. destruct e; reflexivity. Qed.

Lemma sites_safe_computed : forallb site_safe main_sites = true.
Proof. vm_compute. reflexivity. Qed.

Theorem no_site_escapes_proof :
  forall s e, In s main_sites -> In e (prim_raises (s_prim s)) -> site_caught s e = true.
Proof.
  intros s e Hs He. pose proof sites_safe_computed as H. rewrite forallb_forall in H. specialize (H s Hs).
  unfold site_safe in H. rewrite forallb_forall in H. exact (H e He).
Qed.

Theorem flow_no_uncaught_proof :
  forall k e, (forall s, nth_error main_sites k = Some s -> In e (prim_raises (s_prim s))) ->
    forall j e', run_site main_sites k e <> Uncaught j e'.
Proof.
  intros k e H j e'. unfold run_site. destruct (nth_error main_sites k) as [s|] eqn:Hk; [|discriminate].
  rewrite (no_site_escapes_proof s e (nth_error_In _ _ Hk) (H s eq_refl)). discriminate.
Qed.

(* the generated list is not degenerate: it contains the solver call with the handlers of the numerical stage *)
Lemma compute_site_present :
  existsb (fun s => match s_prim s with PCompute => negb (s_all s) && site_caught s ELinAlg && site_caught s EMemory | _ => false end) main_sites = true.
Proof. vm_compute. reflexivity. Qed.

(* every frequency of a sweep lies between the first and the last one, which main has checked against the guard:
   the setter is only ever called inside the guarded range *)
Theorem sweep_inside_guard_proof :
  forall (f0 d n k B : R), (0 < f0 < B)%R -> (0 < f0 + (n - 1) * d < B)%R -> (0 <= k <= n - 1)%R ->
    (0 < f0 + k * d < B)%R.
Proof.
  intros f0 d n k B [H0 H1] [H2 H3] [H4 H5].
  destruct (Rle_dec 0 d) as [Hd|Hd].
  - assert (0 <= k * d)%R by (apply Rmult_le_pos; lra). assert (0 <= (n - 1 - k) * d)%R by (apply Rmult_le_pos; lra). lra.
  - assert (Hd' : (d < 0)%R) by lra. split; [|assert (0 <= k * (- d))%R by (apply Rmult_le_pos; lra); lra].
    assert (0 <= (n - 1 - k) * (- d))%R by (apply Rmult_le_pos; lra). lra.
Qed.
