From Coq Require Import List Bool Arith ZArith Lia.
Import ListNotations.
From PM Require Import Model.MediaOpts.

Fixpoint vals_list (k : bool) (l : list medium) : list (list V) :=
  match l with [] => [] | m :: tl => vals_of k m tl :: vals_list k tl end.

Lemma meds_of_app a b : meds_of (a ++ b) = meds_of a ++ meds_of b.
Proof. induction a as [|o a IH]; [reflexivity|]. destruct o; cbn; rewrite IH; reflexivity. Qed.

Lemma meds_first_opts c r tl : meds_of (first_opts c r tl) = [].
Proof.
  unfold first_opts. rewrite meds_of_app.
  destruct (has_next tl); destruct r as [[n rv]|]; try reflexivity; destruct n; reflexivity.
Qed.

Lemma meds_write_from k l : forall first c r, meds_of (write_from k first c r l) = vals_list k l.
Proof.
  induction l as [|m tl IH]; intros first c r; [reflexivity|].
  cbn [write_from meds_of vals_list]. rewrite meds_of_app, IH.
  destruct first; [rewrite meds_first_opts|]; reflexivity.
Qed.

Lemma last_sel_app {A} (f : opt -> option A) a b :
  last_sel f (a ++ b) = match last_sel f b with Some x => Some x | None => last_sel f a end.
Proof.
  induction a as [|o a IH]; cbn [app last_sel]; [destruct (last_sel f b); reflexivity|].
  rewrite IH. destruct (last_sel f b); reflexivity.
Qed.

Lemma last_sel_tail {A} (f : opt -> option A) (Hf : forall v, f (OMedium v) = None) k c r l :
  last_sel f (write_from k false c r l) = None.
Proof.
  induction l as [|m tl IH]; [reflexivity|].
  cbn [write_from app last_sel]. rewrite IH. apply Hf.
Qed.

Lemma parse_vals (l : list medium) : parse_all (vals_list true l) = Some l.
Proof.
  induction l as [|m tl IH]; [reflexivity|].
  cbn [vals_list parse_all]. rewrite IH. destruct m as [p c h u]. unfold vals_of. cbn [mp mc mh mcoord andb].
  destruct (has_next tl); cbn [orb app parse_med]; [reflexivity|].
  destruct (Z.eqb u dflt) eqn:E; cbn [negb app parse_med]; [|reflexivity].
  apply Z.eqb_eq in E. subst u. reflexivity.
Qed.

Lemma write_from_cons k c r m tl :
  write_from k true c r (m :: tl) = [OMedium (vals_of k m tl)] ++ first_opts c r tl ++ write_from k false c r tl.
Proof. reflexivity. Qed.

Lemma last_sel_write2 {A} (f : opt -> option A) (Hf : forall v, f (OMedium v) = None) c r m1 m2 tl :
  last_sel f (write_from true true c r (m1 :: m2 :: tl)) = last_sel f (first_opts c r (m2 :: tl)).
Proof.
  rewrite write_from_cons.
  rewrite !last_sel_app, (last_sel_tail f Hf).
  destruct (last_sel f (first_opts c r (m2 :: tl))); [reflexivity|]. cbn. apply Hf.
Qed.

(* writing the media of any object the program can hold and reading the options again gives the same media *)
Lemma media_round_trip_proof (e : env) : wf e -> read (write e) = Some e.
Proof.
  destruct e as [l c r]. unfold wf, write. cbn [e_media e_circ e_rad].
  intros (Hone & Hrad & Hc).
  destruct l as [|m1 [|m2 tl]].
  - (* free space *)
    cbn in Hc. rewrite (Hc ltac:(lia)).
    destruct r as [[n rv]|]; [cbn in Hrad; lia|]. reflexivity.
  - (* one medium *)
    cbn in Hc. rewrite (Hc ltac:(lia)).
    destruct r as [[n rv]|]; [cbn in Hrad; lia|].
    destruct m1 as [p cc h u]. cbn in Hone. subst u. reflexivity.
  - unfold read. rewrite meds_write_from, parse_vals.
    rewrite (last_sel_write2 sel_n (fun _ => eq_refl)), (last_sel_write2 sel_r (fun _ => eq_refl)),
            (last_sel_write2 sel_b (fun _ => eq_refl)).
    destruct r as [[n rv]|].
    + destruct Hrad as (Hn & _ & Hcirc). subst c.
      destruct n as [|n']; [lia|]. reflexivity.
    + reflexivity.
Qed.

(* writing the options of the re-read model gives the same options *)
Lemma media_fixpoint_proof (e : env) : wf e ->
  match read (write e) with Some e' => write e' = write e | None => False end.
Proof. intros H. rewrite (media_round_trip_proof e H). reflexivity. Qed.

(* the writer that never writes the coordinate of the outermost medium loses it *)
Lemma old_writer_refuted_proof :
  exists e, wf e /\ read (write_old e) <> Some e.
Proof.
  exists (mkE [mkM 13 5 0 3; mkM 5 1 (-1) 50] false None)%Z. split.
  - unfold wf; cbn. repeat split; try lia; auto.
  - vm_compute. intros H. discriminate H.
Qed.

(* what is read back is again an object the program can hold *)
Lemma read_wf_example : wf (mkE [mkM 13 5 0 3; mkM 5 1 (-1) 50] true (Some (16%nat, 2)))%Z.
Proof. unfold wf; cbn. repeat split; lia. Qed.
