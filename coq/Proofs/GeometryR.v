(* C13 / C05: metric theorems of the geometry layer over the reals. *)
From Coq Require Import ZArith List Bool Arith Lia Reals Lra Sorting.Sorted Sorting.Permutation.
From Coquelicot Require Import Coquelicot.
From PM Require Import Base.Num Base.RNum Base.Cplx Base.CplxR Model.Taper Model.Topology Model.Geometry
     Proofs.CxAlg Proofs.GeometryP Proofs.Grid.
Import ListNotations.

Notation V3R := (@V3 RNum).
Ltac v3_destruct := repeat match goal with v : V3R |- _ => destruct v as [[? ?] ?] end.
Ltac v3_unfold := cbv [v3add v3sub v3scale v3mulc v3dot v3divr v3zero vx vy vz m3apply m3mul m3col m3row
                       rot_x rot_y rot_z fst snd] in *; cx_unfold.

Lemma v3dot_self_nonneg (v : V3R) : (0 <= v3dot v v)%R.
Proof. v3_destruct. v3_unfold. nra. Qed.

Lemma v3norm_scale (k : R) (v : V3R) : v3norm (@v3scale RNum k v) = (Rabs k * v3norm v)%R.
Proof.
  unfold v3norm. cbv [nsqrt].
  replace (v3dot (@v3scale RNum k v) (@v3scale RNum k v)) with ((k * k) * v3dot v v)%R by (v3_destruct; v3_unfold; ring).
  rewrite sqrt_mult by (try apply v3dot_self_nonneg; nra).
  f_equal. replace (k * k)%R with (Rsqr k) by (unfold Rsqr; ring). apply sqrt_Rsqr_abs.
Qed.

(* scaling multiplies every distance (and the radius) by the factor *)
Lemma scale_distance_proof (k : R) (a b : V3R) :
  v3norm (v3sub (@v3scale RNum k a) (@v3scale RNum k b)) = (Rabs k * v3norm (v3sub a b))%R.
Proof.
  rewrite <- v3norm_scale. f_equal. v3_destruct. v3_unfold. f_equal; [f_equal|]; ring.
Qed.

(* ---- rotations are isometries ---- *)
Lemma sc1 (a : R) : (sin a * sin a + cos a * cos a = 1)%R.
Proof. pose proof (sin2_cos2 a) as H. unfold Rsqr in H. lra. Qed.

Lemma rot_x_dot (a : R) (u v : V3R) : v3dot (m3apply (@rot_x RNum a) u) (m3apply (@rot_x RNum a) v) = v3dot u v.
Proof.
  destruct u as [[u1 u2] u3], v as [[w1 w2] w3]. v3_unfold. cbv [ncos nsin RNum].
  pose proof (sc1 a) as H. set (s := sin a) in *. set (c := cos a) in *.
  replace (_ + _ + _)%R with (u1 * w1 + (s * s + c * c) * (u2 * w2) + (s * s + c * c) * (u3 * w3))%R by ring.
  rewrite H. ring.
Qed.
Lemma rot_y_dot (a : R) (u v : V3R) : v3dot (m3apply (@rot_y RNum a) u) (m3apply (@rot_y RNum a) v) = v3dot u v.
Proof.
  destruct u as [[u1 u2] u3], v as [[w1 w2] w3]. v3_unfold. cbv [ncos nsin RNum].
  pose proof (sc1 a) as H. set (s := sin a) in *. set (c := cos a) in *.
  replace (_ + _ + _)%R with ((s * s + c * c) * (u1 * w1) + (u2 * w2) + (s * s + c * c) * (u3 * w3))%R by ring.
  rewrite H. ring.
Qed.
Lemma rot_z_dot (a : R) (u v : V3R) : v3dot (m3apply (@rot_z RNum a) u) (m3apply (@rot_z RNum a) v) = v3dot u v.
Proof.
  destruct u as [[u1 u2] u3], v as [[w1 w2] w3]. v3_unfold. cbv [ncos nsin RNum].
  pose proof (sc1 a) as H. set (s := sin a) in *. set (c := cos a) in *.
  replace (_ + _ + _)%R with ((s * s + c * c) * (u1 * w1) + (s * s + c * c) * (u2 * w2) + (u3 * w3))%R by ring.
  rewrite H. ring.
Qed.

Lemma m3apply_mul (a b : @M3 RNum) (v : V3R) : m3apply (m3mul a b) v = m3apply a (m3apply b v).
Proof.
  destruct a as [[[[a1 a2] a3] [[a4 a5] a6]] [[a7 a8] a9]].
  destruct b as [[[[b1 b2] b3] [[b4 b5] b6]] [[b7 b8] b9]].
  destruct v as [[v1 v2] v3]. v3_unfold. f_equal; [f_equal|]; ring.
Qed.

(* the order is X first, then Y, then Z *)
Lemma rotation_order_proof (ax ay az : R) (v : V3R) :
  m3apply (@rotation RNum ax ay az) v =
  m3apply (@rot_z RNum (@deg2rad RNum az)) (m3apply (@rot_y RNum (@deg2rad RNum ay)) (m3apply (@rot_x RNum (@deg2rad RNum ax)) v)).
Proof. unfold rotation. rewrite !m3apply_mul. reflexivity. Qed.

Lemma rotation_isometry_proof (ax ay az : R) (u v : V3R) :
  v3dot (m3apply (@rotation RNum ax ay az) u) (m3apply (@rotation RNum ax ay az) v) = v3dot u v /\
  v3norm (v3sub (m3apply (@rotation RNum ax ay az) u) (m3apply (@rotation RNum ax ay az) v)) = v3norm (v3sub u v).
Proof.
  split.
  - rewrite !rotation_order_proof, rot_z_dot, rot_y_dot, rot_x_dot. reflexivity.
  - unfold v3norm. f_equal.
    assert (forall (m : @M3 RNum) (p q : V3R), v3sub (m3apply m p) (m3apply m q) = m3apply m (v3sub p q)) as Hl.
    { intros [[[[a1 a2] a3] [[a4 a5] a6]] [[a7 a8] a9]] [[p1 p2] p3] [[q1 q2] q3]. v3_unfold. f_equal; [f_equal|]; ring. }
    rewrite Hl, !rotation_order_proof, rot_z_dot, rot_y_dot, rot_x_dot. reflexivity.
Qed.

(* ---- equal segmentation ---- *)
Lemma v3norm_pos (d : V3R) : d <> v3zero -> (0 < v3norm d)%R.
Proof.
  intros H. unfold v3norm. cbv [nsqrt]. apply sqrt_lt_R0.
  destruct d as [[x y] z]. v3_unfold.
  assert (x <> 0 \/ y <> 0 \/ z <> 0)%R as Hc.
  { destruct (Req_dec x 0) as [->|]; [|left; assumption].
    destruct (Req_dec y 0) as [->|]; [|right; left; assumption].
    right; right. intros ->. apply H. reflexivity. }
  destruct Hc as [Hc|[Hc|Hc]]; nra.
Qed.

Lemma equal_segments_proof (n : nat) (p1 p2 : V3R) : (0 < n)%nat -> p2 <> p1 ->
  let sg := equal_segments n p1 p2 in
  let L := v3norm (v3sub p2 p1) in
  length sg = n /\ seg_chain p1 sg /\
  sg_p2 (nth (n - 1) sg seg_default) = p2 /\
  (forall k, (k < n)%nat -> sg_len (nth k sg seg_default) = (L / INR n)%R /\
                            v3norm (sg_dir (nth k sg seg_default)) = 1%R /\
                            sg_p2 (nth k sg seg_default) =
                              v3add p1 (@v3scale RNum (INR (S k) * (L / INR n))%R (sg_dir (nth k sg seg_default)))).
Proof.
  intros Hn Hne sg L. subst sg. unfold equal_segments. cbv zeta. fold L.
  assert (v3sub p2 p1 <> v3zero) as Hd.
  { intros E. apply Hne. destruct p1 as [[a b] c], p2 as [[d e] f]. v3_unfold. inversion E. f_equal; [f_equal|]; lra. }
  pose proof (v3norm_pos _ Hd) as HL. fold L in HL.
  assert (INR n <> 0)%R as HnR by (apply not_0_INR; lia).
  assert (forall k : nat, @ofn RNum k = INR k) as Hofn by (intros k; unfold ofn; cbn; symmetry; apply INR_IZR_INZ).
  split; [apply equal_from_length|]. split; [apply equal_from_chain|].
  assert (forall k, (k < n)%nat ->
     sg_p2 (nth k (equal_from n 0 p1 p1 (v3divr (v3sub p2 p1) L) (L / ofn n)) seg_default) =
       v3add p1 (@v3scale RNum (L / ofn n) (@v3scale RNum (ofn (S k)) (v3divr (v3sub p2 p1) L))) /\
     sg_len (nth k (equal_from n 0 p1 p1 (v3divr (v3sub p2 p1) L) (L / ofn n)) seg_default) = (L / ofn n)%num /\
     sg_dir (nth k (equal_from n 0 p1 p1 (v3divr (v3sub p2 p1) L) (L / ofn n)) seg_default) = v3divr (v3sub p2 p1) L) as Hk.
  { intros k Hk. apply (equal_from_nth n 0 p1 p1 _ _ k Hk). }
  split.
  - destruct (Hk (n - 1)%nat) as [A _]; [lia|]. refine (eq_trans A _).
    replace (S (n - 1)) with n by lia. rewrite !Hofn.
    destruct p1 as [[a b] c], p2 as [[d e] f]. v3_unfold. f_equal; [f_equal|]; Rgoal; field; split; lra.
  - intros k Hkn. destruct (Hk k Hkn) as [A [B C]].
    assert (v3norm (v3divr (v3sub p2 p1) L) = 1%R) as Hu.
    { replace (v3divr (v3sub p2 p1) L) with (@v3scale RNum (/ L)%R (v3sub p2 p1))
        by (destruct p1 as [[a b] c], p2 as [[d e] f]; v3_unfold; f_equal; [f_equal|]; Rgoal; field; lra).
      rewrite v3norm_scale. fold L. rewrite Rabs_right by (apply Rle_ge, Rlt_le, Rinv_0_lt_compat; exact HL). Rgoal. field. lra. }
    split; [refine (eq_trans B _); rewrite Hofn; reflexivity|].
    split; [refine (eq_trans (f_equal v3norm C) Hu)|].
    refine (eq_trans A _).
    assert (@v3add RNum p1 (@v3scale RNum (L / ofn n)%num (@v3scale RNum (ofn (S k)) (v3divr (v3sub p2 p1) L))) =
            @v3add RNum p1 (@v3scale RNum (INR (S k) * (L / INR n))%R (v3divr (v3sub p2 p1) L))) as E.
    { rewrite !Hofn. generalize (v3divr (v3sub p2 p1) L). intros [[d1 d2] d3]. destruct p1 as [[a b] c]. v3_unfold. f_equal; [f_equal|]; Rgoal; ring. }
    refine (eq_trans E _). f_equal. f_equal. symmetry. exact C.
Qed.

(* ---- arc: points on the circle, uniform angular steps ---- *)
Lemma arc_point_proof (n : nat) (radius a1 a2 : R) (k : nat) : (k <= n)%nat -> (0 < n)%nat ->
  let p := nth k (@arc_points RNum n radius a1 a2) v3zero in
  let ang := (@deg2rad RNum a1 + (@deg2rad RNum a2 - @deg2rad RNum a1) / INR n * INR k)%R in
  p = (radius * cos ang, 0, radius * sin ang)%R /\
  (vx p * vx p + vz p * vz p = radius * radius)%R /\ vy p = 0%R.
Proof.
  intros Hk Hn p ang. subst p. unfold arc_points. cbv zeta.
  assert (forall j : nat, @ofn RNum j = INR j) as Hofn by (intros j; unfold ofn; cbn; symmetry; apply INR_IZR_INZ).
  assert (nth k (map (fun i => ((radius * ncos (@deg2rad RNum a1 + (@deg2rad RNum a2 - @deg2rad RNum a1) / ofn n * ofn i))%num, @zero RNum,
                                (radius * nsin (@deg2rad RNum a1 + (@deg2rad RNum a2 - @deg2rad RNum a1) / ofn n * ofn i))%num)) (seq 0 n)
                 ++ [((radius * ncos (@deg2rad RNum a2))%num, @zero RNum, (radius * nsin (@deg2rad RNum a2))%num)]) v3zero
          = (radius * cos ang, 0, radius * sin ang)%R) as E.
  { destruct (Nat.eq_dec k n) as [->|Hne].
    - rewrite app_nth2 by (rewrite map_length, seq_length; lia). rewrite map_length, seq_length, Nat.sub_diag. cbn [nth].
      subst ang. cbv [ncos nsin mul zero]. 
      replace (@deg2rad RNum a1 + (@deg2rad RNum a2 - @deg2rad RNum a1) / INR n * INR n)%R with (@deg2rad RNum a2)
        by (unfold deg2rad; cx_unfold; Rgoal; field; apply not_0_INR; lia). reflexivity.
    - rewrite app_nth1 by (rewrite map_length, seq_length; lia).
      rewrite (nth_map_seq _ n k) by lia. subst ang. rewrite !Hofn. reflexivity. }
  split; [exact E|]. 
  assert (forall q : V3R, q = (radius * cos ang, 0, radius * sin ang)%R -> (vx q * vx q + vz q * vz q = radius * radius)%R /\ vy q = 0%R) as Hq.
  { intros q ->. cbv [vx vy vz fst snd]. split; [|reflexivity]. pose proof (sc1 ang). nra. }
  apply Hq. exact E.
Qed.

(* ---- helix: points on the (tapered) ellipse at uniform heights ---- *)
Lemma helix_point_on_ellipse (len tl s xm ym z : R) : xm <> 0%R -> ym <> 0%R ->
  let p := @helix_point RNum len tl s xm ym z in
  ((vx p / xm) * (vx p / xm) + (vy p / ym) * (vy p / ym) = 1)%R /\ vz p = z.
Proof.
  intros Hx Hy p. subst p. unfold helix_point. cbv zeta.
  match goal with |- context [ncos ?e] => set (a := e) end.
  pose proof (sc1 a) as H.
  destruct (@ltb RNum len zero); v3_unfold; cbv [ncos nsin RNum] in *; (split; [|reflexivity]);
    rewrite <- H; field; split; assumption.
Qed.

(* ---- transformations are applied in key order ---- *)
Lemma insert_perm (t : @transform RNum) l : Permutation (t :: l) (insert_t t l).
Proof.
  induction l as [|x l IH]; cbn [insert_t]; [apply Permutation_refl|].
  destruct (leb (t_key t) (t_key x)); [apply Permutation_refl|].
  apply perm_trans with (x :: t :: l); [apply perm_swap|]. apply perm_skip. exact IH.
Qed.
Lemma sort_perm (l : list (@transform RNum)) : Permutation l (sort_transforms l).
Proof.
  induction l as [|t l IH]; cbn; [apply perm_nil|].
  apply perm_trans with (t :: sort_transforms l); [apply perm_skip; exact IH|apply insert_perm].
Qed.
Definition key_le (a b : @transform RNum) : Prop := (t_key a <= t_key b)%R.
Lemma insert_sorted t l : StronglySorted key_le l -> StronglySorted key_le (insert_t t l).
Proof.
  induction l as [|x l IH]; intros H; cbn [insert_t].
  - constructor; constructor.
  - destruct (leb (t_key t) (t_key x)) eqn:E.
    + constructor; [exact H|]. apply Rleb_true in E. constructor; [exact E|].
      inversion H as [|? ? Hs Hf]; subst. rewrite Forall_forall in *. intros y Hy. unfold key_le in *. specialize (Hf y Hy). lra.
    + inversion H as [|? ? Hs Hf]; subst. constructor; [apply IH; exact Hs|].
      apply Rleb_false in E. rewrite Forall_forall in *. intros y Hy.
      apply (Permutation_in _ (Permutation_sym (insert_perm t l))) in Hy. destruct Hy as [<-|Hy].
      * unfold key_le. lra.
      * apply Hf. exact Hy.
Qed.
Lemma sort_sorted_proof (l : list (@transform RNum)) :
  StronglySorted key_le (sort_transforms l) /\ Permutation l (sort_transforms l).
Proof.
  split; [|apply sort_perm].
  induction l as [|t l IH]; cbn; [constructor|]. apply insert_sorted. exact IH.
Qed.
