(* Skeleton of the report: which rows each block has (C19). *)
From Coq Require Import ZArith List Bool Arith Lia.
From PM Require Import Base.Num Base.Cplx Model.Topology Model.Report Proofs.AddressP.
Import ListNotations.
Section S.
Context {N : Num}.

Lemma combine_seq_fst {A} (l : list A) s : map fst (combine (seq s (length l)) l) = seq s (length l).
Proof. revert s. induction l as [|a l IH]; intros s; cbn; [reflexivity|]. f_equal. apply IH. Qed.

(* every pulse of an object is either a numbered row of its block or one of its junction pulses, never both *)
Lemma block_rows_proof (t : topology) (i : nat) (k : nat) :
  (In k (geometry_block t i) <-> (In k (numbered_idx t i) \/ In k (junction_idx t i))) /\
  ~ (In k (numbered_idx t i) /\ In k (junction_idx t i)) /\
  NoDup (numbered_idx t i).
Proof.
  unfold geometry_block, numbered_idx, junction_idx.
  set (l := nth i (tp_by_obj t) []). set (s := obj_start t i).
  set (c := combine (seq s (length l)) l).
  assert (Hnd : NoDup (map fst c)) by (unfold c; rewrite combine_seq_fst; apply seq_NoDup).
  assert (Hfun : forall k p q, In (k, p) c -> In (k, q) c -> p = q).
  { clear -Hnd. induction c as [|[k0 p0] c IH]; intros k p q Hp Hq; [destruct Hp|].
    cbn in Hnd. inversion Hnd as [|? ? Hni Hnd']; subst.
    destruct Hp as [Hp|Hp], Hq as [Hq|Hq].
    - congruence.
    - inversion Hp; subst. exfalso. apply Hni. apply (in_map fst) in Hq. exact Hq.
    - inversion Hq; subst. exfalso. apply Hni. apply (in_map fst) in Hp. exact Hp.
    - eapply IH; eauto. }
  repeat split.
  - intros H. rewrite <- (combine_seq_fst l s) in H. fold c in H. apply in_map_iff in H. destruct H as ([k' p] & Hk & Hin). cbn in Hk. subst k'.
    destruct (is_junction_pulse p) eqn:E.
    + right. apply in_map_iff. exists (k, p). split; [reflexivity|]. apply filter_In. split; [exact Hin|exact E].
    + left. apply in_map_iff. exists (k, p). split; [reflexivity|]. apply filter_In. split; [exact Hin|]. cbn. rewrite E. reflexivity.
  - intros [H|H]; apply in_map_iff in H; destruct H as ([k' p] & Hk & Hin); cbn in Hk; subst k';
      apply filter_In in Hin; destruct Hin as [Hin _]; rewrite <- (combine_seq_fst l s); fold c;
      apply in_map_iff; exists (k, p); split; [reflexivity|exact Hin|reflexivity|exact Hin].
  - intros [H1 H2]. apply in_map_iff in H1, H2. destruct H1 as ([k1 p] & Hk1 & Hp), H2 as ([k2 q] & Hk2 & Hq).
    cbn in Hk1, Hk2. subst. apply filter_In in Hp, Hq. destruct Hp as [Hp Ep], Hq as [Hq Eq].
    cbn in Ep, Eq. rewrite (Hfun _ _ _ Hp Hq) in Ep. rewrite Eq in Ep. discriminate.
  - clear Hfun. induction c as [|[k0 p0] c IH]; [constructor|]. cbn in Hnd. inversion Hnd as [|? ? Hni Hnd']; subst.
    cbn [filter]. destruct (negb (is_junction_pulse (snd (k0, p0)))); [|apply IH; exact Hnd'].
    cbn [map fst]. constructor; [|apply IH; exact Hnd'].
    intros H. apply Hni. apply in_map_iff in H. destruct H as (x & Hx & Hin). apply filter_In in Hin. destruct Hin as [Hin _].
    apply in_map_iff. exists x. split; assumption.
Qed.

(* the geometry blocks list every pulse number exactly once, in order *)
Lemma geometry_rows_proof (t : topology) :
  flat_map (geometry_block t) (seq 0 (length (tp_by_obj t))) = seq 0 (length (tp_pulses t)).
Proof. exact (all_once_proof t). Qed.

Lemma current_block_rows_proof (t : topology) (I : cvec) (i : nat) :
  current_block t I i =
  end_rows (end_line t I i false) ++ map (fun k => RowPulse k (vnth I k)) (numbered_idx t i) ++ end_rows (end_line t I i true)
  /\ (length (end_rows (end_line t I i false)) <= 1)%nat /\ (length (end_rows (end_line t I i true)) <= 1)%nat.
Proof. split; [reflexivity|]. split; destruct (end_line t I i _); cbn; lia. Qed.
End S.
