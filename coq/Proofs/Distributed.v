(* C08: distributed loads (skin effect, insulation). *)
From Coq Require Import ZArith List Bool Reals Lra Lia.
From Coquelicot Require Import Coquelicot.
From PM Require Import Base.Num Base.RNum Base.Cplx Base.CplxR Gen.Extracted Model.Loads Proofs.CxAlg.
Import ListNotations.

Lemma ins_eps1_noop_proof (radius r omg len : R) : (0 < r)%R -> (0 < radius)%R ->
  @ins_zins RNum 1%R radius r = 0%R /\
  @ins_half RNum (ins_zins 1%R radius r) omg len = c0 /\
  @r_equiv RNum r radius 1%R = r.
Proof.
  intros Hr Hrad.
  assert (@ins_zins RNum 1%R radius r = 0%R) as E.
  { unfold ins_zins. cx_unfold. cbn. field. pose proof PI_RGT_0. lra. }
  split; [exact E|]. split.
  - rewrite E. unfold ins_half. cx_unfold. cbn. f_equal; ring.
  - unfold r_equiv. cbv zeta. cx_unfold. cbv [nexp nln RNum].
    replace (1 / 1 * ln (r / radius))%R with (ln (r / radius)) by field.
    rewrite exp_ln.
    + field. lra.
    + apply Rdiv_lt_0_compat; assumption.
Qed.

Lemma resistivity_conductivity_proof (s : R) : s <> 0%R -> @cond_of_res RNum (1 / s)%R = s.
Proof. intros H. unfold cond_of_res. cx_unfold. cbn. field. exact H. Qed.

(* a distributed load charges each pulse with (per-length impedance) x (length
   of real conductor in the pulse's two half-segments) *)
Definition real_len (h : @half RNum) : R := if h_image h then 0%R else (h_len h / 2)%R.

Lemma skin_same_wire_proof (zint : CR) (l0 l1 : R) (i0 i1 : bool) :
  let h0 := mkHalf l0 i0 (Some zint) None in
  let h1 := mkHalf l1 i1 (Some zint) None in
  skin_pulse h0 h1 = cscale (real_len h0 + real_len h1)%R zint.
Proof.
  intros h0 h1. subst h0 h1. unfold skin_pulse, skin_half, real_len. cbn [h_skin h_image h_len].
  destruct i0, i1; destruct zint; cx_unfold; f_equal; field.
Qed.

Lemma skin_junction_proof (z0 z1 : CR) (l0 l1 : R) :
  skin_pulse (mkHalf l0 false (Some z0) None) (mkHalf l1 false (Some z1) None) =
  cadd (cscale (l0 / 2)%R z0) (cscale (l1 / 2)%R z1) /\
  skin_pulse (mkHalf l0 false (Some z0) None) (mkHalf l1 false None None) = cscale (l0 / 2)%R z0.
Proof.
  unfold skin_pulse, skin_half. cbn [h_skin h_image h_len]. split; destruct z0; try destruct z1; cx_unfold; f_equal; field.
Qed.

Lemma ins_pulse_proof (omg zins l0 l1 : R) (i0 i1 : bool) :
  let h0 := mkHalf l0 i0 None (Some zins) in
  let h1 := mkHalf l1 i1 None (Some zins) in
  ins_pulse omg h0 h1 = (0%R, (zins * omg * (real_len h0 + real_len h1))%R).
Proof.
  intros h0 h1. subst h0 h1. unfold ins_pulse, ins_half_of, ins_half, real_len. cbn [h_zins h_image h_len].
  destruct i0, i1; cx_unfold; f_equal; field.
Qed.
