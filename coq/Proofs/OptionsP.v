(* Theorems about written and re-read load attachments (C15). *)
From Coq Require Import ZArith List Bool Arith Lia Permutation.
From PM Require Import Model.Options.
Import ListNotations.

Section P.
Variable tags : list Z.
Variable counts : list nat.
Hypothesis Htags : NoDup tags.
Hypothesis Hlen : length tags = length counts.

Notation start := (start counts).
Notation cnt := (cnt counts).
Notation nobj := (nobj counts).
Notation total := (total counts).
Notation in_obj := (in_obj counts).

Lemma sum_first_S i cs : i < length cs -> sum_first (S i) cs = sum_first i cs + nth i cs 0.
Proof.
  revert i. induction cs as [|c r IH]; intros i Hi; [cbn in Hi; lia|].
  destruct i as [|i].
  - destruct r; cbn; lia.
  - change (sum_first (S (S i)) (c :: r)) with (c + sum_first (S i) r).
    change (sum_first (S i) (c :: r)) with (c + sum_first i r).
    change (nth (S i) (c :: r) 0) with (nth i r 0).
    rewrite IH by (cbn in Hi; lia). lia.
Qed.
Lemma start_S i : i < nobj -> start (S i) = start i + cnt i.
Proof. apply sum_first_S. Qed.
Lemma start_mono i j : i <= j -> j <= nobj -> start i <= start j.
Proof. intros Hij Hj. induction Hij as [|j Hle IH]; [lia|]. rewrite start_S by lia. specialize (IH ltac:(lia)). lia. Qed.
Lemma start_end i : i < nobj -> start i + cnt i <= total.
Proof. intros Hi. rewrite <- start_S by exact Hi. apply start_mono; unfold Options.nobj in *; lia. Qed.

Lemma in_obj_spec i p : in_obj i p = true <-> start i <= p < start i + cnt i.
Proof. unfold Options.in_obj. rewrite andb_true_iff, Nat.leb_le, Nat.ltb_lt. tauto. Qed.

(* the ranges of different objects are disjoint *)
Lemma in_obj_unique i j p : i < nobj -> j < nobj -> in_obj i p = true -> in_obj j p = true -> i = j.
Proof.
  intros Hi Hj A B. apply in_obj_spec in A, B.
  destruct (Nat.lt_trichotomy i j) as [H|[H|H]]; [|exact H|]; exfalso.
  - pose proof (start_mono (S i) j ltac:(lia) ltac:(lia)). rewrite start_S in H0 by lia. lia.
  - pose proof (start_mono (S j) i ltac:(lia) ltac:(lia)). rewrite start_S in H0 by lia. lia.
Qed.
(* and cover all pulses *)
Lemma in_obj_exists p : p < total -> exists i, i < nobj /\ in_obj i p = true.
Proof.
  unfold Options.total. generalize (le_n nobj). generalize nobj at 1 3 as n.
  induction n as [|n IH]; intros Hn Hp.
  - cbn in Hp. unfold Options.start in Hp. destruct counts; cbn in Hp; lia.
  - destruct (Nat.lt_ge_cases p (start n)) as [H|H].
    + destruct (IH ltac:(lia) H) as (i & Hi & Hin). exists i. split; [lia|exact Hin].
    + exists n. split; [lia|]. apply in_obj_spec. rewrite start_S in Hp by lia. lia.
Qed.

Lemma obj_of_spec p : p < total -> obj_of counts p < nobj /\ in_obj (obj_of counts p) p = true.
Proof.
  intros Hp. destruct (in_obj_exists p Hp) as (i & Hi & Hin). unfold obj_of.
  destruct (filter (fun i0 => in_obj i0 p) (seq 0 nobj)) as [|j r] eqn:E.
  - exfalso. assert (In i (filter (fun i0 => in_obj i0 p) (seq 0 nobj))) by (apply filter_In; split; [apply in_seq; lia|exact Hin]).
    rewrite E in H. destruct H.
  - cbn [hd]. assert (In j (filter (fun i0 => in_obj i0 p) (seq 0 nobj))) by (rewrite E; left; reflexivity).
    apply filter_In in H. destruct H as [Hj Hjin]. apply in_seq in Hj. split; [lia|exact Hjin].
Qed.

Lemma index_of_nth : forall (l : list Z) i0 i, NoDup l -> i < length l -> index_of (nth i l 0%Z) l i0 = Some (i0 + i).
Proof.
  induction l as [|x r IH]; intros i0 i Hnd Hi; [cbn in Hi; lia|].
  inversion Hnd as [|? ? Hni Hnd']; subst. destruct i as [|i]; cbn [nth index_of].
  - rewrite Z.eqb_refl. f_equal. lia.
  - destruct (Z.eqb_spec x (nth i r 0%Z)) as [E|_].
    + exfalso. apply Hni. rewrite E. apply nth_In. cbn in Hi. lia.
    + rewrite IH by (try assumption; cbn in Hi; lia). f_equal. lia.
Qed.

Lemma resolve_alltag i : i < nobj -> resolve tags counts (AAllTag (nth i tags 0%Z)) = Some (seq (start i) (cnt i)).
Proof. intros Hi. unfold resolve. unfold Options.nobj in Hi. rewrite index_of_nth by (try assumption; lia). reflexivity. Qed.

Lemma resolve_enc b p : p < total -> resolve tags counts (enc tags counts b p) = Some [p].
Proof.
  intros Hp. destruct (obj_of_spec p Hp) as [Hi Hin]. apply in_obj_spec in Hin. unfold enc. destruct b; unfold resolve.
  - unfold Options.nobj in Hi. rewrite index_of_nth by (try assumption; lia). cbn [Nat.add].
        assert ((p - start (obj_of counts p) <? cnt (obj_of counts p)) = true) as -> by (apply Nat.ltb_lt; lia).
    f_equal. f_equal. lia.
  - assert ((p <? total) = true) as -> by (apply Nat.ltb_lt; lia). reflexivity.
Qed.

Notation C := (count_occ Nat.eq_dec).

Lemma count_seq s n q : C (seq s n) q = if (s <=? q) && (q <? s + n) then 1 else 0.
Proof.
  revert s. induction n as [|n IH]; intros s; cbn [seq count_occ].
  - destruct (Nat.leb_spec s q), (Nat.ltb_spec q (s + 0)); cbn; lia.
  - destruct (Nat.eq_dec s q) as [->|Hne].
    + rewrite IH. replace (S q <=? q) with false by (symmetry; apply Nat.leb_gt; lia). cbn [andb].
      rewrite Nat.leb_refl. replace (q <? q + S n) with true by (symmetry; apply Nat.ltb_lt; lia). reflexivity.
    + rewrite IH. destruct (Nat.leb_spec s q), (Nat.leb_spec (S s) q), (Nat.ltb_spec q (S s + n)), (Nat.ltb_spec q (s + S n)); cbn; lia.
Qed.
Lemma count_range i q : C (seq (start i) (cnt i)) q = if in_obj i q then 1 else 0.
Proof. apply count_seq. Qed.

Lemma count_filter (f : nat -> bool) l q : C (filter f l) q = if f q then C l q else 0.
Proof.
  induction l as [|x r IH]; [cbn; destruct (f q); reflexivity|].
  cbn [filter]. destruct (f x) eqn:Fx; cbn [count_occ]; destruct (Nat.eq_dec x q) as [->|Hne]; rewrite ?IH, ?Fx; try reflexivity; destruct (f q); lia.
Qed.

Lemma nodupb_spec l : nodupb l = true -> NoDup l.
Proof.
  induction l as [|x r IH]; intros H; [constructor|]. cbn in H. apply andb_true_iff in H. destruct H as [H1 H2].
  constructor; [|apply IH; exact H2]. intros Hin. apply negb_true_iff in H1.
  assert (existsb (Nat.eqb x) r = true) by (apply existsb_exists; exists x; split; [exact Hin|apply Nat.eqb_refl]). congruence.
Qed.

(* an object carrying the load on each of its pulses exactly once: every pulse of its range occurs once *)
Lemma full_once ps i q : i < nobj -> full counts ps i = true -> in_obj i q = true -> C ps q = 1.
Proof.
  intros Hi Hf Hq. unfold full in Hf. apply andb_true_iff in Hf. destruct Hf as [Hf Hnd]. apply andb_true_iff in Hf. destruct Hf as [_ Hl].
  apply Nat.eqb_eq in Hl. apply nodupb_spec in Hnd.
  assert (Hincl : incl (of_obj counts i ps) (seq (start i) (cnt i))).
  { intros x Hx. apply filter_In in Hx. destruct Hx as [_ Hx]. apply in_obj_spec in Hx. apply in_seq. lia. }
  assert (Hback : incl (seq (start i) (cnt i)) (of_obj counts i ps)).
  { apply NoDup_length_incl; [exact Hnd|rewrite seq_length; lia|exact Hincl]. }
  assert (Hin : In q (of_obj counts i ps)) by (apply Hback; apply in_seq; apply in_obj_spec in Hq; lia).
  pose proof (proj1 (NoDup_count_occ Nat.eq_dec _) Hnd q) as Hle.
  pose proof (proj1 (count_occ_In Nat.eq_dec _ q) Hin) as Hge.
  unfold of_obj in Hle, Hge. rewrite count_filter, Hq in Hle, Hge. lia.
Qed.

Lemma count_ranges (G : list nat) q : NoDup G -> (forall i, In i G -> i < nobj) ->
  C (flat_map (fun i => seq (start i) (cnt i)) G) q = if existsb (fun i => in_obj i q) G then 1 else 0.
Proof.
  induction G as [|i r IH]; intros Hnd Hb; [reflexivity|].
  inversion Hnd as [|? ? Hni Hnd']; subst. cbn [flat_map existsb]. rewrite count_occ_app, count_range, IH; [|exact Hnd'|intros j Hj; apply Hb; right; exact Hj].
  destruct (in_obj i q) eqn:Hiq; cbn [orb]; [|reflexivity].
  destruct (existsb (fun i0 => in_obj i0 q) r) eqn:E; [|reflexivity].
  exfalso. apply existsb_exists in E. destruct E as (j & Hj & Hjq).
  assert (i = j) by (apply (in_obj_unique i j q); [apply Hb; left; reflexivity|apply Hb; right; exact Hj|exact Hiq|exact Hjq]).
  subst. contradiction.
Qed.

Lemma geo_all_props ps : NoDup (geo_all counts ps) /\ (forall i, In i (geo_all counts ps) -> i < nobj /\ full counts ps i = true).
Proof.
  unfold geo_all. split; [apply NoDup_filter, seq_NoDup|].
  intros i Hi. apply filter_In in Hi. destruct Hi as [Hs Hf]. apply in_seq in Hs. split; [lia|exact Hf].
Qed.

(* the pulses of the fully loaded objects plus the remaining attachments are the attached pulses, with multiplicity *)
Lemma split_count ps q :
  C (flat_map (fun i => seq (start i) (cnt i)) (geo_all counts ps)) q + C (filter (fun p => negb (in_full counts ps p)) ps) q = C ps q.
Proof.
  destruct (geo_all_props ps) as [Hnd Hall].
  rewrite count_ranges by (try exact Hnd; intros i Hi; apply Hall; exact Hi).
  rewrite count_filter. unfold in_full.
  destruct (existsb (fun i => in_obj i q) (geo_all counts ps)) eqn:E; cbn [negb]; [|lia].
  apply existsb_exists in E. destruct E as (i & Hi & Hiq). destruct (Hall i Hi) as [Hlt Hf].
  rewrite (full_once ps i q Hlt Hf Hiq). lia.
Qed.

Lemma resolve_all_app l m x y : resolve_all tags counts l = Some x -> resolve_all tags counts m = Some y ->
  resolve_all tags counts (l ++ m) = Some (x ++ y).
Proof.
  revert x. induction l as [|a r IH]; intros x Hl Hm; cbn in *.
  - inversion Hl; subst. exact Hm.
  - destruct (resolve tags counts a) as [u|]; [|discriminate]. destruct (resolve_all tags counts r) as [v|]; [|discriminate].
    inversion Hl; subst. rewrite (IH v eq_refl Hm). rewrite app_assoc. reflexivity.
Qed.
Lemma resolve_all_tags G : (forall i, In i G -> i < nobj) ->
  resolve_all tags counts (map (fun i => AAllTag (nth i tags 0%Z)) G) = Some (flat_map (fun i => seq (start i) (cnt i)) G).
Proof.
  induction G as [|i r IH]; intros Hb; [reflexivity|]. cbn [map resolve_all flat_map].
  rewrite resolve_alltag by (apply Hb; left; reflexivity). rewrite IH by (intros j Hj; apply Hb; right; exact Hj). reflexivity.
Qed.
Lemma resolve_all_enc b L : Forall (fun p => p < total) L -> resolve_all tags counts (map (enc tags counts b) L) = Some L.
Proof.
  induction L as [|p r IH]; intros H; [reflexivity|]. inversion H; subst. cbn [map resolve_all].
  rewrite resolve_enc by assumption. rewrite IH by assumption. reflexivity.
Qed.

Lemma filter_len_le {A} (f : A -> bool) l : length (filter f l) <= length l.
Proof. induction l as [|x r IH]; [cbn; lia|]. cbn. destruct (f x); cbn; lia. Qed.
Lemma filter_all_length {A} (f : A -> bool) l : length (filter f l) = length l -> filter f l = l.
Proof.
  induction l as [|x r IH]; [reflexivity|]. cbn. destruct (f x); cbn; intros H.
  - f_equal. apply IH. lia.
  - pose proof (filter_len_le f r). lia.
Qed.

Theorem attach_roundtrip_proof b ps : Forall (fun p => p < total) ps ->
  exists l, resolve_all tags counts (write_attach tags counts b ps) = Some l /\ forall q, C l q = C ps q.
Proof.
  intros Hps. unfold write_attach. destruct (geo_all_props ps) as [Hnd Hall].
  destruct (length (geo_all counts ps) =? nobj) eqn:E.
  - apply Nat.eqb_eq in E.
    assert (Hg : geo_all counts ps = seq 0 nobj).
    { unfold geo_all in *. apply filter_all_length. rewrite seq_length. exact E. }
    eexists. split; [cbn; reflexivity|]. intros q. rewrite app_nil_r.
    rewrite <- (split_count ps q), Hg.
    assert (C (filter (fun p => negb (in_full counts ps p)) ps) q = 0) as ->; [|lia].
    apply count_occ_not_In. intros Hin. apply filter_In in Hin. destruct Hin as [Hin Hnf].
    rewrite Forall_forall in Hps. destruct (in_obj_exists q (Hps q Hin)) as (i & Hi & Hiq).
    apply negb_true_iff in Hnf. unfold in_full in Hnf. rewrite Hg in Hnf.
    assert (existsb (fun i0 => in_obj i0 q) (seq 0 nobj) = true) by (apply existsb_exists; exists i; split; [apply in_seq; lia|exact Hiq]).
    congruence.
  - eexists. split.
    + apply resolve_all_app; [apply resolve_all_tags; intros i Hi; apply Hall; exact Hi|apply resolve_all_enc].
      apply Forall_forall. intros p Hp. apply filter_In in Hp. rewrite Forall_forall in Hps. apply Hps. apply Hp.
    + intros q. rewrite count_occ_app. apply split_count.
Qed.

(* hence a permutation of the attached pulses *)
Theorem attach_permutation_proof b ps : Forall (fun p => p < total) ps ->
  exists l, resolve_all tags counts (write_attach tags counts b ps) = Some l /\ Permutation l ps.
Proof.
  intros H. destruct (attach_roundtrip_proof b ps H) as (l & Hl & Hc). exists l. split; [exact Hl|].
  apply (Permutation_count_occ Nat.eq_dec). exact Hc.
Qed.

(* ---- what the reader gets from the written attachments, explicitly; writing it again gives the same options ---- *)
Definition reread (ps : list nat) : list nat :=
  if length (geo_all counts ps) =? nobj then flat_map (fun i => seq (start i) (cnt i)) (seq 0 nobj)
  else flat_map (fun i => seq (start i) (cnt i)) (geo_all counts ps) ++ filter (fun p => negb (in_full counts ps p)) ps.

Lemma resolve_written b ps : Forall (fun p => p < total) ps ->
  resolve_all tags counts (write_attach tags counts b ps) = Some (reread ps).
Proof.
  intros Hps. unfold write_attach, reread. destruct (geo_all_props ps) as [Hnd Hall].
  destruct (length (geo_all counts ps) =? nobj) eqn:E.
  - cbn. rewrite app_nil_r. reflexivity.
  - apply resolve_all_app; [apply resolve_all_tags; intros i Hi; apply Hall; exact Hi|apply resolve_all_enc].
    apply Forall_forall. intros p Hp. apply filter_In in Hp. rewrite Forall_forall in Hps. apply Hps. apply Hp.
Qed.

Lemma reread_count ps q : Forall (fun p => p < total) ps -> C (reread ps) q = C ps q.
Proof.
  intros Hps. destruct (attach_roundtrip_proof true ps Hps) as (l & Hl & Hc).
  rewrite (resolve_written true ps Hps) in Hl. inversion Hl; subst. apply Hc.
Qed.

Lemma nodupb_complete l : NoDup l -> nodupb l = true.
Proof.
  induction 1 as [|x r Hni Hnd IH]; [reflexivity|]. cbn. rewrite IH, andb_true_r. apply negb_true_iff.
  destruct (existsb (Nat.eqb x) r) eqn:E; [|reflexivity]. exfalso. apply existsb_exists in E. destruct E as (y & Hy & Hxy).
  apply Nat.eqb_eq in Hxy. subst. contradiction.
Qed.

Lemma of_obj_perm l ps i : (forall q, C l q = C ps q) -> Permutation (of_obj counts i l) (of_obj counts i ps).
Proof.
  intros H. apply (Permutation_count_occ Nat.eq_dec). intros q. unfold of_obj. rewrite !count_filter, H. reflexivity.
Qed.

Lemma full_perm l ps i : (forall q, C l q = C ps q) -> full counts l i = full counts ps i.
Proof.
  intros H. pose proof (of_obj_perm l ps i H) as P. unfold full. rewrite (Permutation_length P). f_equal.
  destruct (nodupb (of_obj counts i ps)) eqn:E.
  - apply nodupb_complete. apply (Permutation_NoDup (Permutation_sym P)). apply nodupb_spec. exact E.
  - destruct (nodupb (of_obj counts i l)) eqn:E2; [|reflexivity].
    apply nodupb_spec in E2. apply (Permutation_NoDup P) in E2. apply nodupb_complete in E2. congruence.
Qed.

Lemma geo_all_perm l ps : (forall q, C l q = C ps q) -> geo_all counts l = geo_all counts ps.
Proof. intros H. unfold geo_all. apply filter_ext. intros i. apply full_perm. exact H. Qed.

Lemma filter_none {A} (f : A -> bool) l : (forall x, In x l -> f x = false) -> filter f l = [].
Proof. induction l as [|x r IH]; intros H; [reflexivity|]. cbn. rewrite (H x (or_introl eq_refl)). apply IH. intros y Hy. apply H. right. exact Hy. Qed.
Lemma filter_idem {A} (f : A -> bool) l : filter f (filter f l) = filter f l.
Proof. induction l as [|x r IH]; [reflexivity|]. cbn. destruct (f x) eqn:E; cbn; rewrite ?E, IH; reflexivity. Qed.

(* the written options of the re-read load are the written options of the original load *)
Theorem attach_fixpoint_proof b ps : Forall (fun p => p < total) ps ->
  exists l, resolve_all tags counts (write_attach tags counts b ps) = Some l /\
            write_attach tags counts b l = write_attach tags counts b ps.
Proof.
  intros Hps. exists (reread ps). split; [apply resolve_written; exact Hps|].
  pose proof (geo_all_perm (reread ps) ps (fun q => reread_count ps q Hps)) as Hg.
  unfold write_attach. rewrite Hg. destruct (length (geo_all counts ps) =? nobj) eqn:E; [reflexivity|].
  f_equal. f_equal.
  assert (Hf : forall p, in_full counts (reread ps) p = in_full counts ps p) by (intros p; unfold in_full; rewrite Hg; reflexivity).
  rewrite (filter_ext _ _ (fun p => f_equal negb (Hf p))).
  unfold reread. rewrite E. rewrite filter_app, filter_idem.
  rewrite filter_none; [reflexivity|].
  intros x Hx. apply negb_false_iff. unfold in_full. apply existsb_exists.
  apply in_flat_map in Hx. destruct Hx as (i & Hi & Hxi). exists i. split; [exact Hi|].
  apply in_obj_spec. apply in_seq in Hxi. lia.
Qed.
End P.

(* the writer before the repair loses an attachment: pulse 0 of a two-pulse wire attached twice *)
Lemma counted_writer_refuted :
  full_counted [2] [0; 0] 0 = true /\ full [2] [0; 0] 0 = false.
Proof. vm_compute. split; reflexivity. Qed.
