(* The prompt automaton accepts every answer sequence the writer produces and
   recovers what it was written for (C18). *)
From Coq Require Import ZArith List Bool Arith Lia.
From PM Require Import Model.Basic.
Import ListNotations.

Lemma app_cons {A} (a : A) l r : (a :: l) ++ r = a :: (l ++ r). Proof. reflexivity. Qed.

Lemma r_count_cnt n rest : r_count (Cnt n :: rest) = Some (n, rest).
Proof. unfold r_count, Cnt, r_nums. cbn. assert ((0 <=? Z.of_nat n)%Z = true) as -> by (apply Z.leb_le; lia). rewrite Nat2Z.id. reflexivity. Qed.

Lemma r_repeat_spec {A} (p : R A) (w : list tok) (a : A) :
  (forall rest, p (w ++ rest) = Some (a, rest)) ->
  forall n rest, r_repeat p n (concat (repeat w n) ++ rest) = Some (repeat a n, rest).
Proof.
  intros Hp. induction n as [|n IH]; intros rest; [reflexivity|].
  cbn [repeat concat r_repeat]. rewrite <- app_assoc. unfold bind at 1. rewrite Hp. unfold bind at 1. rewrite IH. reflexivity.
Qed.
Lemma r_repeat_single {A} (p : R A) (t : tok) (a : A) :
  (forall rest, p (t :: rest) = Some (a, rest)) ->
  forall n rest, r_repeat p n (repeat t n ++ rest) = Some (repeat a n, rest).
Proof.
  intros Hp. induction n as [|n IH]; intros rest; [reflexivity|].
  cbn [repeat r_repeat app]. unfold bind at 1. rewrite Hp. unfold bind at 1. rewrite IH. reflexivity.
Qed.

Lemma r_power_spec np rest : r_power (w_power np ++ rest) = Some (np, rest).
Proof. destruct np; reflexivity. Qed.
Lemma r_file_spec f rest : r_file (w_file f ++ rest) = Some (f, rest).
Proof. destruct f; reflexivity. Qed.
Lemma r_wire_spec rest : r_wire (w_wire ++ rest) = Some (tt, rest).
Proof. reflexivity. Qed.

(* ---- media ---- *)
Ltac crunch := unfold bind, ret; cbn [app r_nums r_word r_text r_yn Nat.eqb Z.eqb Pos.eqb fst snd Dn D Cnt cD cN cY cC cP cV cQ cE cH andb negb].

Lemma r_medium_first nm circ nrad rest : 1 <= nm -> (nm = 1 -> circ = false) -> (circ = false -> nrad = 0) ->
  r_medium nm (false, 0) 0 (w_medium nm circ nrad 0 ++ rest) = Some ((circ, nrad), rest).
Proof.
  intros H1 H2 H3. unfold r_medium, w_medium. cbn [Nat.eqb andb negb].
  destruct (1 <? nm) eqn:E1.
  - cbn [andb]. destruct circ.
    + unfold bind, ret. cbn [app r_nums Nat.eqb Z.eqb fst snd Dn Pos.eqb]. rewrite r_count_cnt.
      destruct (0 <? nrad); reflexivity.
    + rewrite (H3 eq_refl). reflexivity.
  - apply Nat.ltb_ge in E1. assert (nm = 1) by lia. subst nm. rewrite (H2 eq_refl), (H3 (H2 eq_refl)). reflexivity.
Qed.

Lemma r_medium_next nm circ nrad st k rest : 0 < k ->
  r_medium nm st k (w_medium nm circ nrad k ++ rest) = Some (st, rest).
Proof.
  intros Hk. unfold r_medium, w_medium. assert ((k =? 0) = false) as -> by (apply Nat.eqb_neq; lia). cbn [andb negb app].
  destruct (S k <? nm); reflexivity.
Qed.

Lemma r_media_next nm circ nrad st : forall ks rest, Forall (fun k => 0 < k) ks ->
  r_media nm ks st (flat_map (w_medium nm circ nrad) ks ++ rest) = Some (st, rest).
Proof.
  induction ks as [|k r IH]; intros rest Hf; [reflexivity|]. inversion Hf; subst.
  cbn [flat_map r_media]. rewrite <- app_assoc. unfold bind at 1. rewrite r_medium_next by assumption. apply IH. assumption.
Qed.

Lemma r_env_spec e rest :
  match e with EMedia nm circ nrad => 1 <= nm /\ (nm = 1 -> circ = false) /\ (circ = false -> nrad = 0) | _ => True end ->
  r_env (w_env e ++ rest) = Some (e, rest).
Proof.
  destruct e as [| |nm circ nrad]; intros H; try reflexivity.
  destruct H as (H1 & H2 & H3). cbn [w_env app]. unfold r_env. unfold bind at 1. cbn [r_nums Nat.eqb fst Z.eqb Pos.eqb].
  unfold bind at 1. rewrite r_count_cnt. assert ((nm =? 0) = false) as -> by (apply Nat.eqb_neq; lia).
  destruct nm as [|n]; [lia|]. cbn [seq flat_map r_media]. rewrite <- app_assoc.
  unfold bind at 1. unfold bind at 1. rewrite r_medium_first by assumption.
  rewrite r_media_next; [reflexivity|]. apply Forall_forall. intros k Hk. apply in_seq in Hk. lia.
Qed.

(* ---- loads ---- *)
Lemma r_sload_spec o rest : r_sload (TNum 2 wild (Z.of_nat o) :: repeat (Dn 2) (S o) ++ rest) = Some (o, rest).
Proof.
  unfold r_sload. unfold bind at 1. cbn [r_nums Nat.eqb snd].
  assert ((0 <=? Z.of_nat o)%Z = true) as -> by (apply Z.leb_le; lia). rewrite Nat2Z.id.
  unfold bind at 1. rewrite (r_repeat_single (r_nums 2) (Dn 2) (wild, wild)) by reflexivity. reflexivity.
Qed.

Lemma r_sloads_spec : forall os rest,
  r_repeat r_sload (length os) (flat_map (fun o => TNum 2 wild (Z.of_nat o) :: repeat (Dn 2) (S o)) os ++ rest) = Some (os, rest).
Proof.
  induction os as [|o r IH]; intros rest; [reflexivity|].
  cbn [length flat_map r_repeat]. rewrite <- app_assoc. rewrite app_cons.
  unfold bind at 1. rewrite r_sload_spec. unfold bind at 1. rewrite IH. reflexivity.
Qed.

Lemma r_loads_spec l rest :
  match l with LImp n => 1 <= n | LS os => os <> [] | LNone => True end ->
  r_loads (w_loads l ++ rest) = Some (l, rest).
Proof.
  destruct l as [|n|os]; intros H; [reflexivity| |].
  - cbn [w_loads app]. unfold r_loads. unfold bind at 1. rewrite r_count_cnt.
    assert ((n =? 0) = false) as -> by (apply Nat.eqb_neq; lia). unfold bind at 1. cbn [r_yn Z.eqb cY cN Pos.eqb].
    unfold bind at 1. rewrite (r_repeat_single (r_nums 3) (Dn 3) (wild, wild)) by reflexivity. reflexivity.
  - cbn [w_loads app]. unfold r_loads. unfold bind at 1. rewrite r_count_cnt.
    assert ((length os =? 0) = false) as -> by (apply Nat.eqb_neq; destruct os; [contradiction|cbn; lia]).
    unfold bind at 1. cbn [r_yn Z.eqb cY cN Pos.eqb]. unfold bind at 1. rewrite r_sloads_spec. reflexivity.
Qed.

(* ---- fields ---- *)
Lemma r_ff_spec f c rest : c <> cP -> r_ff (w_ff f ++ TW c :: rest) = Some (f, TW c :: rest).
Proof.
  intros Hc. destruct f as [|file|np file].
  - cbn [w_ff app r_ff]. destruct (Z.eqb_spec c cP); [contradiction|reflexivity].
  - cbn [w_ff app r_ff]. cbn [Z.eqb cP cD Pos.eqb]. unfold bind at 1. cbn [r_nums Dn Nat.eqb]. unfold bind at 1. cbn [r_nums Dn Nat.eqb].
    unfold bind at 1. rewrite r_file_spec. reflexivity.
  - cbn [w_ff app r_ff]. cbn [Z.eqb cP cD cV Pos.eqb]. rewrite <- app_assoc. unfold bind at 1. rewrite r_power_spec.
    cbn [app]. unfold bind at 1. cbn [r_nums D Dn Nat.eqb]. unfold bind at 1. cbn [r_nums D Dn Nat.eqb]. unfold bind at 1. cbn [r_nums D Dn Nat.eqb].
    unfold bind at 1. rewrite r_file_spec. reflexivity.
Qed.

Lemma r_nf1_spec c np rest : r_nf1 c (w_nf1 c np ++ rest) = Some (np, rest).
Proof.
  unfold r_nf1, w_nf1. cbn [app]. unfold bind at 1. cbn [r_word Z.eqb cN Pos.eqb].
  unfold bind at 1. unfold r_word at 1. rewrite Z.eqb_refl.
  unfold bind at 1. cbn [r_nums Dn Nat.eqb]. unfold bind at 1. cbn [r_nums Dn Nat.eqb]. unfold bind at 1. cbn [r_nums Dn Nat.eqb].
  rewrite <- app_assoc. unfold bind at 1. rewrite r_power_spec. cbn [app]. unfold bind at 1. cbn [r_word Z.eqb cN Pos.eqb]. reflexivity.
Qed.

Lemma r_nf_spec n rest : r_nf (w_nf n ++ TW cQ :: rest) = Some (n, TW cQ :: rest).
Proof.
  destruct n as [np|]; [|reflexivity].
  cbn [w_nf]. rewrite <- app_assoc.
  assert (Hhead : forall X, r_nf (w_nf1 cE np ++ X) = (a <- r_nf1 cE ;; b <- r_nf1 cH ;; if Bool.eqb a b then ret (Some a) else (fun _ => None)) (w_nf1 cE np ++ X)) by reflexivity.
  rewrite Hhead. unfold bind at 1. rewrite r_nf1_spec. unfold bind at 1. rewrite r_nf1_spec. rewrite eqb_reflx. reflexivity.
Qed.

Theorem read_write_proof (s : shape) : wf s -> read (write s) = Some (s, []).
Proof.
  intros [He Hl]. destruct s as [e nw ns lo ff nf]. cbn [sh_env sh_wires sh_sources sh_loads sh_ff sh_nf] in *.
  unfold read, write. cbn [sh_env sh_wires sh_sources sh_loads sh_ff sh_nf]. cbn [app].
  unfold bind at 1. cbn [r_word Z.eqb cD Pos.eqb]. unfold bind at 1. cbn [r_text]. unfold bind at 1. cbn [r_nums D Nat.eqb].
  unfold bind at 1. rewrite r_env_spec by exact He.
  unfold bind at 1. rewrite r_count_cnt.
  unfold bind at 1. rewrite (r_repeat_spec r_wire w_wire tt r_wire_spec).
  cbn [app]. unfold bind at 1. cbn [r_word Z.eqb cN Pos.eqb].
  unfold bind at 1. rewrite r_count_cnt.
  unfold bind at 1. rewrite (r_repeat_single (r_nums 3) (Dn 3) (wild, wild)) by reflexivity.
  unfold bind at 1. rewrite r_loads_spec by exact Hl.
  cbn [app]. unfold bind at 1. cbn [r_word Z.eqb cC Pos.eqb]. unfold bind at 1. cbn [r_word Z.eqb cN Pos.eqb].
  unfold bind at 1.
  destruct nf as [np|].
  - assert (Hh : forall X, w_nf (Some np) ++ X = TW cN :: (TW cE :: Dn 3 :: Dn 3 :: Dn 3 :: (w_power np ++ [TW cN]) ++ w_nf1 cH np ++ X)).
    { intros X. cbn [w_nf]. unfold w_nf1 at 1. cbn [app]. rewrite <- !app_assoc. reflexivity. }
    rewrite Hh. rewrite (r_ff_spec ff cN) by discriminate. rewrite <- Hh.
    unfold bind at 1. rewrite r_nf_spec. unfold bind at 1. cbn [r_word Z.eqb cQ Pos.eqb]. reflexivity.
  - cbn [w_nf app]. rewrite (r_ff_spec ff cQ) by discriminate.
    unfold bind at 1. change (TW cQ :: []) with (w_nf None ++ TW cQ :: []). rewrite r_nf_spec.
    unfold bind at 1. cbn [r_word Z.eqb cQ Pos.eqb]. reflexivity.
Qed.
