(* C02: the entries the matrix fill COPIES instead of computing.  A pair of pulses (m', n') that is the pair (m, n)
   moved by a translation t (same half lengths, directions, radii, signs, same objects, same index distance) has
   the same directly computed entry, for ANY potential functional psi: every argument the entry hands to psi is a
   difference source point - observation point.  This is what makes the diagonal copy inside a uniformly segmented
   straight wire sound; correspondence stage `zmat` checks on every real case that the pairs of every copy group
   the code forms ARE translates of each other (ZDriver.copy_groups_translates). *)
From Coq Require Import ZArith List Bool Arith Lia Reals Lra.
From Coquelicot Require Import Coquelicot.
From PM Require Import Base.Num Base.RNum Base.Cplx Base.CplxR Model.Kernel Model.ZMatrix Proofs.CxAlg Proofs.GeometryR Proofs.KernelP.
Import ListNotations.

Notation zpulseR := (@zpulse RNum).

Definition shifted (t : V3R) (p q : zpulseR) : Prop :=
  zp_point q = v3add (zp_point p) t /\
  fst (zp_ends q) = v3add (fst (zp_ends p)) t /\ snd (zp_ends q) = v3add (snd (zp_ends p)) t /\
  zp_len q = zp_len p /\ zp_dir q = zp_dir p /\ zp_r q = zp_r p /\ zp_i6 q = zp_i6 p /\
  zp_dsgn q = zp_dsgn p /\ zp_gsgn q = zp_gsgn p /\ zp_obj q = zp_obj p.

(* of the OBSERVER pulse the entry uses less: its point, its ends, half lengths, directions and direction signs *)
Definition obs_shifted (t : V3R) (p q : zpulseR) : Prop :=
  zp_point q = v3add (zp_point p) t /\
  fst (zp_ends q) = v3add (fst (zp_ends p)) t /\ snd (zp_ends q) = v3add (snd (zp_ends p)) t /\
  zp_len q = zp_len p /\ zp_dir q = zp_dir p /\ zp_dsgn q = zp_dsgn p /\ zp_obj q = zp_obj p.
Lemma shifted_obs t p q : shifted t p q -> obs_shifted t p q.
Proof. intros (A & B & C & D & E & _ & _ & F & _ & G). repeat split; assumption. Qed.

Lemma v3add_shift_assoc (x p t : V3R) : v3add x (v3add p t) = v3add (v3add x p) t.
Proof. v3_destruct. v3_unfold. f_equal; [f_equal|]; Rgoal; ring. Qed.
Lemma kv_one (v : V3R) : @kv RNum 1%R v = v.
Proof. v3_destruct. unfold kv. v3_unfold. f_equal. Rgoal. ring. Qed.

Lemma endseg_shift t p q ds : obs_shifted t p q -> endseg q ds = v3add (endseg p ds) t.
Proof.
  intros (Hp & He0 & He1 & _). unfold endseg, pick. rewrite Hp.
  destruct (ltb zero ds); [rewrite He1|rewrite He0]; rewrite diff_translate; apply v3add_shift_assoc.
Qed.
Lemma dvecs_shift t p q ds : shifted t p q ->
  fst (dvecs q ds) = v3add (fst (dvecs p ds)) t /\ snd (dvecs q ds) = v3add (snd (dvecs p ds)) t.
Proof.
  intros H. pose proof (endseg_shift t p q ds (shifted_obs t p q H)) as He. destruct H as (Hp & _). unfold dvecs.
  destruct (ltb ds zero); cbn [fst snd]; rewrite He, Hp; split; reflexivity.
Qed.
Lemma kparam_shift t p q pos : shifted t p q -> kparam_of q pos = kparam_of p pos.
Proof. intros (_ & _ & _ & Hl & _ & Hr & Hi & _). unfold kparam_of. rewrite Hl, Hr, Hi. reflexivity. Qed.
Lemma sign_shift t p q pos : shifted t p q -> zp_sign q pos = zp_sign p pos.
Proof. intros (_ & _ & _ & _ & _ & _ & _ & Hd & Hg & _). unfold zp_sign. rewrite Hd, Hg. reflexivity. Qed.

Section Copy.
Variable w srm w2 : R.
Variable psi_f : V3R -> V3R -> R -> R -> @kparam RNum -> bool -> bool -> @Cx RNum.
Variable conn : nat -> nat -> bool.
Variable ps : list zpulseR.
Variables (m n m' n' : nat) (t : V3R).
Hypothesis Hm : obs_shifted t (P ps m) (P ps m').
Hypothesis Hn : shifted t (P ps n) (P ps n').
Hypothesis Hd : (Z.of_nat m' - Z.of_nat n' = Z.of_nat m - Z.of_nat n)%Z.

Lemma eqb_mn : Nat.eqb m' n' = Nat.eqb m n.
Proof. destruct (Nat.eqb_spec m' n'), (Nat.eqb_spec m n); try reflexivity; lia. Qed.

Lemma vecpot_shift pos : vecpot w srm psi_f conn ps 1%R m' n' pos = vecpot w srm psi_f conn ps 1%R m n pos.
Proof.
  unfold vecpot. cbv zeta. rewrite eqb_mn.
  destruct Hn as (_ & _ & _ & Hl & _ & Hr & _ & _ & _ & Ho). destruct Hm as (Hp & _ & _ & _ & _ & _ & Hom).
  rewrite Hr, Hl.
  match goal with |- (if ?c then _ else _) = _ => destruct c end; [reflexivity|].
  destruct (dvecs_shift t _ _ (if pos then half else (- half)%num) Hn) as [D1 D2].
  rewrite D1, D2, Hp, !kv_one, !diff_translate, (kparam_shift t _ _ pos Hn), Ho, Hom. reflexivity.
Qed.

Lemma scapot_shift p1 p2 : scapot w srm psi_f conn ps 1%R m' n' p1 p2 = scapot w srm psi_f conn ps 1%R m n p1 p2.
Proof.
  unfold scapot. cbv zeta.
  destruct Hn as (_ & _ & _ & Hl & _ & Hr & _ & _ & _ & Ho). destruct Hm as (_ & _ & _ & _ & _ & _ & Hom).
  rewrite Hr, Hl, Ho, Hom.
  assert (Z.eqb (2 * Z.of_nat m' + (if p1 then 1 else -1)) (2 * Z.of_nat n' + (if p2 then 1 else -1)) =
          Z.eqb (2 * Z.of_nat m + (if p1 then 1 else -1)) (2 * Z.of_nat n + (if p2 then 1 else -1))) as ->.
  { destruct (Z.eqb_spec (2 * Z.of_nat m' + (if p1 then 1 else -1)) (2 * Z.of_nat n' + (if p2 then 1 else -1))),
             (Z.eqb_spec (2 * Z.of_nat m + (if p1 then 1 else -1)) (2 * Z.of_nat n + (if p2 then 1 else -1))); try reflexivity; lia. }
  match goal with |- (if ?c then _ else _) = _ => destruct c end; [reflexivity|].
  destruct (dvecs_shift t _ _ (if p2 then one else (- one)%num) Hn) as [D1 D2].
  rewrite D1, D2, (endseg_shift t _ _ (if p1 then half else (- half)%num) Hm), !kv_one, !diff_translate, (kparam_shift t _ _ p2 Hn). reflexivity.
Qed.

Lemma zzz_shift : zzz ps m' = zzz ps m.
Proof. destruct Hm as (_ & _ & _ & Hl & Hdir & Hds & _). unfold zzz. rewrite Hl, Hdir, Hds. reflexivity. Qed.

(* the entry of the translated pair is the entry of the pair, at every optimisation level *)
Theorem copy_sound_proof (f8 : nat) :
  entry w srm w2 psi_f conn ps 1%R f8 m' n' = entry w srm w2 psi_f conn ps 1%R f8 m n.
Proof.
  unfold entry. cbv zeta. rewrite !vecpot_shift, !scapot_shift, zzz_shift, !(sign_shift t _ _ _ Hn).
  destruct Hn as (_ & _ & _ & Hl & Hdir & _ & _ & _ & Hg & _). rewrite Hl, Hdir, Hg. reflexivity.
Qed.
End Copy.
