(* Algebra of the complex numbers and dense vectors of the real instance. *)
From Coq Require Import ZArith List Reals Lra Lia.
From Coquelicot Require Import Coquelicot.
From PM Require Import Base.Num Base.RNum Base.Cplx Base.CplxR.
Import ListNotations.

Notation CR := (@Cx RNum).
Notation vecR := (@cvec RNum).
Notation matR := (@cmat RNum).

Ltac zpow_norm :=
  repeat match goal with
  | |- context [Z.pow ?a ?b] =>
      let v := eval vm_compute in (Z.pow a b) in change (Z.pow a b) with v
  end.
Ltac cx_unfold :=
  cbv [cadd csub cmul copp cconj cscale cdivr cinv cdiv cabs2 c0 c1 cj cofR cre cim
       fst snd add sub mul div opp zero one two half sqr of_dec Rof_dec of_Z RNum T] in *;
  zpow_norm.
Ltac cx_destruct :=
  repeat match goal with
  | x : ?t |- _ =>
      let t' := eval hnf in t in
      match t' with prod _ _ => destruct x end
  end.
Ltac Rgoal := match goal with |- @eq _ ?a ?b => change (@eq R a b) end.
Ltac cx_ring := intros; cx_destruct; cx_unfold; f_equal; ring.
Ltac cx_field := intros; cx_destruct; cx_unfold; f_equal; field.

Lemma cadd_comm (a b : CR) : cadd a b = cadd b a.                 Proof. cx_ring. Qed.
Lemma cadd_assoc (a b c : CR) : cadd a (cadd b c) = cadd (cadd a b) c. Proof. cx_ring. Qed.
Lemma cadd_0_l (a : CR) : cadd c0 a = a.                           Proof. cx_ring. Qed.
Lemma cadd_0_r (a : CR) : cadd a c0 = a.                           Proof. cx_ring. Qed.
Lemma cmul_comm (a b : CR) : cmul a b = cmul b a.                 Proof. cx_ring. Qed.
Lemma cmul_assoc (a b c : CR) : cmul a (cmul b c) = cmul (cmul a b) c. Proof. cx_ring. Qed.
Lemma cmul_0_l (a : CR) : cmul c0 a = c0.                          Proof. cx_ring. Qed.
Lemma cmul_0_r (a : CR) : cmul a c0 = c0.                          Proof. cx_ring. Qed.
Lemma cmul_1_l (a : CR) : cmul c1 a = a.                           Proof. cx_ring. Qed.
Lemma cmul_cadd_l (a b c : CR) : cmul a (cadd b c) = cadd (cmul a b) (cmul a c). Proof. cx_ring. Qed.
Lemma cmul_cadd_r (a b c : CR) : cmul (cadd a b) c = cadd (cmul a c) (cmul b c). Proof. cx_ring. Qed.
Lemma csub_diag (a : CR) : csub a a = c0.                          Proof. cx_ring. Qed.
Lemma csub_cadd (a b : CR) : csub (cadd a b) b = a.                Proof. cx_ring. Qed.
Lemma cadd_csub (a b : CR) : cadd (csub a b) b = a.                Proof. cx_ring. Qed.
Lemma cmul_csub_l (a b c : CR) : cmul a (csub b c) = csub (cmul a b) (cmul a c). Proof. cx_ring. Qed.
Lemma csub_0_eq (a b : CR) : csub a b = c0 -> a = b.
Proof.
  destruct a as [a1 a2], b as [b1 b2]; cx_unfold. intros H. inversion H. f_equal; lra.
Qed.

(* ---- vectors ---- *)
Lemma vadd_length (x y : vecR) : length (vadd x y) = Nat.min (length x) (length y).
Proof. unfold vadd. rewrite map_length, combine_length. reflexivity. Qed.
Lemma vscale_length k (x : vecR) : length (vscale k x) = length x.
Proof. unfold vscale. apply map_length. Qed.

Lemma cdot_nil_r (a : vecR) : cdot a [] = c0.
Proof. destruct a; reflexivity. Qed.

Lemma cdot_vadd_r (row x y : vecR) :
  length x = length y -> cdot row (vadd x y) = cadd (cdot row x) (cdot row y).
Proof.
  revert x y. induction row as [|r row IH]; intros x y H; cbn [cdot].
  - rewrite cadd_0_l. reflexivity.
  - destruct x as [|a x], y as [|b y]; try discriminate.
    + cbn. rewrite cadd_0_l. reflexivity.
    + cbn [vadd combine map fst snd cdot]. fold (vadd x y).
      rewrite IH by (cbn in H; lia).
      rewrite cmul_cadd_l. clear. generalize (cmul r a) (cmul r b) (cdot row x) (cdot row y).
      cx_ring.
Qed.

Lemma cdot_vscale_r k (row x : vecR) : cdot row (vscale k x) = cmul k (cdot row x).
Proof.
  revert x. induction row as [|r row IH]; intros x; cbn [cdot].
  - rewrite cmul_0_r. reflexivity.
  - destruct x as [|a x]; cbn [vscale map cdot].
    + rewrite cmul_0_r. reflexivity.
    + fold (vscale k x). rewrite IH. generalize (cdot row x). cx_ring.
Qed.

Lemma vadd_cons a b (x y : vecR) : vadd (a :: x) (b :: y) = cadd a b :: vadd x y.
Proof. reflexivity. Qed.
Lemma vscale_cons k a (x : vecR) : vscale k (a :: x) = cmul k a :: vscale k x.
Proof. reflexivity. Qed.
Lemma mvmul_cons r (M : matR) v : mvmul (r :: M) v = cdot r v :: mvmul M v.
Proof. reflexivity. Qed.
Lemma mvmul_length (M : matR) v : length (mvmul M v) = length M.
Proof. apply map_length. Qed.

Lemma mvmul_vadd (M : matR) (x y : vecR) :
  length x = length y -> mvmul M (vadd x y) = vadd (mvmul M x) (mvmul M y).
Proof.
  intros H. induction M as [|r M IH]; [reflexivity|].
  rewrite !mvmul_cons, vadd_cons, cdot_vadd_r by exact H. f_equal. exact IH.
Qed.

Lemma mvmul_vscale (M : matR) k (x : vecR) :
  mvmul M (vscale k x) = vscale k (mvmul M x).
Proof.
  induction M as [|r M IH]; [reflexivity|].
  rewrite !mvmul_cons, vscale_cons, cdot_vscale_r. f_equal. exact IH.
Qed.

(* a*x + b*y *)
Definition vlin (a : CR) (x : vecR) (b : CR) (y : vecR) : vecR :=
  vadd (vscale a x) (vscale b y).

Lemma vlin_length a x b y : length x = length y -> length (vlin a x b y) = length x.
Proof. intros H. unfold vlin. rewrite vadd_length, !vscale_length, H. apply Nat.min_id. Qed.

Lemma mvmul_vlin (M : matR) a x b y :
  length x = length y -> mvmul M (vlin a x b y) = vlin a (mvmul M x) b (mvmul M y).
Proof.
  intros H. unfold vlin. rewrite mvmul_vadd by (rewrite !vscale_length; exact H).
  rewrite !mvmul_vscale. reflexivity.
Qed.

Lemma vnth_vlin a (x : vecR) b y k :
  length x = length y -> vnth (vlin a x b y) k = cadd (cmul a (vnth x k)) (cmul b (vnth y k)).
Proof.
  unfold vnth, vlin. revert y k. induction x as [|u x IH]; intros y k H; destruct y as [|v y]; try discriminate.
  - destruct k; cbn; cx_ring.
  - rewrite !vscale_cons, vadd_cons. destruct k; [reflexivity|]. cbn [nth]. apply IH. cbn in H; lia.
Qed.

Lemma vnth_vscale c (v : vecR) q : vnth (vscale c v) q = cmul c (vnth v q).
Proof.
  unfold vnth. revert q. induction v as [|a v IH]; intros q.
  - destruct q; cbn; rewrite cmul_0_r; reflexivity.
  - destruct q as [|q]; [reflexivity|]. rewrite vscale_cons. cbn [nth]. apply IH.
Qed.

(* "Z is nonsingular", in the form used by every theorem: Z x = Z y -> x = y
   on vectors of the right length *)
Definition injective_on (n : nat) (Z : matR) : Prop :=
  forall x y : vecR, length x = n -> length y = n -> mvmul Z x = mvmul Z y -> x = y.
