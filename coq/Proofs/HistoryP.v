(* C14: history freedom of the cache state machine; order freedom of the
   load-attachment writer. *)
From Coq Require Import ZArith List Bool Arith Lia Sorting.Permutation Sorting.Sorted.
From PM Require Import Base.Num Base.Cplx Model.History.
Import ListNotations.

Section HistP.
Context {N : Num}.
Variable zint_of : T -> nat -> Cx.
Variable zins_of : nat -> T.
Variable nobj : nat.

Notation hstate := (@hstate N).
(* invariant: every cache entry is empty or holds the value a fresh evaluation
   at the CURRENT frequency would compute *)
Definition inv (s : hstate) : Prop :=
  length (h_zint s) = nobj /\ length (h_zins s) = nobj /\
  (forall i z, nth i (h_zint s) None = Some z -> z = zint_of (h_f s) i) /\
  (forall i z, nth i (h_zins s) None = Some z -> z = zins_of i).

Lemma nth_repeat_none {A} n i : nth i (repeat (@None A) n) None = None.
Proof. revert i. induction n; intros [|i]; cbn; auto. Qed.

Lemma inv_fresh f : inv (fresh nobj f).
Proof.
  unfold inv, fresh. cbn. rewrite !repeat_length. repeat split; try reflexivity;
  intros i z H; rewrite nth_repeat_none in H; discriminate.
Qed.

Lemma nth_fill {A} (g : nat -> A) (c : list (option A)) i : length c = nobj -> (i < nobj)%nat ->
  nth i (map (fun p => match snd p with Some z => Some z | None => Some (g (fst p)) end) (combine (seq 0 nobj) c)) None =
  match nth i c None with Some z => Some z | None => Some (g i) end.
Proof.
  intros Hl Hi.
  assert (forall (c : list (option A)) k0 n i, length c = n -> (i < n)%nat ->
            nth i (map (fun p => match snd p with Some z => Some z | None => Some (g (fst p)) end) (combine (seq k0 n) c)) None =
            match nth i c None with Some z => Some z | None => Some (g (k0 + i)%nat) end) as H.
  { clear. induction c as [|x c IH]; intros k0 n i Hl Hi; [cbn in Hl; lia|].
    destruct n as [|n]; [lia|]. cbn [seq combine map]. destruct i as [|i].
    - cbn. rewrite Nat.add_0_r. reflexivity.
    - cbn [nth]. rewrite (IH (S k0) n i) by (cbn in Hl; lia). replace (S k0 + i)%nat with (k0 + S i)%nat by lia. reflexivity. }
  rewrite (H c 0%nat nobj i Hl Hi). reflexivity.
Qed.

Lemma inv_step s o : inv s -> inv (hstep zint_of zins_of nobj s o).
Proof.
  intros [L1 [L2 [H1 H2]]]. destruct o as [f| | |]; cbn [hstep]; try (repeat split; assumption).
  - (* SetF *) unfold inv. cbn. rewrite map_length. repeat split; try assumption.
    intros i z H. exfalso.
    assert (forall (l : list (option Cx)) i, nth i (map (fun _ => @None Cx) l) None = None) as Hn.
    { induction l as [|a l IH]; intros [|j]; cbn; auto. }
    rewrite Hn in H. discriminate.
  - (* Compute *) unfold inv. cbn. unfold fill_zint, fill_zins. rewrite !map_length, !combine_length, !seq_length, L1, L2, !Nat.min_id.
    repeat split; try reflexivity.
    + intros i z H. destruct (Nat.lt_ge_cases i nobj) as [Hi|Hi].
      * rewrite (nth_fill (zint_of (h_f s)) (h_zint s) i L1 Hi) in H.
        destruct (nth i (h_zint s) None) as [z'|] eqn:E; inversion H; subst; [apply H1; exact E|reflexivity].
      * rewrite nth_overflow in H by (rewrite map_length, combine_length, seq_length, L1, Nat.min_id; exact Hi). discriminate.
    + intros i z H. destruct (Nat.lt_ge_cases i nobj) as [Hi|Hi].
      * rewrite (nth_fill zins_of (h_zins s) i L2 Hi) in H.
        destruct (nth i (h_zins s) None) as [z'|] eqn:E; inversion H; subst; [apply H2; exact E|reflexivity].
      * rewrite nth_overflow in H by (rewrite map_length, combine_length, seq_length, L2, Nat.min_id; exact Hi). discriminate.
Qed.

Lemma inv_run s ops : inv s -> inv (hrun zint_of zins_of nobj s ops).
Proof. unfold hrun. revert s. induction ops as [|o ops IH]; intros s H; cbn; [exact H|]. apply IH, inv_step, H. Qed.

(* after ANY history, what compute() uses is what a fresh object at the
   current frequency would use *)
Lemma history_free_proof f0 ops i :
  let s := hrun zint_of zins_of nobj (fresh nobj f0) ops in
  used_zint zint_of s i = zint_of (h_f s) i /\ used_zins zins_of s i = zins_of i.
Proof.
  intros s. destruct (inv_run (fresh nobj f0) ops (inv_fresh f0)) as [_ [_ [H1 H2]]]. fold s in H1, H2.
  unfold used_zint, used_zins. split.
  - destruct (nth i (h_zint s) None) as [z|] eqn:E; [apply H1; exact E|reflexivity].
  - destruct (nth i (h_zins s) None) as [z|] eqn:E; [apply H2; exact E|reflexivity].
Qed.

(* the frequency after a history is the last one set *)
Lemma last_frequency_proof f0 ops f :
  h_f (hrun zint_of zins_of nobj (fresh nobj f0) (ops ++ [SetF f; Compute])) = f.
Proof. unfold hrun. rewrite fold_left_app. reflexivity. Qed.

End HistP.

(* ---------- writer: attachments are written in object order, whatever order
   the set of objects is iterated in ---------- *)
Fixpoint ins_nat (x : nat) (l : list nat) : list nat :=
  match l with [] => [x] | y :: r => if Nat.leb x y then x :: l else y :: ins_nat x r end.
Definition sort_nat (l : list nat) : list nat := fold_right ins_nat [] l.

Lemma ins_perm x l : Permutation (x :: l) (ins_nat x l).
Proof.
  induction l as [|y l IH]; cbn; [apply Permutation_refl|]. destruct (Nat.leb x y); [apply Permutation_refl|].
  apply perm_trans with (y :: x :: l); [apply perm_swap|apply perm_skip, IH].
Qed.
Lemma sort_nat_perm l : Permutation l (sort_nat l).
Proof. induction l as [|x l IH]; cbn; [apply perm_nil|]. apply perm_trans with (x :: sort_nat l); [apply perm_skip, IH|apply ins_perm]. Qed.
Lemma ins_sorted x l : StronglySorted le l -> StronglySorted le (ins_nat x l).
Proof.
  induction l as [|y l IH]; intros H; cbn; [constructor; constructor|].
  destruct (Nat.leb_spec x y).
  - constructor; [exact H|]. constructor; [exact H0|]. inversion H; subst. rewrite Forall_forall in *. intros z Hz. specialize (H4 z Hz). lia.
  - inversion H; subst. constructor; [apply IH; assumption|]. rewrite Forall_forall in *. intros z Hz.
    apply (Permutation_in _ (Permutation_sym (ins_perm x l))) in Hz. destruct Hz as [<-|Hz]; [lia|apply H4, Hz].
Qed.
Lemma sort_nat_sorted l : StronglySorted le (sort_nat l).
Proof. induction l as [|x l IH]; cbn; [constructor|apply ins_sorted, IH]. Qed.

Lemma sorted_perm_eq (l1 l2 : list nat) :
  StronglySorted le l1 -> StronglySorted le l2 -> Permutation l1 l2 -> l1 = l2.
Proof.
  revert l2. induction l1 as [|a l1 IH]; intros l2 S1 S2 P.
  - apply Permutation_nil in P. subst. reflexivity.
  - destruct l2 as [|b l2]; [apply Permutation_sym, Permutation_nil in P; discriminate|].
    inversion S1 as [|? ? S1' F1]; subst. inversion S2 as [|? ? S2' F2]; subst.
    assert (a = b) as ->.
    { assert (In a (b :: l2)) as Ha by (apply (Permutation_in _ P); left; reflexivity).
      assert (In b (a :: l1)) as Hb by (apply (Permutation_in _ (Permutation_sym P)); left; reflexivity).
      rewrite Forall_forall in F1, F2.
      destruct Ha as [->|Ha]; [reflexivity|]. destruct Hb as [->|Hb]; [reflexivity|].
      specialize (F1 b Hb). specialize (F2 a Ha). lia. }
    f_equal. apply IH; try assumption. apply (Permutation_cons_inv P).
Qed.

Lemma writer_order_free_proof (l1 l2 : list nat) : Permutation l1 l2 -> sort_nat l1 = sort_nat l2.
Proof.
  intros P. apply sorted_perm_eq; try apply sort_nat_sorted.
  apply perm_trans with l1; [apply Permutation_sym, sort_nat_perm|]. apply perm_trans with l2; [exact P|apply sort_nat_perm].
Qed.

Lemma repeat_idempotent_proof :
  forall (N : Num) (zint_of : T -> nat -> Cx) (zins_of : nat -> T) (nobj : nat) (s : hstate),
    inv zint_of zins_of nobj s ->
    hstep zint_of zins_of nobj s FarField = s /\ hstep zint_of zins_of nobj s NearField = s /\
    forall i, used_zint zint_of (hstep zint_of zins_of nobj (hstep zint_of zins_of nobj s Compute) Compute) i =
              used_zint zint_of (hstep zint_of zins_of nobj s Compute) i.
Proof.
  intros N zint_of zins_of nobj s H. split; [reflexivity|]. split; [reflexivity|]. intros i.
  pose proof (inv_step zint_of zins_of nobj s Compute H) as H1.
  pose proof (inv_step zint_of zins_of nobj _ Compute H1) as H2.
  destruct H1 as [_ [_ [A1 _]]]. destruct H2 as [_ [_ [A2 _]]].
  unfold used_zint.
  destruct (nth i (h_zint (hstep zint_of zins_of nobj (hstep zint_of zins_of nobj s Compute) Compute)) None) as [z|] eqn:E2;
  destruct (nth i (h_zint (hstep zint_of zins_of nobj s Compute)) None) as [z'|] eqn:E1.
  - rewrite (A2 i z E2), (A1 i z' E1). reflexivity.
  - rewrite (A2 i z E2). reflexivity.
  - rewrite (A1 i z' E1). reflexivity.
  - reflexivity.
Qed.
