(* Theorems about the pulse topology (C12, C17, C09): combinatorial, valid
   for every numeric instance. *)
From Coq Require Import ZArith List Bool Arith Lia.
From PM Require Import Base.Num Base.Cplx Model.Topology.
Import ListNotations.

Section TopoP.
Context {N : Num}.

(* ---------- number of pulses per object ---------- *)
Lemma interior_cons i k n0 (a b : seg) r :
  interior i k n0 (a :: b :: r) =
  mkPulse (sg_p2 a) (sg_p1 a, sg_p2 b) ((i, k), (i, S k)) (false, false) (true, true) i n0
  :: interior i (S k) (S n0) (b :: r).
Proof. reflexivity. Qed.

Lemma interior_length i k n0 (sg : list seg) : length (interior i k n0 sg) = (length sg - 1)%nat.
Proof.
  revert k n0. induction sg as [|a sg IH]; intros k n0; [reflexivity|].
  destruct sg as [|b sg]; [reflexivity|].
  rewrite interior_cons. cbn [length]. rewrite IH. cbn [length]. lia.
Qed.

Lemma obj_pulses_length os i o st : (1 <= length (ob_segs o))%nat ->
  length (obj_pulses os i o st) = pulse_count i (length (ob_segs o)) st.
Proof.
  intros Hn. unfold obj_pulses, pulse_count. cbv zeta.
  rewrite !app_length, interior_length.
  destruct st as [s0 s1]. cbn [fst snd].
  assert (forall s, length (match s with
             | Free => []
             | Grounded => [mkPulse (ob_p1 o) (mirror_z (sg_p2 (first_seg o)), sg_p2 (first_seg o)) ((i, O), (i, O)) (true, false) (true, true) i O]
             | Joined j e2 same =>
                 if Nat.eqb j i then [] else
                 [mkPulse (ob_p1 o)
                    (v3sub (ob_p1 o) (v3scale (mul (sg_len (nth (owner_seg_idx (length (ob_segs (nth j os o))) false same) (ob_segs (nth j os o)) seg_default)) (sgnT same))
                                              (sg_dir (nth (owner_seg_idx (length (ob_segs (nth j os o))) false same) (ob_segs (nth j os o)) seg_default))),
                     sg_p2 (first_seg o))
                    ((j, owner_seg_idx (length (ob_segs (nth j os o))) false same), (i, O)) (false, false) (same, true) i O]
             end) = if end1_pulse i s then 1 else 0)%nat as H1.
  { intros [| |j e2 same]; cbn [end1_pulse]; try reflexivity. destruct (Nat.eqb j i); reflexivity. }
  rewrite H1.
  destruct s1 as [| |j e2 same]; cbn [end2_pulse length]; lia.
Qed.

(* ---------- global count ---------- *)
Fixpoint total_count (i : nat) (nsegs : list nat) (sts : list (status * status)) : nat :=
  match nsegs, sts with
  | n :: r, st :: s => (pulse_count i n st + total_count (S i) r s)%nat
  | _, _ => O
  end.

Lemma all_pulses_length os i rest sts :
  Forall (fun o => 1 <= length (ob_segs o))%nat rest ->
  length (concat (all_pulses_from os i rest sts)) = total_count i (map (fun o => length (ob_segs o)) rest) sts.
Proof.
  revert i sts. induction rest as [|o rest IH]; intros i sts HF; [reflexivity|].
  destruct sts as [|st sts]; [reflexivity|].
  inversion HF as [|? ? Ho HF']; subst.
  cbn [all_pulses_from concat map total_count]. rewrite app_length, obj_pulses_length by exact Ho.
  rewrite IH by exact HF'. reflexivity.
Qed.

Lemma count_proof tol (os : list obj) :
  Forall (fun o => 1 <= length (ob_segs o))%nat os ->
  length (tp_pulses (build tol os)) =
  total_count O (map (fun o => length (ob_segs o)) os) (scan tol [] O os).
Proof. intros H. unfold tp_pulses, build. cbn [tp_by_obj]. apply all_pulses_length. exact H. Qed.

(* the same count, split as in the property: segments - 1, grounded ends, joined ends *)
Definition is_grounded (s : status) : bool := match s with Grounded => true | _ => false end.
Definition is_joined1 (i : nat) (s : status) : bool :=
  match s with Joined j _ _ => negb (Nat.eqb j i) | _ => false end.
Definition is_joined2 (s : status) : bool := match s with Joined _ _ _ => true | _ => false end.
Definition b2n (b : bool) : nat := if b then 1 else 0.

Lemma pulse_count_split i n st :
  pulse_count i n st =
  ((n - 1) + (b2n (is_grounded (fst st)) + b2n (is_grounded (snd st)))
           + (b2n (is_joined1 i (fst st)) + b2n (is_joined2 (snd st))))%nat.
Proof.
  unfold pulse_count. destruct st as [[| |j e s] [| |j' e' s']]; cbn; try lia;
  destruct (Nat.eqb j i); cbn; lia.
Qed.

(* ---------- numbering ---------- *)
Lemma interior_nth i k n0 (sg : list seg) q d : (q < length sg - 1)%nat ->
  pu_n (nth q (interior i k n0 sg) d) = (n0 + q)%nat /\ pu_obj (nth q (interior i k n0 sg) d) = i /\
  pu_segs (nth q (interior i k n0 sg) d) = ((i, (k + q)%nat), (i, S (k + q))) /\
  pu_point (nth q (interior i k n0 sg) d) = sg_p2 (nth q sg seg_default).
Proof.
  revert k n0 q. induction sg as [|a sg IH]; intros k n0 q Hq; [cbn in Hq; lia|].
  destruct sg as [|b sg]; [cbn in Hq; lia|].
  rewrite interior_cons. destruct q as [|q].
  - cbn [nth pu_n pu_obj pu_segs pu_point]. rewrite !Nat.add_0_r. repeat split; reflexivity.
  - cbn [nth]. destruct (IH (S k) (S n0) q) as [A [B [C D]]]; [cbn [length] in *; lia|].
    rewrite A, B, C, D. repeat split; try reflexivity; try lia.
    + f_equal; f_equal; lia.
Qed.

Lemma obj_pulses_numbering os i o st q d : (1 <= length (ob_segs o))%nat ->
  (q < length (obj_pulses os i o st))%nat ->
  pu_n (nth q (obj_pulses os i o st) d) = q /\ pu_obj (nth q (obj_pulses os i o st) d) = i.
Proof.
  intros Hn Hq. unfold obj_pulses in *. cbv zeta in *.
  set (p1 := match fst st with Free => _ | Grounded => _ | Joined _ _ _ => _ end) in *.
  set (mid := interior i 0 (length p1) (ob_segs o)) in *.
  set (p2 := match snd st with Free => _ | Grounded => _ | Joined _ _ _ => _ end) in *.
  assert (length p1 <= 1 /\ forall x, In x p1 -> pu_n x = O /\ pu_obj x = i)%nat as [Hl1 Hp1].
  { subst p1. destruct (fst st) as [| |j e2 same]; cbn; [split; [lia|tauto]| |].
    - split; [lia|]. intros x [<-|[]]. split; reflexivity.
    - destruct (Nat.eqb j i); cbn; [split; [lia|tauto]|]. split; [lia|]. intros x [<-|[]]. split; reflexivity. }
  assert (length p2 <= 1 /\ forall x, In x p2 -> pu_n x = (length p1 + length mid)%nat /\ pu_obj x = i)%nat as [Hl2 Hp2].
  { subst p2. destruct (snd st) as [| |j e2 same]; cbn; [split; [lia|tauto]| |];
    (split; [lia|]; intros x [<-|[]]; split; reflexivity). }
  rewrite !app_length in Hq.
  destruct (Nat.lt_ge_cases q (length p1)) as [H1|H1].
  - rewrite app_nth1 by exact H1.
    destruct (Hp1 (nth q p1 d)) as [A B]; [apply nth_In; exact H1|]. rewrite A, B. split; [lia|reflexivity].
  - rewrite app_nth2 by exact H1.
    destruct (Nat.lt_ge_cases (q - length p1) (length mid)) as [H2|H2].
    + rewrite app_nth1 by exact H2. subst mid. rewrite interior_length in H2.
      destruct (interior_nth i 0 (length p1) (ob_segs o) (q - length p1) d H2) as [A [B _]].
      rewrite A, B. split; [lia|reflexivity].
    + rewrite app_nth2 by exact H2.
      assert (q - length p1 - length mid < length p2)%nat as H3 by lia.
      destruct (Hp2 (nth (q - length p1 - length mid) p2 d)) as [A B]; [apply nth_In; exact H3|].
      rewrite A, B. split; [lia|reflexivity].
Qed.


(* ---------- end matching (phase G) ---------- *)
Definition near_b (tol : T) (a b : V3) : bool := leb (v3norm (v3sub a b)) tol.

Lemma lookup_exact_some k d v : lookup_exact k d = Some v ->
  exists k', In (k', v) d /\ v3eqb k k' = true.
Proof.
  induction d as [|[k' v'] d IH]; cbn [lookup_exact]; [discriminate|].
  destruct (v3eqb k k') eqn:E; intros H.
  - inversion H; subst. exists k'. split; [left; reflexivity|exact E].
  - destruct (IH H) as [k2 [Hin He]]. exists k2. split; [right; exact Hin|exact He].
Qed.
Lemma lookup_exact_none k d : lookup_exact k d = None ->
  forall k' v, In (k', v) d -> v3eqb k k' = false.
Proof.
  induction d as [|[k1 v1] d IH]; cbn [lookup_exact]; intros H k' v Hin; [destruct Hin|].
  destruct (v3eqb k k1) eqn:E; [discriminate|].
  destruct Hin as [Heq|Hin]; [inversion Heq; subst; exact E|apply (IH H k' v Hin)].
Qed.
Lemma lookup_near_some tol k d v : lookup_near tol k d = Some v ->
  exists k', In (k', v) d /\ near_b tol k k' = true.
Proof.
  induction d as [|[k' v'] d IH]; cbn [lookup_near]; [discriminate|].
  fold (near_b tol k k'). destruct (near_b tol k k') eqn:E; intros H.
  - inversion H; subst. exists k'. split; [left; reflexivity|exact E].
  - destruct (IH H) as [k2 [Hin He]]. exists k2. split; [right; exact Hin|exact He].
Qed.
Lemma lookup_near_none tol k d : lookup_near tol k d = None ->
  forall k' v, In (k', v) d -> near_b tol k k' = false.
Proof.
  induction d as [|[k1 v1] d IH]; cbn [lookup_near]; intros H k' v Hin; [destruct Hin|].
  fold (near_b tol k k1) in H. destruct (near_b tol k k1) eqn:E; [discriminate|].
  destruct Hin as [Heq|Hin]; [inversion Heq; subst; exact E|apply (IH H k' v Hin)].
Qed.

(* two ends are joined exactly when the later one is identical to, or within
   the tolerance of, an earlier registered end point *)
Lemma match_end_spec tol d i e pt :
  let r := match_end tol d i e pt false in
  (snd r = Free <-> (forall k' v, In (k', v) d -> v3eqb pt k' = false /\ near_b tol pt k' = false)) /\
  (forall j e2 s, snd r = Joined j e2 s ->
      s = negb (Bool.eqb e2 e) /\
      exists k', In (k', (e2, j)) d /\ (v3eqb pt k' = true \/ near_b tol pt k' = true)) /\
  snd r <> Grounded /\
  (* the end point is a key afterwards; existing entries are kept *)
  (forall x, In x d -> In x (fst r)) /\
  (exists k' v, In (k', v) (fst r) /\ (k' = pt \/ v3eqb pt k' = true)).
Proof.
  cbv zeta. unfold match_end.
  destruct (lookup_exact pt d) as [[e2 j]|] eqn:Ex.
  - destruct (lookup_exact_some _ _ _ Ex) as [k' [Hin He]]. cbn [fst snd].
    split; [|split; [|split; [|split]]].
    + split; [intros H0; discriminate|].
      intros H0. destruct (H0 k' (e2, j) Hin) as [H1 _]. congruence.
    + intros j' e2' s H0. inversion H0; subst. split; [reflexivity|].
      exists k'. split; [exact Hin|left; exact He].
    + discriminate.
    + tauto.
    + exists k', (e2, j). split; [exact Hin|right; exact He].
  - destruct (lookup_near tol pt d) as [[e2 j]|] eqn:En.
    + destruct (lookup_near_some _ _ _ _ En) as [k' [Hin He]]. cbn [fst snd].
      split; [|split; [|split; [|split]]].
      * split; [intros H0; discriminate|].
        intros H0. destruct (H0 k' (e2, j) Hin) as [_ H2]. congruence.
      * intros j' e2' s H0. inversion H0; subst. split; [reflexivity|].
        exists k'. split; [exact Hin|right; exact He].
      * discriminate.
      * intros x Hx. apply in_or_app. left. exact Hx.
      * exists pt, (e2, j). split; [apply in_or_app; right; left; reflexivity|left; reflexivity].
    + cbn [fst snd]. split; [|split; [|split; [|split]]].
      * split; [|reflexivity]. intros _ k' v Hin.
        split; [apply (lookup_exact_none _ _ Ex k' v Hin)|apply (lookup_near_none _ _ _ En k' v Hin)].
      * intros j' e2' s H0; discriminate.
      * discriminate.
      * intros x Hx. apply in_or_app. left. exact Hx.
      * exists pt, (e, i). split; [apply in_or_app; right; left; reflexivity|left; reflexivity].
Qed.

Lemma match_end_grounded tol d i e pt : match_end tol d i e pt true = (d, Grounded).
Proof. reflexivity. Qed.

(* owners are earlier objects: every dictionary value points to an object
   index below the bound, and so does every Joined status *)
Definition dict_bound (b : nat) (d : dict) : Prop := forall k e j, In (k, (e, j)) d -> (j < b)%nat.

Lemma match_end_bound tol d i e pt g b : dict_bound b d -> (i < b)%nat ->
  dict_bound b (fst (match_end tol d i e pt g)) /\
  (forall j e2 s, snd (match_end tol d i e pt g) = Joined j e2 s -> exists k, In (k, (e2, j)) d).
Proof.
  intros Hd Hi. unfold match_end. destruct g; [cbn; split; [exact Hd|discriminate]|].
  destruct (lookup_exact pt d) as [[e2 j]|] eqn:Ex.
  - cbn [fst snd]. split; [exact Hd|]. intros j' e2' s H. inversion H; subst.
    destruct (lookup_exact_some _ _ _ Ex) as [k' [Hin _]]. exists k'. exact Hin.
  - destruct (lookup_near tol pt d) as [[e2 j]|] eqn:En; cbn [fst snd].
    + destruct (lookup_near_some _ _ _ _ En) as [k' [Hin _]]. split.
      * intros k e' j' H. apply in_app_or in H. destruct H as [H|[H|[]]]; [apply (Hd k e' j' H)|].
        inversion H; subst. apply (Hd k' e' j' Hin).
      * intros j' e2' s H. inversion H; subst. exists k'. exact Hin.
    + split; [|discriminate].
      intros k e' j' H. apply in_app_or in H. destruct H as [H|[H|[]]]; [apply (Hd k e' j' H)|].
      inversion H; subst. exact Hi.
Qed.

Lemma scan_owner_earlier tol : forall os d i,
  dict_bound i d ->
  forall p st, nth_error (scan tol d i os) p = Some st ->
    (forall j e2 s, fst st = Joined j e2 s -> (j < i + p)%nat) /\
    (forall j e2 s, snd st = Joined j e2 s -> (j <= i + p)%nat).
Proof.
  induction os as [|o os IH]; intros d i Hd p st Hp; [destruct p; discriminate|].
  cbn [scan] in Hp. unfold match_obj in Hp.
  destruct (match_end tol d i false (ob_p1 o) (fst (ob_gnd o))) as [d1 s0] eqn:E1.
  destruct (match_end tol d1 i true (ob_p2 o) (snd (ob_gnd o))) as [d2 s1] eqn:E2.
  assert (dict_bound (S i) d) as Hd' by (intros k e j H; specialize (Hd k e j H); lia).
  destruct (match_end_bound tol d i false (ob_p1 o) (fst (ob_gnd o)) (S i) Hd' (Nat.lt_succ_diag_r i)) as [B1 J1].
  rewrite E1 in B1, J1. cbn [fst snd] in B1, J1.
  destruct (match_end_bound tol d1 i true (ob_p2 o) (snd (ob_gnd o)) (S i) B1 (Nat.lt_succ_diag_r i)) as [B2 J2].
  rewrite E2 in B2, J2. cbn [fst snd] in B2, J2.
  destruct p as [|p].
  - cbn in Hp. inversion Hp; subst. cbn [fst snd]. split.
    + intros j e2 s H. destruct (J1 j e2 s H) as [k Hin]. specialize (Hd k e2 j Hin). lia.
    + intros j e2 s H. destruct (J2 j e2 s H) as [k Hin]. specialize (B1 k e2 j Hin). lia.
  - cbn in Hp. destruct (IH d2 (S i) B2 p st Hp) as [A B]. split.
    + intros j e2 s H. specialize (A j e2 s H). lia.
    + intros j e2 s H. specialize (B j e2 s H). lia.
Qed.

Lemma match_end_same tol d i e pt g j e2 s :
  snd (match_end tol d i e pt g) = Joined j e2 s -> s = negb (Bool.eqb e2 e).
Proof.
  destruct g; [cbn; discriminate|].
  intros H. destruct (match_end_spec tol d i e pt) as [_ [H2 _]]. cbv zeta in H2.
  destruct (H2 j e2 s H) as [E _]. exact E.
Qed.

Lemma scan_same tol : forall os d i p st, nth_error (scan tol d i os) p = Some st ->
  (forall j e2 s, fst st = Joined j e2 s -> s = negb (Bool.eqb e2 false)) /\
  (forall j e2 s, snd st = Joined j e2 s -> s = negb (Bool.eqb e2 true)).
Proof.
  induction os as [|o os IH]; intros d i p st Hp; [destruct p; discriminate|].
  cbn [scan] in Hp. unfold match_obj in Hp.
  destruct (match_end tol d i false (ob_p1 o) (fst (ob_gnd o))) as [d1 s0] eqn:E1.
  destruct (match_end tol d1 i true (ob_p2 o) (snd (ob_gnd o))) as [d2 s1] eqn:E2.
  destruct p as [|p].
  - cbn in Hp. inversion Hp; subst. cbn [fst snd]. split; intros j e2 s H.
    + apply (match_end_same tol d i false (ob_p1 o) (fst (ob_gnd o)) j e2 s). rewrite E1. exact H.
    + apply (match_end_same tol d1 i true (ob_p2 o) (snd (ob_gnd o)) j e2 s). rewrite E2. exact H.
  - cbn in Hp. apply (IH d2 (S i) p st Hp).
Qed.

(* ---------- global numbering: per-object lists partition the pulse list ---------- *)
Lemma nth_concat {A} (ls : list (list A)) i q d :
  (q < length (nth i ls []))%nat ->
  nth (length (concat (firstn i ls)) + q) (concat ls) d = nth q (nth i ls []) d.
Proof.
  revert i. induction ls as [|l ls IH]; intros i Hq.
  - destruct i; cbn in Hq; lia.
  - destruct i as [|i].
    + cbn [firstn concat length nth] in *. rewrite app_nth1 by exact Hq. reflexivity.
    + cbn [firstn concat nth] in *. rewrite app_length, <- Nat.add_assoc.
      rewrite app_nth2 by lia. replace (length l + (length (concat (firstn i ls)) + q) - length l)%nat
        with (length (concat (firstn i ls)) + q)%nat by lia.
      apply IH. exact Hq.
Qed.

Lemma numbering_proof (t : topology) i q d :
  (q < length (nth i (tp_by_obj t) []))%nat ->
  nth (obj_start t i + q) (tp_pulses t) d = nth q (nth i (tp_by_obj t) []) d.
Proof. intros H. unfold obj_start, tp_pulses. apply nth_concat. exact H. Qed.

Lemma obj_start_S (t : topology) i : (i < length (tp_by_obj t))%nat ->
  obj_start t (S i) = (obj_start t i + length (nth i (tp_by_obj t) []))%nat.
Proof.
  unfold obj_start. generalize (tp_by_obj t) as ls. intros ls. revert i.
  induction ls as [|l ls IH]; intros i Hi; [cbn in Hi; lia|].
  destruct i as [|i].
  - cbn. rewrite app_nil_r. lia.
  - cbn [firstn concat nth length] in *. rewrite !app_length. rewrite (IH i) by lia. lia.
Qed.

Lemma total_length (t : topology) :
  length (tp_pulses t) = obj_start t (length (tp_by_obj t)).
Proof. unfold obj_start, tp_pulses. rewrite firstn_all. reflexivity. Qed.

End TopoP.

Lemma owner_earlier_proof :
  forall (N : Num) tol os p st, nth_error (scan tol [] O os) p = Some st ->
    (forall j e2 s, fst st = Joined j e2 s -> (j < p)%nat) /\
    (forall j e2 s, snd st = Joined j e2 s -> (j <= p)%nat).
Proof.
  intros N tol os p st H.
  assert (dict_bound 0 []) as Hd by (intros k e j []).
  destruct (scan_owner_earlier tol os [] O Hd p st H) as [A B]. split; intros j e2 s E.
  - specialize (A j e2 s E). lia.
  - specialize (B j e2 s E). lia.
Qed.
