From Coq Require Import ZArith List Bool Arith Lia.
From PM Require Import Base.Num Model.Topology Model.Conn.
Import ListNotations.

(* one row per pulse of the object *)
Lemma obj_cper_length_proof tags i nseg st :
  length (obj_cper tags i nseg st) = pulse_count i nseg st.
Proof.
  unfold obj_cper, pulse_count, mid_cper, end1_pulse, end2_pulse.
  rewrite !app_length, map_length, seq_length.
  destruct st as [s1 s2]; cbn [fst snd].
  destruct s1 as [| |j e same]; destruct s2 as [| |j2 e2 same2]; cbn [length]; try lia;
  destruct (Nat.eqb j i); cbn [length negb]; lia.
Qed.

(* a pulse at a grounded wire end prints minus the tag of its own wire for the grounded half and the tag for the other,
   whatever the position of the wire in the list *)
Lemma grounded_first_row_proof tags i nseg s2 :
  hd_error (obj_cper tags i nseg (Grounded, s2)) = Some ((- nth i tags 0)%Z, nth i tags 0%Z).
Proof. reflexivity. Qed.

Lemma grounded_last_row_proof tags i nseg s1 :
  last (obj_cper tags i nseg (s1, Grounded)) (0%Z, 0%Z) = (nth i tags 0%Z, (- nth i tags 0)%Z).
Proof.
  unfold obj_cper. cbn [snd]. rewrite !app_assoc. apply last_last.
Qed.

(* every entry of the rows of an object between its ends is the own tag, or 0 next to a free end *)
Lemma mid_rows_proof tg nseg z1 z2 :
  Forall (fun c => (fst c = tg \/ fst c = 0%Z) /\ (snd c = tg \/ snd c = 0%Z)) (mid_cper tg nseg z1 z2).
Proof.
  unfold mid_cper. apply Forall_forall. intros c Hc. apply in_map_iff in Hc. destruct Hc as (k & Hk & _). subst c. cbn [fst snd].
  split; [destruct (Nat.eqb k 0 && z1) | destruct (Nat.eqb (S (S k)) nseg && z2)]; auto.
Qed.

(* using the position of the wire instead of its tag for the grounded half is refuted once tags are not positions *)
Lemma position_refuted_proof :
  exists tags i, hd_error (obj_cper tags i 3 (Grounded, Free)) <> Some ((- Z.of_nat (S i))%Z, nth i tags 0%Z).
Proof. exists [7%Z; 5%Z], 1%nat. cbn. intros H. discriminate H. Qed.
