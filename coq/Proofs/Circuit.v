(* C08: Laplace / RLC / trap loads are the circuits they describe. *)
From Coq Require Import ZArith List Bool Reals Lra Lia.
From Coquelicot Require Import Coquelicot.
From PM Require Import Base.Num Base.RNum Base.Cplx Base.CplxR Gen.Extracted Model.Loads Proofs.CxAlg.
Import ListNotations.

Lemma fold_poly (F : CR * CR * CR -> R * R -> CR * CR * CR) (s : CR) :
  (forall u d m eb ea, F (u, d, m) (eb, ea) = (cadd u (cscale eb m), cadd d (cscale ea m), cmul m s)) ->
  forall (a b : list R) u d m, length a = length b ->
    fst (fst (fold_left F (combine b a) (u, d, m))) = cadd u (cmul m (cpoly b s)) /\
    snd (fst (fold_left F (combine b a) (u, d, m))) = cadd d (cmul m (cpoly a s)).
Proof.
  intros HF. induction a as [|x a IH]; intros b u d m Hl; destruct b as [|y b]; try discriminate.
  - cbn. split; cx_ring.
  - cbn [combine fold_left]. rewrite HF.
    destruct (IH b (cadd u (cscale (N:=RNum) y m)) (cadd d (cscale (N:=RNum) x m)) (cmul m s)) as [H1 H2]; [cbn in Hl; lia|].
    rewrite H1, H2. cbn [cpoly]. split.
    + generalize (cpoly b s). cx_ring.
    + generalize (cpoly a s). cx_ring.
Qed.

Lemma let3 {A B} (e : A * A * A) (k : A -> A -> B) :
  (let '(x, y, _) := e in k x y) = k (fst (fst e)) (snd (fst e)).
Proof. destruct e as [[x y] z]; reflexivity. Qed.

Lemma laplace_imp_ratio (f : R) (a b : list R) : length a = length b ->
  @laplace_imp RNum f a b = cdiv (cpoly b (laplace_s f)) (cpoly a (laplace_s f)).
Proof.
  intros Hl. unfold laplace_imp. cbv zeta.
  match goal with |- context [fold_left ?F ?l ?i] => set (FF := F); set (r := fold_left FF l i) end.
  assert (forall u d m eb ea, FF (u, d, m) (eb, ea) =
            (cadd u (cscale eb m), cadd d (cscale ea m), cmul m (laplace_s f))) as HF.
  { intros. subst FF. cbn beta iota. unfold laplace_s. f_equal. cx_ring. }
  subst r. rewrite let3.
  match goal with |- context [fold_left FF (combine b a) (?u, ?d, ?m)] =>
    destruct (fold_poly FF (laplace_s (N:=RNum) f) HF a b u d m Hl) as [H1 H2]
  end.
  f_equal.
  - etransitivity; [exact H1|]. generalize (cpoly b (laplace_s f)). cx_ring.
  - etransitivity; [exact H2|]. generalize (cpoly a (laplace_s f)). cx_ring.
Qed.

Lemma Reqb_false_neq (x : R) : x <> 0%R -> @eqb RNum x (@zero RNum) = false.
Proof. intros H. cbn. unfold Reqb. destruct (Req_EM_T x 0); [contradiction|reflexivity]. Qed.
Lemma Reqb_true_eq : @eqb RNum 0%R (@zero RNum) = true.
Proof. cbn. unfold Reqb. destruct (Req_EM_T 0 0); [reflexivity|contradiction]. Qed.

(* s = j w with w = 2 pi f 1e6 *)
Definition wof (f : R) : R := (2 * PI * f * 1000000)%R.
Lemma laplace_s_eq f : @laplace_s RNum f = (0%R, wof f).
Proof. unfold laplace_s, wof. cx_unfold. f_equal. cbn. ring. Qed.

Lemma wof_neq f : f <> 0%R -> wof f <> 0%R.
Proof. intros H. unfold wof. pose proof PI_RGT_0. nra. Qed.

(* series R-L-C, all three present *)
Lemma rlc_series_proof (f r l c : R) : f <> 0%R -> c <> 0%R ->
  @rlc_load_imp RNum f r l c =
  series (z_R r) (series (z_L l (laplace_s f)) (z_C c (laplace_s f))).
Proof.
  intros Hf Hc. unfold rlc_load_imp, rlc_coeffs. cbv zeta.
  rewrite (Reqb_false_neq c Hc). cbn [negb].
  unfold laplace_load_imp, laplace_lists, pad. cbn [length Nat.max Nat.sub repeat app].
  rewrite laplace_imp_ratio by reflexivity. cbn [cpoly].
  rewrite laplace_s_eq. pose proof (wof_neq f Hf) as Hw. set (w := wof f) in *. clearbody w.
  unfold series, z_R, z_L, z_C. cx_unfold. f_equal; field; nra.
Qed.

(* no capacitor given: R + sL *)
Lemma rl_series_proof (f r l : R) :
  @rlc_load_imp RNum f r l 0 = series (z_R r) (z_L l (laplace_s f)).
Proof.
  unfold rlc_load_imp, rlc_coeffs. cbv zeta.
  rewrite Reqb_true_eq. cbn [negb].
  unfold laplace_load_imp, laplace_lists, pad. cbn [length Nat.max Nat.sub repeat app].
  rewrite laplace_imp_ratio by reflexivity. cbn [cpoly].
  rewrite laplace_s_eq. set (w := wof f). clearbody w.
  unfold series, z_R, z_L. cx_unfold. f_equal; field; nra.
Qed.

(* trap: (R + sL) parallel to 1/(sC) *)
Lemma trap_parallel_proof (f r l c : R) : f <> 0%R -> c <> 0%R ->
  (* the circuit is not at a pole: (R + sL) + 1/(sC) <> 0 *)
  ((1 - l * c * wof f * wof f) * (1 - l * c * wof f * wof f) + (r * c * wof f) * (r * c * wof f) <> 0)%R ->
  @trap_load_imp RNum f r l c =
  parallel (series (z_R r) (z_L l (laplace_s f))) (z_C c (laplace_s f)).
Proof.
  intros Hf Hc Hp. unfold trap_load_imp, trap_coeffs. cbv zeta.
  unfold laplace_load_imp, laplace_lists, pad. cbn [length Nat.max Nat.sub repeat app].
  rewrite laplace_imp_ratio by reflexivity. cbn [cpoly].
  rewrite laplace_s_eq. pose proof (wof_neq f Hf) as Hw. set (w := wof f) in *. clearbody w.
  assert (c * w <> 0)%R as Hcw by (apply Rmult_integral_contrapositive_currified; assumption).
  assert (r * r * (c * w * (c * w) * (c * w * (c * w))) +
          (l * w * (c * w * (c * w)) + - (c * w)) * (l * w * (c * w * (c * w)) + - (c * w)) <> 0)%R as Hd.
  { replace (r * r * (c * w * (c * w) * (c * w * (c * w))) +
             (l * w * (c * w * (c * w)) + - (c * w)) * (l * w * (c * w * (c * w)) + - (c * w)))%R
      with ((c * w) * (c * w) * ((1 - l * c * w * w) * (1 - l * c * w * w) + r * c * w * (r * c * w)))%R by ring.
    repeat apply Rmult_integral_contrapositive_currified; assumption. }
  unfold parallel, series, z_R, z_L, z_C. cx_unfold. f_equal; field; repeat split; try assumption; try nra.
Qed.
