(* Lemmas for C16: sample grids of the far- and near-field tables. *)
From Coq Require Import ZArith List Bool Lia Reals Lra Arith.
From PM Require Import Base.Num Base.RNum Base.NumpyLib Gen.Extracted.
Import ListNotations.

Lemma nth_map_seq {A} (f : nat -> A) n k d :
  (k < n)%nat -> nth k (map f (seq 0 n)) d = f k.
Proof.
  intros H. rewrite nth_indep with (d' := f O) by (rewrite map_length, seq_length; exact H).
  rewrite map_nth, seq_nth by exact H. reflexivity.
Qed.

Lemma flat_map_const_length {A B} (f : A -> list B) (l : list A) c :
  (forall a, length (f a) = c) -> length (flat_map f l) = (length l * c)%nat.
Proof.
  intros H. induction l as [|a l IH]; cbn [flat_map length]; [reflexivity|].
  rewrite app_length, H, IH. lia.
Qed.

Lemma flat_map_const_nth {A B} (f : A -> list B) (l : list A) c k (da : A) (db : B) :
  (0 < c)%nat -> (forall a, length (f a) = c) -> (k < length l * c)%nat ->
  nth k (flat_map f l) db = nth (k mod c) (f (nth (k / c) l da)) db.
Proof.
  intros Hc H. revert k. induction l as [|a l IH]; intros k Hk; cbn [flat_map length] in *.
  - lia.
  - destruct (Nat.lt_ge_cases k c) as [Hlt|Hge].
    + rewrite app_nth1 by (rewrite H; exact Hlt).
      rewrite Nat.div_small, Nat.mod_small by exact Hlt. reflexivity.
    + rewrite app_nth2 by (rewrite H; exact Hge). rewrite H.
      rewrite IH by lia.
      assert (k = (k - c) + 1 * c)%nat as Hk' by lia.
      set (q := (k - c)%nat) in *. clearbody q. subst k.
      rewrite Nat.div_add, Nat.mod_add by lia.
      replace (q / c + 1)%nat with (S (q / c)) by lia.
      reflexivity.
Qed.


Lemma nth_map_any {A B} (f : A -> B) (l : list A) k d d' :
  (k < length l)%nat -> nth k (map f l) d = f (nth k l d').
Proof.
  intros H. rewrite nth_indep with (d' := f d') by (rewrite map_length; exact H).
  apply map_nth.
Qed.

Section Generic.
Context {N : Num}.
Local Open Scope num_scope.

Lemma angle_deg_length n i d : length (angle_deg n i d) = Z.to_nat n.
Proof. unfold angle_deg. rewrite map_length, seq_length. reflexivity. Qed.

Lemma angle_deg_nth n i d k :
  (k < Z.to_nat n)%nat -> nth k (angle_deg n i d) zero = i + of_nat k * d.
Proof.
  intros H. unfold angle_deg. rewrite nth_map_seq by exact H. reflexivity.
Qed.

Lemma ff_rows_length (zen azi : list T) :
  length (ff_rows zen azi) = (length azi * length zen)%nat.
Proof. unfold ff_rows. apply flat_map_const_length. intros; apply map_length. Qed.

Lemma ff_rows_nth (zen azi : list T) k :
  (k < length azi * length zen)%nat ->
  nth k (ff_rows zen azi) (zero, zero) =
  (nth (k mod length zen) zen zero, nth (k / length zen) azi zero).
Proof.
  intros Hk. unfold ff_rows.
  assert (0 < length zen)%nat as Hz by (destruct (length zen); lia).
  rewrite flat_map_const_nth with (c := length zen) (da := zero)
    by (try assumption; intros; apply map_length).
  rewrite nth_map_any with (d' := zero) by (apply Nat.mod_upper_bound; lia).
  reflexivity.
Qed.

Lemma grid3_length (xs ys zs : list T) :
  length (grid3 xs ys zs) = (length zs * (length ys * length xs))%nat.
Proof.
  unfold grid3. apply flat_map_const_length. intros z.
  apply flat_map_const_length. intros y. apply map_length.
Qed.

Lemma grid3_nth (xs ys zs : list T) k :
  (k < length zs * (length ys * length xs))%nat ->
  nth k (grid3 xs ys zs) (zero, zero, zero) =
  (nth (k mod length xs) xs zero,
   nth ((k / length xs) mod length ys) ys zero,
   nth (k / (length ys * length xs)) zs zero).
Proof.
  intros Hk. unfold grid3.
  assert (0 < length xs)%nat as Hx by (destruct (length xs); lia).
  assert (0 < length ys)%nat as Hy by (destruct (length ys); lia).
  set (c2 := (length ys * length xs)%nat) in *.
  assert (0 < c2)%nat as Hc2 by (subst c2; lia).
  assert (forall z : T, length (flat_map (fun y => map (fun x => (x, y, z)) xs) ys) = c2) as Hl1.
  { intros z. subst c2. apply flat_map_const_length. intros; apply map_length. }
  rewrite (flat_map_const_nth _ zs c2 k zero (zero, zero, zero) Hc2 Hl1 Hk).
  set (kk := (k mod c2)%nat).
  assert (kk < length ys * length xs)%nat as Hkk by (subst kk c2; apply Nat.mod_upper_bound; lia).
  assert (forall y : T, length (map (fun x => (x, y, nth (k / c2) zs zero)) xs) = length xs) as Hl2
    by (intros; apply map_length).
  rewrite (flat_map_const_nth _ ys (length xs) kk zero (zero, zero, zero) Hx Hl2 Hkk).
  rewrite nth_map_any with (d' := zero) by (apply Nat.mod_upper_bound; lia).
  assert (kk = k mod length xs + length xs * ((k / length xs) mod length ys))%nat as Ekk.
  { subst kk c2. rewrite (Nat.mul_comm (length ys)). apply Nat.mod_mul_r; lia. }
  assert (kk mod length xs = k mod length xs)%nat as E1.
  { rewrite Ekk. rewrite (Nat.mul_comm (length xs)). rewrite Nat.mod_add by lia.
    apply Nat.mod_mod; lia. }
  assert (kk / length xs = (k / length xs) mod length ys)%nat as E2.
  { rewrite Ekk. rewrite (Nat.mul_comm (length xs)). rewrite Nat.div_add by lia.
    rewrite Nat.div_small by (apply Nat.mod_upper_bound; lia). lia. }
  rewrite E1, E2. reflexivity.
Qed.

Lemma np_arange_length s e i : length (np_arange s e i) = np_arange_len s e i.
Proof. unfold np_arange. rewrite map_length, seq_length. reflexivity. Qed.

Lemma np_arange_nth s e i k :
  (k < np_arange_len s e i)%nat -> nth k (np_arange s e i) zero = np_arange_elt s i k.
Proof.
  intros H. unfold np_arange. apply nth_map_seq. exact H.
Qed.

(* The count clause, for every numeric instance (binary64 included), under
   the exact condition on which it depends. *)
(* an increment that compares equal to zero: n points at the start value *)
Lemma grid_axis_zero s i n : eqb i zero = true -> grid_axis s i n = repeat s (Z.to_nat (ntrunc n)).
Proof. intros H. unfold grid_axis. rewrite H. reflexivity. Qed.
Lemma grid_axis_nonzero s i n : eqb i zero = false ->
  grid_axis s i n = firstn (Z.to_nat (ntrunc n)) (np_arange s (add s (mul n i)) i).
Proof. intros H. unfold grid_axis. rewrite H. reflexivity. Qed.

Lemma grid_axis_length_cond s i n :
  (eqb i zero = false -> Z.to_nat (ntrunc n) <= np_arange_len s (add s (mul n i)) i)%nat ->
  length (grid_axis s i n) = Z.to_nat (ntrunc n).
Proof.
  intros H. destruct (eqb i zero) eqn:E.
  - rewrite grid_axis_zero by exact E. apply repeat_length.
  - rewrite grid_axis_nonzero by exact E. rewrite firstn_length, np_arange_length. specialize (H eq_refl). lia.
Qed.

Lemma grid_axis_nth_cond s i n k :
  eqb i zero = false ->
  (Z.to_nat (ntrunc n) <= np_arange_len s (add s (mul n i)) i)%nat ->
  (k < Z.to_nat (ntrunc n))%nat ->
  nth k (grid_axis s i n) zero = np_arange_elt s i k.
Proof.
  intros E H Hk. rewrite grid_axis_nonzero by exact E.
  rewrite <- (firstn_skipn (Z.to_nat (ntrunc n)) (np_arange s (add s (mul n i)) i)) at 1.
  rewrite firstn_app, firstn_firstn, Nat.min_id.
  rewrite app_nth1.
  2:{ rewrite firstn_length, np_arange_length. lia. }
  rewrite <- (np_arange_nth s (s + n * i) i k) by lia.
  rewrite <- (firstn_skipn (Z.to_nat (ntrunc n)) (np_arange s (add s (mul n i)) i)) at 2.
  rewrite app_nth1. reflexivity.
  rewrite firstn_length, np_arange_length. lia.
Qed.

Lemma grid_axis_nth_zero s i n k :
  eqb i zero = true -> (k < Z.to_nat (ntrunc n))%nat -> nth k (grid_axis s i n) zero = s.
Proof.
  intros E Hk. rewrite grid_axis_zero by exact E.
  apply nth_repeat_lt || (revert k Hk; induction (Z.to_nat (ntrunc n)) as [|m IH]; intros k Hk; [lia|]; destruct k; cbn; [reflexivity|apply IH; lia]).
Qed.

End Generic.

(* Exact arithmetic: the condition always holds for a non-zero increment. *)
Lemma Int_part_IZR (c : Z) : Int_part (IZR c) = c.
Proof.
  unfold Int_part. pose proof (archimed (IZR c)) as [H1 H2].
  assert (up (IZR c) = c + 1)%Z.
  { apply eq_IZR_R0 || idtac.
    assert (IZR c < IZR (up (IZR c)))%R by lra.
    assert (IZR (up (IZR c)) <= IZR c + 1)%R by lra.
    apply lt_IZR in H. rewrite <- plus_IZR in H0. apply le_IZR in H0. lia. }
  lia.
Qed.

Lemma ntrunc_IZR (c : Z) : @ntrunc RNum (IZR c) = c.
Proof.
  cbn. destruct (Rle_dec 0 (IZR c)).
  - apply Int_part_IZR.
  - rewrite <- opp_IZR, Int_part_IZR. lia.
Qed.

Lemma nceil_IZR (c : Z) : @nceil RNum (IZR c) = c.
Proof. unfold nceil; cbn. rewrite <- opp_IZR, Int_part_IZR. lia. Qed.

Lemma np_arange_len_R (s i : R) (c : Z) :
  i <> 0%R -> @np_arange_len RNum s (s + IZR c * i)%R i = Z.to_nat c.
Proof.
  intros Hi. unfold np_arange_len; cbn [sub add div mul RNum].
  replace ((s + IZR c * i - s) / i)%R with (IZR c) by (field; exact Hi).
  rewrite nceil_IZR. reflexivity.
Qed.

Lemma np_arange_elt_R (s i : R) (k : nat) :
  @np_arange_elt RNum s i k = (s + INR k * i)%R.
Proof.
  destruct k as [|[|k]]; cbv [np_arange_elt add sub mul of_nat of_Z RNum T].
  - cbn [INR]; ring.
  - cbn [INR]; ring.
  - rewrite <- INR_IZR_INZ. ring.
Qed.

Lemma C16_far_rows_proof :
  forall (N : Num) (nt np : Z) (t0 dt p0 dp : T),
    let rows := ff_rows (angle_deg nt t0 dt) (angle_deg np p0 dp) in
    length rows = (Z.to_nat np * Z.to_nat nt)%nat /\
    forall k, (k < Z.to_nat np * Z.to_nat nt)%nat ->
      nth k rows (zero, zero) =
      (add t0 (mul (of_nat (k mod Z.to_nat nt)) dt),
       add p0 (mul (of_nat (k / Z.to_nat nt)) dp)).
Proof.
  intros N nt np t0 dt p0 dp rows. subst rows. split.
  - rewrite ff_rows_length, !angle_deg_length. reflexivity.
  - intros k Hk.
    assert (0 < Z.to_nat nt)%nat as Hnt by (destruct (Z.to_nat nt); lia).
    rewrite ff_rows_nth by (rewrite !angle_deg_length; exact Hk).
    rewrite !angle_deg_length.
    rewrite angle_deg_nth by (apply Nat.mod_upper_bound; lia).
    rewrite angle_deg_nth.
    2:{ apply Nat.div_lt_upper_bound; lia. }
    reflexivity.
Qed.

Lemma C16_near_points_proof :
  forall (N : Num) (xs ys zs : list T),
    length (grid3 xs ys zs) = (length zs * (length ys * length xs))%nat /\
    forall k, (k < length zs * (length ys * length xs))%nat ->
      nth k (grid3 xs ys zs) (zero, zero, zero) =
      (nth (k mod length xs) xs zero,
       nth ((k / length xs) mod length ys) ys zero,
       nth (k / (length ys * length xs)) zs zero).
Proof. intros. split; [apply grid3_length | apply grid3_nth]. Qed.

Lemma C16_near_axis_any_instance_proof :
  forall (N : Num) (s i n : T),
    (eqb i zero = false -> Z.to_nat (ntrunc n) <= np_arange_len s (add s (mul n i)) i)%nat ->
    length (grid_axis s i n) = Z.to_nat (ntrunc n) /\
    forall k, (k < Z.to_nat (ntrunc n))%nat ->
      nth k (grid_axis s i n) zero = if eqb i zero then s else np_arange_elt s i k.
Proof.
  intros N s i n H. split; [apply grid_axis_length_cond; exact H|].
  intros k Hk. destruct (eqb i zero) eqn:E.
  - apply grid_axis_nth_zero; assumption.
  - apply grid_axis_nth_cond; auto.
Qed.

Lemma C16_near_axis_exact_proof :
  forall (s i : R) (c : Z),
    length (@grid_axis RNum s i (IZR c)) = Z.to_nat c /\
    forall k, (k < Z.to_nat c)%nat ->
      nth k (@grid_axis RNum s i (IZR c)) 0%R = (s + INR k * i)%R.
Proof.
  intros s i c.
  pose proof (C16_near_axis_any_instance_proof RNum s i (IZR c)) as H.
  rewrite ntrunc_IZR in H.
  destruct (Req_EM_T i 0) as [Hz|Hi].
  - assert (E : @eqb RNum i zero = true) by (cbn; apply Reqb_true; exact Hz).
    rewrite E in H. destruct (H ltac:(discriminate)) as [H1 H2]. split; [exact H1|].
    intros k Hk. change 0%R with (@zero RNum). rewrite H2 by exact Hk. rewrite Hz. change (@T RNum) with R. change (s = s + INR k * 0)%R. ring.
  - assert (E : @eqb RNum i zero = false).
    { cbn. destruct (Reqb i 0) eqn:Q; [apply Reqb_true in Q; contradiction|reflexivity]. }
    rewrite E in H. cbn [add mul RNum] in H. rewrite np_arange_len_R in H by exact Hi.
    destruct (H (fun _ => le_n _)) as [H1 H2]. split; [exact H1|].
    intros k Hk. change 0%R with (@zero RNum). rewrite H2 by exact Hk.
    apply np_arange_elt_R.
Qed.
