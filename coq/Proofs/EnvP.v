From Coq Require Import List Bool Arith Lia.
Import ListNotations.
From PM Require Import Model.Env.

Lemma env_from_blocks (l : list med) : forall k,
  env_from (k =? 0) l =
  concat (map (fun im => block (k + length l) (fst im) (snd im)) (combine (seq k (length l)) l)).
Proof.
  induction l as [|m tl IH]; intros k; [reflexivity|].
  cbn [env_from length seq combine map concat fst snd].
  f_equal.
  - unfold block. f_equal; [| f_equal].
    + destruct tl as [|m2 tl2]; cbn [length].
      * symmetry. apply Nat.ltb_ge. lia.
      * symmetry. apply Nat.ltb_lt. lia.
    + destruct k as [|k']; reflexivity.
  - specialize (IH (S k)). cbn [Nat.eqb] in IH. rewrite IH.
    replace (S k + length tl) with (k + S (length tl)) by lia. reflexivity.
Qed.

Lemma env_lines_blocks_proof (l : list med) :
  env_lines l = concat (map (fun im => block (length l) (fst im) (snd im)) (combine (seq 0 (length l)) l)).
Proof. unfold env_lines. exact (env_from_blocks l 0). Qed.

Lemma count_medium_height ideal rad nx pv :
  count_occ eline_eq_dec (medium_lines ideal rad nx pv) LHeight = if pv then 1 else 0.
Proof. destruct ideal, rad, nx, pv; reflexivity. Qed.

Lemma count_medium_coord ideal rad nx pv :
  count_occ eline_eq_dec (medium_lines ideal rad nx pv) LCoord = if nx then 1 else 0.
Proof. destruct ideal, rad, nx, pv; reflexivity. Qed.

Lemma height_from (l : list med) : forall first,
  count_occ eline_eq_dec (env_from first l) LHeight = length l - (if first then 1 else 0).
Proof.
  induction l as [|m tl IH]; intros first; [destruct first; reflexivity|].
  cbn [env_from length]. rewrite count_occ_app, count_medium_height, IH.
  destruct first; cbn [negb]; lia.
Qed.

Lemma coord_from (l : list med) : forall first,
  count_occ eline_eq_dec (env_from first l) LCoord = length l - 1.
Proof.
  induction l as [|m tl IH]; intros first; [reflexivity|].
  cbn [env_from length]. rewrite count_occ_app, count_medium_coord, IH.
  destruct tl; cbn [length]; lia.
Qed.

(* every medium but the first prints its height, every medium but the last the interface towards the next *)
Lemma height_lines_proof (l : list med) :
  count_occ eline_eq_dec (env_lines l) LHeight = length l - 1.
Proof. unfold env_lines. rewrite height_from. reflexivity. Qed.

Lemma coord_lines_proof (l : list med) :
  count_occ eline_eq_dec (env_lines l) LCoord = length l - 1.
Proof. unfold env_lines. apply coord_from. Qed.

Lemma block_height_proof n i m : In LHeight (block n i m) <-> 0 < i.
Proof.
  unfold block, medium_lines.
  destruct (m_ideal m), (m_rad m), (S i <? n), (0 <? i) eqn:E; cbn;
  (apply Nat.ltb_lt in E || apply Nat.ltb_ge in E); intuition (try congruence; try lia).
Qed.

Lemma block_coord_proof n i m : In LCoord (block n i m) <-> S i < n.
Proof.
  unfold block, medium_lines.
  destruct (m_ideal m), (m_rad m), (0 <? i), (S i <? n) eqn:E; cbn;
  (apply Nat.ltb_lt in E || apply Nat.ltb_ge in E); intuition (try congruence; try lia).
Qed.

(* a variant that prints the height only when no interface follows (the middle medium of three loses its height) is refuted *)
Definition medium_lines_elif (ideal rad has_next has_prev : bool) : list eline :=
  (if ideal then [] else [LConst]) ++ (if rad then [LRadN; LRadR] else [])
  ++ (if has_next then [LCoord] else if has_prev then [LHeight] else []).

Lemma elif_refuted_proof :
  exists n i m, 0 < i /\ ~ In LHeight (medium_lines_elif (m_ideal m) (m_rad m) (S i <? n) (0 <? i)).
Proof.
  exists 3, 1, (mkMed false false). split; [lia|]. cbn. intros [H|[H|H]]; try discriminate H; contradiction.
Qed.
