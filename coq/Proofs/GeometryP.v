(* C13: segmentation theorems. Structural ones hold for every numeric
   instance; metric ones are over the reals. *)
From Coq Require Import ZArith List Bool Arith Lia.
From PM Require Import Base.Num Base.Cplx Model.Taper Model.Topology Model.Geometry.
Import ListNotations.

Section Structural.
Context {N : Num}.

(* consecutive (start, end) pairs chain end to end, starting at p *)
Fixpoint chain (p : V3) (l : list (V3 * V3)) : Prop :=
  match l with
  | [] => True
  | (a, b) :: r => a = p /\ chain b r
  end.
Definition last_end (l : list (V3 * V3)) (d : V3) : V3 := snd (last l (d, d)).

(* ---- equal segmentation ---- *)
Lemma equal_from_length fuel i p1 s0 dir sl : length (equal_from fuel i p1 s0 dir sl) = fuel.
Proof. revert i s0. induction fuel as [|f IH]; intros i s0; cbn; [reflexivity|]. rewrite IH. reflexivity. Qed.

Definition seg_chain := fix go (p : V3) (l : list seg) : Prop :=
  match l with
  | [] => True
  | s :: r => sg_p1 s = p /\ go (sg_p2 s) r
  end.

Lemma equal_from_chain fuel i p1 s0 dir sl : seg_chain s0 (equal_from fuel i p1 s0 dir sl).
Proof. revert i s0. induction fuel as [|f IH]; intros i s0; cbn; [exact I|]. split; [reflexivity|apply IH]. Qed.

Lemma equal_from_nth fuel i p1 s0 dir sl k : (k < fuel)%nat ->
  let s := nth k (equal_from fuel i p1 s0 dir sl) seg_default in
  sg_p2 s = v3add p1 (v3scale sl (v3scale (ofn (S (i + k))) dir)) /\ sg_len s = sl /\ sg_dir s = dir.
Proof.
  revert i s0 k. induction fuel as [|f IH]; intros i s0 k Hk; [lia|].
  destruct k as [|k]; cbn [equal_from nth].
  - rewrite Nat.add_0_r. repeat split; reflexivity.
  - destruct (IH (S i) (v3add p1 (v3scale sl (v3scale (ofn (S i)) dir))) k) as [A [B C]]; [lia|].
    cbv zeta in A, B, C. rewrite A, B, C. replace (S i + k)%nat with (i + S k)%nat by lia. repeat split; reflexivity.
Qed.

(* ---- taper1 ---- *)
Lemma t1_loop_spec : forall fuel i n st p p1 p2 lv minc inc1 eps min_t mt l,
  t1_loop fuel i n st p p1 p2 lv minc inc1 eps min_t mt = TOk l ->
  (fuel = n - i)%nat -> (i < n)%nat ->
  length l = fuel /\ chain p l /\ last_end l p2 = p2.
Proof.
  induction fuel as [|f IH]; intros i n st p p1 p2 lv minc inc1 eps min_t mt l H Hf Hi.
  - lia.
  - cbn [t1_loop] in H. cbv zeta in H.
    destruct (Nat.eqb_spec i (n - 1)) as [Ei|Ei].
    + (* last segment *)
      destruct (leb (sub min_t eps) _ && leb _ (add mt eps))%bool; [|discriminate].
      assert (f = 0)%nat by lia. subst f. cbn [t1_loop] in H. inversion H; subst. cbn.
      repeat split; reflexivity.
    + destruct (leb (sub min_t eps) _ && leb _ (add mt eps))%bool; [|discriminate].
      match type of H with match ?e with _ => _ end = _ => destruct e as [r| |k] eqn:Er; try discriminate end.
      inversion H; subst.
      destruct (IH (S i) n _ _ p1 p2 lv minc _ eps min_t mt r Er) as [A [B C]]; [lia|lia|].
      cbn [length chain]. repeat split; try assumption; try lia.
      unfold last_end in *. destruct r as [|x r]; [cbn in A; lia|]. exact C.
Qed.

Lemma taper1_fwd_spec p1 p2 n r min_t max_t l :
  taper1_fwd p1 p2 n r min_t max_t = TOk l ->
  length l = n /\ chain p1 l /\ last_end l p2 = p2.
Proof.
  unfold taper1_fwd. cbv zeta.
  destruct (Nat.ltb_spec 1 n) as [Hn|]; cbn [negb]; [|discriminate].
  destruct (ltb _ _); [discriminate|].
  destruct (negb (opt_le _ max_t)); [discriminate|].
  destruct (negb (opt_le _ max_t)); [discriminate|].
  match goal with |- match ?e with _ => _ end = _ -> _ => destruct e as [minl| |k]; try discriminate end.
  intros H. destruct (t1_loop_spec _ _ _ _ _ _ _ _ _ _ _ _ _ _ H) as [A [B C]]; [lia|lia|].
  repeat split; assumption.
Qed.

(* ---- taper2 ---- *)
Lemma t2_loop_spec : forall fuel i n st bd p p1 p2 lv minc inc1 eps,
  (fuel = n - i)%nat -> (i < n)%nat ->
  let l := t2_loop fuel i n st bd p p1 p2 lv minc inc1 eps in
  length l = fuel /\ chain p l /\ last_end l p2 = p2.
Proof.
  induction fuel as [|f IH]; intros i n st bd p p1 p2 lv minc inc1 eps Hf Hi; [lia|].
  cbn [t2_loop]. cbv zeta.
  match goal with |- context [if (Nat.eqb st 0 && ?c)%bool then ?a else ?b] => destruct (if (Nat.eqb st 0 && c)%bool then a else b) as [s1 b1] end.
  destruct (Nat.eqb_spec i (n - 1)) as [Ei|Ei].
  - assert (f = 0)%nat by lia. subst f. cbn. repeat split; reflexivity.
  - match goal with |- context [t2_loop f (S i) n ?s ?b ?q p1 p2 lv minc ?i1 eps] =>
      destruct (IH (S i) n s b q p1 p2 lv minc i1 eps) as [A [B C]]; [lia|lia|];
      set (r := t2_loop f (S i) n s b q p1 p2 lv minc i1 eps) in *
    end.
    cbn [length chain]. repeat split; try assumption; try lia.
    unfold last_end in *. destruct r as [|x r]; [cbn in A; lia|]. exact C.
Qed.

Lemma taper2_spec p1 p2 n r min_t max_t l :
  taper2 p1 p2 n r min_t max_t = TOk l ->
  length l = n /\ chain p1 l /\ last_end l p2 = p2.
Proof.
  unfold taper2. cbv zeta.
  destruct (Nat.ltb_spec 1 n) as [Hn|]; cbn [negb]; [|discriminate].
  destruct (ltb _ _); [discriminate|].
  destruct (negb (opt_le _ max_t)); [discriminate|].
  destruct (negb (opt_le _ max_t)); [discriminate|].
  match goal with |- match ?e with _ => _ end = _ -> _ => destruct e as [minl| |k]; try discriminate end.
  intros H. inversion H; subst.
  apply t2_loop_spec; lia.
Qed.

(* ---- curves ---- *)
Lemma arc_points_length n radius a1 a2 : length (arc_points n radius a1 a2) = S n.
Proof. unfold arc_points. cbv zeta. rewrite app_length, map_length, seq_length. cbn. lia. Qed.
Lemma helix_points_length n len tl rx1 ry1 rx2 ry2 : length (helix_points n len tl rx1 ry1 rx2 ry2) = S n.
Proof. unfold helix_points. cbv zeta. rewrite app_length, map_length, seq_length. cbn. lia. Qed.

Lemma pairwise_segs_length (pts : list V3) : length (pairwise_segs pts) = (length pts - 1)%nat.
Proof.
  induction pts as [|a pts IH]; [reflexivity|]. destruct pts as [|b pts]; [reflexivity|].
  change (pairwise_segs (a :: b :: pts)) with (mk_segment a b :: pairwise_segs (b :: pts)).
  cbn [length]. rewrite IH. cbn [length]. lia.
Qed.

Lemma pairwise_segs_chain (pts : list V3) p : hd p pts = p -> seg_chain p (pairwise_segs pts).
Proof.
  revert p. induction pts as [|a pts IH]; intros p Hp; [exact I|]. destruct pts as [|b pts]; [exact I|].
  change (pairwise_segs (a :: b :: pts)) with (mk_segment a b :: pairwise_segs (b :: pts)).
  cbn in Hp. subst a. split; [reflexivity|]. apply IH. reflexivity.
Qed.

End Structural.

Lemma taper1_mirror_proof :
  forall (N : Num) p1 p2 n r min_t max_t l,
    taper1 p1 p2 n r min_t max_t true = TOk l ->
    exists l', taper1_fwd p2 p1 n r min_t max_t = TOk l' /\ l = map (fun s => (snd s, fst s)) (rev l').
Proof.
  intros N p1 p2 n r min_t max_t l. unfold taper1.
  destruct (taper1_fwd p2 p1 n r min_t max_t) as [l'| |k]; try discriminate.
  intros H. inversion H; subst. exists l'. split; reflexivity.
Qed.

Lemma curve_counts_proof :
  forall (N : Num) n radius a1 a2 len tl rx1 ry1 rx2 ry2,
    length (arc_points n radius a1 a2) = S n /\
    length (helix_points n len tl rx1 ry1 rx2 ry2) = S n /\
    (forall pts : list V3, length (pairwise_segs pts) = (length pts - 1)%nat) /\
    (forall (pts : list V3) p, hd p pts = p -> seg_chain p (pairwise_segs pts)).
Proof.
  intros. split; [apply arc_points_length|]. split; [apply helix_points_length|].
  split; [apply pairwise_segs_length|apply pairwise_segs_chain].
Qed.
