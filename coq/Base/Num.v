(* Numeric signature shared by the theorem instance (Coq reals) and the
   executable instance (primitive binary64 floats).  All model definitions are
   written once over this class. *)
From Coq Require Import ZArith List Bool.
Import ListNotations.

Class Num := {
  T     : Type;
  zero  : T;
  one   : T;
  add   : T -> T -> T;
  sub   : T -> T -> T;
  mul   : T -> T -> T;
  div   : T -> T -> T;
  opp   : T -> T;
  nabs  : T -> T;
  nsqrt : T -> T;
  nexp  : T -> T;
  nln   : T -> T;
  nsin  : T -> T;
  ncos  : T -> T;
  natan2 : T -> T -> T;   (* natan2 y x, as numpy.arctan2 *)
  npi   : T;
  of_Z  : Z -> T;
  of_dec : Z -> Z -> T;   (* the decimal literal m * 10^e, correctly rounded *)
  leb   : T -> T -> bool;
  ltb   : T -> T -> bool;
  eqb   : T -> T -> bool;
  ntrunc : T -> Z;        (* Python int(): round toward zero *)
  nfloor : T -> Z;        (* math.floor *)
}.

Declare Scope num_scope.
Delimit Scope num_scope with num.
Infix "+" := add : num_scope.
Infix "-" := sub : num_scope.
Infix "*" := mul : num_scope.
Infix "/" := div : num_scope.
Notation "- x" := (opp x) : num_scope.

Section Derived.
Context {N : Num}.
Local Open Scope num_scope.

Definition two : T := of_Z 2.
Definition half : T := of_dec 5 (-1).
Definition sqr (x : T) : T := x * x.
Definition nmax (x y : T) : T := if ltb x y then y else x.
Definition nmin (x y : T) : T := if ltb y x then y else x.
Definition of_nat (k : nat) : T := of_Z (Z.of_nat k).
Definition nceil (x : T) : Z := Z.opp (nfloor (opp x)).

Fixpoint nsum (l : list T) : T :=
  match l with [] => zero | x :: r => x + nsum r end.

Fixpoint npow (x : T) (k : nat) : T :=
  match k with O => one | S k' => x * npow x k' end.

End Derived.
