(* The executable instance: Coq's primitive IEEE-754 binary64 floats.
   + - * / sqrt are the primitives; the elementary functions come from
   Base/FloatLib.v.  Every operation is eta-expanded so that vm_compute
   reduces through the class projections. *)
From Coq Require Import ZArith PrimFloat.
From PM Require Import Base.Num Base.FloatLib.

#[export] Instance FNum : Num := {|
  T := float;
  zero := 0%float; one := 1%float;
  add := fun x y => PrimFloat.add x y;
  sub := fun x y => PrimFloat.sub x y;
  mul := fun x y => PrimFloat.mul x y;
  div := fun x y => PrimFloat.div x y;
  opp := fun x => PrimFloat.opp x;
  nabs := fun x => PrimFloat.abs x;
  nsqrt := fun x => PrimFloat.sqrt x;
  nexp := fun x => fl_exp x;
  nln := fun x => fl_ln x;
  nsin := fun x => fl_sin x;
  ncos := fun x => fl_cos x;
  natan2 := fun y x => fl_atan2 y x;
  npi := fl_pi;
  of_Z := fun z => fl_of_Z z;
  leb := fun x y => PrimFloat.leb x y;
  ltb := fun x y => PrimFloat.ltb x y;
  eqb := fun x y => PrimFloat.eqb x y;
  ntrunc := fun x => fl_trunc x;
  nfloor := fun x => fl_floor x;
|}.
