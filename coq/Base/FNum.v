(* The executable instance: Coq's primitive IEEE-754 binary64 floats.
   + - * / sqrt are the primitives; the elementary functions come from
   Base/FloatLib.v.  Every operation is eta-expanded so that vm_compute
   reduces through the class projections. *)
From Coq Require Import ZArith PrimFloat.
From PM Require Import Base.Num Base.FloatLib.

(* decimal literal m * 10^e, correctly rounded to nearest-even (for normal
   results): exact integer for e >= 0; for e < 0 a quotient with > 64
   significant bits and a sticky bit, rounded once by fl_of_Z *)
Definition fl_of_dec (m e : Z) : float :=
  match e with
  | Z0 => fl_of_Z m
  | Zpos p => fl_of_Z (m * Z.pow 10 (Zpos p))
  | Zneg p =>
      let d := Z.pow 10 (Zpos p) in
      let a := Z.abs m in
      if Z.eqb a 0 then 0%float else
      let s := (64 + Z.log2_up d)%Z in
      let n := Z.shiftl a s in
      let q := Z.div n d in
      let r := Z.modulo n d in
      let q' := (2 * q + (if Z.eqb r 0 then 0 else 1))%Z in
      let v := fl_ldexp (fl_of_Z q') (- s - 1) in
      if Z.ltb m 0 then PrimFloat.opp v else v
  end.

#[export] Instance FNum : Num := {|
  T := float;
  zero := 0%float; one := 1%float;
  add := fun x y => PrimFloat.add x y;
  sub := fun x y => PrimFloat.sub x y;
  mul := fun x y => PrimFloat.mul x y;
  div := fun x y => PrimFloat.div x y;
  opp := fun x => PrimFloat.opp x;
  nabs := fun x => PrimFloat.abs x;
  nsqrt := fun x => PrimFloat.sqrt x;
  nexp := fun x => fl_exp x;
  nln := fun x => fl_ln x;
  nsin := fun x => fl_sin x;
  ncos := fun x => fl_cos x;
  natan2 := fun y x => fl_atan2 y x;
  npi := fl_pi;
  of_Z := fun z => fl_of_Z z;
  of_dec := fun m e => fl_of_dec m e;
  leb := fun x y => PrimFloat.leb x y;
  ltb := fun x y => PrimFloat.ltb x y;
  eqb := fun x y => PrimFloat.eqb x y;
  ntrunc := fun x => fl_trunc x;
  nfloor := fun x => fl_floor x;
|}.
