(* Executable elementary functions on Coq's primitive binary64 floats.

   This file is only *run* (with [vm_compute]); it contains no proofs and no
   axioms.  The algorithms are the classical fdlibm ones (argument reduction
   plus a fixed minimax polynomial evaluated in Horner form), so every
   function is a straight-line program: no fuel, no recursion.

     fl_exp   : k = round(x/ln2), r = x - k*ln2 (two-part ln2), rational
                approximation of exp(r), scaling with ldshiftexp.
     fl_ln    : x = 2^k * (1+f), sqrt(2)/2 <= 1+f < sqrt(2), s = f/(2+f),
                degree-14 polynomial in s.
     fl_sin,
     fl_cos   : Cody-Waite reduction by pi/2 in three 33-bit parts (quadrant
                count kept in Z), kernels k_sin / k_cos with a tail argument.
                Full accuracy for |x| < 2^20*pi/2 ~ 1.6e6; beyond that the
                reduction loses accuracy gradually (no Payne-Hanek).
     fl_atan2 : fdlibm atan (4 break points) plus quadrant fix-up.

   Measured against Python's [math] module (py/test_floatlib.py): <= 1 ulp
   for exp, ln, sin, cos, and <= 2 ulp for atan2.

   All primitive operations occur applied to their arguments (the float_scope
   notations unfold to applied [PrimFloat.add x y] etc.), so the definitions
   reduce under [vm_compute] also when used through a record / functor
   instance.  [Uint63] is deliberately not imported. *)

From Coq Require Import ZArith PrimFloat.
From Coq Require Uint63.

Local Open Scope float_scope.

(* ------------------------------------------------------------------ *)
(* Classification helpers                                              *)
(* ------------------------------------------------------------------ *)

Definition fl_abs (x : float) : float := PrimFloat.abs x.

Definition fl_is_nan (x : float) : bool :=
  match PrimFloat.classify x with
  | FloatClass.NaN => true
  | _ => false
  end.

Definition fl_is_inf (x : float) : bool :=
  match PrimFloat.classify x with
  | FloatClass.PInf | FloatClass.NInf => true
  | _ => false
  end.

Definition fl_is_finite (x : float) : bool :=
  match PrimFloat.classify x with
  | FloatClass.NaN | FloatClass.PInf | FloatClass.NInf => false
  | _ => true
  end.

(* Sign bit, distinguishing -0.0 from +0.0; false for nan. *)
Definition fl_signbit (x : float) : bool :=
  match PrimFloat.classify x with
  | FloatClass.NNormal | FloatClass.NSubn
  | FloatClass.NZero | FloatClass.NInf => true
  | _ => false
  end.

(* ------------------------------------------------------------------ *)
(* Exponent access.  frshiftexp x = (m, e) with 0.5 <= |m| < 1 and     *)
(* x = m * 2^(e - 2101); ldshiftexp m e = m * 2^(e - 2101).            *)
(* ------------------------------------------------------------------ *)

Definition fl_eshift : Z := 2101%Z.

(* x = fst * 2^snd with 0.5 <= |fst| < 1 (x finite, non-zero). *)
Definition fl_frexp (x : float) : float * Z :=
  let (m, e) := PrimFloat.frshiftexp x in
  (m, (Uint63.to_Z e - fl_eshift)%Z).

(* x * 2^k, correctly rounded; k is clamped so that the biased exponent
   stays a small non-negative machine integer. *)
Definition fl_ldexp (x : float) (k : Z) : float :=
  let k' := Z.max (-2100) (Z.min 2100 k) in
  PrimFloat.ldshiftexp x (Uint63.of_Z (k' + fl_eshift)%Z).

(* ------------------------------------------------------------------ *)
(* Z <-> float                                                         *)
(* ------------------------------------------------------------------ *)

(* Correctly rounded (nearest-even) for every z.  For |z| < 2^62 this is
   the primitive conversion.  Larger magnitudes are first reduced to a
   63-bit integer 2*q + sticky (q = top 62 bits, sticky = "some lower bit
   set"); rounding that to 53 bits gives the same result as rounding |z|
   itself, and the final scaling by a power of two is exact (or overflows
   to infinity). *)
Definition fl_of_Zabs (a : Z) : float :=
  let n := Z.succ (Z.log2 a) in            (* bit length, a > 0 *)
  if (n <=? 62)%Z then PrimFloat.of_uint63 (Uint63.of_Z a)
  else
    let s := (n - 62)%Z in
    let q := Z.shiftr a s in
    let sticky := if (Z.shiftl q s =? a)%Z then 0%Z else 1%Z in
    let m := PrimFloat.of_uint63 (Uint63.of_Z (2 * q + sticky)%Z) in
    if (s >? 1100)%Z then infinity else fl_ldexp m (s - 1)%Z.

Definition fl_of_Z (z : Z) : float :=
  match z with
  | Z0 => 0
  | Zpos _ => fl_of_Zabs z
  | Zneg p => - (fl_of_Zabs (Zpos p))
  end.

(* |x| = M * 2^s with M the 53-bit integer mantissa (x finite, non-zero). *)
Definition fl_decomp (x : float) : Z * Z :=
  let (m, e) := PrimFloat.frshiftexp (PrimFloat.abs x) in
  (Uint63.to_Z (PrimFloat.normfr_mantissa m),
   (Uint63.to_Z e - fl_eshift - 53)%Z).

(* Round toward zero (Python int(x)); exact for every finite x;
   0 for nan / infinities. *)
Definition fl_trunc (x : float) : Z :=
  if fl_is_finite x then
    if x =? 0 then 0%Z
    else
      let (M, s) := fl_decomp x in
      let a := if (s >=? 0)%Z then Z.shiftl M s
               else if (s <=? -53)%Z then 0%Z
               else Z.shiftr M (- s) in
      if x <? 0 then (- a)%Z else a
  else 0%Z.

(* Round toward minus infinity (math.floor); exact for every finite x;
   0 for nan / infinities. *)
Definition fl_floor (x : float) : Z :=
  if fl_is_finite x then
    if x =? 0 then 0%Z
    else
      let (M, s) := fl_decomp x in
      if (s >=? 0)%Z then
        let a := Z.shiftl M s in if x <? 0 then (- a)%Z else a
      else if x <? 0 then
        (* -ceil(|x|) *)
        if (s <=? -53)%Z then (-1)%Z
        else (- Z.shiftr (M + (Z.shiftl 1 (- s) - 1)) (- s))%Z
      else
        if (s <=? -53)%Z then 0%Z else Z.shiftr M (- s)
  else 0%Z.

(* ------------------------------------------------------------------ *)
(* Constants                                                           *)
(* ------------------------------------------------------------------ *)

Definition fl_pi : float := 0x1.921fb54442d18p+1.
Definition fl_pi_lo : float := 0x1.1a62633145c07p-53.     (* pi - fl_pi *)
Definition fl_pio2 : float := 0x1.921fb54442d18p+0.
Definition fl_pio4 : float := 0x1.921fb54442d18p-1.

(* ------------------------------------------------------------------ *)
(* exp                                                                 *)
(* ------------------------------------------------------------------ *)

Definition exp_ln2hi : float := 0x1.62e42fee00000p-1.
Definition exp_ln2lo : float := 0x1.a39ef35793c76p-33.
Definition exp_invln2 : float := 0x1.71547652b82fep+0.
Definition exp_P1 : float := 0x1.555555555553ep-3.
Definition exp_P2 : float := -0x1.6c16c16bebd93p-9.
Definition exp_P3 : float := 0x1.1566aaf25de2cp-14.
Definition exp_P4 : float := -0x1.bbd41c5d26bf1p-20.
Definition exp_P5 : float := 0x1.6376972bea4d0p-25.

Definition fl_exp (x : float) : float :=
  if fl_is_nan x then x
  else if 710 <? x then infinity
  else if x <? -746 then 0
  else if PrimFloat.abs x <? 0x1p-28 then 1 + x
  else if PrimFloat.abs x <? 0x1.62e42fefa39efp-2 then   (* |x| < ln2/2 *)
    let t := x * x in
    let c := x - t * (exp_P1 + t * (exp_P2 + t * (exp_P3
                 + t * (exp_P4 + t * exp_P5)))) in
    1 - ((x * c) / (c - 2) - x)
  else
    let k := fl_floor (exp_invln2 * x + 0.5) in
    let fk := fl_of_Z k in
    let hi := x - fk * exp_ln2hi in
    let lo := fk * exp_ln2lo in
    let r := hi - lo in
    let t := r * r in
    let c := r - t * (exp_P1 + t * (exp_P2 + t * (exp_P3
                 + t * (exp_P4 + t * exp_P5)))) in
    let y := 1 - ((lo - (r * c) / (2 - c)) - hi) in
    fl_ldexp y k.

(* ------------------------------------------------------------------ *)
(* ln                                                                  *)
(* ------------------------------------------------------------------ *)

Definition ln_Lg1 : float := 0x1.5555555555593p-1.
Definition ln_Lg2 : float := 0x1.999999997fa04p-2.
Definition ln_Lg3 : float := 0x1.2492494229359p-2.
Definition ln_Lg4 : float := 0x1.c71c51d8e78afp-3.
Definition ln_Lg5 : float := 0x1.7466496cb03dep-3.
Definition ln_Lg6 : float := 0x1.39a09d078c69fp-3.
Definition ln_Lg7 : float := 0x1.2f112df3e5244p-3.

Definition fl_ln (x : float) : float :=
  if fl_is_nan x then x
  else if x =? 0 then neg_infinity
  else if x <? 0 then nan
  else if fl_is_inf x then x
  else
    let (m0, e0) := fl_frexp x in
    (* 1+f in [sqrt(2)/2, sqrt(2)) *)
    let m := if m0 <? 0x1.6a09e667f3bcdp-1 then 2 * m0 else m0 in
    let k := if m0 <? 0x1.6a09e667f3bcdp-1 then (e0 - 1)%Z else e0 in
    let dk := fl_of_Z k in
    let f := m - 1 in
    let hfsq := 0.5 * f * f in
    let s := f / (2 + f) in
    let z := s * s in
    let w := z * z in
    let t1 := w * (ln_Lg2 + w * (ln_Lg4 + w * ln_Lg6)) in
    let t2 := z * (ln_Lg1 + w * (ln_Lg3 + w * (ln_Lg5 + w * ln_Lg7))) in
    let R := t2 + t1 in
    s * (hfsq + R) + dk * exp_ln2lo - hfsq + f + dk * exp_ln2hi.

(* ------------------------------------------------------------------ *)
(* sin / cos                                                           *)
(* ------------------------------------------------------------------ *)

Definition trig_invpio2 : float := 0x1.45f306dc9c883p-1.
Definition trig_pio2_1 : float := 0x1.921fb54400000p+0.
Definition trig_pio2_1t : float := 0x1.0b4611a626331p-34.
Definition trig_pio2_2 : float := 0x1.0b4611a600000p-34.
Definition trig_pio2_2t : float := 0x1.3198a2e037073p-69.
Definition trig_pio2_3 : float := 0x1.3198a2e000000p-69.
Definition trig_pio2_3t : float := 0x1.b839a252049c1p-104.

Definition sin_S1 : float := -0x1.5555555555549p-3.
Definition sin_S2 : float := 0x1.111111110f8a6p-7.
Definition sin_S3 : float := -0x1.a01a019c161d5p-13.
Definition sin_S4 : float := 0x1.71de357b1fe7dp-19.
Definition sin_S5 : float := -0x1.ae5e68a2b9cebp-26.
Definition sin_S6 : float := 0x1.5d93a5acfd57cp-33.

Definition cos_C1 : float := 0x1.555555555554cp-5.
Definition cos_C2 : float := -0x1.6c16c16c15177p-10.
Definition cos_C3 : float := 0x1.a01a019cb1590p-16.
Definition cos_C4 : float := -0x1.27e4f809c52adp-22.
Definition cos_C5 : float := 0x1.1ee9ebdb4b1c4p-29.
Definition cos_C6 : float := -0x1.8fae9be8838d4p-37.

(* Binary exponent of a finite float (0 for zero). *)
Definition fl_expo (x : float) : Z :=
  if x =? 0 then 0%Z else snd (fl_frexp x).

(* Reduce a >= 0 modulo pi/2: a = n*(pi/2) + (y0 + y1), |y0+y1| <= ~pi/4.
   Stages 2 and 3 are entered only when cancellation has made the previous
   remainder exact, exactly as in fdlibm's __ieee754_rem_pio2. *)
Definition trig_reduce_pos (a : float) : Z * (float * float) :=
  if a <=? fl_pio4 then (0%Z, (a, 0))
  else
    let n := fl_floor (a * trig_invpio2 + 0.5) in
    let fn := fl_of_Z n in
    let ea := fl_expo a in
    let r1 := a - fn * trig_pio2_1 in
    let w1 := fn * trig_pio2_1t in
    let y1 := r1 - w1 in
    if (ea - fl_expo y1 <=? 16)%Z then (n, (y1, (r1 - y1) - w1))
    else
      let t2 := r1 in
      let w := fn * trig_pio2_2 in
      let r2 := t2 - w in
      let w2 := fn * trig_pio2_2t - ((t2 - r2) - w) in
      let y2 := r2 - w2 in
      if (ea - fl_expo y2 <=? 49)%Z then (n, (y2, (r2 - y2) - w2))
      else
        let t3 := r2 in
        let w' := fn * trig_pio2_3 in
        let r3 := t3 - w' in
        let w3 := fn * trig_pio2_3t - ((t3 - r3) - w') in
        let y3 := r3 - w3 in
        (n, (y3, (r3 - y3) - w3)).

(* sin(x + y) for |x| <= ~pi/4, y the tail of x. *)
Definition trig_ksin (x y : float) : float :=
  if PrimFloat.abs x <? 0x1p-27 then x
  else
    let z := x * x in
    let v := z * x in
    let r := sin_S2 + z * (sin_S3 + z * (sin_S4 + z * (sin_S5 + z * sin_S6))) in
    x - ((z * (0.5 * y - v * r) - y) - v * sin_S1).

(* cos(x + y) for |x| <= ~pi/4, y the tail of x. *)
Definition trig_kcos (x y : float) : float :=
  let z := x * x in
  let w := z * z in
  let r := z * (cos_C1 + z * (cos_C2 + z * cos_C3))
           + (w * w) * (cos_C4 + z * (cos_C5 + z * cos_C6)) in
  let hz := 0.5 * z in
  let w1 := 1 - hz in
  w1 + (((1 - w1) - hz) + (z * r - x * y)).

Definition fl_sin (x : float) : float :=
  if fl_is_finite x then
    let '(n, (y0, y1)) := trig_reduce_pos (PrimFloat.abs x) in
    let q := (n mod 4)%Z in
    let s :=
      if (q =? 0)%Z then trig_ksin y0 y1
      else if (q =? 1)%Z then trig_kcos y0 y1
      else if (q =? 2)%Z then - (trig_ksin y0 y1)
      else - (trig_kcos y0 y1) in
    if fl_signbit x then - s else s
  else nan.

Definition fl_cos (x : float) : float :=
  if fl_is_finite x then
    let '(n, (y0, y1)) := trig_reduce_pos (PrimFloat.abs x) in
    let q := (n mod 4)%Z in
    if (q =? 0)%Z then trig_kcos y0 y1
    else if (q =? 1)%Z then - (trig_ksin y0 y1)
    else if (q =? 2)%Z then - (trig_kcos y0 y1)
    else trig_ksin y0 y1
  else nan.

(* ------------------------------------------------------------------ *)
(* atan / atan2                                                        *)
(* ------------------------------------------------------------------ *)

Definition atan_hi0 : float := 0x1.dac670561bb4fp-2.
Definition atan_hi1 : float := 0x1.921fb54442d18p-1.
Definition atan_hi2 : float := 0x1.f730bd281f69bp-1.
Definition atan_hi3 : float := 0x1.921fb54442d18p+0.
Definition atan_lo0 : float := 0x1.a2b7f222f65e2p-56.
Definition atan_lo1 : float := 0x1.1a62633145c07p-55.
Definition atan_lo2 : float := 0x1.007887af0cbbdp-56.
Definition atan_lo3 : float := 0x1.1a62633145c07p-54.

Definition atan_T0 : float := 0x1.555555555550dp-2.
Definition atan_T1 : float := -0x1.999999998ebc4p-3.
Definition atan_T2 : float := 0x1.24924920083ffp-3.
Definition atan_T3 : float := -0x1.c71c6fe231671p-4.
Definition atan_T4 : float := 0x1.745cdc54c206ep-4.
Definition atan_T5 : float := -0x1.3b0f2af749a6dp-4.
Definition atan_T6 : float := 0x1.10d66a0d03d51p-4.
Definition atan_T7 : float := -0x1.dde2d52defd9ap-5.
Definition atan_T8 : float := 0x1.97b4b24760debp-5.
Definition atan_T9 : float := -0x1.2b4442c6a6c2fp-5.
Definition atan_T10 : float := 0x1.0ad3ae322da11p-6.

(* x * (s1 + s2): the odd polynomial correction of atan on a reduced x. *)
Definition atan_poly (x : float) : float :=
  let z := x * x in
  let w := z * z in
  let s1 := z * (atan_T0 + w * (atan_T2 + w * (atan_T4 + w * (atan_T6
                 + w * (atan_T8 + w * atan_T10))))) in
  let s2 := w * (atan_T1 + w * (atan_T3 + w * (atan_T5 + w * (atan_T7
                 + w * atan_T9)))) in
  x * (s1 + s2).

(* atan a for a >= 0 (possibly +infinity). *)
Definition atan_pos (a : float) : float :=
  if 0x1p66 <=? a then atan_hi3 + atan_lo3
  else if a <? 0.4375 then
    if a <? 0x1p-29 then a else a - atan_poly a
  else if a <? 1.1875 then
    if a <? 0.6875 then
      let t := (2 * a - 1) / (2 + a) in
      atan_hi0 - ((atan_poly t - atan_lo0) - t)
    else
      let t := (a - 1) / (a + 1) in
      atan_hi1 - ((atan_poly t - atan_lo1) - t)
  else if a <? 2.4375 then
    let t := (a - 1.5) / (1 + 1.5 * a) in
    atan_hi2 - ((atan_poly t - atan_lo2) - t)
  else
    let t := (-1) / a in
    atan_hi3 - ((atan_poly t - atan_lo3) - t).

Definition fl_atan (x : float) : float :=
  if fl_is_nan x then x
  else if fl_signbit x then - (atan_pos (PrimFloat.abs x))
  else atan_pos x.

(* math.atan2 y x, including signed zeros and infinities. *)
Definition fl_atan2 (y x : float) : float :=
  if fl_is_nan x then x
  else if fl_is_nan y then y
  else
    let sy := fl_signbit y in
    let sx := fl_signbit x in
    let sgn (v : float) : float := if sy then - v else v in
    if y =? 0 then
      (if sx then sgn fl_pi else y)
    else if x =? 0 then sgn fl_pio2
    else if fl_is_inf x then
      if fl_is_inf y then
        (if sx then sgn (3 * fl_pio4) else sgn fl_pio4)
      else
        (if sx then sgn fl_pi else sgn 0)
    else if fl_is_inf y then sgn fl_pio2
    else
      let q := PrimFloat.abs (y / x) in
      if 0x1p60 <? q then sgn (fl_pio2 + 0.5 * fl_pi_lo)
      else
        let z := atan_pos q in
        if sx then sgn (fl_pi - (z - fl_pi_lo)) else sgn z.
