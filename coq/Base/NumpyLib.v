(* Models of the numpy array primitives the code relies on. *)
From Coq Require Import ZArith List Bool.
From PM Require Import Base.Num.
Import ListNotations.

Section NumpyLib.
Context {N : Num}.
Local Open Scope num_scope.

(* numpy.arange(start, stop, step) for floats: the length is
   ceil((stop - start) / step) (0 if negative); element 0 is start, element 1
   is start + step, element k >= 2 is start + k * delta with
   delta = (start + step) - start  (numpy's DOUBLE_fill). *)
Definition np_arange_len (start stop step : T) : nat :=
  Z.to_nat (nceil ((stop - start) / step)).

Definition np_arange_elt (start step : T) (k : nat) : T :=
  match k with
  | O => start
  | S O => start + step
  | _ => start + of_nat k * ((start + step) - start)
  end.

Definition np_arange (start stop step : T) : list T :=
  map (np_arange_elt start step) (seq 0 (np_arange_len start stop step)).

(* meshgrid of r with indexing='ij') flattened, for r = [zs, ys, xs], then flipped:
   x runs fastest, z slowest *)
Definition grid3 (xs ys zs : list T) : list (T * T * T) :=
  flat_map (fun z => flat_map (fun y => map (fun x => (x, y, z)) xs) ys) zs.

(* meshgrid(zen, azi) (default 'xy' indexing) flattened: azimuth is the
   outer loop, zenith the inner one *)
Definition ff_rows (zen azi : list T) : list (T * T) :=
  flat_map (fun a => map (fun z => (z, a)) zen) azi.

End NumpyLib.
