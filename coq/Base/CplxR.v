(* Bridge: complex numbers of the real instance are Coquelicot's C. *)
From Coq Require Import ZArith List Reals Lra.
From Coquelicot Require Import Coquelicot.
From PM Require Import Base.Num Base.RNum Base.Cplx.
Import ListNotations.

Notation CxR := (@Cx RNum).

Lemma cadd_C (a b : CxR) : cadd a b = Cplus a b.   Proof. reflexivity. Qed.
Lemma csub_C (a b : CxR) : csub a b = Cminus a b.
Proof. destruct a, b; unfold csub, Cminus, Cplus, Copp; cbn. f_equal. Qed.
Lemma cmul_C (a b : CxR) : cmul a b = Cmult a b.   Proof. reflexivity. Qed.
Lemma copp_C (a : CxR) : copp a = Copp a.          Proof. reflexivity. Qed.
Lemma cconj_C (a : CxR) : cconj a = Cconj a.       Proof. reflexivity. Qed.
Lemma c0_C : (@c0 RNum) = RtoC 0.                  Proof. reflexivity. Qed.
Lemma c1_C : (@c1 RNum) = RtoC 1.                  Proof. reflexivity. Qed.
Lemma cj_C : (@cj RNum) = Ci.                      Proof. reflexivity. Qed.
Lemma cofR_C (x : R) : @cofR RNum x = RtoC x.      Proof. reflexivity. Qed.
Lemma cscale_C (x : R) (a : CxR) : cscale x a = Cmult (RtoC x) a.
Proof. destruct a; unfold cscale, Cmult, RtoC; cbn. f_equal; ring. Qed.

Lemma cabs2_pos (a : CxR) : a <> RtoC 0 -> (0 < cabs2 a)%R.
Proof.
  destruct a as [x y]; unfold cabs2, RtoC; cbn; intros H.
  assert (x <> 0 \/ y <> 0)%R as [Hx|Hy].
  { destruct (Req_dec x 0) as [->|]; [right|left; assumption].
    intros ->. apply H; reflexivity. }
  - nra.
  - nra.
Qed.

Lemma cinv_C (a : CxR) : a <> RtoC 0 -> cinv a = Cinv a.
Proof.
  intros H. destruct a as [x y]. unfold cinv, Cinv, cabs2; cbn.
  pose proof (cabs2_pos (x, y) H) as Hp. unfold cabs2 in Hp; cbn in Hp.
  f_equal; field; nra.
Qed.

Lemma cdiv_C (a b : CxR) : b <> RtoC 0 -> cdiv a b = Cdiv a b.
Proof. intros H. unfold cdiv, Cdiv. rewrite cinv_C by assumption. reflexivity. Qed.

Ltac to_C := repeat first
  [ rewrite cadd_C | rewrite csub_C | rewrite cmul_C | rewrite copp_C
  | rewrite cconj_C | rewrite c0_C | rewrite c1_C | rewrite cj_C
  | rewrite cofR_C | rewrite cscale_C ].
