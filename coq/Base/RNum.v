(* The theorem instance: Coq's real numbers. *)
From Coq Require Import ZArith Reals Lra.
From PM Require Import Base.Num.

Definition Rleb (x y : R) : bool := if Rle_dec x y then true else false.
Definition Rltb (x y : R) : bool := if Rlt_dec x y then true else false.
Definition Reqb (x y : R) : bool := if Req_EM_T x y then true else false.
(* atan2 on the reals: principal argument of (x, y) *)
Definition Ratan2 (y x : R) : R :=
  if Rlt_dec 0 x then atan (y / x)
  else if Rlt_dec x 0 then (if Rle_dec 0 y then atan (y / x) + PI else atan (y / x) - PI)
  else if Rlt_dec 0 y then PI / 2 else if Rlt_dec y 0 then - PI / 2 else 0.

Definition Rof_dec (m e : Z) : R :=
  match e with
  | Z0 => IZR m
  | Zpos p => (IZR m * IZR (Z.pow 10 (Zpos p)))%R
  | Zneg p => (IZR m / IZR (Z.pow 10 (Zpos p)))%R
  end.

#[export] Instance RNum : Num := {|
  T := R; zero := 0%R; one := 1%R;
  add := Rplus; sub := Rminus; mul := Rmult; div := Rdiv; opp := Ropp;
  nabs := Rabs; nsqrt := R_sqrt.sqrt; nexp := exp; nln := ln; nsin := sin; ncos := cos;
  natan2 := Ratan2; npi := PI; of_Z := IZR; of_dec := Rof_dec;
  leb := Rleb; ltb := Rltb; eqb := Reqb;
  ntrunc := fun x => if Rle_dec 0 x then Int_part x else (- Int_part (- x))%Z;
  nfloor := Int_part;
|}.

Lemma Rleb_true x y : Rleb x y = true <-> (x <= y)%R.
Proof. unfold Rleb; destruct (Rle_dec x y); split; intros; try discriminate; auto; contradiction. Qed.
Lemma Rltb_true x y : Rltb x y = true <-> (x < y)%R.
Proof. unfold Rltb; destruct (Rlt_dec x y); split; intros; try discriminate; auto; contradiction. Qed.
Lemma Reqb_true x y : Reqb x y = true <-> x = y.
Proof. unfold Reqb; destruct (Req_EM_T x y); split; intros; try discriminate; auto; contradiction. Qed.
Lemma Rleb_false x y : Rleb x y = false <-> (y < x)%R.
Proof. unfold Rleb; destruct (Rle_dec x y); split; intros; try discriminate; auto; lra. Qed.
Lemma Rltb_false x y : Rltb x y = false <-> (y <= x)%R.
Proof. unfold Rltb; destruct (Rlt_dec x y); split; intros; try discriminate; auto; lra. Qed.
