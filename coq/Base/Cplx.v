(* Complex numbers, 3-vectors and dense vectors/matrices over a Num. *)
From Coq Require Import ZArith List Bool.
From PM Require Import Base.Num.
Import ListNotations.

Section Cplx.
Context {N : Num}.
Local Open Scope num_scope.

Definition Cx : Type := (T * T)%type.
Definition cre (z : Cx) : T := fst z.
Definition cim (z : Cx) : T := snd z.
Definition c0 : Cx := (zero, zero).
Definition c1 : Cx := (one, zero).
Definition cj : Cx := (zero, one).
Definition cofR (x : T) : Cx := (x, zero).
Definition cadd (a b : Cx) : Cx := (fst a + fst b, snd a + snd b).
Definition csub (a b : Cx) : Cx := (fst a - fst b, snd a - snd b).
Definition copp (a : Cx) : Cx := (- fst a, - snd a).
Definition cmul (a b : Cx) : Cx :=
  (fst a * fst b - snd a * snd b, fst a * snd b + snd a * fst b).
Definition cconj (a : Cx) : Cx := (fst a, - snd a).
Definition cabs2 (a : Cx) : T := fst a * fst a + snd a * snd a.
Definition cabs (a : Cx) : T := nsqrt (cabs2 a).
Definition cinv (a : Cx) : Cx := (fst a / cabs2 a, - snd a / cabs2 a).
Definition cdiv (a b : Cx) : Cx := cmul a (cinv b).
Definition cscale (x : T) (a : Cx) : Cx := (x * fst a, x * snd a).
Definition cdivr (a : Cx) (x : T) : Cx := (fst a / x, snd a / x).
(* e^{j x} *)
Definition cexpj (x : T) : Cx := (ncos x, nsin x).
Definition cexp (z : Cx) : Cx := cscale (nexp (fst z)) (cexpj (snd z)).
Definition carg (z : Cx) : T := natan2 (snd z) (fst z).
(* principal square root as numpy: non-negative real part *)
Definition csqrt (z : Cx) : Cx :=
  let m := cabs z in
  let re := nsqrt ((m + fst z) / two) in
  let im := nsqrt ((m - fst z) / two) in
  (re, if ltb (snd z) zero then - im else im).
Definition cln (z : Cx) : Cx := (nln (cabs z), carg z).

Fixpoint csum (l : list Cx) : Cx :=
  match l with [] => c0 | x :: r => cadd x (csum r) end.

(* dense vectors and matrices *)
Definition cvec := list Cx.
Definition cmat := list (list Cx).
Fixpoint cdot (a b : cvec) : Cx :=
  match a, b with
  | x :: a', y :: b' => cadd (cmul x y) (cdot a' b')
  | _, _ => c0
  end.
Definition mvmul (M : cmat) (v : cvec) : cvec := map (fun row => cdot row v) M.
Definition vadd (a b : cvec) : cvec := map (fun p => cadd (fst p) (snd p)) (combine a b).
Definition vsub (a b : cvec) : cvec := map (fun p => csub (fst p) (snd p)) (combine a b).
Definition vscale (k : Cx) (a : cvec) : cvec := map (cmul k) a.
Definition madd (A B : cmat) : cmat := map (fun p => vadd (fst p) (snd p)) (combine A B).
Definition vnth (v : cvec) (i : nat) : Cx := nth i v c0.
Definition mnth (M : cmat) (i j : nat) : Cx := nth j (nth i M []) c0.

(* 3-vectors of reals *)
Definition V3 : Type := (T * T * T)%type.
Definition vx (v : V3) : T := fst (fst v).
Definition vy (v : V3) : T := snd (fst v).
Definition vz (v : V3) : T := snd v.
Definition v3 (x y z : T) : V3 := (x, y, z).
Definition v3add (a b : V3) : V3 := (vx a + vx b, vy a + vy b, vz a + vz b).
Definition v3sub (a b : V3) : V3 := (vx a - vx b, vy a - vy b, vz a - vz b).
Definition v3scale (k : T) (a : V3) : V3 := (k * vx a, k * vy a, k * vz a).
Definition v3mulc (a b : V3) : V3 := (vx a * vx b, vy a * vy b, vz a * vz b).
Definition v3dot (a b : V3) : T := vx a * vx b + vy a * vy b + vz a * vz b.
Definition v3norm (a : V3) : T := nsqrt (v3dot a a).
Definition v3divr (a : V3) (k : T) : V3 := (vx a / k, vy a / k, vz a / k).
Definition v3zero : V3 := (zero, zero, zero).

End Cplx.
