(* Executable entry point of correspondence stage `bas` (C18). *)
From Coq Require Import ZArith List Bool Arith.
From PM Require Import Model.Basic.
Import ListNotations.

Definition zmatch (model real : Z) : bool := Z.eqb model wild || Z.eqb model real.
Definition tok_match (m r : tok) : bool :=
  match m, r with
  | TW a, TW b => Z.eqb a b
  | TText, TText => true
  | TNum k a b, TNum k' a' b' => Nat.eqb k k' && zmatch a a' && zmatch b b'
  | _, _ => false
  end.
Fixpoint all_match (m r : list tok) : bool :=
  match m, r with
  | [], [] => true
  | x :: m', y :: r' => tok_match x y && all_match m' r'
  | _, _ => false
  end.

Definition env_eqb (a b : env_sh) : bool :=
  match a, b with
  | EFree, EFree | EPerfect, EPerfect => true
  | EMedia n c r, EMedia n' c' r' => Nat.eqb n n' && Bool.eqb c c' && Nat.eqb r r'
  | _, _ => false
  end.
Definition load_eqb (a b : load_sh) : bool :=
  match a, b with
  | LNone, LNone => true
  | LImp n, LImp n' => Nat.eqb n n'
  | LS o, LS o' => Nat.eqb (length o) (length o') && forallb (fun p => Nat.eqb (fst p) (snd p)) (combine o o')
  | _, _ => false
  end.
Definition ff_eqb (a b : ff_sh) : bool :=
  match a, b with
  | FNone, FNone => true
  | FDb f, FDb f' => Bool.eqb f f'
  | FAbs p f, FAbs p' f' => Bool.eqb p p' && Bool.eqb f f'
  | _, _ => false
  end.
Definition nf_eqb (a b : option bool) : bool :=
  match a, b with None, None => true | Some x, Some y => Bool.eqb x y | _, _ => false end.
Definition shape_eqb (a b : shape) : bool :=
  env_eqb (sh_env a) (sh_env b) && Nat.eqb (sh_wires a) (sh_wires b) && Nat.eqb (sh_sources a) (sh_sources b)
  && load_eqb (sh_loads a) (sh_loads b) && ff_eqb (sh_ff a) (sh_ff b) && nf_eqb (sh_nf a) (sh_nf b).

(* [1 if the automaton reads the real answers and finds the model's shape; 1 if the writer's sequence is the real one] *)
Definition bas_case (real : list tok) (sh : shape) : list Z :=
  [ match read real with Some (s, []) => if shape_eqb s sh then 1 else 0 | Some (_, _ :: _) => (-2) | None => (-1) end;
    if all_match (write sh) real then 1 else 0 ]%Z.
