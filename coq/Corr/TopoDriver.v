(* Executable entry point of correspondence stage `topo`. *)
From Coq Require Import ZArith List Bool PrimFloat.
From PM Require Import Base.Num Base.FNum Base.Cplx Model.Topology.
Import ListNotations.

Definition v3l (v : @V3 FNum) : list float := [fst (fst v); snd (fst v); snd v].
Definition zb (b : bool) : Z := if b then 1%Z else 0%Z.
Definition zn (n : nat) : Z := Z.of_nat n.
Definition zo (o : option nat) : Z := match o with Some n => Z.of_nat n | None => (-1)%Z end.
Definition zsgn (b : bool) : Z := if b then 1%Z else (-1)%Z.

Definition topo_floats (tol : float) (os : list (@obj FNum)) : list float :=
  flat_map (fun p => v3l (pu_point p) ++ v3l (fst (pu_ends p)) ++ v3l (snd (pu_ends p)))
           (tp_pulses (build tol os)).

Definition st_code (s : status) : list Z :=
  match s with
  | Free => [0; 0; 0; 0]%Z
  | Grounded => [1; 0; 0; 0]%Z
  | Joined j e same => [2%Z; zn j; zb e; zsgn same]
  end.

(* per pulse: obj0 seg0 obj1 seg1 gnd0 gnd1 dsgn0 dsgn1 obj n;
   then -7 as separator; then per object: end_seg 0, end_seg 1, first pulse
   index, number of pulses, status codes *)
Definition topo_ints (tol : float) (os : list (@obj FNum)) : list Z :=
  let t := build tol os in
  flat_map (fun p =>
    [zn (fst (fst (pu_segs p))); zn (snd (fst (pu_segs p))); zn (fst (snd (pu_segs p))); zn (snd (snd (pu_segs p)));
     zb (fst (pu_gnd p)); zb (snd (pu_gnd p)); zsgn (fst (pu_dsgn p)); zsgn (snd (pu_dsgn p));
     zn (pu_obj p); zn (pu_n p)]) (tp_pulses t)
  ++ [(-7)%Z] ++
  flat_map (fun i =>
    [zo (end_seg t i false); zo (end_seg t i true); zn (obj_start t i); zn (length (nth i (tp_by_obj t) []))]
    ++ st_code (fst (nth i (tp_status t) (Free, Free))) ++ st_code (snd (nth i (tp_status t) (Free, Free))))
    (seq 0 (length os)).

From PM Require Import Model.Report.

(* stage `junc`: end lines of the current table; NoLine -> [0;0;0], ELine -> [1;0;0], JLine c -> [2;re;im] *)
Definition line_code (l : @endline FNum) : list float :=
  match l with
  | NoLine => [0; 0; 0]%float
  | ELine => [1; 0; 0]%float
  | JLine c => [2%float; fst c; snd c]
  end.
Definition junc_lines (tol : float) (os : list (@obj FNum)) (I : @cvec FNum) : list float :=
  let t := build tol os in
  flat_map (fun i => line_code (end_line t I i false) ++ line_code (end_line t I i true)) (seq 0 (length os)).

(* stage `addr` *)
Definition zopt (o : option nat) : Z := match o with Some n => Z.of_nat n | None => (-1)%Z end.
Definition addr_rel (tol : float) (os : list (@obj FNum)) (tags : list Z) (reqs : list (nat * Z)) : list Z :=
  let t := build tol os in map (fun r => zopt (resolve_rel t tags (fst r) (snd r))) reqs.
Definition addr_abs (tol : float) (os : list (@obj FNum)) (reqs : list nat) : list Z :=
  let t := build tol os in map (fun r => zopt (resolve_abs t r)) reqs.
Definition addr_allobj (tol : float) (os : list (@obj FNum)) (tags : list Z) (tg : Z) : list Z :=
  let t := build tol os in
  match all_of_object t tags tg with Some l => map Z.of_nat l | None => [(-1)%Z] end.
Definition addr_all (tol : float) (os : list (@obj FNum)) : list Z :=
  map Z.of_nat (all_pulses_idx (build tol os)).
Definition tags_case (tags : list (option Z)) : list Z := assign_tags tags.
