(* Executable entry point of correspondence stage `lin`. *)
From Coq Require Import ZArith List Bool PrimFloat.
From PM Require Import Base.Num Base.FNum Base.Cplx Gen.Extracted Model.Solve.
Import ListNotations.

Definition maxabs (l : list (@Cx FNum)) : float :=
  PrimFloat.sqrt (fold_left (fun a z => if PrimFloat.ltb a (cabs2 z) then cabs2 z else a) l 0%float).

Definition lin_metrics (m : float) (gnd : list bool) (hm : bool) (Z0 Z : @cmat FNum)
           (rhs cur : @cvec FNum) (srcs : list (@source FNum)) (loads : list (@loadatt FNum))
  : list float :=
  let n := length cur in
  let g := fun i => nth i gnd false in
  let rhsM := rhs_vec m g n srcs in
  let ZM := load_matrix m g hm Z0 loads in
  [ maxabs (vsub rhsM rhs); maxabs rhs;
    maxabs (concat (map (fun p => vsub (fst p) (snd p)) (combine ZM Z))); maxabs (concat Z);
    maxabs (vsub (mvmul Z cur) rhs);
    total_power cur srcs ]
  ++ flat_map (fun s => [cre (source_imp cur s); cim (source_imp cur s); source_pwr cur s]) srcs.
