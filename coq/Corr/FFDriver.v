(* Executable entry point of correspondence stage `ff`. *)
From Coq Require Import ZArith List Bool PrimFloat.
From PM Require Import Base.Num Base.FNum Base.Cplx Gen.Extracted Model.FarField.
Import ListNotations.

Definition deg2rad (d : float) : float := PrimFloat.mul (PrimFloat.div d 180) (@npi FNum).

(* a medium given by its constants; its impedance via the extracted formula *)
Definition mk_medium (f : float) (ideal : bool) (perm cond coord height : float) : @fmedium FNum :=
  mkFM coord height (medium_imp ideal f perm cond).

Definition ff_case (w : float) (env : @fenv FNum) (pulses : list (@fpulse FNum)) (cur : @cvec FNum)
           (power ff_power dist : float) (dirs : list (float * float)) : list float :=
  flat_map (fun d =>
    let th := deg2rad (fst d) in
    let ph := deg2rad (snd d) in
    let e := ff_fields w env pulses cur th ph in
    let g := ff_gain power e in
    let v := ff_vm power ff_power dist e in
    [fst (fst v); snd (fst v); fst (snd v); snd (snd v); fst (fst g); snd (fst g); snd g]) dirs.
