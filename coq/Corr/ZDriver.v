(* Executable entry point of correspondence stage `zmat`: objects -> topology
   -> pulse records -> impedance matrix. *)
From Coq Require Import ZArith List Bool PrimFloat.
From PM Require Import Base.Num Base.FNum Base.Cplx Gen.Extracted Model.Topology Model.Kernel Model.ZMatrix.
Import ListNotations.

(* radius and i6 of a segment's wire; Segment.i6 = (1 + ln(16 r / len)) / pi / r *)
Definition seg_i6 (r len : float) : float :=
  PrimFloat.div (PrimFloat.div (PrimFloat.add 1 (@nln FNum (PrimFloat.div (PrimFloat.mul 16 r) len))) (@npi FNum)) r.

Definition zpulse_of (os : list (@obj FNum)) (radii : list float) (p : @pulse FNum) : @zpulse FNum :=
  let s0 := fst (pu_segs p) in let s1 := snd (pu_segs p) in
  let sg (oi : nat * nat) := nth (snd oi) (ob_segs (nth (fst oi) os (mkObj [] v3zero v3zero (false, false)))) seg_default in
  let r0 := nth (fst s0) radii 1%float in let r1 := nth (fst s1) radii 1%float in
  mkZP (pu_point p) (pu_ends p)
       (sg_len (sg s0), sg_len (sg s1)) (sg_dir (sg s0), sg_dir (sg s1))
       (r0, r1) (seg_i6 r0 (sg_len (sg s0)), seg_i6 r1 (sg_len (sg s1)))
       (sgnT (fst (pu_dsgn p)), sgnT (snd (pu_dsgn p)))
       ((if fst (pu_gnd p) then (-1)%float else 1%float), (if snd (pu_gnd p) then (-1)%float else 1%float))
       (pu_gnd p) (pu_obj p) (fst s0, fst s1).

(* Geobj.is_connected on the statuses: same object, directly joined, or a common neighbour *)
Definition neighbours (sts : list (status * status)) (i : nat) : list nat :=
  let own := match nth i sts (Free, Free) with
             | (a, b) => (match a with Joined j _ _ => [j] | _ => [] end) ++ (match b with Joined j _ _ => [j] | _ => [] end)
             end in
  let others := flat_map (fun k => match nth k sts (Free, Free) with
                                   | (a, b) => (match a with Joined j _ _ => if Nat.eqb j i then [k] else [] | _ => [] end)
                                            ++ (match b with Joined j _ _ => if Nat.eqb j i then [k] else [] | _ => [] end)
                                   end) (seq 0 (length sts)) in
  own ++ others.
Definition connected (sts : list (status * status)) (i j : nat) : bool :=
  Nat.eqb i j || existsb (Nat.eqb j) (neighbours sts i)
  || existsb (fun a => existsb (Nat.eqb a) (neighbours sts j)) (neighbours sts i).

(* the hypothesis of the copy theorem (Proofs/ZCopyP.v: copy_sound_proof) measured on the copy groups of this case:
   largest deviation of any destination pair from being the source pair moved by one translation (positions, ends,
   half lengths, directions, radii, signs; a different object counts as infinite), and the number of copied pairs *)
Definition fmax (a b : float) : float := if PrimFloat.ltb a b then b else a.
Definition fabs (a : float) : float := PrimFloat.abs a.
Definition v3dev (a b : @V3 FNum) : float :=
  fmax (fabs (PrimFloat.sub (vx a) (vx b))) (fmax (fabs (PrimFloat.sub (vy a) (vy b))) (fabs (PrimFloat.sub (vz a) (vz b)))).
Definition pairdev (a b : float * float) : float := fmax (fabs (PrimFloat.sub (fst a) (fst b))) (fabs (PrimFloat.sub (snd a) (snd b))).
Definition shift_dev (obs : bool) (t : @V3 FNum) (p q : @zpulse FNum) : float :=
  let scale := fmax (fst (zp_len p)) (snd (zp_len p)) in
  let d := fmax (v3dev (zp_point q) (v3add (zp_point p) t))
          (fmax (v3dev (fst (zp_ends q)) (v3add (fst (zp_ends p)) t))
          (fmax (v3dev (snd (zp_ends q)) (v3add (snd (zp_ends p)) t))
          (fmax (pairdev (zp_len q) (zp_len p))
          (fmax (PrimFloat.mul scale (v3dev (fst (zp_dir q)) (fst (zp_dir p))))
          (fmax (PrimFloat.mul scale (v3dev (snd (zp_dir q)) (snd (zp_dir p))))
          (fmax (if obs then 0%float else pairdev (zp_r q) (zp_r p))
          (fmax (PrimFloat.mul scale (pairdev (zp_dsgn q) (zp_dsgn p)))
                (if obs then 0%float else PrimFloat.mul scale (pairdev (zp_gsgn q) (zp_gsgn p)))))))))) in
  if Nat.eqb (zp_obj p) (zp_obj q) then PrimFloat.div d scale else infinity.
Definition copy_dev (ps : list (@zpulse FNum)) : float * nat :=
  fold_left (fun acc gr =>
    let src := fst gr in
    fold_left (fun acc2 dst =>
      let t := v3sub (zp_point (P ps (fst dst))) (zp_point (P ps (fst src))) in
      let d := fmax (shift_dev true t (P ps (fst src)) (P ps (fst dst))) (shift_dev false t (P ps (snd src)) (P ps (snd dst))) in
      (fmax (fst acc2) d, S (snd acc2))) (snd gr) acc) (copy_groups ps) (0%float, O).

Definition z_case (f tol : float) (has_ground : bool) (os : list (@obj FNum)) (radii : list float) : list float :=
  let t := build tol os in
  let zps := map (zpulse_of os radii) (tp_pulses t) in
  let Z := zmatrix_code (f_w f) (f_srm f) (f_w2 f) (connected (tp_status t)) zps has_ground in
  flat_map (fun row => flat_map (fun z => [fst z; snd z]) row) Z
  ++ (let cd := copy_dev zps in [fst cd; @of_Z FNum (Z.of_nat (snd cd))]).

From PM Require Import Model.NearField.
(* stage `nf`: near field at the given points *)
Definition nf_case (f tol : float) (has_ground : bool) (os : list (@obj FNum)) (radii : list float)
           (cur : @cvec FNum) (power pwr : float) (pts : list (@V3 FNum)) : list float :=
  let t := build tol os in
  let zps := map (zpulse_of os radii) (tp_pulses t) in
  let s0 := PrimFloat.mul 0.001 (f_wavelen f) in
  flat_map (fun obs =>
    let r := near_field (f_w2 f) (psi (f_w f) (f_srm f)) (f_m f) s0 power pwr has_ground zps cur obs in
    let e := fst r in let h := snd r in
    [fst (fst (fst e)); snd (fst (fst e)); fst (snd (fst e)); snd (snd (fst e)); fst (snd e); snd (snd e);
     fst (fst (fst h)); snd (fst (fst h)); fst (snd (fst h)); snd (snd (fst h)); fst (snd h); snd (snd h)]) pts.
