(* Executable entry point of correspondence stage `geom`. *)
From Coq Require Import ZArith List Bool PrimFloat.
From PM Require Import Base.Num Base.FNum Base.Cplx Model.Taper Model.Topology Model.Geometry.
Import ListNotations.

Definition v3f (v : @V3 FNum) : list float := [fst (fst v); snd (fst v); snd v].
Definition seg_floats (s : @seg FNum) : list float := v3f (sg_p1 s) ++ v3f (sg_p2 s) ++ [sg_len s] ++ v3f (sg_dir s).

(* per object: a list starting with a code: 0 = ok (then 10 floats per segment),
   -1 = assertion k failed (then k) *)
Definition geom_obj (g : @gobj FNum) : list float :=
  match segments_of g with
  | TOk sg => 0%float :: g_r g :: flat_map seg_floats sg
  | TaperError => [(-2)%float]
  | AssertFail k => [(-1)%float; PrimFloat.of_uint63 (Uint63.of_Z (Z.of_nat k))]
  end.

Definition wire_obj (n : nat) (p1 p2 : @V3 FNum) (r : float) (tp : nat) (tmin tmax : option float) (tag : Z) : @gobj FNum :=
  mkG (SWire n p1 p2 tp tmin tmax) r tag.
Definition arc_obj (n : nat) (radius a1 a2 r : float) (tag : Z) : @gobj FNum :=
  mkG (SCurve (arc_points n radius a1 a2)) r tag.
Definition helix_obj (n : nat) (len tl r rx1 ry1 rx2 ry2 : float) (tag : Z) : @gobj FNum :=
  mkG (SCurve (helix_points n len tl rx1 ry1 rx2 ry2)) r tag.

Definition geom_case (gs : list (@gobj FNum)) (ts : list (@transform FNum)) (scs : list (float * option Z)) : list (list float) :=
  map geom_obj (transform_all ts scs gs).
