(* Executable entry point of correspondence stage `cmd` (C15). *)
From Coq Require Import ZArith List Bool Arith.
From PM Require Import Model.Options Model.Objects Model.LoadOrder Model.SourceOpts.
Import ListNotations.

Definition enc_att (a : att) : list Z :=
  match a with
  | AAbs p => [0; Z.of_nat p]
  | ARel k t => [1; Z.of_nat k; t]
  | AAll => [2]
  | AAllTag t => [3; t]
  end%Z.

(* written attachments of one load, and the pulses the reader gets from them (-1: rejected) *)
Definition attach_case (tags : list Z) (counts : list nat) (by_geo : bool) (ps : list nat) : list (list Z) :=
  let w := write_attach tags counts by_geo ps in
  map enc_att w ++ [match resolve_all tags counts w with Some l => map Z.of_nat l | None => [(-1)%Z] end].

(* objects: the reader's result for the given object options and what the writer makes of it, as rows
   [kind; tag; had; body] / [kind; tag or -1; body]; a rejected option list gives [[-1]] *)
Definition kcode (k : okind) : Z := match k with KArc => 0 | KHelix => 1 | KWire => 2 end%Z.
Definition obj_case (ls : list oline) : list (list Z) :=
  match read_objs ls with
  | None => [[(-1)%Z]]
  | Some gs =>
      map (fun g => [kcode (g_kind g); g_tag g; if g_had g then 1 else 0; Z.of_nat (g_body g)]%Z) gs
      ++ [[(-2)%Z]]
      ++ map (fun l => [kcode (ol_kind l); match ol_tag l with Some t => t | None => (-1)%Z end; Z.of_nat (ol_body l)]%Z) (write_objs gs)
  end.

(* lumped loads: the model's loads in registration order as (kind code, attachment ids); parameters are identified
   by the position in that list.  Rows: written options [0; kind; par] / [1; number; attachment], then [-2], then
   the re-read loads [par; attachments ...] (or [-1] when the reader rejects) *)
Definition kind_of (z : Z) : lkind := match z with 0 => LImp | 1 => LRlc | 2 => LTrap | _ => LLap end%Z.
Definition kind_code (k : lkind) : Z := match k with LImp => 0 | LRlc => 1 | LTrap => 2 | LLap => 3 end%Z.
Fixpoint number_from (n : nat) (l : list (Z * list Z)) : list (lumped nat Z) :=
  match l with [] => [] | (k, a) :: r => mkL (kind_of k) n a :: number_from (S n) r end.
Definition loads_case (l : list (Z * list Z)) : list (list Z) :=
  let M := number_from 0 l in
  let w := write_loads nat Z M in
  map (fun o => match o with ODef k p => [0; kind_code k; Z.of_nat p] | OAtt n a => [1; Z.of_nat n; a] end)%Z w
  ++ [[(-2)%Z]]
  ++ match read_loads nat Z w with
     | Some M' => map (fun x => Z.of_nat (l_par x) :: l_att x) M'
     | None => [[(-1)%Z]]
     end.

(* sources: (voltage id with 1 = exactly 1 V, address, default flag); address [p] absolute or [k; tag].
   Rows: written options [0; v] / [1; p] / [1; k; tag], then [-2], then the re-read sources [v; default; address ...] *)
Definition addr_of (l : list Z) : saddr := match l with [k; t] => SRel (Z.to_nat k) t | [p] => SAbs (Z.to_nat p) | _ => SAbs 0 end.
Definition addr_code (a : saddr) : list Z := match a with SAbs p => [Z.of_nat p] | SRel k t => [Z.of_nat k; t] end.
Definition srcs_case (l : list (Z * list Z * bool)) : list (list Z) :=
  let S := map (fun x => mkSrc (fst (fst x)) (addr_of (snd (fst x))) (snd x)) l in
  let w := write_srcs Z (Z.eqb 1) S in
  map (fun o => match o with OVolt v => [0; v] | OPulse a => 1 :: addr_code a end)%Z w
  ++ [[(-2)%Z]]
  ++ match read_srcs Z 1%Z w with
     | Some S' => map (fun s => s_volt s :: (if s_default s then 1 else 0) :: addr_code (s_addr s))%Z S'
     | None => [[(-1)%Z]]
     end.
