(* Executable entry point of correspondence stage `cmd` (C15). *)
From Coq Require Import ZArith List Bool Arith.
From PM Require Import Model.Options.
Import ListNotations.

Definition enc_att (a : att) : list Z :=
  match a with
  | AAbs p => [0; Z.of_nat p]
  | ARel k t => [1; Z.of_nat k; t]
  | AAll => [2]
  | AAllTag t => [3; t]
  end%Z.

(* written attachments of one load, and the pulses the reader gets from them (-1: rejected) *)
Definition attach_case (tags : list Z) (counts : list nat) (by_geo : bool) (ps : list nat) : list (list Z) :=
  let w := write_attach tags counts by_geo ps in
  map enc_att w ++ [match resolve_all tags counts w with Some l => map Z.of_nat l | None => [(-1)%Z] end].
