(* Executable entry point of correspondence stage `cmd` (C15). *)
From Coq Require Import ZArith List Bool Arith.
From PM Require Import Model.Options Model.Objects.
Import ListNotations.

Definition enc_att (a : att) : list Z :=
  match a with
  | AAbs p => [0; Z.of_nat p]
  | ARel k t => [1; Z.of_nat k; t]
  | AAll => [2]
  | AAllTag t => [3; t]
  end%Z.

(* written attachments of one load, and the pulses the reader gets from them (-1: rejected) *)
Definition attach_case (tags : list Z) (counts : list nat) (by_geo : bool) (ps : list nat) : list (list Z) :=
  let w := write_attach tags counts by_geo ps in
  map enc_att w ++ [match resolve_all tags counts w with Some l => map Z.of_nat l | None => [(-1)%Z] end].

(* objects: the reader's result for the given object options and what the writer makes of it, as rows
   [kind; tag; had; body] / [kind; tag or -1; body]; a rejected option list gives [[-1]] *)
Definition kcode (k : okind) : Z := match k with KArc => 0 | KHelix => 1 | KWire => 2 end%Z.
Definition obj_case (ls : list oline) : list (list Z) :=
  match read_objs ls with
  | None => [[(-1)%Z]]
  | Some gs =>
      map (fun g => [kcode (g_kind g); g_tag g; if g_had g then 1 else 0; Z.of_nat (g_body g)]%Z) gs
      ++ [[(-2)%Z]]
      ++ map (fun l => [kcode (ol_kind l); match ol_tag l with Some t => t | None => (-1)%Z end; Z.of_nat (ol_body l)]%Z) (write_objs gs)
  end.
