(* Executable entry points of correspondence stage `dload`. *)
From Coq Require Import ZArith List Bool PrimFloat.
From PM Require Import Base.Num Base.FNum Base.Cplx Gen.Extracted Model.Loads.
Import ListNotations.

Definition cxl (z : @Cx FNum) : list float := [fst z; snd z].
Definition laplace_case (f : float) (a b : list float) : list float := cxl (laplace_load_imp f a b).
Definition rlc_case (f r l c : float) : list float := cxl (rlc_load_imp f r l c).
Definition trap_case (f r l c : float) : list float := cxl (trap_load_imp f r l c).
(* one half: length, image?, has skin load?, conductivity, wire radius, Bessel ratio *)
Definition skin_h (omg len : float) (img has : bool) (cond r bre bim : float) : @half FNum :=
  mkHalf len img (if has then Some (skin_zint omg cond r (bre, bim)) else None) None.
Definition skin_case (omg : float) (h0 h1 : @half FNum) : list float := cxl (skin_pulse h0 h1).
Definition ins_h (len : float) (img has : bool) (radius eps r : float) : @half FNum :=
  mkHalf len img None (if has then Some (ins_zins eps radius r) else None).
Definition ins_case (omg : float) (h0 h1 : @half FNum) : list float := cxl (ins_pulse omg h0 h1).
Definition requiv_case (r radius eps : float) : list float := [r_equiv r radius eps].
Definition medium_case (ideal : bool) (f perm cond : float) : list float := cxl (medium_imp ideal f perm cond).
