(* Executable entry point of correspondence stage `fmt`: format_float on a
   binary64 value; the rational |f| and t = int (np.log (abs f) / np.log (10))
   are computed here from the float itself. *)
From Coq Require Import ZArith NArith List Bool PrimFloat.
From PM Require Import Base.FloatLib Model.Format Proofs.FormatT.
Import ListNotations.

Definition float_ratio (f : float) : N * N :=
  if PrimFloat.eqb f 0 then (0%N, 1%N)
  else let (M, s) := fl_decomp f in
       if (0 <=? s)%Z then (Z.to_N (Z.shiftl M s), 1%N) else (Z.to_N M, Z.to_N (Z.shiftl 1 (- s))).

Definition float_t (f : float) : Z :=
  if PrimFloat.eqb f 0 then 0%Z
  else fl_trunc (PrimFloat.div (fl_ln (PrimFloat.abs f)) (fl_ln 10)).

Definition fmt_case (f : float) (use_e : bool) : list N :=
  let (a, den) := float_ratio f in
  render (format_float (fl_signbit f) a den (float_t f) use_e).

Definition fmt_cases (l : list (float * bool)) : list (list N) := map (fun p => fmt_case (fst p) (snd p)) l.

(* the character-level reader of Proofs/FormatT.v on a text: [neg; mantissa; scale] or [-1] *)
Definition parse_case (s : list N) : list Z :=
  match parse s with
  | Some d => [if d_neg d then 1 else 0; Z.of_N (d_mant d); d_scale d]%Z
  | None => [(-1)%Z]
  end.
Definition parse_cases (l : list (list N)) : list (list Z) := map parse_case l.
