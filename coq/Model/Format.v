(* util.format_float on exact inputs (DESIGN.md §6 C19): CPython's '% .Nf' and
   '% e' are correctly rounded (round-half-even on the exact binary value), so
   the model works on the rational |f| = a/den, the sign, and the integer
   t = int (np.log (abs f) / np.log (10)) which the code computes in floating
   point (supplied by the caller: Base/FloatLib.v in the correspondence, any
   admissible integer in the theorems). *)
From Coq Require Import ZArith NArith List Bool Arith.
Import ListNotations.
Local Open Scope N_scope.

(* ---- rounding and digits ---- *)
(* round-half-even of a/d, d > 0 *)
Definition rhe (a d : N) : N :=
  let q := a / d in let r := a mod d in
  match N.compare (2 * r) d with
  | Lt => q
  | Gt => q + 1
  | Eq => if N.even q then q else q + 1
  end.

Definition p10 (k : nat) : N := 10 ^ N.of_nat k.

(* k digits of n mod 10^k, most significant first *)
Fixpoint fdigits (k : nat) (n : N) : list N :=
  match k with O => [] | S k' => fdigits k' (n / 10) ++ [n mod 10] end.

(* number of decimal digits of n, at least one (fuel = binary size) *)
Fixpoint ndig_aux (fuel : nat) (n : N) : nat :=
  match fuel with
  | O => 1%nat
  | S f => if n <? 10 then 1%nat else S (ndig_aux f (n / 10))
  end.
Definition ndig (n : N) : nat := ndig_aux (N.to_nat (N.size n)) n.
Definition idigits (n : N) : list N := fdigits (ndig n) n.

Fixpoint dval_aux (acc : N) (l : list N) : N :=
  match l with [] => acc | d :: l' => dval_aux (10 * acc + d) l' end.
Definition dval (l : list N) : N := dval_aux 0 l.

(* str.rstrip ('0') on a digit list *)
Fixpoint rstrip0 (l : list N) : list N :=
  match l with
  | [] => []
  | d :: l' => match rstrip0 l' with
               | [] => if d =? 0 then [] else [d]
               | r => d :: r
               end
  end.

(* ---- the printed text, structured ---- *)
Inductive rep :=
| Fixed (neg : bool) (int : list N) (frac : option (list N)) (pad : bool)   (* frac = Some l: '.' followed by l *)
| Expo (neg : bool) (d0 : N) (frac : list N) (eneg : bool) (edigits : list N).

(* s [:9] of sign ++ int ++ '.' ++ frac *)
Definition take9 (int frac : list N) : list N * option (list N) :=
  if (8 <=? length int)%nat then (firstn 8 int, None)
  else (int, Some (firstn (7 - length int) frac)).

(* ' 0.' / '-0.' lose the zero *)
Definition drop_lead0 (i : list N) (f : option (list N)) : list N :=
  match i, f with [0], Some _ => [] | _, _ => i end.
(* '-0' becomes ' 0' *)
Definition fix_sign (neg : bool) (i : list N) (f : option (list N)) : bool :=
  match i, f with [0], None => false | _, _ => neg end.
(* rstrip ('0'), rstrip ('.') *)
Definition strip_frac (i : list N) (f : option (list N)) : list N * option (list N) :=
  match f with
  | None => (rstrip0 i, None)
  | Some l => match rstrip0 l with [] => (i, None) | l' => (i, Some l') end
  end.

Definition fixed_rep (neg : bool) (n : N) (prec : nat) : rep :=
  let ip := idigits (n / p10 prec) in
  match prec with
  | O => (* no '.' in s: nothing is cut, stripped or padded *)
    if neg && (n =? 0) then Fixed false ip None false else Fixed neg ip None false
  | _ =>
    let fp := fdigits prec (n mod p10 prec) in
    let '(i1, f1) := take9 ip fp in
    let '(i2, f2) := strip_frac i1 f1 in
    let i3 := drop_lead0 i2 f2 in
    let neg' := fix_sign neg i3 f2 in
    Fixed neg' i3 f2 true
  end.

(* decimal exponent d <= 0 with 10^-(k) <= a/den: smallest k >= 0 with a * 10^k >= den *)
Fixpoint find_k (fuel : nat) (k : nat) (a den : N) : nat :=
  match fuel with
  | O => k
  | S f => if den <=? a * p10 k then k else find_k f (S k) a den
  end.

Definition expo_rep (neg : bool) (a den : N) : rep :=
  let k := find_k 400 0 a den in            (* |f| in [10^-k, 10^(1-k)) *)
  let m := rhe (a * p10 (6 + k)) den in      (* seven digits *)
  let '(m', k') := if p10 7 <=? m then (p10 6, (k - 1)%nat) else (m, k) in
  Expo neg (m' / p10 6) (fdigits 6 (m' mod p10 6)) (negb (k' =? 0)%nat)
       (if (k' <? 100)%nat then fdigits 2 (N.of_nat k') else fdigits 3 (N.of_nat k')).

(* format_float for one number: sign, |f| = a/den, t as computed by the code *)
Definition format_float (neg : bool) (a den : N) (t : Z) (use_e : bool) : rep :=
  if a =? 0 then
    if use_e then fixed_rep neg 0 0 else fixed_rep neg 0 1
  else if use_e && (10 * a <? den) then expo_rep neg a den
  else
    let prec := Z.to_nat (Z.max 0 (6 - t)) in
    fixed_rep neg (rhe (a * p10 prec) den) prec.

(* ---- rendering (character codes) ---- *)
Definition dch (d : N) : N := 48 + d.
Definition render (r : rep) : list N :=
  match r with
  | Fixed neg i f pad =>
    let s := (if neg then 45 else 32) :: map dch i ++ match f with None => [] | Some l => 46 :: map dch l end in
    if pad then s ++ repeat 32 (9 - length s) else s
  | Expo neg d0 f eneg ed =>
    (if neg then 45 else 32) :: dch d0 :: 46 :: map dch f ++ 69 :: (if eneg then 45 else 43) :: map dch ed
  end.
