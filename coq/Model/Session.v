(* C14: what compute () leaves behind on a Mininec object, as a state machine over the operations a session can
   perform on ONE object.  The matrix is filled anew by every compute () (and dropped by the frequency setter), the
   loads are added once onto the freshly filled matrix, the right-hand side is built from zeros from the sources
   registered at that moment.  `lazy` is the variant in which compute () keeps a matrix it finds (loads are then
   added again), `stale` the one in which the right-hand side is only overwritten at the current sources: both are
   refuted against the history-freedom statement (Proofs/SessionP.v) and both are caught on the real code by stage
   `hist` (operation sequences on one real object against a fresh object). *)
From Coq Require Import List Bool Arith.
Import ListNotations.

Section Session.
Variable F : Type.            (* frequencies *)
Variable V : Type.            (* voltages *)

Record sstate := mkS {
  s_f : F;
  s_srcs : list (nat * V);            (* registered sources: pulse, voltage *)
  s_filled : option F;                (* frequency the matrix in memory was filled at *)
  s_loads : nat;                      (* how many times the loads have been added onto that matrix *)
  s_rhs : list (nat * V);             (* non-zero entries of the right-hand side in memory *)
}.
Inductive sop := SSetF (f : F) | SCompute | SSources (l : list (nat * V)) | SField.

Definition fresh_session (f : F) (l : list (nat * V)) : sstate := mkS f l None 0 [].

Inductive variant := Faithful | LazyMatrix | StaleRhs.

Definition sstep (v : variant) (s : sstate) (o : sop) : sstate :=
  match o with
  | SSetF f => mkS f (s_srcs s) None 0 []
  | SSources l => mkS (s_f s) l (s_filled s) (s_loads s) (s_rhs s)
  | SField => s
  | SCompute =>
      match v with
      | Faithful => mkS (s_f s) (s_srcs s) (Some (s_f s)) 1 (s_srcs s)
      | LazyMatrix =>
          match s_filled s with
          | Some f => mkS (s_f s) (s_srcs s) (Some f) (S (s_loads s)) (s_srcs s)
          | None => mkS (s_f s) (s_srcs s) (Some (s_f s)) 1 (s_srcs s)
          end
      | StaleRhs => mkS (s_f s) (s_srcs s) (Some (s_f s)) 1 (s_srcs s ++ s_rhs s)
      end
  end.
Definition srun (v : variant) (s : sstate) (ops : list sop) : sstate := fold_left (sstep v) ops s.
End Session.
Arguments mkS {F V}. Arguments SSetF {F V}. Arguments SCompute {F V}. Arguments SSources {F V}. Arguments SField {F V}.
Arguments s_f {F V}. Arguments s_srcs {F V}. Arguments s_filled {F V}. Arguments s_loads {F V}. Arguments s_rhs {F V}.
