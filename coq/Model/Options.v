(* The option list written for a model and read back (C15), structural part:
   how load attachments are written (_Load.as_cmdline_load_attach) and read
   (main / Mininec.register_load), over the pulse layout of the objects
   (tags and pulse counts in object order; absolute pulse numbers run through
   the objects in order, see C17). Numbers are 0-based as in the code. *)
From Coq Require Import ZArith List Bool Arith.
Import ListNotations.

Inductive att :=
| AAbs (p : nat)                (* --attach-load=n,p+1 *)
| ARel (k : nat) (tag : Z)      (* --attach-load=n,k+1,tag *)
| AAll                          (* --attach-load=n,all *)
| AAllTag (tag : Z).            (* --attach-load=n,all,tag *)

Section Attach.
Variable tags : list Z.         (* tag of every object, in object order *)
Variable counts : list nat.     (* number of pulses of every object *)

Definition nobj : nat := length counts.
Definition cnt (i : nat) : nat := nth i counts 0.
Fixpoint sum_first (i : nat) (cs : list nat) : nat :=
  match i, cs with S i', c :: r => c + sum_first i' r | _, _ => 0 end.
Definition start (i : nat) : nat := sum_first i counts.
Definition total : nat := start nobj.
Definition in_obj (i p : nat) : bool := (start i <=? p) && (p <? start i + cnt i).

Fixpoint index_of (t : Z) (l : list Z) (i : nat) : option nat :=
  match l with [] => None | x :: r => if Z.eqb x t then Some i else index_of t r (S i) end.

(* reader: the pulses one --attach-load option adds to the load *)
Definition resolve (a : att) : option (list nat) :=
  match a with
  | AAbs p => if p <? total then Some [p] else None
  | ARel k t => match index_of t tags 0 with
                | Some i => if k <? cnt i then Some [start i + k] else None
                | None => None
                end
  | AAll => Some (flat_map (fun i => seq (start i) (cnt i)) (seq 0 nobj))
  | AAllTag t => match index_of t tags 0 with
                 | Some i => Some (seq (start i) (cnt i))
                 | None => None
                 end
  end.

Fixpoint resolve_all (l : list att) : option (list nat) :=
  match l with
  | [] => Some []
  | a :: r => match resolve a, resolve_all r with
              | Some x, Some y => Some (x ++ y)
              | _, _ => None
              end
  end.

(* writer *)
Fixpoint nodupb (l : list nat) : bool :=
  match l with [] => true | x :: r => negb (existsb (Nat.eqb x) r) && nodupb r end.
Definition of_obj (i : nat) (ps : list nat) : list nat := filter (in_obj i) ps.
(* the load sits on every pulse of object i exactly once (objects without attached pulse do not count) *)
Definition full (ps : list nat) (i : nat) : bool :=
  (0 <? length (of_obj i ps)) && (length (of_obj i ps) =? cnt i) && nodupb (of_obj i ps).
Definition geo_all (ps : list nat) : list nat := filter (full ps) (seq 0 nobj).
Definition in_full (ps : list nat) (p : nat) : bool := existsb (fun i => in_obj i p) (geo_all ps).
Definition obj_of (p : nat) : nat := hd 0 (filter (fun i => in_obj i p) (seq 0 nobj)).
Definition enc (by_geo : bool) (p : nat) : att :=
  if by_geo then ARel (p - start (obj_of p)) (nth (obj_of p) tags 0%Z) else AAbs p.

Definition write_attach (by_geo : bool) (ps : list nat) : list att :=
  if length (geo_all ps) =? nobj then [AAll]
  else map (fun i => AAllTag (nth i tags 0%Z)) (geo_all ps)
       ++ map (enc by_geo) (filter (fun p => negb (in_full ps p)) ps).

(* the writer before the repair: attachments were counted, not required to be distinct *)
Definition full_counted (ps : list nat) (i : nat) : bool :=
  (0 <? length (of_obj i ps)) && (length (of_obj i ps) =? cnt i).
End Attach.
