(* Load classes: coefficient lists, padding, circuit algebra, distributed
   loads per pulse.  Leaf formulas come from Gen/Extracted.v. *)
From Coq Require Import ZArith List Bool.
From PM Require Import Base.Num Base.Cplx Gen.Extracted.
Import ListNotations.

Section Loads.
Context {N : Num}.

(* Laplace_Load.__init__: both coefficient lists are padded with zeros to the
   longer length *)
Definition pad (l : list T) (m : nat) : list T := l ++ repeat zero (m - length l).
Definition laplace_lists (a b : list T) : list T * list T :=
  let m := Nat.max (length a) (length b) in (pad a m, pad b m).
Definition laplace_load_imp (f : T) (a b : list T) : Cx :=
  let '(a', b') := laplace_lists a b in laplace_imp f a' b'.
Definition rlc_load_imp (f r l c : T) : Cx :=
  let '(a, b) := rlc_coeffs r l c in laplace_load_imp f a b.
Definition trap_load_imp (f r l c : T) : Cx :=
  let '(a, b) := trap_coeffs r l c in laplace_load_imp f a b.

(* polynomial in s with real coefficients, lowest order first *)
Fixpoint cpoly (l : list T) (s : Cx) : Cx :=
  match l with
  | [] => c0
  | c :: r => cadd (cofR c) (cmul s (cpoly r s))
  end.

(* s = j * 2 pi f * 1e6 (f in MHz) *)
Definition laplace_s (f : T) : Cx := (zero, mul (mul (mul (of_Z 2) npi) f) (of_dec 1 6)).

(* circuit elements *)
Definition z_R (r : T) : Cx := cofR r.
Definition z_L (l : T) (s : Cx) : Cx := cscale l s.
Definition z_C (c : T) (s : Cx) : Cx := cinv (cscale c s).
Definition series (z1 z2 : Cx) : Cx := cadd z1 z2.
Definition parallel (z1 z2 : Cx) : Cx := cdiv (cmul z1 z2) (cadd z1 z2).

(* distributed loads: one half-segment of a pulse *)
Record half := mkHalf {
  h_len : T;            (* seg_len of the segment this half lies on *)
  h_image : bool;       (* image half of a grounded pulse: no real conductor *)
  h_skin : option Cx;   (* zint (per length) of the wire, if it has a skin load *)
  h_zins : option T;    (* zins of the wire, if it has an insulation load *)
}.
Definition skin_half (h : half) : Cx :=
  match h_skin h with
  | Some zint => if h_image h then c0 else cscale (div (h_len h) (of_Z 2)) zint
  | None => c0
  end.
Definition skin_pulse (h0 h1 : half) : Cx := cadd (cadd c0 (skin_half h0)) (skin_half h1).
Definition ins_half_of (omg : T) (h : half) : Cx :=
  match h_zins h with
  | Some zins => if h_image h then c0 else ins_half zins omg (h_len h)
  | None => c0
  end.
Definition ins_pulse (omg : T) (h0 h1 : half) : Cx :=
  cadd (cadd c0 (ins_half_of omg h0)) (ins_half_of omg h1).

End Loads.
