(** The media options: Medium.as_cmdline (writer) and the part of main that builds the media from --medium, --boundary,
    --radial-count, --radial-radius (reader).  Numeric values are abstract (Z stands for the printed number; the
    text <-> float conversion is the business of the C15 oracle).  Hand-written; tied to the code by the correspondence
    stage `media` (py/stage_cmd.py). *)
From Coq Require Import List Bool Arith ZArith.
Import ListNotations.

Definition V := Z.
Definition dflt : V := 1000000%Z.       (* Medium (coord = 1e6): "infinity" *)

Record medium := mkM { mp : V; mc : V; mh : V; mcoord : V }.
(* circ: circular boundary; rad: radial screen of the first medium (count, wire radius) *)
Record env := mkE { e_media : list medium; e_circ : bool; e_rad : option (nat * V) }.

Inductive opt := OMedium (vals : list V) | OBoundary (circ : bool) | ORadCount (n : nat) | ORadRadius (r : V).

Definition has_next {A} (tl : list A) : bool := match tl with [] => false | _ => true end.

(* Medium.as_cmdline: the interface coordinate is written when a medium follows or when it is not the default *)
Definition vals_of (keep_last : bool) (m : medium) (tl : list medium) : list V :=
  [mp m; mc m; mh m] ++ (if has_next tl || (keep_last && negb (Z.eqb (mcoord m) dflt)) then [mcoord m] else []).

Definition first_opts (circ : bool) (rad : option (nat * V)) (tl : list medium) : list opt :=
  (if has_next tl then [OBoundary circ] else [])
  ++ match rad with Some (n, r) => if 0 <? n then [ORadCount n; ORadRadius r] else [] | None => [] end.

Fixpoint write_from (keep_last first : bool) (circ : bool) (rad : option (nat * V)) (l : list medium) : list opt :=
  match l with
  | [] => []
  | m :: tl => OMedium (vals_of keep_last m tl) :: (if first then first_opts circ rad tl else [])
               ++ write_from keep_last false circ rad tl
  end.

Definition write (e : env) : list opt := write_from true true (e_circ e) (e_rad e) (e_media e).
(* the writer before the repair: the coordinate of the outermost medium is never written *)
Definition write_old (e : env) : list opt := write_from false true (e_circ e) (e_rad e) (e_media e).

(* argparse: --medium appends; of the other three the last occurrence counts *)
Fixpoint meds_of (os : list opt) : list (list V) :=
  match os with [] => [] | OMedium v :: tl => v :: meds_of tl | _ :: tl => meds_of tl end.
Fixpoint last_sel {A} (f : opt -> option A) (os : list opt) : option A :=
  match os with [] => None | o :: tl => match last_sel f tl with Some a => Some a | None => f o end end.
Definition sel_b (o : opt) := match o with OBoundary c => Some c | _ => None end.
Definition sel_n (o : opt) := match o with ORadCount n => Some n | _ => None end.
Definition sel_r (o : opt) := match o with ORadRadius r => Some r | _ => None end.

Definition parse_med (v : list V) : option medium :=
  match v with
  | [p; c; h] => Some (mkM p c h dflt)
  | [p; c; h; u] => Some (mkM p c h u)
  | _ => None                                  (* "Medium needs 3-4 parameters" *)
  end.
Fixpoint parse_all (vs : list (list V)) : option (list medium) :=
  match vs with
  | [] => Some []
  | v :: tl => match parse_med v, parse_all tl with Some m, Some ms => Some (m :: ms) | _, _ => None end
  end.

(* main + Medium.__init__ + Mininec.check_ground: radials need a radius and a second medium; radials force the circular
   boundary; a single medium gets the default coordinate (set_next (None)); the boundary is a property of two or more media *)
Definition read (os : list opt) : option env :=
  let cnt := match last_sel sel_n os with Some n => n | None => 0 end in
  let rr := last_sel sel_r os in
  let circ := match last_sel sel_b os with Some c => c | None => false end in
  match parse_all (meds_of os) with
  | None => None
  | Some ms =>
    match ms with
    | [] => Some (mkE [] false None)
    | [m] => if 0 <? cnt then None else Some (mkE [mkM (mp m) (mc m) (mh m) dflt] false None)
    | _ => if 0 <? cnt then match rr with None => None | Some r => Some (mkE ms true (Some (cnt, r))) end
           else Some (mkE ms circ None)
    end
  end.

(* the objects the program can hold *)
Definition wf (e : env) : Prop :=
  (match e_media e with [m] => mcoord m = dflt | _ => True end)
  /\ (match e_rad e with Some (n, _) => 0 < n /\ 2 <= length (e_media e) /\ e_circ e = true | None => True end)
  /\ (length (e_media e) < 2 -> e_circ e = false).
