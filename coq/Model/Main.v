(* Exception flow of mininec.main (C20): for every stage of the option
   processing and of the computation, which kinds of exception the operations
   of that stage can raise on syntactically well-formed but arbitrary values,
   and which kinds the handler around that stage turns into the one-line
   diagnostic with return value 23.  Transcribed from main (DESIGN.md App. C);
   tie: correspondence stage `main` runs, for every (stage, kind) of the table,
   a command line that provokes that kind in that stage through the real main. *)
From Coq Require Import List Bool Arith.
Import ListNotations.

Inductive exn :=
| EValue | EKey | EType | EZeroDiv | EOverflow | EFloat | EAssert | EIndex | ELinAlg | EMemory | EUnbound | EOs | ENotImpl | EOther.

Definition exn_eqb (a b : exn) : bool :=
  match a, b with
  | EValue, EValue | EKey, EKey | EType, EType | EZeroDiv, EZeroDiv | EOverflow, EOverflow | EFloat, EFloat
  | EAssert, EAssert | EIndex, EIndex | ELinAlg, ELinAlg | EMemory, EMemory | EUnbound, EUnbound | EOs, EOs | ENotImpl, ENotImpl
  | EOther, EOther => true
  | _, _ => false
  end.

Inductive outcome := Report | Diag (stage : nat) | Uncaught (stage : nat) (e : exn).

Record stage := mkStage {
  st_raises : list exn;
  st_catches : list exn;
  st_catch_all : bool;          (* except Exception *)
}.

Definition arith := [EZeroDiv; EOverflow; EFloat].     (* ArithmeticError *)

(* the stages of main in program order *)
Definition stages : list stage := [
  (*  0 frequency, sweep, power levels: explicit range checks     *) mkStage [] [] false;
  (*  1 --arc: int / float / finiteness / Arc ()                  *) mkStage [EValue] [EValue] false;
  (*  2 --helix                                                   *) mkStage [EValue] [EValue] false;
  (*  3 --wire                                                    *) mkStage [EValue] [EValue] false;
  (*  4 compute_tags                                              *) mkStage [EValue] [EValue] false;
  (*  5 --geo-rotate / --geo-translate: parse                     *) mkStage [EValue] [EValue] false;
  (*  6 transformations applied (unknown tag)                     *) mkStage [EValue; EKey] [EValue; EKey] false;
  (*  7 --geo-scale                                               *) mkStage [EValue; EKey] [EValue; EKey] false;
  (*  8 --taper-wire: parse, tag lookup                           *) mkStage [EValue; EKey] [EValue; EKey] false;
  (*  9 --medium: parse, Medium ()                                *) mkStage [EValue] [EValue] false;
  (* 10 Mininec (): segmentation, ground, connections             *) mkStage [EValue; EAssert] [EValue; EAssert] false;
  (* 11 sources                                                   *) mkStage [EValue] [EValue] false;
  (* 12 --load / --rlc-load / --trap-load / --laplace-load-*      *) mkStage [EValue] [EValue] false;
  (* 13 --attach-load                                             *) mkStage [EValue; EKey] [EValue; EKey] false;
  (* 14 --skin-effect-conductivity / -resistivity                 *) mkStage [EValue; EKey] [EValue; EKey] false;
  (* 15 --insulation-load                                         *) mkStage [EValue; EKey] [EValue; EKey] false;
  (* 16 --phi / --theta                                           *) mkStage [EValue; EType; EOther] [] true;
  (* 17 --near-field                                              *) mkStage [EValue] [EValue] false;
  (* 18 --output-basic-input / --output-cmdline                   *) mkStage [EOs; ENotImpl] [EOs; ENotImpl] false;
  (* 19 compute (): matrix, solve, finiteness, positive power     *) mkStage (ELinAlg :: EMemory :: arith) (ELinAlg :: EMemory :: arith) false;
  (* 20 near and far fields, finiteness                           *) mkStage (EValue :: EMemory :: arith) (EValue :: EMemory :: arith) false;
  (* 21 report: format_float is total on finite values (C19)      *) mkStage [] [] false
].

(* the same table before the repairs (DESIGN.md App. C, bold rows) *)
Definition stages_before : list stage := [
  mkStage [EZeroDiv; EOverflow] [] false;
  mkStage [EValue] [EValue] false; mkStage [EValue] [EValue] false; mkStage [EValue] [EValue] false; mkStage [EValue] [EValue] false;
  mkStage [EValue] [EValue] false; mkStage [EValue; EKey] [EValue; EKey] false; mkStage [EValue; EKey] [EValue; EKey] false;
  mkStage [EValue; EKey] [EValue; EKey] false;
  mkStage [EValue; EType] [] false;
  mkStage [EValue; EAssert; EIndex] [EValue] false;
  mkStage [EValue] [EValue] false;
  mkStage [EValue; EType] [EValue] false;
  mkStage [EValue; EKey] [EValue] false;
  mkStage [EValue; EKey; EZeroDiv] [EValue; EKey] false;
  mkStage [EValue; EKey] [EValue; EKey] false;
  mkStage [EValue; EType; EOther] [] true;
  mkStage [EValue] [EValue] false;
  mkStage [EOs; ENotImpl] [] false;
  mkStage (ELinAlg :: EMemory :: arith) [] false;
  mkStage (EValue :: EMemory :: EUnbound :: arith) [] false;
  mkStage [EValue; EOverflow] [] false
].

Definition caught (s : stage) (e : exn) : bool := st_catch_all s || existsb (exn_eqb e) (st_catches s).

(* a run: in every stage the operations either succeed or raise one exception (fault k) *)
Fixpoint run_from (k : nat) (l : list stage) (fault : nat -> option exn) : outcome :=
  match l with
  | [] => Report
  | s :: r =>
      match fault k with
      | Some e => if caught s e then Diag k else Uncaught k e
      | None => run_from (S k) r fault
      end
  end.
Definition run (l : list stage) (fault : nat -> option exn) : outcome := run_from 0 l fault.

(* faults the operations of the stages can actually produce *)
Definition admissible (l : list stage) (fault : nat -> option exn) : Prop :=
  forall k e, fault k = Some e -> existsb (exn_eqb e) (st_raises (nth k l (mkStage [] [] false))) = true.

Definition safe_table (l : list stage) : bool :=
  forallb (fun s => forallb (caught s) (st_raises s)) l.

(* ------------------------------------------------------------------------------------------------
   Site-level exception flow.  Gen/MainFlow.v (py/translate_main.py, regenerated from main's syntax
   tree on every run) lists every place in main, after argument parsing, where one of the following
   primitives is performed, with the exception kinds the try statements around that place turn into
   the diagnostic.  What a primitive can raise on syntactically well-formed but arbitrary values is
   transcribed knowledge about Python and pymininec (checked by the `main` row correspondence and
   by the mutation oracle on the real program); that none of it escapes is proved from the
   generated list (Proofs/MainFlowP.v). *)
Inductive prim :=
| PInt | PFloat | PUnpack          (* int (s), float (s), a, b = generator: ValueError *)
| PGeoCtor | PTags                 (* Arc / Helix / Wire constructors, compute_tags: ValueError *)
| PTransform | PScale | PByTag     (* rotate / translate by tag, scale by tag, by_tag [tag] *)
| PMedium | PMininec               (* Medium (), Mininec (): segmentation, ground, connections *)
| PExcitation | PAssert            (* Excitation (): stores its arguments; assert on a value main has just set *)
| PRegSource | PRegLoad
| PLoadCtor | PFloatList | PDistLoad
| PFixDist                         (* registers existing distributed loads on junction pulses of the same model *)
| PAngle
| POpen | PWrite | PBasic | PCmdline
| PSweepArith                      (* frequency + (steps - 1) * increment with an arbitrarily large integer *)
| PSetFreq                         (* frequency setter, argument inside the guarded range (Proofs/MainFlowP.v) *)
| PCompute | PNear | PFar
| PReport | PReportGeo             (* number formatting raises on non-finite values; geometry is finite by the guards *)
| PRaiseValue | PRaiseArith.       (* explicit raise ValueError / ArithmeticError of a guard *)

Definition prim_raises (p : prim) : list exn :=
  match p with
  | PInt | PFloat | PUnpack | PGeoCtor | PTags | PMedium | PRegSource | PLoadCtor | PFloatList | PDistLoad | PRaiseValue => [EValue]
  | PTransform | PScale | PRegLoad => [EValue; EKey]
  | PByTag => [EKey]
  | PMininec => [EValue; EAssert]
  | PAngle => [EValue; EType; EOther]
  | POpen | PWrite => [EOs]
  | PBasic => [ENotImpl]
  | PSweepArith => [EOverflow]
  | PCompute => ELinAlg :: EMemory :: arith
  | PNear | PFar => EValue :: EMemory :: arith
  | PReport => [EValue; EOverflow]
  | PRaiseArith => arith
  | PExcitation | PAssert | PFixDist | PCmdline | PSetFreq | PReportGeo => []
  end.

Record site := mkSite {
  s_line : BinNums.Z;           (* source line, informational *)
  s_prim : prim;
  s_catches : list exn;         (* kinds turned into the diagnostic by the enclosing try statements *)
  s_all : bool;                 (* an enclosing `except Exception` *)
}.

Definition site_caught (s : site) (e : exn) : bool := s_all s || existsb (exn_eqb e) (s_catches s).
Definition site_safe (s : site) : bool := forallb (site_caught s) (prim_raises (s_prim s)).

(* an execution of main: the first primitive that raises (position k in program order, any iteration of the loop
   it is in) decides the ending *)
Definition run_site (l : list site) (k : nat) (e : exn) : outcome :=
  match nth_error l k with
  | Some s => if site_caught s e then Diag k else Uncaught k e
  | None => Report
  end.
