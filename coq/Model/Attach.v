(* C08 / C06: WHICH pulses carry a distributed (skin-effect / insulation) load.
   A pulse is owned by one object and has two half-segments, each on an object (the same for an interior pulse; at a
   junction the pulse is owned by the LATER of the two wires and its other half lies on the end segment of the earlier
   one; the image half of a ground pulse lies on the owner).  Every loaded object has its own load object.
   main / register_load attach the load of object g to every pulse OWNED by g; fix_distributed_loads then adds every
   junction pulse of which exactly one half lies on a loaded object to that object's load.  The impedance a load adds to
   a pulse is, per half on a loaded object, that object's per-length value times half the segment length
   (Skin_Effect_Load.impedance / Insulation_Load.impedance look at BOTH halves). *)
From Coq Require Import List Bool Arith.
Import ListNotations.

Record apulse := mkAP { ap_owner : nat; ap_g0 : nat; ap_g1 : nat }.       (* owner, object of half 0, object of half 1 *)

Section A.
Variable loaded : nat -> bool.            (* objects with a distributed load *)

(* the pulse is on the list of the load of object g *)
Definition attached (p : apulse) (g : nat) : bool :=
  loaded g &&
  (Nat.eqb (ap_owner p) g                                                        (* register_load (ld, None, tag) *)
   || (negb (Nat.eqb (ap_g0 p) (ap_g1 p))                                        (* fix_distributed_loads *)
       && xorb (loaded (ap_g0 p)) (loaded (ap_g1 p))
       && (if loaded (ap_g0 p) then Nat.eqb (ap_g0 p) g else Nat.eqb (ap_g1 p) g)
       && negb (Nat.eqb (ap_owner p) g))).

(* how many times half h of pulse p is charged: once for every load list the pulse is on (each load evaluates both
   halves with the half's own object), provided the half's object is loaded *)
Definition charged (objs : list nat) (p : apulse) (h : bool) : nat :=
  let g := if h then ap_g1 p else ap_g0 p in
  if loaded g then length (filter (attached p) objs) else 0.
End A.

(* the variant of fix_distributed_loads that only looks at the second half (seeded changes C08-4, C06-5) *)
Definition attached_second_only (loaded : nat -> bool) (p : apulse) (g : nat) : bool :=
  loaded g &&
  (Nat.eqb (ap_owner p) g
   || (negb (Nat.eqb (ap_g0 p) (ap_g1 p)) && loaded (ap_g1 p) && negb (loaded (ap_g0 p)) && Nat.eqb (ap_g1 p) g
       && negb (Nat.eqb (ap_owner p) g))).
