(* The option list written for a model and read back (C15): sources.
   Writer (Excitation.as_cmdline for every source in order): the voltage option unless the model has a single
   source of exactly 1 V; the pulse option unless the source is the default source (no --excitation-pulse given).
   Reader (main): no pulse option -> the default source on pulse 5; no voltage option -> 1 V; otherwise the pulse
   and voltage options are paired in order and their numbers must agree.
   V: voltages, with the value 1 V recognisable. *)
From Coq Require Import ZArith List Bool Arith.
Import ListNotations.

Inductive saddr := SAbs (p : nat) | SRel (k : nat) (tag : Z).

Section S.
Variable V : Type.
Variable one : V.
Variable is_one : V -> bool.

Record src := mkSrc { s_volt : V; s_addr : saddr; s_default : bool }.
Inductive sopt := OVolt (v : V) | OPulse (a : saddr).

Definition write_src (n : nat) (s : src) : list sopt :=
  (if negb (is_one (s_volt s)) || (1 <? n) then [OVolt (s_volt s)] else [])
  ++ (if s_default s then [] else [OPulse (s_addr s)]).
Definition write_srcs (l : list src) : list sopt := flat_map (write_src (length l)) l.

Definition volts (os : list sopt) : list V := flat_map (fun o => match o with OVolt v => [v] | _ => [] end) os.
Definition pulses (os : list sopt) : list saddr := flat_map (fun o => match o with OPulse a => [a] | _ => [] end) os.
Definition default_addr : saddr := SAbs 4.      (* --excitation-pulse=5 *)

Definition read_srcs (os : list sopt) : option (list src) :=
  let ps := pulses os in
  let vs := volts os in
  let dflt := match ps with [] => true | _ => false end in
  let ps' := if dflt then [default_addr] else ps in
  let vs' := match vs with [] => [one] | _ => vs end in
  if length ps' =? length vs' then Some (map (fun pv => mkSrc (snd pv) (fst pv) dflt) (combine ps' vs')) else None.

(* the source lists main can produce: either the single default source, or sources none of which is the default *)
Definition wf_srcs (l : list src) : Prop :=
  match l with
  | [] => False
  | [s] => s_default s = true -> s_addr s = default_addr
  | _ => Forall (fun s => s_default s = false) l
  end.
End S.
Arguments mkSrc {V}. Arguments OVolt {V}. Arguments OPulse {V}.
Arguments s_volt {V}. Arguments s_addr {V}. Arguments s_default {V}.
