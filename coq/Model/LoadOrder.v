(* The option list written for a model and read back (C15): how the lumped loads are numbered.
   Writer: Mininec.as_cmdline writes the loads of cmdline_loads () -- the lumped loads of the model grouped by
   kind in the order (Impedance, Series RLC, Trap, Laplace), a stable sort of the model's load list -- each as its
   defining option followed by its --attach-load options, which carry the load's position in that list.
   Reader: argparse collects the options per kind; main creates all --load loads, then all --rlc-load, all
   --trap-load, all Laplace loads, numbers them in that order, and the --attach-load options, in option order,
   register the load with that number (the first attachment of a load appends it to the model's load list);
   a number out of range or a load without attachment is rejected.
   P: the parameter values of a load; A: one attachment (Model/Options.v's att). *)
From Coq Require Import List Bool Arith.
Import ListNotations.

Inductive lkind := LImp | LRlc | LTrap | LLap.
Definition lkind_eqb (a b : lkind) : bool :=
  match a, b with LImp, LImp | LRlc, LRlc | LTrap, LTrap | LLap, LLap => true | _, _ => false end.
Definition kinds : list lkind := [LImp; LRlc; LTrap; LLap].

Section L.
Variables P A : Type.
Record lumped := mkL { l_kind : lkind; l_par : P; l_att : list A }.
Inductive lopt := ODef (k : lkind) (p : P) | OAtt (n : nat) (a : A).     (* n counts from 0 here, from 1 in the text *)

Definition of_kind (k : lkind) (M : list lumped) : list lumped := filter (fun l => lkind_eqb (l_kind l) k) M.
Definition cmdline_loads (M : list lumped) : list lumped := flat_map (fun k => of_kind k M) kinds.

Fixpoint write_from (n : nat) (cl : list lumped) : list lopt :=
  match cl with
  | [] => []
  | l :: r => ODef (l_kind l) (l_par l) :: map (OAtt n) (l_att l) ++ write_from (S n) r
  end.
Definition write_loads (M : list lumped) : list lopt := write_from 0 (cmdline_loads M).

Definition all_defs (os : list lopt) : list (lkind * P) :=
  flat_map (fun o => match o with ODef k p => [(k, p)] | OAtt _ _ => [] end) os.
Definition parser_loads (os : list lopt) : list (lkind * P) :=
  flat_map (fun k => filter (fun d => lkind_eqb (fst d) k) (all_defs os)) kinds.
Definition atts (os : list lopt) : list (nat * A) :=
  flat_map (fun o => match o with OAtt n a => [(n, a)] | ODef _ _ => [] end) os.
(* the numbers in the order of their first occurrence *)
Fixpoint first_occ (seen l : list nat) : list nat :=
  match l with
  | [] => []
  | x :: r => if existsb (Nat.eqb x) seen then first_occ seen r else x :: first_occ (x :: seen) r
  end.
Definition assemble (L : list (lkind * P)) (at_ : list (nat * A)) (order : list nat) : list lumped :=
  flat_map (fun j => match nth_error L j with
                     | Some d => [mkL (fst d) (snd d) (map snd (filter (fun na => fst na =? j) at_))]
                     | None => []
                     end) order.
Definition read_loads (os : list lopt) : option (list lumped) :=
  let L := parser_loads os in
  let at_ := atts os in
  let order := first_occ [] (map fst at_) in
  if forallb (fun na => fst na <? length L) at_ && (length order =? length L)
  then Some (assemble L at_ order) else None.
End L.
Arguments mkL {P A}. Arguments ODef {P A}. Arguments OAtt {P A}.
Arguments l_kind {P A}. Arguments l_par {P A}. Arguments l_att {P A}.
