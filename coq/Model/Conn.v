(* The two connection columns of the geometry table (Pulse.c_per with the overrides of Geobj.compute_connections): for
   every pulse of an object the signed tags of the wires its two halves lie on, minus the own tag for a grounded half,
   0 next to a free wire end.  Parallel to Topology.obj_pulses; tied to the code by the correspondence stage `conn`. *)
From Coq Require Import ZArith List Bool Arith.
From PM Require Import Model.Topology.
Import ListNotations.
Local Open Scope Z_scope.

Definition idx1nz (i : nat) (st : status * status) : bool := negb (is_free (fst st)) || joined_to i (snd st).
Definition idx2nz (st : status * status) : bool := negb (is_free (snd st)).
Definition zsg (b : bool) : Z := if b then 1 else -1.

Definition mid_cper (tg : Z) (nseg : nat) (z1 z2 : bool) : list (Z * Z) :=
  map (fun k => (if Nat.eqb k 0 && z1 then 0 else tg, if Nat.eqb (S (S k)) nseg && z2 then 0 else tg)) (seq 0 (nseg - 1)).

Definition obj_cper (tags : list Z) (i : nat) (nseg : nat) (st : status * status) : list (Z * Z) :=
  let tg := nth i tags 0 in
  let z1 := negb (idx1nz i st) in
  let z2 := negb (idx2nz st) in
  let p1 :=
    match fst st with
    | Grounded => [(- tg, tg)]
    | Joined j _ same => if Nat.eqb j i then [] else [(zsg same * nth j tags 0, if Nat.eqb nseg 1 && z2 then 0 else tg)]
    | Free => []
    end in
  let p2 :=
    match snd st with
    | Grounded => [(tg, - tg)]
    | Joined j _ same => [(if Nat.eqb nseg 1 && z1 then 0 else tg, zsg same * nth j tags 0)]
    | Free => []
    end in
  p1 ++ mid_cper tg nseg z1 z2 ++ p2.

Fixpoint all_cper_from (tags : list Z) (i : nat) (nsegs : list nat) (sts : list (status * status)) : list (Z * Z) :=
  match nsegs, sts with
  | n :: r, st :: s => obj_cper tags i n st ++ all_cper_from tags (S i) r s
  | _, _ => []
  end.
