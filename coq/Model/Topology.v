(* Pulse topology: Geobj.compute_connections / compute_ground / Pulse.__init__
   (DESIGN.md App. A.1), in two phases:
   G (geometric)     - scan the wire ends in object order with the end
                        dictionary; every end gets a status
   C (combinatorial) - the pulses of an object from its own segments, its two
                        statuses and the end segments of the owners it joins. *)
From Coq Require Import ZArith List Bool Arith.
From PM Require Import Base.Num Base.Cplx.
Import ListNotations.

(* wire ends: false = end 1 (index 0), true = end 2 (index 1) *)
Inductive status :=
| Free                                      (* registered; owner of its (future) junction *)
| Grounded
| Joined (owner : nat) (oend : bool) (same_sense : bool).
   (* joined to end [oend] of the earlier object [owner];
      same_sense = true: s = +1 (different end indices), false: s = -1 *)

Section Topology.
Context {N : Num}.
Local Open Scope num_scope.

Record seg := mkSeg { sg_p1 : V3; sg_p2 : V3; sg_len : T; sg_dir : V3 }.
Record obj := mkObj {
  ob_segs : list seg;
  ob_p1 : V3;            (* endpoints as used for matching / pulse points *)
  ob_p2 : V3;
  ob_gnd : bool * bool;  (* is_ground *)
}.

Definition seg_default : seg := mkSeg v3zero v3zero zero v3zero.
Definition first_seg (o : obj) : seg := hd seg_default (ob_segs o).
Definition last_seg (o : obj) : seg := last (ob_segs o) seg_default.
Definition ob_end (o : obj) (e : bool) : V3 := if e then ob_p2 o else ob_p1 o.
Definition ob_gnd_at (o : obj) (e : bool) : bool := if e then snd (ob_gnd o) else fst (ob_gnd o).

(* ---------------- phase G ---------------- *)
Definition dict := list (V3 * (bool * nat)).

Definition v3eqb (a b : V3) : bool := eqb (vx a) (vx b) && eqb (vy a) (vy b) && eqb (vz a) (vz b).

Fixpoint lookup_exact (k : V3) (d : dict) : option (bool * nat) :=
  match d with
  | [] => None
  | (k', v) :: r => if v3eqb k k' then Some v else lookup_exact k r
  end.

Fixpoint lookup_near (tol : T) (k : V3) (d : dict) : option (bool * nat) :=
  match d with
  | [] => None
  | (k', v) :: r => if leb (v3norm (v3sub k k')) tol then Some v else lookup_near tol k r
  end.

Definition match_end (tol : T) (d : dict) (i : nat) (e : bool) (pt : V3) (grounded : bool) : dict * status :=
  if grounded then (d, Grounded) else
  match lookup_exact pt d with
  | Some (e2, j) => (d, Joined j e2 (negb (Bool.eqb e2 e)))
  | None =>
      match lookup_near tol pt d with
      | Some (e2, j) => (d ++ [(pt, (e2, j))], Joined j e2 (negb (Bool.eqb e2 e)))
      | None => (d ++ [(pt, (e, i))], Free)
      end
  end.

(* both ends of one object, end 1 first *)
Definition match_obj (tol : T) (d : dict) (i : nat) (o : obj) : dict * (status * status) :=
  let '(d1, s0) := match_end tol d i false (ob_p1 o) (fst (ob_gnd o)) in
  let '(d2, s1) := match_end tol d1 i true (ob_p2 o) (snd (ob_gnd o)) in
  (d2, (s0, s1)).

Fixpoint scan (tol : T) (d : dict) (i : nat) (os : list obj) : list (status * status) :=
  match os with
  | [] => []
  | o :: r => let '(d', st) := match_obj tol d i o in st :: scan tol d' (S i) r
  end.

(* ---------------- phase C ---------------- *)
Record pulse := mkPulse {
  pu_point : V3;
  pu_ends : V3 * V3;
  pu_segs : (nat * nat) * (nat * nat);  (* (object, segment index) of half 0 / half 1 *)
  pu_gnd : bool * bool;
  pu_dsgn : bool * bool;                (* dir_sgn: true = +1, false = -1 *)
  pu_obj : nat;                         (* geobj: the later of the two objects *)
  pu_n : nat;                           (* index within its object's pulse list *)
}.

Definition mirror_z (v : V3) : V3 := (vx v, vy v, - vz v).
Definition sgnT (b : bool) : T := if b then one else - one.

(* does this status create a pulse at end 1 of object i? *)
Definition end1_pulse (i : nat) (st : status) : bool :=
  match st with
  | Free => false
  | Grounded => true
  | Joined j _ _ => negb (Nat.eqb j i)
  end.
Definition end2_pulse (st : status) : bool :=
  match st with Free => false | _ => true end.

Definition pulse_count (i : nat) (nseg : nat) (st : status * status) : nat :=
  ((if end1_pulse i (fst st) then 1 else 0) + (nseg - 1) + (if end2_pulse (snd st) then 1 else 0))%nat.

(* the end segment of an owner that a joiner overlaps onto:
   at the joiner's end 1: first segment if s = -1, last if s = +1;
   at the joiner's end 2: last segment if s = -1, first if s = +1 *)
Definition owner_seg_idx (nseg_owner : nat) (joiner_end : bool) (same : bool) : nat :=
  if Bool.eqb joiner_end same then O else (nseg_owner - 1)%nat.

Fixpoint interior (i : nat) (k : nat) (n0 : nat) (sg : list seg) : list pulse :=
  match sg with
  | a :: ((b :: _) as r) =>
      mkPulse (sg_p2 a) (sg_p1 a, sg_p2 b) ((i, k), (i, S k)) (false, false) (true, true) i n0
      :: interior i (S k) (S n0) r
  | _ => []
  end.

Definition obj_pulses (os : list obj) (i : nat) (o : obj) (st : status * status) : list pulse :=
  let segs := ob_segs o in
  let nseg := length segs in
  let s0 := first_seg o in
  let ls := last_seg o in
  let p1 :=
    match fst st with
    | Grounded =>
        [mkPulse (ob_p1 o) (mirror_z (sg_p2 s0), sg_p2 s0) ((i, O), (i, O)) (true, false) (true, true) i O]
    | Joined j e2 same =>
        if Nat.eqb j i then [] else
        let oo := nth j os o in
        let k := owner_seg_idx (length (ob_segs oo)) false same in
        let og := nth k (ob_segs oo) seg_default in
        let oinc := v3scale (sg_len og * sgnT same) (sg_dir og) in
        [mkPulse (ob_p1 o) (v3sub (ob_p1 o) oinc, sg_p2 s0) ((j, k), (i, O)) (false, false) (same, true) i O]
    | Free => []
    end in
  let n1 := length p1 in
  let mid := interior i O n1 segs in
  let n2 := (n1 + length mid)%nat in
  let p2 :=
    match snd st with
    | Grounded =>
        let end2 := v3sub (sg_p2 ls) (v3mulc (v3scale (sg_len ls) (sg_dir ls)) (one, one, - one)) in
        [mkPulse (ob_p2 o) (sg_p1 ls, end2) ((i, (nseg - 1)%nat), (i, (nseg - 1)%nat)) (false, true) (true, true) i n2]
    | Joined j e2 same =>
        let oo := nth j os o in
        let k := owner_seg_idx (length (ob_segs oo)) true same in
        let og := nth k (ob_segs oo) seg_default in
        let oinc := v3scale (sg_len og * sgnT same) (sg_dir og) in
        [mkPulse (sg_p2 ls) (sg_p1 ls, v3add (sg_p2 ls) oinc) ((i, (nseg - 1)%nat), (j, k)) (false, false) (true, same) i n2]
    | Free => []
    end in
  p1 ++ mid ++ p2.

Fixpoint all_pulses_from (os : list obj) (i : nat) (rest : list obj) (sts : list (status * status)) : list (list pulse) :=
  match rest, sts with
  | o :: r, st :: s => obj_pulses os i o st :: all_pulses_from os (S i) r s
  | _, _ => []
  end.

Record topology := mkTopo {
  tp_nseg : list nat;                    (* segments per object *)
  tp_status : list (status * status);
  tp_by_obj : list (list pulse);         (* per-object pulse lists *)
}.
Definition tp_pulses (t : topology) : list pulse := concat (tp_by_obj t).

Definition build (tol : T) (os : list obj) : topology :=
  let sts := scan tol [] O os in
  mkTopo (map (fun o => length (ob_segs o)) os) sts (all_pulses_from os O os sts).

(* global index of the first pulse of object i *)
Definition obj_start (t : topology) (i : nat) : nat :=
  length (concat (firstn i (tp_by_obj t))).

Definition is_free (s : status) : bool := match s with Free => true | _ => false end.
Definition joined_to (i : nat) (s : status) : bool :=
  match s with Joined j _ _ => Nat.eqb j i | _ => false end.

(* end_segs as computed by compute_connections (idx_1 / idx_2 evaluated after
   both ends were matched: a closed loop makes idx_1 non-zero) *)
Definition end_seg (t : topology) (i : nat) (e : bool) : option nat :=
  let nseg := nth i (tp_nseg t) O in
  let st := nth i (tp_status t) (Free, Free) in
  let selfloop := joined_to i (snd st) in
  let idx1nz := negb (is_free (fst st)) || selfloop in
  let idx2nz := negb (is_free (snd st)) in
  let npulse := (nseg - (if idx1nz then 0 else 1) - (if idx2nz then 0 else 1) - (if selfloop then 1 else 0))%nat in
  if e then
    if Nat.eqb nseg 1 && negb idx2nz then None else Some (obj_start t i + npulse)%nat
  else
    if Nat.eqb nseg 1 && negb idx1nz then None else Some (obj_start t i).

(* sign (dir_sgn * gnd_sgn) of the two halves as reals *)
Definition pu_sign (p : pulse) : T * T :=
  (sgnT (fst (pu_dsgn p)) * (if fst (pu_gnd p) then - one else one),
   sgnT (snd (pu_dsgn p)) * (if snd (pu_gnd p) then - one else one)).

End Topology.
