(* De-vectorised model of Mininec.compute_far_field (DESIGN.md App. A.3).
   Leaf formulas (ff_k9, ff_f3, ff_theta, ff_phi, ff_t1..t3, ff_above, ff_db,
   ff_rat, ffp_scale, medium_imp) are extracted from the source. *)
From Coq Require Import ZArith List Bool.
From PM Require Import Base.Num Base.Cplx Gen.Extracted.
Import ListNotations.

Section FarField.
Context {N : Num}.
Local Open Scope num_scope.

(* one current pulse as the far field sees it *)
Record fpulse := mkFP {
  fp_point : V3;
  fp_len  : T * T;        (* seg_len of half 0 / half 1 *)
  fp_dir  : V3 * V3;      (* dirvec of half 0 / half 1 *)
  fp_sgn  : T * T;        (* sign = dir_sgn * gnd_sgn *)
  fp_gnd  : bool * bool;  (* ground flags: which half is the image half *)
}.
Record fmedium := mkFM { fm_coord : T; fm_height : T; fm_imp : Cx }.
Record fenv := mkFE {
  fe_ground : bool;       (* media is not None: image pass exists *)
  fe_real   : bool;       (* media and not media[0].is_ideal *)
  fe_circ   : bool;       (* boundary <> 'linear' *)
  fe_nr     : T;          (* number of radials (0: none) *)
  fe_rr     : T;          (* radial wire radius *)
  fe_media  : list fmedium;
}.

Definition C3 : Type := (Cx * Cx * Cx)%type.
Definition c3zero : C3 := (c0, c0, c0).
Definition c3add (a b : C3) : C3 :=
  (cadd (fst (fst a)) (fst (fst b)), cadd (snd (fst a)) (snd (fst b)), cadd (snd a) (snd b)).
(* real 3-vector times complex scalar *)
Definition c3scale (v : V3) (z : Cx) : C3 := (cscale (vx v) z, cscale (vy v) z, cscale (vz v) z).
Definition c3dotr (a : C3) (v : V3) : Cx :=
  cadd (cadd (cscale (vx v) (fst (fst a))) (cscale (vy v) (snd (fst a)))) (cscale (vz v) (snd a)).

(* a direction enters only through the sines and cosines of its two angles *)
Record dirsc := mkDir { d_st : T; d_ct : T; d_sp : T; d_cp : T }.
Definition dir_of (th ph : T) : dirsc := mkDir (nsin th) (ncos th) (nsin ph) (ncos ph).
Definition rhat (d : dirsc) : V3 := (d_st d * d_cp d, d_st d * d_sp d, d_ct d).
Definition thhat (d : dirsc) : V3 := (d_ct d * d_cp d, d_ct d * d_sp d, - d_st d).

(* direction mask of half h in the k = +1 pass of the standard case:
   image half of a grounded pulse: 0; real half of a grounded pulse: (0,0,2) *)
Definition mask_std (k : T) (gnd_this gnd_other : bool) : V3 :=
  if gnd_this then v3zero
  else if gnd_other then (if ltb k zero then v3zero else (zero, zero, two))
  else (k, k, one).
(* real-ground image pass: both halves of a grounded pulse are dropped *)
Definition mask_real (gnd_this gnd_other : bool) : V3 :=
  if gnd_this || gnd_other then v3zero else (- one, - one, one).

Definition half_std (w k : T) (I : Cx) (ph : Cx) (len sgn : T) (dir : V3) (gt go : bool) : C3 :=
  let b := cmul (cscale (ff_f3 sgn w len) ph) I in
  c3scale (v3mulc (mask_std k gt go) dir) b.

(* standard pass (k = 1, or k = -1 over ideal ground) for one pulse *)
Definition pulse_std (w k : T) (dd : dirsc) (p : fpulse) (I : Cx) : C3 :=
  let s2 := w * v3dot (v3mulc (fp_point p) (one, one, k)) (rhat dd) in
  let ph := cexpj s2 in
  c3add (half_std w k I ph (fst (fp_len p)) (fst (fp_sgn p)) (fst (fp_dir p)) (fst (fp_gnd p)) (snd (fp_gnd p)))
        (half_std w k I ph (snd (fp_len p)) (snd (fp_sgn p)) (snd (fp_dir p)) (snd (fp_gnd p)) (fst (fp_gnd p))).

(* argmin (b9 > coord): first index whose coordinate is not exceeded, 0 if none *)
Fixpoint first_le (b9 : T) (ms : list fmedium) (i : nat) : option nat :=
  match ms with
  | [] => None
  | m :: r => if ltb (fm_coord m) b9 then first_le b9 r (S i) else Some i
  end.
Definition medium_index (b9 : T) (ms : list fmedium) : nat :=
  match first_le b9 ms O with Some i => i | None => O end.

Definition fm_default : fmedium := mkFM zero zero c0.

(* Fresnel pass over real ground (k = -1): coefficients that depend on the
   direction, the pulse position and the media only *)
(* horizontal distance (linear boundary: x coordinate) of the specular point *)
Definition refl_dist (circ : bool) (dd : dirsc) (p : fpulse) : T :=
  let ct := d_ct dd in
  let st := d_st dd in
  let pt := fp_point p in
  let t4 := if eqb ct zero then of_dec 1 5 else (- vz pt * (- st)) / ct in
  let bx := t4 * d_cp dd + vx pt in
  if circ
  then nsqrt (bx * bx + npow ((- t4) * (- d_sp dd) + vy pt) 2)
  else bx.

(* coefficients for a given medium (surface impedance imp, height) *)
Definition real_coefs_md (w : T) (nr rr : T) (dd : dirsc) (p : fpulse) (b9 : T)
           (imp : Cx) (height : T) (first : bool) : Cx * Cx * Cx :=
  let ct := d_ct dd in
  let st := d_st dd in
  let pt := fp_point p in
  let z45 :=
    if andb (negb (eqb nr zero)) first then
      let prod := nr * rr in
      let r := b9 + prod in
      let z8 := w * r * nln (r / prod) / nr in
      cdiv (cmul (cscale z8 imp) cj) (cadd imp (cscale z8 cj))
    else imp in
  let w67 := csqrt (csub c1 (cscale (st * st) (cmul z45 z45))) in
  let v89 := cdiv (csub (cofR ct) (cmul w67 z45)) (cadd (cofR ct) (cmul w67 z45)) in
  let h89 := csub (cdiv (csub w67 (cscale ct z45)) (cadd w67 (cscale ct z45))) v89 in
  let sh := v3sub pt (zero, zero, height * two) in
  let s2 := w * v3dot (v3mulc sh (one, one, - one)) (rhat dd) in
  (v89, h89, cexpj s2).

Definition real_coefs (w : T) (env : fenv) (dd : dirsc) (p : fpulse) : Cx * Cx * Cx :=
  let b9 := refl_dist (fe_circ env) dd p in
  let j2 := medium_index b9 (fe_media env) in
  let md := nth j2 (fe_media env) fm_default in
  real_coefs_md w (fe_nr env) (fe_rr env) dd p b9 (fm_imp md) (fm_height md) (Nat.eqb j2 O).

Definition half_real (w : T) (dd : dirsc) (v89 h89 ph I : Cx) (len sgn : T) (dir : V3) (gt go : bool) : C3 :=
  let b := cmul (cscale (ff_f3 sgn w len) ph) I in
  let d := (- d_sp dd) * vx dir + d_cp dd * vy dir in
  let z67 := cmul (cscale d b) h89 in
  let vecv : C3 := c3scale dir (cmul b v89) in
  let tm1 : C3 := (cscale (- d_sp dd) z67, cscale (d_cp dd) z67, c0) in
  let tot := c3add vecv tm1 in
  let mk := mask_real gt go in
  (cscale (vx mk) (fst (fst tot)), cscale (vy mk) (snd (fst tot)), cscale (vz mk) (snd tot)).

Definition pulse_real (w : T) (env : fenv) (dd : dirsc) (p : fpulse) (I : Cx) : C3 :=
  let cf := real_coefs w env dd p in
  let v89 := fst (fst cf) in let h89 := snd (fst cf) in let ph := snd cf in
  c3add (half_real w dd v89 h89 ph I (fst (fp_len p)) (fst (fp_sgn p)) (fst (fp_dir p)) (fst (fp_gnd p)) (snd (fp_gnd p)))
        (half_real w dd v89 h89 ph I (snd (fp_len p)) (snd (fp_sgn p)) (snd (fp_dir p)) (snd (fp_gnd p)) (fst (fp_gnd p))).

Definition c3sum (l : list C3) : C3 := fold_right c3add c3zero l.

(* the complex "gain" 3-vector before projection *)
Definition ff_vector (w : T) (env : fenv) (pulses : list fpulse) (cur : cvec) (dd : dirsc) : C3 :=
  let pc := combine pulses cur in
  let direct := c3sum (map (fun x => pulse_std w one dd (fst x) (snd x)) pc) in
  if fe_ground env then
    let image :=
      if fe_real env
      then c3sum (map (fun x => pulse_real w env dd (fst x) (snd x)) pc)
      else c3sum (map (fun x => pulse_std w (- one) dd (fst x) (snd x)) pc) in
    c3add direct image
  else direct.

(* (E_theta, E_phi) before power / distance scaling: h12, x34 *)
Definition ff_fields_d (w : T) (env : fenv) (pulses : list fpulse) (cur : cvec) (dd : dirsc) : Cx * Cx :=
  let g := ff_vector w env pulses cur dd in
  (ff_theta (c3dotr g (thhat dd)),
   ff_phi (cadd (cscale (- d_sp dd) (fst (fst g))) (cscale (d_cp dd) (snd (fst g))))).

Definition ff_fields (w : T) (env : fenv) (pulses : list fpulse) (cur : cvec) (th phi : T) : Cx * Cx :=
  ff_fields_d w env pulses cur (dir_of th phi).

Definition ff_gain_of (t : T) : T := if ff_above t then ff_db t else of_Z (-999).

(* dBi triple (vertical, horizontal, total) *)
Definition ff_gain (power : T) (e : Cx * Cx) : T * T * T :=
  let k9 := ff_k9 power in
  let t1 := ff_t1 k9 (fst e) in
  let t2 := ff_t2 k9 (snd e) in
  let t3 := ff_t3 t1 t2 in
  (ff_gain_of t1, ff_gain_of t2, ff_gain_of t3).

(* V/m values stored in Far_Field_Pattern *)
Definition ff_vm (power ff_power dist : T) (e : Cx * Cx) : Cx * Cx :=
  let e' := if eqb dist zero then e else (cdivr (fst e) dist, cdivr (snd e) dist) in
  ffp_scale (ff_rat ff_power power) (fst e') (snd e').

End FarField.
