(* Mininec.compute_impedance_matrix, entry-wise and path-faithful
   (DESIGN.md App. A.2): vector / scalar potential assembly, optimisation
   flags, diagonal and symmetric copies, image loop. *)
From Coq Require Import ZArith List Bool Arith.
From PM Require Import Base.Num Base.Cplx Model.Kernel.
Import ListNotations.

Section ZMatrix.
Context {N : Num}.
Local Open Scope num_scope.

Record zpulse := mkZP {
  zp_point : V3;
  zp_ends : V3 * V3;
  zp_len : T * T;
  zp_dir : V3 * V3;
  zp_r : T * T;          (* radius of the wire each half lies on *)
  zp_i6 : T * T;
  zp_dsgn : T * T;       (* dir_sgn *)
  zp_gsgn : T * T;       (* gnd_sgn *)
  zp_gnd : bool * bool;
  zp_obj : nat;          (* geobj.n *)
  zp_geo : nat * nat;    (* geo[0].n, geo[1].n *)
}.

Definition pick {A} (pr : A * A) (pos : bool) : A := if pos then snd pr else fst pr.
Definition zp_sign (p : zpulse) (pos : bool) : T := pick (zp_dsgn p) pos * pick (zp_gsgn p) pos.
Definition kparam_of (p : zpulse) (pos : bool) : kparam := mkKP (pick (zp_r p) pos) (pick (zp_len p) pos) (pick (zp_i6 p) pos).

(* Pulse.endseg / dvecs *)
Definition endseg (p : zpulse) (ds : T) : V3 :=
  v3add (v3scale (nabs ds) (v3sub (pick (zp_ends p) (ltb zero ds)) (zp_point p))) (zp_point p).
Definition dvecs (p : zpulse) (ds : T) : V3 * V3 :=
  if ltb ds zero then (endseg p ds, zp_point p) else (zp_point p, endseg p ds).

Definition same_geobj (p : zpulse) : bool := Nat.eqb (fst (zp_geo p)) (snd (zp_geo p)).
Definition same_len (p : zpulse) : bool := eqb (fst (zp_len p)) (snd (zp_len p)).
Definition v3eq (a b : V3) : bool := eqb (vx a) (vx b) && eqb (vy a) (vy b) && eqb (vz a) (vz b).
Definition same_dir (p : zpulse) : bool := v3eq (fst (zp_dir p)) (snd (zp_dir p)).
Definition grounded (p : zpulse) : bool := fst (zp_gnd p) || snd (zp_gnd p).
Definition non_vertical_grounded (p : zpulse) : bool :=
  grounded p && (negb (eqb (vx (fst (zp_dir p))) zero) || negb (eqb (vy (fst (zp_dir p))) zero)).

Section WithEnv.
Variable w srm w2 : T.
(* the potential integral: psi_f vec2 vecv k scale params exact fvs
   (Kernel.psi w srm in the code; abstract in the refinement theorems) *)
Variable psi_f : V3 -> V3 -> T -> T -> kparam -> bool -> bool -> Cx.
Variable conn : nat -> nat -> bool.     (* objects connected (exact kernel allowed) *)
Variable ps : list zpulse.
Definition pdef : zpulse :=
  mkZP v3zero (v3zero, v3zero) (one, one) (v3zero, v3zero) (one, one) (zero, zero) (one, one) (one, one) (false, false) O (O, O).
Definition P (i : nat) : zpulse := nth i ps pdef.

Definition opt (m n : nat) : nat :=
  let pm := P m in let pn := P n in
  let same := same_geobj pm && same_geobj pn && same_len pm && same_len pn && same_dir pm && same_dir pn
              && eqb (fst (zp_len pm)) (fst (zp_len pn)) in    (* both pulses have the same segment length *)
  let o := if same && Nat.eqb (fst (zp_geo pm)) (fst (zp_geo pn))
              && negb (non_vertical_grounded pm || non_vertical_grounded pn) then 1%nat else 0%nat in
  if Nat.eqb m n then (2 * o)%nat else o.

Definition ngnd (n : nat) : bool := negb (grounded (P n)).

Definition kv (k : T) (v : V3) : V3 := (vx v, vy v, k * vz v).

(* vector potential psi(M; N, N+-1/2) *)
Definition vecpot (k : T) (m n : nat) (pos : bool) : Cx :=
  let pn := P n in
  let r := pick (zp_r pn) pos in
  if Nat.eqb m n && negb (ltb k one) && ltb r srm then
    let wl := pick (zp_len pn) pos in
    (nln (wl / r), - w * wl / two)
  else
    let ds := if pos then half else - half in
    let v1 := zp_point (P m) in
    let dv := dvecs pn ds in
    psi_f (v3sub (kv k (fst dv)) v1) (v3sub (kv k (snd dv)) v1) k ds (kparam_of pn pos)
        (conn (zp_obj (P m)) (zp_obj pn)) false.

(* scalar potential psi(M+ds1; N, N+ds2); ds1 = +-1/2, ds2 = +-1.
   The small-radius closed form needs index M+ds1 = N+ds2/2, i.e. M = N *)
Definition scapot (k : T) (m n : nat) (pos1 pos2 : bool) : Cx :=
  let pn := P n in
  let r := pick (zp_r pn) pos2 in
  (* index arithmetic of the code: m + ds1 == n + ds2/2, with ds1, ds2/2 = +-1/2 *)
  let coincide := Z.eqb (2 * Z.of_nat m + (if pos1 then 1 else -1)) (2 * Z.of_nat n + (if pos2 then 1 else -1)) in
  if coincide && Nat.eqb (zp_obj (P m)) (zp_obj pn) && ltb r srm && negb (ltb k one) then
    let wl := pick (zp_len pn) pos2 in
    (two * nln (wl / r), - w * wl)
  else
    let ds1 := if pos1 then half else - half in
    let ds2 := if pos2 then one else - one in
    let v1 := endseg (P m) ds1 in
    let dv := dvecs pn ds2 in
    psi_f (v3sub (kv k (fst dv)) v1) (v3sub (kv k (snd dv)) v1) k ds2 (kparam_of pn pos2)
        (conn (zp_obj (P m)) (zp_obj pn)) true.

Definition zzz (m : nat) : V3 :=
  let pm := P m in
  v3add (v3scale (fst (zp_dsgn pm) * fst (zp_len pm)) (fst (zp_dir pm)))
        (v3scale (snd (zp_dsgn pm) * snd (zp_len pm)) (snd (zp_dir pm))).

(* one computed entry for image k with optimisation level f8 *)
Definition entry (k : T) (f8 : nat) (m n : nat) : Cx :=
  let pn := P n in
  let vp_pos := vecpot k m n true in
  let u := cscale (zp_sign pn true) vp_pos in
  let vp := if Nat.ltb f8 2 then vecpot k m n false else vp_pos in
  let v := cscale (zp_sign pn false) vp in
  let g6 := (one, one, fst (zp_gsgn pn)) in
  let g7 := (one, one, snd (zp_gsgn pn)) in
  let z := zzz m in
  let dot3 (g d : V3) : T := vx g * vx d * vx z + vy g * vy d * vy z + k * (vz g * vz d * vz z) in
  let d := cscale w2 (cadd (cscale (dot3 g7 (snd (zp_dir pn))) u) (cscale (dot3 g6 (fst (zp_dir pn))) v)) in
  let sl0 := fst (zp_len pn) in let sl1 := snd (zp_len pn) in
  let u12 :=
    if Nat.ltb f8 2 then
      let u56 := if Nat.eqb f8 1 then cadd (cscale (zp_sign pn true) u) vp else scapot k m n true true in
      let sp := scapot k m n false true in
      let t1 := cdivr (csub sp u56) sl1 in
      let u34 := scapot k m n true false in
      let sp2 := if Nat.eqb f8 1 then u56 else scapot k m n false false in
      cadd t1 (cdivr (csub u34 sp2) sl0)
    else
      let sp := scapot k m n false true in
      cdivr (csub (cscale two sp) (cscale (of_Z 4 * zp_sign pn true) u)) sl1 in
  cadd d u12.

(* ---- which entries are computed, which are copied ---- *)
Definition np : nat := length ps.

(* diagonal-copy plan: for every upper diagonal offset and every object, the
   positions (i, i+off) with opt > 0, both pulses on that object, source not
   grounded; the first is computed, the others copy it *)
Definition diag_positions (off g : nat) : list (nat * nat) :=
  filter (fun ij => Nat.ltb 0 (opt (fst ij) (snd ij)) && Nat.eqb (fst (zp_geo (P (fst ij)))) g && ngnd (snd ij))
         (map (fun i => (i, (i + off)%nat)) (seq 0 (np - off))).
Definition objs_of_diag (off : nat) : list nat :=
  nodup Nat.eq_dec (map (fun i => fst (zp_geo (P i)))
                        (filter (fun i => Nat.ltb 0 (opt i (i + off))) (seq 0 (np - off)))).
Definition copy_groups : list ((nat * nat) * list (nat * nat)) :=
  flat_map (fun off =>
    flat_map (fun g => match diag_positions off g with
                       | src :: ((_ :: _) as dst) => [(src, dst)]
                       | _ => []
                       end) (objs_of_diag off)) (seq 0 np).
Definition is_copy_dst (m n : nat) : bool :=
  existsb (fun gr => existsb (fun ij => Nat.eqb (fst ij) m && Nat.eqb (snd ij) n) (snd gr)) copy_groups.
Definition copy_src_of (m n : nat) : option (nat * nat) :=
  match filter (fun gr => existsb (fun ij => Nat.eqb (fst ij) m && Nat.eqb (snd ij) n) (snd gr)) copy_groups with
  | gr :: _ => Some (fst gr)
  | [] => None
  end.

(* k = +1 pass: computed value of entry (m, n), before copies *)
Definition computed1 (m n : nat) : bool :=
  negb (Nat.ltb n m && Nat.ltb 0 (opt n m)) && negb (is_copy_dst m n).
Definition pass1_raw (m n : nat) : Cx := if computed1 m n then entry one (opt m n) m n else c0.
(* after diagonal copies (the last group listing a destination wins) *)
Definition pass1_diag (m n : nat) : Cx :=
  match rev (filter (fun gr => existsb (fun ij => Nat.eqb (fst ij) m && Nat.eqb (snd ij) n) (snd gr)) copy_groups) with
  | gr :: _ => pass1_raw (fst (fst gr)) (snd (fst gr))
  | [] => pass1_raw m n
  end.
(* after the copy to the lower triangle *)
Definition pass1 (m n : nat) : Cx :=
  if Nat.ltb n m && Nat.ltb 0 (opt n m) then pass1_diag n m else pass1_diag m n.

(* k = -1 pass: every entry whose source pulse is not grounded *)
Definition pass2 (m n : nat) : Cx := if ngnd n then copp (entry (- one) 0 m n) else c0.

Definition zentry (has_ground : bool) (m n : nat) : Cx :=
  if has_ground then cadd (pass1 m n) (pass2 m n) else pass1 m n.

Definition zmatrix (has_ground : bool) : cmat :=
  map (fun m => map (fun n => zentry has_ground m n) (seq 0 np)) (seq 0 np).

End WithEnv.

(* the matrix as the code computes it *)
Definition zmatrix_code (w srm w2 : T) (conn : nat -> nat -> bool) (ps : list zpulse) (has_ground : bool) : cmat :=
  zmatrix w srm w2 (psi w srm) conn ps has_ground.

End ZMatrix.
