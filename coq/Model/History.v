(* C14: the per-object caches of a Mininec object as an explicit state
   machine.  zint (skin-effect impedance per length) depends on the frequency
   and is invalidated by the frequency setter; zins (insulation inductance per
   length) does not depend on the frequency and is kept. *)
From Coq Require Import ZArith List Bool Arith.
From PM Require Import Base.Num Base.Cplx.
Import ListNotations.

Section History.
Context {N : Num}.
(* what a fresh evaluation would compute for object i at frequency f *)
Variable zint_of : T -> nat -> Cx.
Variable zins_of : nat -> T.
Variable nobj : nat.

Record hstate := mkH { h_f : T; h_zint : list (option Cx); h_zins : list (option T) }.

Inductive hop := SetF (f : T) | Compute | FarField | NearField.

Definition fresh (f : T) : hstate := mkH f (repeat None nobj) (repeat None nobj).

Definition fill_zint (f : T) (c : list (option Cx)) : list (option Cx) :=
  map (fun p => match snd p with Some z => Some z | None => Some (zint_of f (fst p)) end) (combine (seq 0 nobj) c).
Definition fill_zins (c : list (option T)) : list (option T) :=
  map (fun p => match snd p with Some z => Some z | None => Some (zins_of (fst p)) end) (combine (seq 0 nobj) c).

Definition hstep (s : hstate) (o : hop) : hstate :=
  match o with
  | SetF f => mkH f (map (fun _ => None) (h_zint s)) (h_zins s)      (* the setter clears zint *)
  | Compute => mkH (h_f s) (fill_zint (h_f s) (h_zint s)) (fill_zins (h_zins s))
  | FarField | NearField => s                                         (* fields read, never write, the caches *)
  end.

Definition hrun (s : hstate) (ops : list hop) : hstate := fold_left hstep ops s.

(* the values compute() uses for object i *)
Definition used_zint (s : hstate) (i : nat) : Cx :=
  match nth i (h_zint s) None with Some z => z | None => zint_of (h_f s) i end.
Definition used_zins (s : hstate) (i : nat) : T :=
  match nth i (h_zins s) None with Some z => z | None => zins_of i end.

End History.
