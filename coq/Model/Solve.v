(* Right-hand side, load diagonal, source data: the linear-algebra layer of
   Mininec.compute().  The leaf formulas (rhs_entry, load_diag, src_power,
   src_impedance) are the definitions extracted from the source. *)
From Coq Require Import ZArith List Bool.
From PM Require Import Base.Num Base.Cplx Gen.Extracted.
Import ListNotations.

Section Solve.
Context {N : Num}.

Record source := mkSource { s_idx : nat; s_volt : Cx }.
(* one (load, pulse) attachment with the value load.impedance(f, pulse) *)
Record loadatt := mkLoad { l_idx : nat; l_z : Cx }.

Fixpoint set_nth {A} (l : list A) (i : nat) (x : A) : list A :=
  match l, i with
  | [], _ => []
  | _ :: r, O => x :: r
  | a :: r, S i' => a :: set_nth r i' x
  end.

(* compute_rhs: zeros, then one assignment per source in registration order
   (a later source on the same pulse overwrites an earlier one) *)
Definition rhs_vec (m : T) (gnd : nat -> bool) (n : nat) (srcs : list source) : cvec :=
  fold_left (fun rhs s => set_nth rhs (s_idx s) (rhs_entry m (gnd (s_idx s)) (s_volt s)))
            srcs (repeat c0 n).

Fixpoint upd_nth {A} (l : list A) (i : nat) (f : A -> A) : list A :=
  match l, i with
  | [], _ => []
  | a :: r, O => f a :: r
  | a :: r, S i' => a :: upd_nth r i' f
  end.

Definition add_diag (Z : cmat) (i : nat) (d : Cx) : cmat :=
  upd_nth Z i (fun row => upd_nth row i (fun z => cadd z d)).

(* compute_impedance_matrix_loads: Z[j][j] += load_diag ... for every
   attachment, in order *)
Definition load_matrix (m : T) (gnd : nat -> bool) (has_media : bool)
           (Z0 : cmat) (loads : list loadatt) : cmat :=
  fold_left (fun Z l => add_diag Z (l_idx l)
                           (load_diag m (gnd (l_idx l)) has_media (l_z l) (Z.of_nat (l_idx l))))
            loads Z0.

(* source data as reported *)
Definition source_current (I : cvec) (s : source) : Cx := vnth I (s_idx s).
Definition source_imp (I : cvec) (s : source) : Cx := src_impedance (s_volt s) (source_current I s).
Definition source_pwr (I : cvec) (s : source) : T := src_power (s_volt s) (source_current I s).
Definition total_power (I : cvec) (srcs : list source) : T := nsum (map (source_pwr I) srcs).

(* residual certificate: max_k |(Z I - rhs)_k|^2 *)
Definition residual2 (Z : cmat) (I rhs : cvec) : list T :=
  map (fun p => cabs2 (csub (fst p) (snd p))) (combine (mvmul Z I) rhs).

End Solve.
