(* The answer sequence of Mininec.as_basic_input against the prompts of the
   BASIC program (C18), structural part: which kind of answer stands on which
   line, driven by the counts (media, wires, sources, loads, order of an
   S-parameter function) and the yes/no choices.  Data values are not carried
   (the oracle compares them); a line of numbers is TNum k first last with the
   integer value of its first and last field where the reader needs it. *)
From Coq Require Import ZArith List Bool Arith.
Import ListNotations.

Inductive tok :=
| TW (c : Z)                          (* one-letter answer: character code *)
| TText                               (* a file name *)
| TNum (k : nat) (first last : Z).    (* k comma-separated numbers *)

Definition cD := 68%Z. Definition cN := 78%Z. Definition cY := 89%Z. Definition cC := 67%Z. Definition cP := 80%Z.
Definition cV := 86%Z. Definition cQ := 81%Z. Definition cE := 69%Z. Definition cH := 72%Z.

Inductive env_sh :=
| EFree
| EPerfect
| EMedia (nm : nat) (circular : bool) (nradials : nat).   (* nm >= 1 media *)

Inductive load_sh :=
| LNone
| LImp (n : nat)                (* n >= 1 lines "pulse, R, X" *)
| LS (orders : list nat).       (* one S-parameter function per loaded pulse, with its order *)

Inductive ff_sh :=
| FNone
| FDb (file : bool)
| FAbs (newpower : bool) (file : bool).

Record shape := mkShape {
  sh_env : env_sh;
  sh_wires : nat;               (* emulated wires *)
  sh_sources : nat;
  sh_loads : load_sh;
  sh_ff : ff_sh;
  sh_nf : option bool;          (* near fields (E and H) requested, with new power level? *)
}.

Definition wild : Z := (-999999)%Z.                    (* a data value the reader does not look at *)
Definition D := TNum 1 wild wild.                      (* one data number *)
Definition Dn (k : nat) := TNum k wild wild.
Definition Cnt (n : nat) := TNum 1 (Z.of_nat n) (Z.of_nat n).

(* ---------------- writer ---------------- *)
Definition w_power (np : bool) : list tok := if np then [TW cY; D; TW cN] else [TW cN].
Definition w_file (f : bool) : list tok := if f then [TW cY; TText] else [TW cN].

Definition w_medium (nm : nat) (circ : bool) (nrad : nat) (k : nat) : list tok :=
  (if (k =? 0) && (1 <? nm) then [TNum 1 (if circ then 2 else 1) (if circ then 2 else 1)] else [])
  ++ [Dn 2]
  ++ (if negb (k =? 0) then [D]
      else if (1 <? nm) && circ then Cnt nrad :: (if 0 <? nrad then [D] else [])
      else [])
  ++ (if S k <? nm then [D] else []).

Definition w_env (e : env_sh) : list tok :=
  match e with
  | EFree => [TNum 1 1 1]
  | EPerfect => [TNum 1 (-1) (-1); Cnt 0]
  | EMedia nm circ nrad => TNum 1 (-1) (-1) :: Cnt nm :: flat_map (w_medium nm circ nrad) (seq 0 nm)
  end.

Definition w_wire : list tok := [D; Dn 3; Dn 3; D; TW cN].

Definition w_loads (l : load_sh) : list tok :=
  match l with
  | LNone => [Cnt 0]
  | LImp n => Cnt n :: TW cN :: repeat (Dn 3) n
  | LS os => Cnt (length os) :: TW cY :: flat_map (fun o => TNum 2 wild (Z.of_nat o) :: repeat (Dn 2) (S o)) os
  end.

Definition w_ff (f : ff_sh) : list tok :=
  match f with
  | FNone => []
  | FDb file => [TW cP; TW cD; Dn 3; Dn 3] ++ w_file file
  | FAbs np file => [TW cP; TW cV] ++ w_power np ++ [D; Dn 3; Dn 3] ++ w_file file
  end.

Definition w_nf1 (c : Z) (np : bool) : list tok := [TW cN; TW c; Dn 3; Dn 3; Dn 3] ++ w_power np ++ [TW cN].
Definition w_nf (n : option bool) : list tok :=
  match n with None => [] | Some np => w_nf1 cE np ++ w_nf1 cH np end.

Definition write (s : shape) : list tok :=
  [TW cD; TText; D] ++ w_env (sh_env s)
  ++ Cnt (sh_wires s) :: concat (repeat w_wire (sh_wires s)) ++ [TW cN]
  ++ Cnt (sh_sources s) :: repeat (Dn 3) (sh_sources s)
  ++ w_loads (sh_loads s)
  ++ [TW cC; TW cN] ++ w_ff (sh_ff s) ++ w_nf (sh_nf s) ++ [TW cQ].

(* ---------------- reader: the prompt automaton ---------------- *)
Definition R (A : Type) := list tok -> option (A * list tok).

Definition r_word (c : Z) : R unit := fun l =>
  match l with TW x :: r => if Z.eqb x c then Some (tt, r) else None | _ => None end.
Definition r_text : R unit := fun l => match l with TText :: r => Some (tt, r) | _ => None end.
Definition r_nums (k : nat) : R (Z * Z) := fun l =>
  match l with TNum k' a b :: r => if Nat.eqb k k' then Some ((a, b), r) else None | _ => None end.
Definition r_count : R nat := fun l =>
  match r_nums 1 l with Some ((a, _), r) => if (0 <=? a)%Z then Some (Z.to_nat a, r) else None | None => None end.
Definition r_yn : R bool := fun l =>
  match l with TW x :: r => if Z.eqb x cY then Some (true, r) else if Z.eqb x cN then Some (false, r) else None | _ => None end.

Definition bind {A B} (p : R A) (f : A -> R B) : R B := fun l =>
  match p l with Some (a, r) => f a r | None => None end.
Definition ret {A} (a : A) : R A := fun l => Some (a, l).
Notation "x <- p ;; q" := (bind p (fun x => q)) (at level 61, p at next level, right associativity).
Notation "p ;;; q" := (bind p (fun _ => q)) (at level 61, right associativity).

Fixpoint r_repeat {A} (p : R A) (n : nat) : R (list A) :=
  match n with
  | O => ret []
  | S n' => a <- p ;; l <- r_repeat p n' ;; ret (a :: l)
  end.

Definition r_power : R bool :=
  b <- r_yn ;; if b then (r_nums 1 ;;; r_word cN ;;; ret true) else ret false.
Definition r_file : R bool :=
  b <- r_yn ;; if b then (r_text ;;; ret true) else ret false.

(* one medium; returns (circular, nradials) as answered on the first *)
Definition r_medium (nm : nat) (st : bool * nat) (k : nat) : R (bool * nat) :=
  st1 <- (if (k =? 0) && (1 <? nm)
          then (ab <- r_nums 1 ;; if Z.eqb (fst ab) 2 then ret (true, snd st) else if Z.eqb (fst ab) 1 then ret (false, snd st) else (fun _ => None))
          else ret st) ;;
  r_nums 2 ;;;
  st2 <- (if negb (k =? 0) then (r_nums 1 ;;; ret st1)
          else if (1 <? nm) && fst st1 then (n <- r_count ;; (if 0 <? n then r_nums 1 ;;; ret (fst st1, n) else ret (fst st1, n)))
          else ret st1) ;;
  (if S k <? nm then r_nums 1 ;;; ret st2 else ret st2).

Fixpoint r_media (nm : nat) (ks : list nat) (st : bool * nat) : R (bool * nat) :=
  match ks with
  | [] => ret st
  | k :: r => st' <- r_medium nm st k ;; r_media nm r st'
  end.

Definition r_env : R env_sh :=
  ab <- r_nums 1 ;;
  if Z.eqb (fst ab) 1 then ret EFree
  else if Z.eqb (fst ab) (-1) then
    (nm <- r_count ;;
     if nm =? 0 then ret EPerfect
     else st <- r_media nm (seq 0 nm) (false, 0) ;; ret (EMedia nm (fst st) (snd st)))
  else (fun _ => None).

Definition r_wire : R unit := r_nums 1 ;;; r_nums 3 ;;; r_nums 3 ;;; r_nums 1 ;;; r_word cN.

Definition r_sload : R nat :=
  ab <- r_nums 2 ;;
  if (0 <=? snd ab)%Z then (r_repeat (r_nums 2) (S (Z.to_nat (snd ab))) ;;; ret (Z.to_nat (snd ab))) else (fun _ => None).

Definition r_loads : R load_sh :=
  n <- r_count ;;
  if n =? 0 then ret LNone
  else b <- r_yn ;;
       if b then (os <- r_repeat r_sload n ;; ret (LS os))
       else (r_repeat (r_nums 3) n ;;; ret (LImp n)).

Definition r_ff : R ff_sh := fun l =>
  match l with
  | TW x :: r =>
      if Z.eqb x cP then
        match r with
        | TW y :: r' =>
            if Z.eqb y cD then (r_nums 3 ;;; r_nums 3 ;;; f <- r_file ;; ret (FDb f)) r'
            else if Z.eqb y cV then (np <- r_power ;; r_nums 1 ;;; r_nums 3 ;;; r_nums 3 ;;; f <- r_file ;; ret (FAbs np f)) r'
            else None
        | _ => None
        end
      else Some (FNone, l)
  | _ => Some (FNone, l)
  end.

Definition r_nf1 (c : Z) : R bool :=
  r_word cN ;;; r_word c ;;; r_nums 3 ;;; r_nums 3 ;;; r_nums 3 ;;; np <- r_power ;; r_word cN ;;; ret np.
Definition r_nf : R (option bool) := fun l =>
  match l with
  | TW x :: _ =>
      if Z.eqb x cN then (a <- r_nf1 cE ;; b <- r_nf1 cH ;; if Bool.eqb a b then ret (Some a) else (fun _ => None)) l
      else Some (None, l)
  | _ => Some (None, l)
  end.

Definition read : R shape :=
  r_word cD ;;; r_text ;;; r_nums 1 ;;;
  e <- r_env ;;
  nw <- r_count ;; r_repeat r_wire nw ;;; r_word cN ;;;
  ns <- r_count ;; r_repeat (r_nums 3) ns ;;;
  lo <- r_loads ;;
  r_word cC ;;; r_word cN ;;;
  ff <- r_ff ;; nf <- r_nf ;;
  r_word cQ ;;; ret (mkShape e nw ns lo ff nf).

(* shapes the writer can produce *)
Definition wf (s : shape) : Prop :=
  match sh_env s with
  | EMedia nm circ nrad => 1 <= nm /\ (nm = 1 -> circ = false) /\ (circ = false -> nrad = 0)
  | _ => True
  end /\
  match sh_loads s with
  | LImp n => 1 <= n
  | LS os => os <> []
  | LNone => True
  end.
