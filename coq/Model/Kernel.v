(* Potential integrals: integral_i2_i3, fast_quad, psi of mininec.py
   (DESIGN.md App. A.2). *)
From Coq Require Import ZArith List Bool Arith.
From PM Require Import Base.Num Base.Cplx Gen.Tables.
Import ListNotations.

Section Kernel.
Context {N : Num}.
Local Open Scope num_scope.

(* complete elliptic integral of the first kind K(m) by the arithmetic-
   geometric mean: K(m) = pi / (2 agm(1, sqrt(1 - m))) *)
Fixpoint agm (fuel : nat) (a b : T) : T :=
  match fuel with
  | O => (a + b) / two
  | S f => agm f ((a + b) / two) (nsqrt (a * b))
  end.
Definition ellipk (m : T) : T := npi / (two * agm 16 one (nsqrt (one - m))).

(* per-half parameters of the source pulse *)
Record kparam := mkKP { kp_r : T; kp_len : T; kp_i6 : T }.

(* integrand at parameter t on the chord vec2 -> vecv (swapped for the image) *)
Definition integrand (w srm : T) (t : T) (vec2 vecv : V3) (k : T) (r : T) (exact : bool) : Cx :=
  let '(a, b) := if ltb k zero then (vecv, vec2) else (vec2, vecv) in
  let vec3 := v3add a (v3scale t (v3sub b a)) in
  let d0 := v3norm vec3 in
  let thick := ltb srm r in
  let a2 := r * r in
  let d3 := d0 * d0 in
  let d := if thick then nsqrt (a2 + d3) else d0 in
  let sing :=
    if thick && exact then
      let bb := d3 / (d3 + of_Z 4 * a2) in
      let v0 := ellipk (one - bb) * nsqrt (one - bb) in
      (v0 + nln (d3 / (of_Z 64 * a2)) / two) / npi / r - one / d
    else zero in
  cadd (cofR sing) (cdivr (cexpj (- (d * w))) d).

Definition fast_quad (w srm : T) (b : T) (tab : list (T * T)) (vec2 vecv : V3) (k r : T) (exact : bool) : Cx :=
  fold_left (fun acc xw =>
               cadd acc (cscale (snd xw) (integrand w srm ((fst xw + half) * b) vec2 vecv k r exact)))
            tab c0.

(* psi: scale is +-0.5 or +-1; the half used is the one scale points to *)
Definition psi (w srm : T) (vec2 vecv : V3) (k : T) (scale : T) (kp : kparam) (exact0 : bool) (fvs : bool) : Cx :=
  let r := kp_r kp in
  let sl := kp_len kp in
  let d0 := v3norm vec2 in
  let d3 := v3norm vecv in
  let s4 := nabs scale * sl in
  let t := (d0 + d3) / sl in
  let exact := exact0 && leb t (of_dec 11 (-1)) in
  (* f2 is an integer array in the code: 2*|scale| truncated *)
  let f2 := if exact then of_Z (ntrunc (two * nabs scale)) else one in
  if exact && leb r srm then
    let fv := if fvs then two else one in
    (fv * nln (sl / r), - (half * fv * w * sl))
  else
    let tab := if exact then gauss8
               else if ltb (of_Z 10) t then gauss2
               else if ltb (of_Z 6) t then gauss4 else gauss8 in
    let q := fast_quad w srm (one / f2) tab vec2 vecv k r exact in
    let i6 := if exact then kp_i6 kp else zero in
    cscale s4 (cadd q (cofR i6)).

End Kernel.
