(* Geometry objects, transformations and segmentation
   (Wire / Arc / Helix / Rotation_Matrix / Geo_Container / Segment). *)
From Coq Require Import ZArith List Bool Arith.
From PM Require Import Base.Num Base.Cplx Model.Taper Model.Topology.
Import ListNotations.

Section Geometry.
Context {N : Num}.
Local Open Scope num_scope.

(* an object before segmentation: a straight wire by its end points, or a
   curve by its list of segment ends *)
Inductive shape :=
| SWire (nseg : nat) (p1 p2 : V3) (taper : nat) (tmin tmax : option T)
| SCurve (pts : list V3).
Record gobj := mkG { g_shape : shape; g_r : T; g_tag : Z }.

(* ---- constructors of the curves ---- *)
Definition deg2rad (d : T) : T := d / of_Z 180 * npi.

Definition arc_points (nseg : nat) (radius ang1 ang2 : T) : list V3 :=
  let a1 := deg2rad ang1 in
  let a2 := deg2rad ang2 in
  map (fun i => let a := a1 + (a2 - a1) / ofn nseg * ofn i in (radius * ncos a, zero, radius * nsin a))
      (seq 0 nseg)
  ++ [(radius * ncos a2, zero, radius * nsin a2)].

Definition nsign (x : T) : T := if ltb zero x then one else if ltb x zero then - one else zero.
Definition nmodp (x y : T) : T := x - of_Z (nfloor (x / y)) * y.   (* x mod y for x >= 0, y > 0 *)

Definition helix_point (len turnlen : T) (s xm ym z : T) : V3 :=
  let a := s * nmodp z (nabs turnlen) / nabs turnlen * two * npi in
  if ltb len zero then (- xm * nsin a, ym * ncos a, z) else (xm * ncos a, ym * nsin a, z).

Definition helix_points (nseg : nat) (len turnlen rx1 ry1 rx2 ry2 : T) : list V3 :=
  let s := nsign (len * turnlen) in
  map (fun i => let f := ofn i / ofn nseg in
                let z := f * nabs len in
                helix_point len turnlen s (f * (rx2 - rx1) + rx1) (f * (ry2 - ry1) + ry1) z)
      (seq 0 nseg)
  ++ [helix_point len turnlen s rx2 ry2 (nabs len)].

(* ---- transformations ---- *)
Definition M3 : Type := (V3 * V3 * V3)%type.   (* rows *)
Definition m3row (m : M3) (k : nat) : V3 := match k with O => fst (fst m) | S O => snd (fst m) | _ => snd m end.
Definition m3apply (m : M3) (v : V3) : V3 := (v3dot (fst (fst m)) v, v3dot (snd (fst m)) v, v3dot (snd m) v).
Definition m3col (m : M3) (k : nat) : V3 :=
  match k with
  | O => (vx (fst (fst m)), vx (snd (fst m)), vx (snd m))
  | S O => (vy (fst (fst m)), vy (snd (fst m)), vy (snd m))
  | _ => (vz (fst (fst m)), vz (snd (fst m)), vz (snd m))
  end.
Definition m3mul (a b : M3) : M3 :=
  ((v3dot (fst (fst a)) (m3col b 0), v3dot (fst (fst a)) (m3col b 1), v3dot (fst (fst a)) (m3col b 2)),
   (v3dot (snd (fst a)) (m3col b 0), v3dot (snd (fst a)) (m3col b 1), v3dot (snd (fst a)) (m3col b 2)),
   (v3dot (snd a) (m3col b 0), v3dot (snd a) (m3col b 1), v3dot (snd a) (m3col b 2))).
Definition rot_x (a : T) : M3 := ((one, zero, zero), (zero, ncos a, - nsin a), (zero, nsin a, ncos a)).
Definition rot_y (a : T) : M3 := ((ncos a, zero, nsin a), (zero, one, zero), (- nsin a, zero, ncos a)).
Definition rot_z (a : T) : M3 := ((ncos a, - nsin a, zero), (nsin a, ncos a, zero), (zero, zero, one)).
(* Rotation_Matrix: rotation about X, then Y, then Z (angles in degrees) *)
Definition rotation (ax ay az : T) : M3 :=
  m3mul (m3mul (rot_z (deg2rad az)) (rot_y (deg2rad ay))) (rot_x (deg2rad ax)).

Inductive transform :=
| TRot (key : T) (ax ay az : T) (tag : option Z)
| TTrans (key : T) (d : V3) (tag : option Z).
Definition t_key (t : transform) : T := match t with TRot k _ _ _ _ => k | TTrans k _ _ => k end.

Definition map_points (f : V3 -> V3) (s : shape) : shape :=
  match s with
  | SWire n p1 p2 tp a b => SWire n (f p1) (f p2) tp a b
  | SCurve pts => SCurve (map f pts)
  end.
Definition applies (tag : option Z) (g : gobj) : bool :=
  match tag with None => true | Some t => Z.eqb t (g_tag g) end.
Definition apply_transform (t : transform) (g : gobj) : gobj :=
  match t with
  | TRot _ ax ay az tag =>
      if applies tag g then mkG (map_points (m3apply (rotation ax ay az)) (g_shape g)) (g_r g) (g_tag g) else g
  | TTrans _ d tag =>
      if applies tag g then mkG (map_points (fun p => v3add p d) (g_shape g)) (g_r g) (g_tag g) else g
  end.
Definition apply_scale (fc : T * option Z) (g : gobj) : gobj :=
  if applies (snd fc) g
  then mkG (map_points (fun p => v3scale (fst fc) p) (g_shape g)) (g_r g * fst fc) (g_tag g) else g.

(* stable insertion sort by key (Python's sorted) *)
Fixpoint insert_t (t : transform) (l : list transform) : list transform :=
  match l with
  | [] => [t]
  | x :: r => if leb (t_key t) (t_key x) then t :: l else x :: insert_t t r
  end.
Definition sort_transforms (l : list transform) : list transform := fold_right insert_t [] l.

(* main(): transformations in key order, then all scalings *)
Definition transform_all (ts : list transform) (scs : list (T * option Z)) (gs : list gobj) : list gobj :=
  let gs1 := fold_left (fun gs t => map (apply_transform t) gs) (sort_transforms ts) gs in
  fold_left (fun gs s => map (apply_scale s) gs) scs gs1.

(* ---- segmentation ---- *)
Definition mk_segment (p1 p2 : V3) : seg :=
  let d := v3sub p2 p1 in
  let l := v3norm d in
  mkSeg p1 p2 l (v3divr d l).

Fixpoint pairwise_segs (pts : list V3) : list seg :=
  match pts with
  | a :: ((b :: _) as r) => mk_segment a b :: pairwise_segs r
  | _ => []
  end.

(* compute_equal_segments: end points p1 + (i+1) * dir * seglen; stored length
   and direction are the wire's *)
Fixpoint equal_from (fuel i : nat) (p1 s0 dir : V3) (sl : T) : list seg :=
  match fuel with
  | O => []
  | S f =>
      let s1 := v3add p1 (v3scale sl (v3scale (ofn (S i)) dir)) in
      mkSeg s0 s1 sl dir :: equal_from f (S i) p1 s1 dir sl
  end.
Definition equal_segments (nseg : nat) (p1 p2 : V3) : list seg :=
  let d := v3sub p2 p1 in
  let wl := v3norm d in
  equal_from nseg 0 p1 p1 (v3divr d wl) (wl / ofn nseg).

Definition segs_of_pairs (l : list (V3 * V3)) : list seg := map (fun s => mk_segment (fst s) (snd s)) l.

(* Wire.compute_segments: tapering falls back to equal segments on Taper_Error and when a taper
   precondition / postcondition assertion fails *)
Definition segments_of (g : gobj) : tresult (list seg) :=
  match g_shape g with
  | SCurve pts => TOk (pairwise_segs pts)
  | SWire n p1 p2 tp tmin tmax =>
      let mn := match tmin with Some v => v | None => zero end in
      match tp with
      | O => TOk (equal_segments n p1 p2)
      | S (S (S _)) =>
          match taper2 p1 p2 n (g_r g) mn tmax with
          | TOk l => TOk (segs_of_pairs l)
          | TaperError => TOk (equal_segments n p1 p2)
          | AssertFail _ => TOk (equal_segments n p1 p2)
          end
      | S t01 =>
          match taper1 p1 p2 n (g_r g) mn tmax (Nat.eqb t01 1) with
          | TOk l => TOk (segs_of_pairs l)
          | TaperError => TOk (equal_segments n p1 p2)
          | AssertFail _ => TOk (equal_segments n p1 p2)
          end
      end
  end.

End Geometry.
