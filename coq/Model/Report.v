(* Report layer, part 1: junction / end lines of the CURRENT DATA block
   (Mininec.currents_as_mininec) and pulse addressing. *)
From Coq Require Import ZArith List Bool Arith.
From PM Require Import Base.Num Base.Cplx Model.Topology.
Import ListNotations.

Section Report.
Context {N : Num}.

(* all wire ends with their status, in object order *)
Fixpoint ends_from (i : nat) (sts : list (status * status)) : list (nat * bool * status) :=
  match sts with
  | [] => []
  | (s0, s1) :: r => (i, false, s0) :: (i, true, s1) :: ends_from (S i) r
  end.

Definition joins (i0 : nat) (e0 : bool) (x : nat * bool * status) : bool :=
  match snd x with
  | Joined j e2 _ => Nat.eqb j i0 && Bool.eqb e2 e0
  | _ => false
  end.

(* the later ends that were joined to end e0 of object i0, in object order *)
Definition joiners (t : topology) (i0 : nat) (e0 : bool) : list (nat * bool * status) :=
  filter (joins i0 e0) (ends_from O (tp_status t)).

Definition same_of (s : status) : bool := match s with Joined _ _ same => same | _ => true end.
Definition sgnC (b : bool) : Cx := if b then c1 else copp c1.

Definition pulse_at (t : topology) (i : nat) (e : bool) : nat :=
  match end_seg t i e with Some p => p | None => O end.

(* term of one joiner in the owner's line: s * I[joiner.end_segs[n1]] *)
Definition joiner_term (t : topology) (I : cvec) (x : nat * bool * status) : Cx :=
  cmul (sgnC (same_of (snd x))) (vnth I (pulse_at t (fst (fst x)) (snd (fst x)))).

(* as the code computes it: at end 2 the terms are summed, at end 1 each term
   overwrites the previous one (c = s * I instead of c += s * I) *)
Definition owner_current_code (t : topology) (I : cvec) (e0 : bool) (J : list (nat * bool * status)) : Cx :=
  if e0 then fold_left (fun c x => cadd c (joiner_term t I x)) J c0
  else fold_left (fun c x => joiner_term t I x) J c0.

(* what Kirchhoff's law needs: the sum at both ends *)
Definition owner_current_sum (t : topology) (I : cvec) (J : list (nat * bool * status)) : Cx :=
  fold_left (fun c x => cadd c (joiner_term t I x)) J c0.

Inductive endline := NoLine | ELine | JLine (c : Cx).

Definition end_line (t : topology) (I : cvec) (i : nat) (e : bool) : endline :=
  let st := nth i (tp_status t) (Free, Free) in
  match (if e then snd st else fst st) with
  | Grounded => NoLine
  | Joined _ _ _ => JLine (vnth I (pulse_at t i e))
  | Free =>
      match joiners t i e with
      | [] => ELine
      | J => JLine (owner_current_code t I e J)
      end
  end.

(* current through a wire end, positive into the junction *)
Definition into (e : bool) : Cx := if e then c1 else copp c1.

(* ---------- addressing ---------- *)
(* tags: explicit ones must be positive and distinct; untagged objects get
   max+1, max+2, ... in list order; objects are then sorted by tag *)
Fixpoint auto_tags (next : Z) (tags : list (option Z)) : list Z :=
  match tags with
  | [] => []
  | Some t :: r => t :: auto_tags next r
  | None :: r => next :: auto_tags (next + 1)%Z r
  end.
Definition max_tag (tags : list (option Z)) : Z :=
  fold_left (fun m o => match o with Some t => Z.max m t | None => m end) tags 0%Z.
Definition assign_tags (tags : list (option Z)) : list Z := auto_tags (max_tag tags + 1)%Z tags.

Fixpoint index_of (t : Z) (tags : list Z) (i : nat) : option nat :=
  match tags with
  | [] => None
  | x :: r => if Z.eqb x t then Some i else index_of t r (S i)
  end.

(* absolute pulse number (0-based) *)
Definition resolve_abs (t : topology) (p : nat) : option nat :=
  if Nat.ltb p (length (tp_pulses t)) then Some p else None.
(* k-th pulse (0-based) of the object with tag tg; tags = sorted tag list *)
Definition resolve_rel (t : topology) (tags : list Z) (k : nat) (tg : Z) : option nat :=
  match index_of tg tags O with
  | Some i => if Nat.ltb k (length (nth i (tp_by_obj t) [])) then Some (obj_start t i + k)%nat else None
  | None => None
  end.
(* all pulses of one object / of the antenna *)
Definition all_of_object (t : topology) (tags : list Z) (tg : Z) : option (list nat) :=
  match index_of tg tags O with
  | Some i => Some (seq (obj_start t i) (length (nth i (tp_by_obj t) [])))
  | None => None
  end.
Definition all_pulses_idx (t : topology) : list nat :=
  flat_map (fun i => seq (obj_start t i) (length (nth i (tp_by_obj t) []))) (seq 0 (length (tp_by_obj t))).

(* ---------- skeleton of the report (C19): which rows each block has ---------- *)
Inductive crow := RowE | RowJ (c : Cx) | RowPulse (idx : nat) (c : Cx).

Definition is_junction_pulse (p : pulse) : bool :=
  negb (Nat.eqb (fst (fst (pu_segs p))) (fst (snd (pu_segs p)))).

Definition end_rows (l : endline) : list crow :=
  match l with NoLine => [] | ELine => [RowE] | JLine c => [RowJ c] end.

(* numbered rows of one object's block of the current table: its pulses that lie on one object only *)
Definition numbered_idx (t : topology) (i : nat) : list nat :=
  map fst (filter (fun kp => negb (is_junction_pulse (snd kp)))
                  (combine (seq (obj_start t i) (length (nth i (tp_by_obj t) []))) (nth i (tp_by_obj t) []))).
Definition junction_idx (t : topology) (i : nat) : list nat :=
  map fst (filter (fun kp => is_junction_pulse (snd kp))
                  (combine (seq (obj_start t i) (length (nth i (tp_by_obj t) []))) (nth i (tp_by_obj t) []))).

Definition current_block (t : topology) (I : cvec) (i : nat) : list crow :=
  end_rows (end_line t I i false) ++ map (fun k => RowPulse k (vnth I k)) (numbered_idx t i) ++ end_rows (end_line t I i true).

(* pulse numbers of the geometry rows of one object's block *)
Definition geometry_block (t : topology) (i : nat) : list nat :=
  seq (obj_start t i) (length (nth i (tp_by_obj t) [])).

End Report.
