(* taper1 / taper2 of mininec/taper.py as total functions with an explicit
   outcome: the generator's yields collected in a list, Taper_Error, or the
   number of the assertion that fails. *)
From Coq Require Import ZArith List Bool Arith.
From PM Require Import Base.Num Base.Cplx.
Import ListNotations.

Inductive tresult (A : Type) :=
| TOk (x : A)
| TaperError
| AssertFail (k : nat).
Arguments TOk {A} x.
Arguments TaperError {A}.
Arguments AssertFail {A} k.

Section Taper.
Context {N : Num}.
Local Open Scope num_scope.

Definition pow2 (k : nat) : T := of_Z (Z.pow 2 (Z.of_nat k)).
Definition ofn (k : nat) : T := of_Z (Z.of_nat k).
Definition opt_le (x : T) (m : option T) : bool := match m with None => true | Some v => leb x v end.

(* search for the number k of doubling steps when the maximum binds (taper1) *)
Fixpoint t1_search (fuel k n : nat) (l max_t eps : T) : tresult (T * T) :=
  match fuel with
  | O => AssertFail 5
  | S f =>
      match k with
      | O => AssertFail 5
      | _ =>
        let nminl := (l - ofn (n - k) * max_t) / (pow2 k - one) in
        let x := (l - (pow2 k - one) * nminl) / ofn (n - k) in
        if negb (leb (x - eps) max_t) then AssertFail 4 else
        let last := pow2 (k - 1) * nminl in
        if leb last x && leb x (two * last) then TOk (nminl, x)
        else t1_search f (k - 1)%nat n l max_t eps
      end
  end.

(* the yield loop of taper1 (end = 0): i counts up, fuel = segments left *)
Fixpoint t1_loop (fuel : nat) (i n : nat) (state1 : bool) (p p1 p2 lv minc inc1 : V3)
         (eps min_t mt : T) : tresult (list (V3 * V3)) :=
  match fuel with
  | O => TOk []
  | S f =>
      let rem := ofn (n - i) in
      let inc0 := v3scale (pow2 i) minc in
      let inc1' := if state1 then inc1 else v3divr (v3sub lv (v3sub p p1)) rem in
      let incdif := v3norm inc1' - v3norm inc0 - eps in
      let state1' := state1 || ltb incdif zero in
      let inc := if state1' then inc1' else inc0 in
      if Nat.eqb i (n - 1) then
        let d := v3norm (v3sub p2 p) in
        if leb (min_t - eps) d && leb d (mt + eps) then
          match t1_loop f (S i) n state1' (v3add p inc) p1 p2 lv minc inc1' eps min_t mt with
          | TOk r => TOk ((p, p2) :: r) | e => e end
        else AssertFail 7
      else
        let q := v3add p inc in
        let d := v3norm (v3sub q p) in
        if leb (min_t - eps) d && leb d (mt + eps) then
          match t1_loop f (S i) n state1' q p1 p2 lv minc inc1' eps min_t mt with
          | TOk r => TOk ((p, q) :: r) | e => e end
        else AssertFail 7
  end.

Definition taper1_fwd (p1 p2 : V3) (n : nat) (r min_t0 : T) (max_t : option T) : tresult (list (V3 * V3)) :=
  let lv := v3sub p2 p1 in
  let l := v3norm lv in
  let min_t := nmax (of_dec 25 (-1) * r) min_t0 in
  if negb (Nat.ltb 1 n) then AssertFail 1 else
  if ltb (l / ofn n) min_t then TaperError else
  if negb (opt_le min_t max_t) then AssertFail 2 else
  if negb (opt_le (l / ofn n) max_t) then AssertFail 3 else
  let npieces := pow2 n - one in
  let minl0 := l / npieces in
  let minl1 := if ltb minl0 min_t then min_t else minl0 in
  let eps := minl1 / of_Z 10 in
  let minl_r :=
    match max_t with
    | Some mx =>
        let maxl := mx / pow2 (n - 1) in
        if ltb maxl minl1 then
          match t1_search n (n - 1) n l mx eps with
          | TOk (nminl, _) =>
              if negb (ltb maxl nminl) then AssertFail 6
              else TOk (if ltb minl1 nminl then nminl else minl1)
          | TaperError => TaperError
          | AssertFail k => AssertFail k
          end
        else TOk minl1
    | None => TOk minl1
    end in
  match minl_r with
  | TOk minl =>
      let minc := v3scale (minl / l) lv in
      let mt := match max_t with Some mx => if eqb mx zero then l else mx | None => l end in
      t1_loop n 0 n false p1 p1 p2 lv minc v3zero eps min_t mt
  | TaperError => TaperError
  | AssertFail k => AssertFail k
  end.

Definition taper1 (p1 p2 : V3) (n : nat) (r min_t : T) (max_t : option T) (at_end2 : bool)
  : tresult (list (V3 * V3)) :=
  if at_end2 then
    match taper1_fwd p2 p1 n r min_t max_t with
    | TOk l => TOk (map (fun s => (snd s, fst s)) (rev l))
    | e => e
    end
  else taper1_fwd p1 p2 n r min_t max_t.

(* ---------------- taper2 ---------------- *)
(* k runs n-d, n-d-2, ... > 0 *)
Fixpoint t2_search (fuel k n : nat) (l max_t eps : T) : tresult T :=
  match fuel with
  | O => AssertFail 5
  | S f =>
      match k with
      | O => AssertFail 5
      | _ =>
        let c := two * (pow2 (k / 2) - one) in
        let nminl := (l - ofn (n - k) * max_t) / c in
        if negb (ltb zero nminl) then AssertFail 8 else
        let x := (l - c * nminl) / ofn (n - k) in
        if negb (leb (x - eps) max_t) then AssertFail 4 else
        let last := pow2 (k / 2 - 1) * nminl in
        let vlen := c * nminl in
        if leb last x && leb x (two * last) && leb l (ofn (n - k) * x + vlen + eps) then TOk nminl
        else if negb (leb x (two * last)) then AssertFail 9
        else t2_search f (k - 2)%nat n l max_t eps
      end
  end.

(* state: 0 increase, 1 steady, 2 decrease *)
Fixpoint t2_loop (fuel : nat) (i n : nat) (state bound : nat) (p p1 p2 lv minc inc1 : V3) (eps : T)
  : list (V3 * V3) :=
  match fuel with
  | O => []
  | S f =>
      let rem := of_Z (Z.of_nat n - 2 * Z.of_nat i) in
      let inc0 := v3scale (pow2 i) minc in
      let inc1' := if Nat.eqb state 0 then v3divr (v3sub lv (v3scale two (v3sub p p1))) rem else inc1 in
      let incdif := v3norm inc1' - v3norm inc0 - eps in
      let '(state1, bound1) :=
        if Nat.eqb state 0 && ltb incdif zero then (1%nat, (n - i)%nat) else (state, bound) in
      let state2 := if Nat.eqb state1 1 && Nat.leb bound1 i then 2%nat else state1 in
      let inc := if Nat.eqb state2 1 then inc1'
                 else if Nat.eqb state2 2 then v3scale (pow2 (n - i - 1)) minc
                 else inc0 in
      if Nat.eqb i (n - 1) then (p, p2) :: t2_loop f (S i) n state2 bound1 (v3add p inc) p1 p2 lv minc inc1' eps
      else (p, v3add p inc) :: t2_loop f (S i) n state2 bound1 (v3add p inc) p1 p2 lv minc inc1' eps
  end.

Definition taper2 (p1 p2 : V3) (n : nat) (r min_t0 : T) (max_t : option T) : tresult (list (V3 * V3)) :=
  let lv := v3sub p2 p1 in
  let l := v3norm lv in
  let min_t := nmax (of_dec 25 (-1) * r) min_t0 in
  if negb (Nat.ltb 1 n) then AssertFail 1 else
  if ltb (l / ofn n) min_t then TaperError else
  if negb (opt_le min_t max_t) then AssertFail 2 else
  if negb (opt_le (l / ofn n) max_t) then AssertFail 3 else
  let odd := Nat.odd n in
  let h := (n / 2)%nat in
  let npieces := if odd then two * (pow2 h - one) + pow2 h else two * (pow2 h - one) in
  let minl0 := l / npieces in
  let minl1 := if ltb minl0 min_t then min_t else minl0 in
  let eps := minl1 / of_Z 10 in
  let minl_r :=
    match max_t with
    | Some mx =>
        let maxl := if odd then mx / pow2 h else mx / pow2 (h - 1) in
        if ltb maxl (l / npieces) then
          let d := if odd then 1%nat else 2%nat in
          match t2_search n (n - d) n l mx eps with
          | TOk nminl =>
              if negb (ltb maxl nminl) then AssertFail 6
              else TOk (if ltb minl1 nminl then nminl else minl1)
          | TaperError => TaperError
          | AssertFail k => AssertFail k
          end
        else TOk minl1
    | None => TOk minl1
    end in
  match minl_r with
  | TOk minl =>
      let minc := v3scale (minl / l) lv in
      TOk (t2_loop n 0 n 0 0 p1 p1 p2 lv minc v3zero eps)
  | TaperError => TaperError
  | AssertFail k => AssertFail k
  end.

End Taper.
