(* Mininec.compute_near_field / nf_helper / psi_near_field_56, de-vectorised
   (DESIGN.md App. A.4). *)
From Coq Require Import ZArith List Bool Arith.
From PM Require Import Base.Num Base.Cplx Model.Kernel Model.ZMatrix.
Import ListNotations.

Section NearField.
Context {N : Num}.
Local Open Scope num_scope.

Variable w srm w2 : T.
Variable psi_f : V3 -> V3 -> T -> T -> kparam -> bool -> bool -> Cx.

Definition C3 : Type := (Cx * Cx * Cx)%type.
Definition c3z : C3 := (c0, c0, c0).
Definition c3a (a b : C3) : C3 :=
  (cadd (fst (fst a)) (fst (fst b)), cadd (snd (fst a)) (snd (fst b)), cadd (snd a) (snd b)).
Definition c3k (z : Cx) (a : C3) : C3 := (cmul z (fst (fst a)), cmul z (snd (fst a)), cmul z (snd a)).
Definition c3comp (a : C3) (i : nat) : Cx := match i with O => fst (fst a) | S O => snd (fst a) | _ => snd a end.
Definition unit_v (i : nat) (s : T) : V3 := match i with O => (s, zero, zero) | S O => (zero, s, zero) | _ => (zero, zero, s) end.

(* vector potential of one pulse at the observation point (nf_helper): each
   half with its own direction, sign, radius and length *)
Definition nf_helper (k : T) (obs : V3) (p : zpulse) : C3 :=
  let kvv := fun v => kv k v in
  let u := cscale (zp_sign p true)
             (psi_f (v3sub obs (kvv (zp_point p))) (v3sub obs (kvv (endseg p half))) k half (kparam_of p true) false false) in
  let v := cscale (zp_sign p false)
             (psi_f (v3sub obs (kvv (endseg p (- half)))) (v3sub obs (kvv (zp_point p))) k (- half) (kparam_of p false) false false) in
  let d0 := fst (zp_dir p) in let d1 := snd (zp_dir p) in
  let g0 := fst (zp_gsgn p) in let g1 := snd (zp_gsgn p) in
  (cadd (cscale (vx d0) v) (cscale (vx d1) u),
   cadd (cscale (vy d0) v) (cscale (vy d1) u),
   cscale k (cadd (cscale (vz d0 * g0) v) (cscale (vz d1 * g1) u))).

(* scalar potential of the full segment on side pos2 of the pulse, seen from obs + ds0 * s0 e_i *)
Definition psi56 (k : T) (obs : V3) (s0 : T) (i : nat) (pos0 : bool) (p : zpulse) (pos2 : bool) : Cx :=
  let vec1 := v3add obs (unit_v i (if pos0 then s0 / two else - (s0 / two))) in
  let ds2 := if pos2 then one else - one in
  let dv := dvecs p ds2 in
  psi_f (v3sub vec1 (kv k (fst dv))) (v3sub vec1 (kv k (snd dv))) k ds2 (kparam_of p pos2) false true.

(* E-field kernel of one pulse for field component i and image k *)
Definition e_kernel (k : T) (obs : V3) (s0 : T) (p : zpulse) (i : nat) : Cx :=
  let a := nf_helper k obs p in
  let d := cscale (two * s0 * w2) (c3comp a i) in
  let u := cdivr (csub (psi56 k obs s0 i false p true) (psi56 k obs s0 i true p true)) (snd (zp_len p)) in
  let t := cdivr (csub (psi56 k obs s0 i true p false) (psi56 k obs s0 i false p false)) (fst (zp_len p)) in
  cscale k (cadd (cadd u t) d).

Definition image_ok (k : T) (p : zpulse) : bool := if ltb k zero then negb (grounded p) else true.

Definition e_component (ks : list T) (obs : V3) (s0 : T) (ps : list zpulse) (cur : cvec) (i : nat) : Cx :=
  csum (map (fun pc =>
          cmul (csum (map (fun k => if image_ok k (fst pc) then e_kernel k obs s0 (fst pc) i else c0) ks)) (snd pc))
        (combine ps cur)).

(* vector potential A at a displaced point, summed over pulses and images *)
Definition a_total (ks : list T) (obs : V3) (ps : list zpulse) (cur : cvec) : C3 :=
  fold_left c3a (map (fun pc =>
      c3k (snd pc) (fold_left c3a (map (fun k => if image_ok k (fst pc) then c3k (cofR k) (nf_helper k obs (fst pc)) else c3z) ks) c3z))
    (combine ps cur)) c3z.

Definition near_field (m_const s0 power pwr : T) (has_ground : bool) (ps : list zpulse) (cur : cvec) (obs : V3) : C3 * C3 :=
  let ks := if has_ground then [one; - one] else [one] in
  let f_e := nsqrt (pwr / power) in
  let f_h := f_e / s0 / (of_Z 4 * npi) in
  let ec := fun i => cscale f_e (cmul (cdivr (cscale m_const (copp cj)) s0) (e_component ks obs s0 ps cur i)) in
  let A := fun (i : nat) (plus : bool) => a_total ks (v3add obs (unit_v i (if plus then s0 / two else - (s0 / two)))) ps cur in
  let kf := fun (j : bool) (i c : nat) => c3comp (A i j) c in
  let h0 := cadd (csub (kf true 1 2) (kf false 1 2)) (cadd (copp (kf true 2 1)) (kf false 2 1)) in
  let h1 := cadd (csub (kf false 0 2) (kf true 0 2)) (csub (kf true 2 0) (kf false 2 0)) in
  let h2 := cadd (csub (kf true 0 1) (kf false 0 1)) (cadd (copp (kf true 1 0)) (kf false 1 0)) in
  ((ec 0%nat, ec 1%nat, ec 2%nat), (cscale f_h h0, cscale f_h h1, cscale f_h h2)).

End NearField.
