(* Objects of a model and their tags, as the option parser reads them (main: arcs, helices, wires;
   Geo_Container.compute_tags) and as Geo_Container.as_cmdline writes them (C15). *)
From Coq Require Import ZArith List Bool Arith Lia Permutation Sorted.
Import ListNotations.
Local Open Scope Z_scope.

Inductive okind := KArc | KHelix | KWire.
Definition kind_eqb (a b : okind) : bool :=
  match a, b with KArc, KArc | KHelix, KHelix | KWire, KWire => true | _, _ => false end.

(* an object option as given: kind, optional tag, the rest of its fields (opaque) *)
Record oline := mkLine { ol_kind : okind; ol_tag : option Z; ol_body : nat }.
(* an object of the model *)
Record gobj := mkObj { g_kind : okind; g_tag : Z; g_had : bool; g_body : nat }.

(* main reads all --arc options, then all --helix options, then all --wire options *)
Definition by_kind (k : okind) (ls : list oline) : list oline := filter (fun l => kind_eqb (ol_kind l) k) ls.
Definition read_order (ls : list oline) : list oline := by_kind KArc ls ++ by_kind KHelix ls ++ by_kind KWire ls.

Definition explicit_tags (ls : list oline) : list Z :=
  flat_map (fun l => match ol_tag l with Some t => [t] | None => [] end) ls.
Definition max_tag (ls : list oline) : Z := fold_right Z.max 0 (explicit_tags ls).

(* Geo_Container.compute_tags: untagged objects get max+1, max+2, ... in list order *)
Fixpoint assign (next : Z) (ls : list oline) : list gobj :=
  match ls with
  | [] => []
  | l :: r => match ol_tag l with
              | Some t => mkObj (ol_kind l) t true (ol_body l) :: assign next r
              | None => mkObj (ol_kind l) next false (ol_body l) :: assign (next + 1) r
              end
  end.

(* sort by tag (insertion sort; tags are distinct) *)
Fixpoint insert (g : gobj) (l : list gobj) : list gobj :=
  match l with
  | [] => [g]
  | h :: t => if g_tag g <=? g_tag h then g :: l else h :: insert g t
  end.
Fixpoint sort (l : list gobj) : list gobj := match l with [] => [] | h :: t => insert h (sort t) end.

Fixpoint nodupb (l : list Z) : bool :=
  match l with [] => true | x :: r => negb (existsb (Z.eqb x) r) && nodupb r end.
Definition valid (ls : list oline) : bool := forallb (fun t => 0 <? t) (explicit_tags ls) && nodupb (explicit_tags ls).

Definition read_objs (ls : list oline) : option (list gobj) :=
  if valid ls then Some (sort (assign (max_tag ls + 1) (read_order ls))) else None.

(* Geo_Container.as_cmdline: objects in model order, the tag only when it was given *)
Definition write_objs (gs : list gobj) : list oline :=
  map (fun g => mkLine (g_kind g) (if g_had g then Some (g_tag g) else None) (g_body g)) gs.
