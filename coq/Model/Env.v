(** The ENVIRONMENT block of the report (Mininec.environment_as_mininec, Medium.as_mininec): which lines appear, in which
    order, for a list of media.  Hand-written model; tied to the code by the correspondence stage `env` (py/stage_rep.py). *)
From Coq Require Import List Bool Arith.
Import ListNotations.

Inductive eline := LConst | LRadN | LRadR | LCoord | LHeight.

Definition eline_eq_dec (a b : eline) : {a = b} + {a <> b}.
Proof. decide equality. Defined.

Record med := mkMed { m_ideal : bool; m_rad : bool }.

(* Medium.as_mininec: constants unless ideal; the radial screen; the interface towards the next medium; the height of
   every medium that has a predecessor *)
Definition medium_lines (ideal rad has_next has_prev : bool) : list eline :=
  (if ideal then [] else [LConst]) ++ (if rad then [LRadN; LRadR] else [])
  ++ (if has_next then [LCoord] else []) ++ (if has_prev then [LHeight] else []).

Fixpoint env_from (first : bool) (l : list med) : list eline :=
  match l with
  | [] => []
  | m :: tl => medium_lines (m_ideal m) (m_rad m) (match tl with [] => false | _ => true end) (negb first)
               ++ env_from false tl
  end.

Definition env_lines (l : list med) : list eline := env_from true l.

Definition code (e : eline) : nat :=
  match e with LConst => 3 | LRadN => 4 | LRadR => 5 | LCoord => 6 | LHeight => 7 end.

(* environment_as_mininec: 0 = free space line, 1 = ground plane line, 10 + n = NUMBER OF MEDIA n, 21 / 22 = TYPE OF
   BOUNDARY 1 (linear) / 2 (circular: asked for, or forced by a radial screen) *)
Definition env_report (circ : bool) (media : option (list med)) : list nat :=
  match media with
  | None => [0]
  | Some l =>
    let ln := match l with [m] => if m_ideal m then 0 else 1 | _ => length l end in
    [1; 10 + ln] ++ (if 1 <? length l then [if circ then 22 else 21] else []) ++ (if 0 <? ln then map code (env_lines l) else [])
  end.

(* the block of the i-th of n media, by position *)
Definition block (n i : nat) (m : med) : list eline :=
  medium_lines (m_ideal m) (m_rad m) (S i <? n) (0 <? i).
