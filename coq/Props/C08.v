(* C08 — Loads act as the series circuit elements they describe.
   load_diag, rhs_entry, src_impedance, laplace_imp, rlc_coeffs, trap_coeffs,
   ins_zins, ins_half, r_equiv, skin_zint, cond_of_res are extracted from the
   source on every run; load_matrix (Model/Solve.v) and the padding /
   per-pulse sums (Model/Loads.v) are tied to the code by correspondence
   stages `lin` and `dload`. *)
From Coq Require Import ZArith List Reals.
From Coquelicot Require Import Coquelicot.
From PM Require Import Base.Num Base.RNum Base.Cplx Base.CplxR Gen.Extracted Model.Solve Model.Loads
     Proofs.CxAlg Proofs.Linear Proofs.Loads Proofs.Circuit Proofs.Distributed Model.Attach Proofs.AttachP.
Import ListNotations.

(* a lumped load z on the feed pulse raises the feed impedance by exactly z —
   for any nonsingular unloaded matrix, also on a grounded pulse *)
Theorem C08_feed_load_adds :
  forall (n : nat) (Z0 : matR) (m : R) (gnd : nat -> bool) (h : bool) (j : nat) (V z : CR) (I I' : vecR),
    square n Z0 -> injective_on n Z0 -> (j < n)%nat -> m <> 0%R ->
    (gnd j = true -> h = true) ->
    length I = n -> length I' = n ->
    V <> RtoC 0 -> vnth I j <> RtoC 0 -> vnth I' j <> RtoC 0 ->
    mvmul Z0 I = rhs_vec m gnd n [mkSource j V] ->
    mvmul (load_matrix m gnd h Z0 [mkLoad j z]) I' = rhs_vec m gnd n [mkSource j V] ->
    src_impedance V (vnth I' j) = cadd (src_impedance V (vnth I j)) z.
Proof. exact feed_load_adds_proof. Qed.
Print Assumptions C08_feed_load_adds.

(* every attachment adds -j*w/m*z to its own diagonal entry and nothing else:
   loads on one pulse act as their sum, independent of order *)
Theorem C08_loads_on_diagonal :
  forall m gnd h n (Z0 : matR) loads i k, square n Z0 ->
    mnth (load_matrix m gnd h Z0 loads) i k =
    if Nat.eqb i k then cadd (mnth Z0 i k) (load_sum m gnd h n i loads) else mnth Z0 i k.
Proof. exact mnth_load_matrix. Qed.
Print Assumptions C08_loads_on_diagonal.

Theorem C08_loads_sum :
  forall m gnd h n (Z0 : matR) j (z1 z2 : CR) i k, square n Z0 ->
    mnth (load_matrix m gnd h Z0 [mkLoad j z1; mkLoad j z2]) i k =
    mnth (load_matrix m gnd h Z0 [mkLoad j (cadd z1 z2)]) i k.
Proof. exact loads_sum_proof. Qed.
Print Assumptions C08_loads_sum.

Theorem C08_zero_load_noop :
  forall m gnd h n (Z0 : matR) j i k, square n Z0 ->
    mnth (load_matrix m gnd h Z0 [mkLoad j c0]) i k = mnth Z0 i k.
Proof. exact zero_load_noop_proof. Qed.
Print Assumptions C08_zero_load_noop.

Theorem C08_load_weight :
  forall (m : R) g h (z : CR) j, m <> 0%R ->
    @load_diag RNum m g h z j = cmul (cscale ((if (g && h)%bool then 2 else 1) / m)%R (copp cj)) z.
Proof. exact load_diag_eq. Qed.
Print Assumptions C08_load_weight.

(* Laplace load: ratio of the two polynomials in s = j 2 pi f 1e6 *)
Theorem C08_laplace_is_ratio :
  forall (f : R) (a b : list R), length a = length b ->
    @laplace_imp RNum f a b = cdiv (cpoly b (laplace_s f)) (cpoly a (laplace_s f)).
Proof. exact laplace_imp_ratio. Qed.
Print Assumptions C08_laplace_is_ratio.

Theorem C08_rlc_is_series :
  forall (f r l c : R), f <> 0%R -> c <> 0%R ->
    @rlc_load_imp RNum f r l c =
    series (z_R r) (series (z_L l (laplace_s f)) (z_C c (laplace_s f))).
Proof. exact rlc_series_proof. Qed.
Print Assumptions C08_rlc_is_series.

Theorem C08_rl_is_series :
  forall (f r l : R), @rlc_load_imp RNum f r l 0 = series (z_R r) (z_L l (laplace_s f)).
Proof. exact rl_series_proof. Qed.
Print Assumptions C08_rl_is_series.

Theorem C08_trap_is_parallel :
  forall (f r l c : R), f <> 0%R -> c <> 0%R ->
    ((1 - l * c * wof f * wof f) * (1 - l * c * wof f * wof f) + (r * c * wof f) * (r * c * wof f) <> 0)%R ->
    @trap_load_imp RNum f r l c =
    parallel (series (z_R r) (z_L l (laplace_s f))) (z_C c (laplace_s f)).
Proof. exact trap_parallel_proof. Qed.
Print Assumptions C08_trap_is_parallel.

Theorem C08_insulation_eps1_noop :
  forall (radius r omg len : R), (0 < r)%R -> (0 < radius)%R ->
    @ins_zins RNum 1%R radius r = 0%R /\
    @ins_half RNum (ins_zins 1%R radius r) omg len = c0 /\
    @r_equiv RNum r radius 1%R = r.
Proof. exact ins_eps1_noop_proof. Qed.
Print Assumptions C08_insulation_eps1_noop.

Theorem C08_resistivity_conductivity :
  forall s : R, s <> 0%R -> @cond_of_res RNum (1 / s)%R = s.
Proof. exact resistivity_conductivity_proof. Qed.
Print Assumptions C08_resistivity_conductivity.

(* distributed loads: per-length impedance times the length of real conductor
   the pulse represents (the image half of a grounded pulse counts nothing) *)
Theorem C08_distributed_length_skin :
  forall (zint : CR) (l0 l1 : R) (i0 i1 : bool),
    let h0 := mkHalf l0 i0 (Some zint) None in
    let h1 := mkHalf l1 i1 (Some zint) None in
    skin_pulse h0 h1 = cscale (real_len h0 + real_len h1)%R zint.
Proof. exact skin_same_wire_proof. Qed.
Print Assumptions C08_distributed_length_skin.

Theorem C08_distributed_length_junction :
  forall (z0 z1 : CR) (l0 l1 : R),
    skin_pulse (mkHalf l0 false (Some z0) None) (mkHalf l1 false (Some z1) None) =
    cadd (cscale (l0 / 2)%R z0) (cscale (l1 / 2)%R z1) /\
    skin_pulse (mkHalf l0 false (Some z0) None) (mkHalf l1 false None None) = cscale (l0 / 2)%R z0.
Proof. exact skin_junction_proof. Qed.
Print Assumptions C08_distributed_length_junction.

Theorem C08_distributed_length_insulation :
  forall (omg zins l0 l1 : R) (i0 i1 : bool),
    let h0 := mkHalf l0 i0 None (Some zins) in
    let h1 := mkHalf l1 i1 None (Some zins) in
    ins_pulse omg h0 h1 = (0%R, (zins * omg * (real_len h0 + real_len h1))%R).
Proof. exact ins_pulse_proof. Qed.
Print Assumptions C08_distributed_length_insulation.

(* WHICH pulses carry a distributed load (Model/Attach.v: the load of an object is attached to the pulses the object owns,
   fix_distributed_loads adds the junction pulses of which exactly one half lies on a loaded object; tie: stage `attach`).
   For every pulse owned by one of the objects its halves lie on -- all pulses the topology builds -- and every set of
   loaded objects: the pulse is on exactly one load list as soon as one of its halves lies on a loaded object, on none
   otherwise ... *)
Theorem C08_distributed_attached_once :
  forall (loaded : nat -> bool) (objs : list nat) (p : apulse),
    NoDup objs -> In (ap_g0 p) objs -> In (ap_g1 p) objs -> (ap_owner p = ap_g0 p \/ ap_owner p = ap_g1 p) ->
    length (filter (attached loaded p) objs) = if (loaded (ap_g0 p) || loaded (ap_g1 p))%bool then 1%nat else 0%nat.
Proof. exact attached_once. Qed.
Print Assumptions C08_distributed_attached_once.

(* ... hence every half-segment of loaded conductor a pulse represents is charged exactly once, every other half never *)
Theorem C08_distributed_half_charged_once :
  forall (loaded : nat -> bool) (objs : list nat) (p : apulse) (h : bool),
    NoDup objs -> In (ap_g0 p) objs -> In (ap_g1 p) objs -> (ap_owner p = ap_g0 p \/ ap_owner p = ap_g1 p) ->
    charged loaded objs p h = if loaded (if h then ap_g1 p else ap_g0 p) then 1%nat else 0%nat.
Proof. exact half_charged_once. Qed.
Print Assumptions C08_distributed_half_charged_once.

(* the one-sided rule (only the second half is looked at) loses the junction pulse of a bare wire whose first half lies
   on the loaded wire *)
Theorem C08_one_sided_rule_refuted :
  let loaded := fun g => Nat.eqb g 0 in
  let p := mkAP 1 0 1 in
  length (filter (attached_second_only loaded p) [0; 1]%nat) = 0%nat /\ length (filter (attached loaded p) [0; 1]%nat) = 1%nat.
Proof. exact second_only_refuted. Qed.
Print Assumptions C08_one_sided_rule_refuted.
