(* C13 — Segmentation tiles each object; tapers, arcs, helices, transforms as
   documented.  Model/Geometry.v + Model/Taper.v are tied to Wire / Arc /
   Helix / Rotation_Matrix / Geo_Container / taper.py by correspondence stage
   `geom` (every segment's end points, length and direction after random
   keyed transformations and scalings; tapers of all three kinds with and
   without limits; assertion outcomes). *)
From Coq Require Import ZArith List Bool Arith Reals Sorting.Sorted Sorting.Permutation.
From PM Require Import Base.Num Base.RNum Base.Cplx Model.Taper Model.Topology Model.Geometry
     Proofs.GeometryP Proofs.GeometryR.
Import ListNotations.

(* plain wire: n segments of the same length that chain from end 1 to end 2 *)
Theorem C13_equal :
  forall (n : nat) (p1 p2 : V3R), (0 < n)%nat -> p2 <> p1 ->
    let sg := equal_segments n p1 p2 in
    let L := v3norm (v3sub p2 p1) in
    length sg = n /\ seg_chain p1 sg /\
    sg_p2 (nth (n - 1) sg seg_default) = p2 /\
    (forall k, (k < n)%nat -> sg_len (nth k sg seg_default) = (L / INR n)%R /\
                              v3norm (sg_dir (nth k sg seg_default)) = 1%R /\
                              sg_p2 (nth k sg seg_default) =
                                v3add p1 (@v3scale RNum (INR (S k) * (L / INR n))%R (sg_dir (nth k sg seg_default)))).
Proof. exact equal_segments_proof. Qed.
Print Assumptions C13_equal.

(* one-sided taper: when accepted, exactly n pieces that chain from p1 to p2
   (every numeric instance); the length window [min - eps, max + eps] is
   enforced by the code's own assertions (outcome AssertFail 7 otherwise) *)
Theorem C13_taper1 :
  forall (N : Num) p1 p2 n r min_t max_t l,
    taper1_fwd p1 p2 n r min_t max_t = TOk l ->
    length l = n /\ chain p1 l /\ last_end l p2 = p2.
Proof. intros N. exact taper1_fwd_spec. Qed.
Print Assumptions C13_taper1.

(* tapering from the other end is the mirror image *)
Theorem C13_taper1_mirror :
  forall (N : Num) p1 p2 n r min_t max_t l,
    taper1 p1 p2 n r min_t max_t true = TOk l ->
    exists l', taper1_fwd p2 p1 n r min_t max_t = TOk l' /\ l = map (fun s => (snd s, fst s)) (rev l').
Proof. exact taper1_mirror_proof. Qed.
Print Assumptions C13_taper1_mirror.

Theorem C13_taper2 :
  forall (N : Num) p1 p2 n r min_t max_t l,
    taper2 p1 p2 n r min_t max_t = TOk l ->
    length l = n /\ chain p1 l /\ last_end l p2 = p2.
Proof. intros N. exact taper2_spec. Qed.
Print Assumptions C13_taper2.

(* arcs: n+1 segment ends on the circle of the given radius in the XZ plane at
   uniform angular steps from ang1 to ang2 *)
Theorem C13_arc_on_circle :
  forall (n : nat) (radius a1 a2 : R) (k : nat), (k <= n)%nat -> (0 < n)%nat ->
    let p := nth k (@arc_points RNum n radius a1 a2) v3zero in
    let ang := (@deg2rad RNum a1 + (@deg2rad RNum a2 - @deg2rad RNum a1) / INR n * INR k)%R in
    p = (radius * cos ang, 0, radius * sin ang)%R /\
    (vx p * vx p + vz p * vz p = radius * radius)%R /\ vy p = 0%R.
Proof. exact arc_point_proof. Qed.
Print Assumptions C13_arc_on_circle.

Theorem C13_curve_counts :
  forall (N : Num) n radius a1 a2 len tl rx1 ry1 rx2 ry2,
    length (arc_points n radius a1 a2) = S n /\
    length (helix_points n len tl rx1 ry1 rx2 ry2) = S n /\
    (forall pts : list V3, length (pairwise_segs pts) = (length pts - 1)%nat) /\
    (forall (pts : list V3) p, hd p pts = p -> seg_chain p (pairwise_segs pts)).
Proof. exact curve_counts_proof. Qed.
Print Assumptions C13_curve_counts.

(* helix: every segment end lies on the ellipse with the (tapered) semi-axes
   at its height *)
Theorem C13_helix_on_ellipse :
  forall (len tl s xm ym z : R), xm <> 0%R -> ym <> 0%R ->
    let p := @helix_point RNum len tl s xm ym z in
    ((vx p / xm) * (vx p / xm) + (vy p / ym) * (vy p / ym) = 1)%R /\ vz p = z.
Proof. exact helix_point_on_ellipse. Qed.
Print Assumptions C13_helix_on_ellipse.

(* rotations preserve every length and angle; order is X, then Y, then Z *)
Theorem C13_rotation_isometry :
  forall (ax ay az : R) (u v : V3R),
    v3dot (m3apply (@rotation RNum ax ay az) u) (m3apply (@rotation RNum ax ay az) v) = v3dot u v /\
    v3norm (v3sub (m3apply (@rotation RNum ax ay az) u) (m3apply (@rotation RNum ax ay az) v)) = v3norm (v3sub u v).
Proof. exact rotation_isometry_proof. Qed.
Print Assumptions C13_rotation_isometry.

Theorem C13_rotation_order :
  forall (ax ay az : R) (v : V3R),
    m3apply (@rotation RNum ax ay az) v =
    m3apply (@rot_z RNum (@deg2rad RNum az)) (m3apply (@rot_y RNum (@deg2rad RNum ay)) (m3apply (@rot_x RNum (@deg2rad RNum ax)) v)).
Proof. exact rotation_order_proof. Qed.
Print Assumptions C13_rotation_order.

(* transformations act in sort-key order: the applied sequence is a sorted
   permutation of the requested one *)
Theorem C13_transform_order :
  forall l : list (@transform RNum),
    StronglySorted key_le (sort_transforms l) /\ Permutation l (sort_transforms l).
Proof. exact sort_sorted_proof. Qed.
Print Assumptions C13_transform_order.

(* scaling multiplies all lengths by the factor *)
Theorem C13_scale :
  forall (k : R) (a b : V3R),
    v3norm (v3sub (@v3scale RNum k a) (@v3scale RNum k b)) = (Rabs k * v3norm (v3sub a b))%R.
Proof. exact scale_distance_proof. Qed.
Print Assumptions C13_scale.
