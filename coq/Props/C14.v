(* C14 — Results depend only on the inputs: no history, no run-to-run variation.
   Model/History.v: the per-object caches (zint: frequency dependent, cleared
   by the frequency setter; zins: frequency independent) as a state machine
   over SetF / Compute / FarField / NearField.  The tie to the code is the
   `hist` stage: random operation sequences on ONE real object against fresh
   objects (the property itself, decided on the real code), per-step load
   impedances against the model (stage dload, two frequencies on one object),
   and byte comparison of report and option file across fresh processes. *)
From Coq Require Import ZArith List Bool Arith Sorting.Permutation.
From PM Require Import Base.Num Base.Cplx Model.History Proofs.HistoryP.
Import ListNotations.

(* after ANY sequence of operations the cached values compute() uses are those
   of a fresh object at the current frequency *)
Theorem C14_history_free :
  forall (N : Num) (zint_of : T -> nat -> Cx) (zins_of : nat -> T) (nobj : nat) f0 ops i,
    let s := hrun zint_of zins_of nobj (fresh nobj f0) ops in
    used_zint zint_of s i = zint_of (h_f s) i /\ used_zins zins_of s i = zins_of i.
Proof. intros N. exact history_free_proof. Qed.
Print Assumptions C14_history_free.

(* step k of a sweep: the frequency in force is the last one set *)
Theorem C14_sweep_step :
  forall (N : Num) (zint_of : T -> nat -> Cx) (zins_of : nat -> T) (nobj : nat) f0 ops f,
    h_f (hrun zint_of zins_of nobj (fresh nobj f0) (ops ++ [SetF f; Compute])) = f.
Proof. intros N. exact last_frequency_proof. Qed.
Print Assumptions C14_sweep_step.

(* computing twice, or requesting fields in any order, changes no cache *)
Theorem C14_repeat_idempotent :
  forall (N : Num) (zint_of : T -> nat -> Cx) (zins_of : nat -> T) (nobj : nat) (s : hstate),
    inv zint_of zins_of nobj s ->
    hstep zint_of zins_of nobj s FarField = s /\ hstep zint_of zins_of nobj s NearField = s /\
    forall i, used_zint zint_of (hstep zint_of zins_of nobj (hstep zint_of zins_of nobj s Compute) Compute) i =
              used_zint zint_of (hstep zint_of zins_of nobj s Compute) i.
Proof. exact repeat_idempotent_proof. Qed.
Print Assumptions C14_repeat_idempotent.

(* the option writer sorts the objects of a load: the lines do not depend on
   the iteration order of the set they are collected in *)
Theorem C14_writer_order_free :
  forall l1 l2 : list nat, Permutation l1 l2 -> sort_nat l1 = sort_nat l2.
Proof. exact writer_order_free_proof. Qed.
Print Assumptions C14_writer_order_free.
