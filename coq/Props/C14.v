(* C14 — Results depend only on the inputs: no history, no run-to-run variation.
   Model/History.v: the per-object caches (zint: frequency dependent, cleared
   by the frequency setter; zins: frequency independent) as a state machine
   over SetF / Compute / FarField / NearField.  The tie to the code is the
   `hist` stage: random operation sequences on ONE real object against fresh
   objects (the property itself, decided on the real code), per-step load
   impedances against the model (stage dload, two frequencies on one object),
   and byte comparison of report and option file across fresh processes. *)
From Coq Require Import ZArith List Bool Arith Sorting.Permutation.
From PM Require Import Base.Num Base.Cplx Model.History Proofs.HistoryP Model.Session Proofs.SessionP.
Import ListNotations.

(* after ANY sequence of operations the cached values compute() uses are those
   of a fresh object at the current frequency *)
Theorem C14_history_free :
  forall (N : Num) (zint_of : T -> nat -> Cx) (zins_of : nat -> T) (nobj : nat) f0 ops i,
    let s := hrun zint_of zins_of nobj (fresh nobj f0) ops in
    used_zint zint_of s i = zint_of (h_f s) i /\ used_zins zins_of s i = zins_of i.
Proof. intros N. exact history_free_proof. Qed.
Print Assumptions C14_history_free.

(* step k of a sweep: the frequency in force is the last one set *)
Theorem C14_sweep_step :
  forall (N : Num) (zint_of : T -> nat -> Cx) (zins_of : nat -> T) (nobj : nat) f0 ops f,
    h_f (hrun zint_of zins_of nobj (fresh nobj f0) (ops ++ [SetF f; Compute])) = f.
Proof. intros N. exact last_frequency_proof. Qed.
Print Assumptions C14_sweep_step.

(* computing twice, or requesting fields in any order, changes no cache *)
Theorem C14_repeat_idempotent :
  forall (N : Num) (zint_of : T -> nat -> Cx) (zins_of : nat -> T) (nobj : nat) (s : hstate),
    inv zint_of zins_of nobj s ->
    hstep zint_of zins_of nobj s FarField = s /\ hstep zint_of zins_of nobj s NearField = s /\
    forall i, used_zint zint_of (hstep zint_of zins_of nobj (hstep zint_of zins_of nobj s Compute) Compute) i =
              used_zint zint_of (hstep zint_of zins_of nobj s Compute) i.
Proof. exact repeat_idempotent_proof. Qed.
Print Assumptions C14_repeat_idempotent.

(* the option writer sorts the objects of a load: the lines do not depend on
   the iteration order of the set they are collected in *)
Theorem C14_writer_order_free :
  forall l1 l2 : list nat, Permutation l1 l2 -> sort_nat l1 = sort_nat l2.
Proof. exact writer_order_free_proof. Qed.
Print Assumptions C14_writer_order_free.

(* Model/Session.v: what compute () leaves in memory (matrix, loads on it, right-hand side) over sessions of frequency
   changes, computations, field requests and REPLACED sources on one object; tie: stage `session` runs the real
   operation sequences of stage `hist` on the model inside Coq and compares the load multiplicity on the real matrix
   and the non-zero positions of the real right-hand side.
   After ANY session a computation leaves what it leaves on a fresh object with the same frequency and sources *)
Theorem C14_session_history_free :
  forall (F V : Type) (f0 : F) (l0 : list (nat * V)) (ops : list (sop F V)),
    let s := srun F V Faithful (fresh_session F V f0 l0) ops in
    sstep F V Faithful s SCompute = sstep F V Faithful (fresh_session F V (s_f s) (s_srcs s)) SCompute.
Proof. exact session_history_free. Qed.
Print Assumptions C14_session_history_free.

Theorem C14_session_last_settings :
  forall (F V : Type) (f0 : F) l0 ops f (l : list (nat * V)),
    let s := srun F V Faithful (fresh_session F V f0 l0) (ops ++ [SSetF f; SSources l; SCompute]) in
    s_f s = f /\ s_srcs s = l /\ s_loads s = 1 /\ s_rhs s = l.
Proof. exact session_last_settings. Qed.
Print Assumptions C14_session_last_settings.

(* the statement is not empty: a compute () that keeps the matrix it finds adds the loads twice, one that only
   overwrites the right-hand side keeps the entry of a removed source *)
Theorem C14_lazy_matrix_refuted :
  s_loads (srun nat nat LazyMatrix (fresh_session nat nat 7 [(0, 1)]) [SCompute; SCompute]) = 2.
Proof. exact lazy_matrix_refuted. Qed.
Print Assumptions C14_lazy_matrix_refuted.
Theorem C14_stale_rhs_refuted :
  s_rhs (srun nat nat StaleRhs (fresh_session nat nat 7 [(0, 1)]) [SCompute; SSources [(3, 1)]; SCompute]) = [(3, 1); (0, 1)].
Proof. exact stale_rhs_refuted. Qed.
Print Assumptions C14_stale_rhs_refuted.
