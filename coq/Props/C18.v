(* C18 — Generated BASIC-MININEC input describes the same antenna.
   Proved part: the answer sequence.  Model/Basic.v has the writer
   (Mininec.as_basic_input and the per-class writers, reduced to the kind of
   answer on every line) and the prompt automaton of the BASIC program
   (transcribed from the prompt comments and the .mini files; the BASIC
   program itself is not available).  Tie: correspondence stage `bas`: the
   automaton is run by coqc on the tokenised REAL generated text and must find
   the counts and choices of the real model; the model writer's sequence must
   be the real one.  PARTIAL: the values on the lines (coordinates, radii,
   magnitudes and phases, impedances, coefficients by BASIC version) and the
   feed impedance of the re-read model are compared by the oracle with an
   independent reader. *)
From Coq Require Import ZArith List Bool Arith Lia.
From PM Require Import Model.Basic Proofs.BasicP.
Import ListNotations.

(* every answer sequence the writer can produce is accepted by the prompt automaton, completely (nothing left
   after Q), and the automaton recovers environment, numbers of media / wires / sources / loads, orders of
   the S-parameter functions and all yes/no choices *)
Theorem C18_answers_follow_the_prompts :
  forall s : shape, wf s -> read (write s) = Some (s, []).
Proof. exact read_write_proof. Qed.
Print Assumptions C18_answers_follow_the_prompts.

Example C18_example :
  wf (mkShape (EMedia 2 true 16) 3 2 (LS [1; 2]) (FAbs true false) (Some true)) /\
  length (write (mkShape (EMedia 2 true 16) 3 2 (LS [1; 2]) (FAbs true false) (Some true))) = 71.
Proof. split; [cbn; repeat split; try lia; try discriminate|vm_compute; reflexivity]. Qed.
