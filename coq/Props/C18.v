(* C18 — Generated BASIC-MININEC input describes the same antenna.
   Proved part: the answer sequence.  Model/Basic.v has the writer
   (Mininec.as_basic_input and the per-class writers, reduced to the kind of
   answer on every line) and the prompt automaton of the BASIC program
   (transcribed from the prompt comments and the .mini files; the BASIC
   program itself is not available).  Tie: correspondence stage `bas`: the
   automaton is run by coqc on the tokenised REAL generated text and must find
   the counts and choices of the real model; the model writer's sequence must
   be the real one.  Values: magnitude / phase in degrees of a source and the
   unit scaling of S-parameter coefficients by BASIC version are EXTRACTED from
   the source (translator items X20, X21) and proved to read back as the
   model's values.  PARTIAL: the other values on the lines (coordinates, radii,
   impedances) and the feed impedance of the re-read model are compared by the
   oracle with an independent reader. *)
From Coq Require Import ZArith List Bool Arith Lia Reals.
From PM Require Import Base.Num Base.RNum Base.Cplx Gen.Extracted Model.Basic Proofs.BasicP Proofs.BasicV.
Import ListNotations.

(* every answer sequence the writer can produce is accepted by the prompt automaton, completely (nothing left
   after Q), and the automaton recovers environment, numbers of media / wires / sources / loads, orders of
   the S-parameter functions and all yes/no choices *)
Theorem C18_answers_follow_the_prompts :
  forall s : shape, wf s -> read (write s) = Some (s, []).
Proof. exact read_write_proof. Qed.
Print Assumptions C18_answers_follow_the_prompts.

Example C18_example :
  wf (mkShape (EMedia 2 true 16) 3 2 (LS [1; 2]) (FAbs true false) (Some true)) /\
  length (write (mkShape (EMedia 2 true 16) 3 2 (LS [1; 2]) (FAbs true false) (Some true))) = 71.
Proof. split; [cbn; repeat split; try lia; try discriminate|vm_compute; reflexivity]. Qed.

(* --- values on the answer lines, for the formulas the translator extracts from the source (X20, X21) ---
   a source: the written magnitude and phase IN DEGREES, read back as BASIC reads them, are the complex voltage *)
Theorem C18_source_magnitude_phase_round_trip :
  forall v : @Cx RNum, v <> (0, 0)%R -> basic_source_voltage (@src_magnitude RNum v) (@src_phase_d RNum v) = v.
Proof. exact source_answer_round_trip. Qed.
Print Assumptions C18_source_magnitude_phase_round_trip.

(* ... which the phase in radians (the defect repaired by fd91e6f) is not *)
Theorem C18_phase_in_radians_refuted : basic_source_voltage 1 (PI / 2) <> (0, 1)%R.
Proof. exact radians_refuted. Qed.
Print Assumptions C18_phase_in_radians_refuted.

(* S-parameter loads: for every BASIC version and every order d the coefficient BASIC works with (micro-units up to
   version 9) is the model's coefficient *)
Theorem C18_coefficient_units_round_trip :
  forall (version9 : bool) (d : Z) (c : Rdefinitions.R),
    basic_coefficient_value version9 d (c * @bas_coef_scale RNum d (negb version9))%R = c.
Proof. exact coefficient_answer_round_trip. Qed.
Print Assumptions C18_coefficient_units_round_trip.
