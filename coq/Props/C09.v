(* C09 — Kirchhoff current law and end conditions in the current report.
   Model/Report.v (end_line) is the junction/end line logic of
   Mininec.currents_as_mininec over the topology of Model/Topology.v; it is
   tied to the code by correspondence stage `junc` (printed E/J lines for
   random complex currents on random wire graphs).  On the current tree the
   code computes the owner's line at a FIRST wire end by overwriting instead
   of summing (owner_current_code); this is the recorded finding C09-first-end. *)
From Coq Require Import ZArith List Bool Arith Reals.
From Coquelicot Require Import Coquelicot.
From PM Require Import Base.Num Base.RNum Base.Cplx Base.CplxR Model.Topology Model.Report
     Proofs.CxAlg Proofs.TopologyP Proofs.ReportP.
Import ListNotations.

(* Kirchhoff: the owner's total and the joiners' own lines, counted into the
   junction, cancel — for every wire graph, every current vector *)
Theorem C09_kcl :
  forall (tol : R) (os : list (@obj RNum)) (I : vecR) i0 e0,
    let t := build tol os in
    cadd (cmul (into e0) (owner_current_sum t I (joiners t i0 e0)))
         (csum (map (fun x => cmul (into (snd (fst x))) (vnth I (pulse_at t (fst (fst x)) (snd (fst x)))))
                    (joiners t i0 e0))) = c0.
Proof. exact kcl_build_proof. Qed.
Print Assumptions C09_kcl.

(* the printed owner line (as the code computes it) obeys it whenever the
   junction is at a second wire end or at most one later wire joined *)
Theorem C09_kcl_printed :
  forall (tol : R) (os : list (@obj RNum)) (I : vecR) i0 e0,
    let t := build tol os in
    (e0 = true \/ length (joiners t i0 e0) <= 1)%nat ->
    cadd (cmul (into e0) (owner_current_code t I e0 (joiners t i0 e0)))
         (csum (map (fun x => cmul (into (snd (fst x))) (vnth I (pulse_at t (fst (fst x)) (snd (fst x)))))
                    (joiners t i0 e0))) = c0.
Proof. exact kcl_code_proof. Qed.
Print Assumptions C09_kcl_printed.

(* ... and violates it otherwise: witness with two wires joining a first end *)
Theorem C09_kcl_refuted_first_end :
  forall t : topoR,
    pulse_at t 1 false <> pulse_at t 2 false ->
    (pulse_at t 1 false < 3)%nat -> (pulse_at t 2 false < 3)%nat ->
    owner_current_code t refute_I false refute_J <> owner_current_sum t refute_I refute_J.
Proof. exact kcl_refuted_proof. Qed.
Print Assumptions C09_kcl_refuted_first_end.

(* an unconnected end prints the E line (zero current); a joined end prints
   the current of its own junction pulse; a grounded end prints no line *)
Theorem C09_end_lines :
  forall (t : topoR) (I : vecR) (i : nat) (e : bool),
    let st := nth i (tp_status t) (Free, Free) in
    let s := if e then snd st else fst st in
    (s = Grounded -> end_line t I i e = NoLine) /\
    (forall j e2 sm, s = Joined j e2 sm -> end_line t I i e = JLine (vnth I (pulse_at t i e))) /\
    (s = Free -> joiners t i e = [] -> end_line t I i e = ELine) /\
    (s = Free -> joiners t i e <> [] -> end_line t I i e = JLine (owner_current_code t I e (joiners t i e))).
Proof. exact end_lines_proof. Qed.
Print Assumptions C09_end_lines.
