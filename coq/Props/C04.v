(* C04 — Near fields are the fields of the solved currents.
   Model/NearField.v is compute_near_field / nf_helper / psi_near_field_56
   de-vectorised; tie: correspondence stage `nf` (E and H at random points of
   random antennas, free space and ideal ground, agreement 4e-13 of max|E|).
   Theorems: (1) the E kernel of every pulse IS the impedance-matrix formula of
   C02 evaluated for a virtual test dipole of half-length s0 along the field
   axis at the observation point — each source half with its own direction,
   sign, radius and length because it is the same `entry`; (2) H is the
   central-difference curl of the vector potential of the same pulses, scaled
   by 1/(4 pi s0); (3) both fields are linear in the currents and scale with
   sqrt(P_req/P); (4) the constants give E/H = 4 pi m w = 377.2 ohm, within
   0.6 of 376.73.  PARTIAL: that the fields are within 1 % of the exact
   -jwA - grad Phi and merge into the far field is numerical accuracy, decided
   by the search oracle (adaptive quadrature of the thin-wire potentials). *)
From Coq Require Import ZArith List Bool Arith Reals.
From PM Require Import Base.Num Base.RNum Base.Cplx Base.CplxR Gen.Extracted Model.Kernel Model.ZMatrix Model.NearField
     Proofs.CxAlg Proofs.NearFieldP.
Import ListNotations.

Theorem C04_e_kernel_is_virtual_matrix_row :
  forall (w srm w2 : R) psi_f conn k obs s0 (p : @zpulse RNum) (i : nat),
    diff_even psi_f -> (forall a b, conn a b = false) -> (i < 3)%nat ->
    e_kernel w2 psi_f k obs s0 p i =
    @cscale RNum k (entry w srm w2 psi_f conn [vdip obs s0 i (S (zp_obj p)); p] k 0 0 1).
Proof. exact virtual_row_proof. Qed.
Print Assumptions C04_e_kernel_is_virtual_matrix_row.

(* the hypothesis of the previous theorem holds for the potential integral the code uses *)
Theorem C04_psi_sees_only_distances : forall (w srm : R), diff_even (@psi RNum w srm).
Proof. exact psi_diff_even. Qed.
Print Assumptions C04_psi_sees_only_distances.

(* E is -j m / s0 times the current-weighted sum of those rows, over the images *)
Theorem C04_e_field_structure :
  forall (N : Num) w2 psi_f m s0 power pwr g ps cur obs (i : nat),
    c3comp (fst (near_field w2 psi_f m s0 power pwr g ps cur obs)) i =
    match i with O | S O | S (S O) =>
      cscale (nsqrt (div pwr power))
        (cmul (cdivr (cscale m (copp cj)) s0)
              (csum (map (fun pc => cmul (csum (map (fun k => if image_ok k (fst pc) then e_kernel w2 psi_f k obs s0 (fst pc) i else c0)
                                                    (if g then [one; opp one] else [one]))) (snd pc))
                         (combine ps cur))))
    | _ => c3comp (fst (near_field w2 psi_f m s0 power pwr g ps cur obs)) 2 end.
Proof. intros. destruct i as [|[|[|i]]]; reflexivity. Qed.
Print Assumptions C04_e_field_structure.

(* H is the curl of the vector potential of the same pulses (central differences of width s0) *)
Theorem C04_h_is_curl_of_A :
  forall (N : Num) w2 psi_f m s0 power pwr (g : bool) ps cur obs,
    let ks := if g then [one; opp one] else [one] in
    let A := fun (i : nat) (plus : bool) (c : nat) =>
       c3comp (a_total psi_f ks (v3add obs (unit_v i (if plus then div s0 two else opp (div s0 two)))) ps cur) c in
    let dA := fun (i c : nat) => csub (A i true c) (A i false c) in      (* s0 * dA_c/dx_i *)
    let f_h := div (div (nsqrt (div pwr power)) s0) (mul (of_Z 4) npi) in
    snd (near_field w2 psi_f m s0 power pwr g ps cur obs) =
    (cscale f_h (cadd (dA 1%nat 2%nat) (cadd (copp (A 2%nat true 1%nat)) (A 2%nat false 1%nat))),
     cscale f_h (cadd (csub (A 0%nat false 2%nat) (A 0%nat true 2%nat)) (dA 2%nat 0%nat)),
     cscale f_h (cadd (dA 0%nat 1%nat) (cadd (copp (A 1%nat true 0%nat)) (A 1%nat false 0%nat)))).
Proof. intros. reflexivity. Qed.
Print Assumptions C04_h_is_curl_of_A.

Theorem C04_linear_in_currents :
  forall w2 psi_f m s0 power pwr g ps (a b : CR) (x y : vecR) obs,
    length x = length y ->
    @near_field RNum w2 psi_f m s0 power pwr g ps (vlin a x b y) obs =
    let rx := @near_field RNum w2 psi_f m s0 power pwr g ps x obs in
    let ry := @near_field RNum w2 psi_f m s0 power pwr g ps y obs in
    (c3lin a (fst rx) b (fst ry), c3lin a (snd rx) b (snd ry)).
Proof. exact near_field_linear_proof. Qed.
Print Assumptions C04_linear_in_currents.

Theorem C04_power_scaling :
  forall w2 psi_f m s0 power pwr c g ps cur obs,
    (0 <= c)%R -> (0 <= pwr / power)%R ->
    @near_field RNum w2 psi_f m s0 power (c * pwr)%R g ps cur obs =
    let r := @near_field RNum w2 psi_f m s0 power pwr g ps cur obs in
    (c3scale (sqrt c) (fst r), c3scale (sqrt c) (snd r)).
Proof. exact power_scaling_proof. Qed.
Print Assumptions C04_power_scaling.

(* the constants extracted from the frequency setter give a wave impedance of 377.2 ohm for every frequency *)
Theorem C04_wave_impedance_constant :
  forall f : R, (0 < f)%R -> (Rabs (4 * PI * (@f_m RNum f * @f_w RNum f) - 376.73) <= 0.6)%R.
Proof. exact wave_impedance_constant_proof. Qed.
Print Assumptions C04_wave_impedance_constant.
