(* C12 — Number and placement of current unknowns follow from the wire topology.
   Model/Topology.v (build = end scan + pulse construction) is tied to
   Geobj.compute_connections / compute_ground / Pulse.__init__ by correspondence
   stage `topo` (pulse points, ends, segments, signs, ground flags, per-object
   lists, end_segs on random wire graphs, perturbed ends, with/without ground). *)
From Coq Require Import ZArith List Bool Arith Reals.
From PM Require Import Base.Num Base.RNum Base.Cplx Gen.Extracted Model.Topology Proofs.TopologyP.
Import ListNotations.

(* number of pulses, every numeric instance: per object
   (segments - 1) + [end 1 grounded or joined] + [end 2 grounded or joined] *)
Theorem C12_count :
  forall (N : Num) tol (os : list obj),
    Forall (fun o => 1 <= length (ob_segs o))%nat os ->
    length (tp_pulses (build tol os)) =
    total_count O (map (fun o => length (ob_segs o)) os) (scan tol [] O os).
Proof. intros N. exact count_proof. Qed.
Print Assumptions C12_count.

Theorem C12_count_terms :
  forall i n st,
    pulse_count i n st =
    ((n - 1) + (b2n (is_grounded (fst st)) + b2n (is_grounded (snd st)))
             + (b2n (is_joined1 i (fst st)) + b2n (is_joined2 (snd st))))%nat.
Proof. exact pulse_count_split. Qed.
Print Assumptions C12_count_terms.

(* every joined end belongs to exactly one junction, owned by an EARLIER end:
   a junction of k ends has one owner and k-1 joined ends, each contributing
   one pulse *)
Theorem C12_owner_earlier :
  forall (N : Num) tol os p st, nth_error (scan tol [] O os) p = Some st ->
    (forall j e2 s, fst st = Joined j e2 s -> (j < p)%nat) /\
    (forall j e2 s, snd st = Joined j e2 s -> (j <= p)%nat).
Proof. exact owner_earlier_proof. Qed.
Print Assumptions C12_owner_earlier.

(* numbering: pulses are numbered without gaps in object order; the q-th pulse
   of object i is global pulse (start of object i) + q, belongs to object i and
   is its q-th pulse *)
Theorem C12_numbering :
  forall (N : Num) (t : topology) i q d,
    (q < length (nth i (tp_by_obj t) []))%nat ->
    nth (obj_start t i + q) (tp_pulses t) d = nth q (nth i (tp_by_obj t) []) d.
Proof. intros N. exact numbering_proof. Qed.
Print Assumptions C12_numbering.

Theorem C12_numbering_within_object :
  forall (N : Num) os i o st q d, (1 <= length (ob_segs o))%nat ->
    (q < length (obj_pulses os i o st))%nat ->
    pu_n (nth q (obj_pulses os i o st) d) = q /\ pu_obj (nth q (obj_pulses os i o st) d) = i.
Proof. intros N. exact obj_pulses_numbering. Qed.
Print Assumptions C12_numbering_within_object.

(* interior pulses sit on the joint of the two segments they are reported with *)
Theorem C12_on_joint :
  forall (N : Num) i k n0 (sg : list seg) q d, (q < length sg - 1)%nat ->
    pu_segs (nth q (interior i k n0 sg) d) = ((i, (k + q)%nat), (i, S (k + q))) /\
    pu_point (nth q (interior i k n0 sg) d) = sg_p2 (nth q sg seg_default).
Proof. intros N i k n0 sg q d H. destruct (interior_nth i k n0 sg q d H) as [_ [_ [A B]]]. split; assumption. Qed.
Print Assumptions C12_on_joint.

(* two ends are joined exactly when the later one is identical to, or within
   the tolerance of, an earlier registered (non-grounded) end *)
Theorem C12_matching :
  forall (N : Num) tol d i e pt,
    let r := match_end tol d i e pt false in
    (snd r = Free <-> (forall k' v, In (k', v) d -> v3eqb pt k' = false /\ near_b tol pt k' = false)) /\
    (forall j e2 s, snd r = Joined j e2 s ->
        s = negb (Bool.eqb e2 e) /\
        exists k', In (k', (e2, j)) d /\ (v3eqb pt k' = true \/ near_b tol pt k' = true)) /\
    snd r <> Grounded /\
    (forall x, In x d -> In x (fst r)) /\
    (exists k' v, In (k', v) (fst r) /\ (k' = pt \/ v3eqb pt k' = true)).
Proof. intros N. exact match_end_spec. Qed.
Print Assumptions C12_matching.

(* which ends count as grounded (EXTRACTED from Geobj.compute_ground, translator item X16; the model cases of stage
   `topo` evaluate this very definition): an end is on the ground plane exactly when its height is within eps of it,
   on either side *)
Theorem C12_grounded_iff_within_eps :
  forall z1 z2 eps : R,
    (fst (@gnd_flags RNum z1 z2 eps) = true <-> (Rabs z1 < eps)%R) /\
    (snd (@gnd_flags RNum z1 z2 eps) = true <-> (Rabs z2 < eps)%R).
Proof.
  intros z1 z2 eps. unfold gnd_flags. cbn [fst snd ltb nabs RNum]. unfold Rltb.
  split; (destruct (Rlt_dec _ eps); split; intros H; [assumption|reflexivity|discriminate|contradiction]).
Qed.
Print Assumptions C12_grounded_iff_within_eps.
