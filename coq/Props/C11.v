(* C11 — Real ground changes only the far field, consistently with its limits.
   The solve layer (Model/Solve.v: rhs_vec, load_matrix) takes the ground only
   as booleans (grounded pulse / media present), never the media constants;
   that the code's matrix and currents do not depend on them is checked on the
   real code by the search oracle (real vs ideal ground runs).  The theorems
   below are about the reflected far field (Model/FarField.v, stage `ff`). *)
From Coq Require Import ZArith List Reals.
From PM Require Import Base.Num Base.RNum Base.Cplx Gen.Extracted Model.Solve Model.FarField Proofs.Media.
Import ListNotations.

(* splitting a medium into adjacent pieces with identical constants and height *)
Theorem C11_split_medium :
  forall w env pulses cur dd (pre post : list fmR) (m m1 : fmR),
    fe_nr env = 0%R ->
    fm_imp m1 = fm_imp m -> fm_height m1 = fm_height m -> (fm_coord m1 <= fm_coord m)%R ->
    List.Forall (fun p => @first_le RNum (refl_dist (fe_circ env) dd p) (pre ++ m :: post) 0 <> None) pulses ->
    ff_fields_d w (with_media env (pre ++ m1 :: m :: post)) pulses cur dd =
    ff_fields_d w (with_media env (pre ++ m :: post)) pulses cur dd.
Proof. exact split_medium_proof. Qed.
Print Assumptions C11_split_medium.

(* adding a further medium whose boundary lies beyond every reflection point *)
Theorem C11_far_medium :
  forall w env pulses cur dd (pre : list fmR) (mlast mlast' mnew : fmR),
    fm_imp mlast' = fm_imp mlast -> fm_height mlast' = fm_height mlast ->
    List.Forall (fun p => (refl_dist (fe_circ env) dd p <= fm_coord mlast)%R /\
                          (refl_dist (fe_circ env) dd p <= fm_coord mlast')%R) pulses ->
    ff_fields_d w (with_media env (pre ++ [mlast'; mnew])) pulses cur dd =
    ff_fields_d w (with_media env (pre ++ [mlast])) pulses cur dd.
Proof. exact append_medium_proof. Qed.
Print Assumptions C11_far_medium.

(* the medium used for a reflection point: the first one whose boundary is not exceeded *)
Theorem C11_medium_lookup :
  forall (b9 : R) (m : fmR) (ms : list fmR),
    (@ltb RNum (fm_coord m) b9 = false -> selected b9 (m :: ms) = m) /\
    (@ltb RNum (fm_coord m) b9 = true -> @first_le RNum b9 ms 0 <> None -> selected b9 (m :: ms) = selected b9 ms).
Proof. exact medium_lookup_proof. Qed.
Print Assumptions C11_medium_lookup.

(* the right-hand side and the load diagonal see the ground only through two booleans *)
Theorem C11_solve_layer_ignores_media_constants :
  forall (m : R) (gnd : nat -> bool) (n : nat) (srcs : list (@source RNum)) (Z0 : @cmat RNum) loads
         (env1 env2 : @fenv RNum), fe_ground env1 = fe_ground env2 ->
    rhs_vec m gnd n srcs = rhs_vec m gnd n srcs /\
    load_matrix m gnd (fe_ground env1) Z0 loads = load_matrix m gnd (fe_ground env2) Z0 loads.
Proof. exact solve_ignores_media_proof. Qed.
Print Assumptions C11_solve_layer_ignores_media_constants.
