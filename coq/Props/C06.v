(* C06 — Results do not depend on how the same conductor structure is described.
   PARTIAL: proved are the facts that make a re-description harmless at the
   level of one matrix term — the potential of a source segment is the same for
   both orientations (symmetric Gauss tables), the image pass uses the same
   kernel, KCL-consistent junction signs (C09) and the owner rule (C12/C17).
   Equivariance of the assembled solution under reversal / reordering /
   splitting (signed permutation of the unknowns) is decided on the real code
   by the search oracle at the property's tolerance schedule. *)
From Coq Require Import ZArith List Bool Arith Reals.
From PM Require Import Base.Num Base.RNum Base.Cplx Gen.Tables Model.Kernel Model.Topology Proofs.KernelP Proofs.GeometryR Proofs.TopologyP Model.Attach Proofs.AttachP.
Import ListNotations.

Theorem C06_tables_symmetric :
  map negz gauss2z = rev gauss2z /\ map negz gauss4z = rev gauss4z /\ map negz gauss8z = rev gauss8z.
Proof. exact gauss_tables_symmetric. Qed.
Print Assumptions C06_tables_symmetric.

Theorem C06_segment_orientation_free :
  forall (w srm : R) (a b : V3R) (scale : R) kp fvs,
    @psi RNum w srm b a 1%R scale kp false fvs = @psi RNum w srm a b 1%R scale kp false fvs.
Proof. exact psi_reverse_proof. Qed.
Print Assumptions C06_segment_orientation_free.

(* the sense flag of every junction is determined by the two end indices
   alone: all four end-to-end cases are treated by one rule *)
Theorem C06_junction_sense :
  forall (N : Num) tol os d i p st, nth_error (scan tol d i os) p = Some st ->
    (forall j e2 s, fst st = Joined j e2 s -> s = negb (Bool.eqb e2 false)) /\
    (forall j e2 s, snd st = Joined j e2 s -> s = negb (Bool.eqb e2 true)).
Proof. intros N. exact (scan_same). Qed.
Print Assumptions C06_junction_sense.

(* recorded finding C06-partial-load-at-multiwire-junction, as a theorem about the attachment model (Model/Attach.v):
   when k later wires join the end of wire 0 and only wire 0 carries a distributed load, its end half-segment is a half of
   each of the k junction pulses and is charged k times -- once if wire 0 is listed last instead.  The loaded length depends
   on the order of the wires as soon as k >= 2 (a junction of three or more wire ends). *)
Theorem C06_multiwire_junction_overcount_refuted :
  forall k : nat,
    let loaded := fun g => Nat.eqb g 0 in
    let pulses := map (fun j => mkAP (S j) 0 (S j)) (seq 0 k) in
    fold_right Nat.add 0%nat (map (fun p => charged loaded (seq 0 (S k)) p false) pulses) = k.
Proof. exact multiwire_junction_overcount. Qed.
Print Assumptions C06_multiwire_junction_overcount_refuted.
