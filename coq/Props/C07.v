(* C07 — Currents are linear in the source voltages; source data are V/I and
   Re(V I* )/2.
   rhs_entry, src_impedance, src_power are extracted from compute_rhs and
   Excitation.impedance/.power on every run; rhs_vec / source_imp / source_pwr
   (Model/Solve.v) are tied to the code by correspondence stage `lin`.  The
   matrix Z is arbitrary: nothing about the matrix fill is assumed except that
   the solver returns a solution and Z is nonsingular (injective_on). *)
From Coq Require Import ZArith List Reals.
From Coquelicot Require Import Coquelicot.
From PM Require Import Base.Num Base.RNum Base.Cplx Base.CplxR Gen.Extracted Model.Solve
     Proofs.CxAlg Proofs.Linear.
Import ListNotations.

(* the right-hand side is a linear function of the voltage vector, for a fixed
   assignment of sources to pulses (several sources on one pulse included) *)
Theorem C07_rhs_linear :
  forall (m : R) (gnd : nat -> bool) (n : nat) (a b : CR) (idxs : list nat) (vs ws : list CR),
    length vs = length idxs -> length ws = length idxs ->
    rhs_vec m gnd n (with_volts idxs (map (fun p => cadd (cmul a (fst p)) (cmul b (snd p))) (combine vs ws))) =
    vlin a (rhs_vec m gnd n (with_volts idxs vs)) b (rhs_vec m gnd n (with_volts idxs ws)).
Proof. exact rhs_vec_linear. Qed.
Print Assumptions C07_rhs_linear.

(* superposition and homogeneity of the currents *)
Theorem C07_currents_linear :
  forall (n : nat) (Z : matR) (m : R) (gnd : nat -> bool) (idxs : list nat)
         (a b : CR) (vs ws : list CR) (I J K : vecR),
    injective_on n Z ->
    length vs = length idxs -> length ws = length idxs ->
    length I = n -> length J = n -> length K = n ->
    mvmul Z I = rhs_vec m gnd n (with_volts idxs vs) ->
    mvmul Z J = rhs_vec m gnd n (with_volts idxs ws) ->
    mvmul Z K = rhs_vec m gnd n
       (with_volts idxs (map (fun p => cadd (cmul a (fst p)) (cmul b (snd p))) (combine vs ws))) ->
    K = vlin a I b J.
Proof. exact currents_linear_proof. Qed.
Print Assumptions C07_currents_linear.

(* a common complex factor leaves V/I unchanged and scales the power by |a|^2
   (hence power-normalised quantities such as dBi are unchanged) *)
Theorem C07_scale_invariance :
  forall (a v i : CR), a <> RtoC 0 -> i <> RtoC 0 ->
    @src_impedance RNum (cmul a v) (cmul a i) = src_impedance v i /\
    @src_power RNum (cmul a v) (cmul a i) = (cabs2 a * src_power v i)%R.
Proof. exact scale_invariance_proof. Qed.
Print Assumptions C07_scale_invariance.

(* the reported source impedance and power are V/I and Re(V conj I)/2 for the
   current of the feed pulse *)
Theorem C07_source_data :
  forall (I : vecR) (s : @source RNum),
    vnth I (s_idx s) <> RtoC 0 ->
    source_imp I s = Cdiv (s_volt s) (vnth I (s_idx s)) /\
    source_pwr I s = (Re (Cmult (s_volt s) (Cconj (vnth I (s_idx s)))) / 2)%R.
Proof. exact source_data_proof. Qed.
Print Assumptions C07_source_data.

(* the right-hand side entry itself: -j * w / m * V, w = 2 on a grounded pulse *)
Theorem C07_rhs_entry :
  forall (m : R) (g : bool) (v : CR), m <> 0%R ->
    @rhs_entry RNum m g v = cmul (cscale (if g then 2 else 1)%R (cdivr (copp cj) m)) v.
Proof. exact rhs_entry_eq. Qed.
Print Assumptions C07_rhs_entry.

(* non-vacuity: a concrete nonsingular 2x2 system with two sources *)
Theorem C07_example_hypotheses :
  injective_on 2 [[RtoC 2; RtoC 0]; [RtoC 0; RtoC 3]] /\
  length (rhs_vec 1%R (fun _ => false) 2 (with_volts [0%nat; 1%nat] [RtoC 1; Ci])) = 2%nat.
Proof. exact example_hypotheses_proof. Qed.
Print Assumptions C07_example_hypotheses.
