(* C10 — Far field is the radiation integral of the currents; dBi and V/m agree.
   Model/FarField.v is the de-vectorised compute_far_field, tied to the code by
   correspondence stage `ff` (e_theta, e_phi, gain; 2e-9 of the pattern
   maximum); ff_f3, ff_theta, ff_phi, ff_k9, ff_t1..3, ff_db, ff_above, ff_rat,
   ffp_scale are extracted from the source on every run. *)
From Coq Require Import ZArith List Reals.
From Coquelicot Require Import Coquelicot.
From PM Require Import Base.Num Base.RNum Base.Cplx Base.CplxR Gen.Extracted Model.FarField
     Proofs.CxAlg Proofs.FarFieldP Proofs.Zenith.
Import ListNotations.

(* free space: each pulse contributes the current moments of its two
   half-segments, placed at the pulse point *)
Theorem C10_moment_sum_free_space :
  forall w dd (p : @fpulse RNum) I, fp_gnd p = (false, false) ->
    pulse_std w one dd p I =
    c3add (elem w dd (fp_point p) (fst (fp_dir p)) (fst (fp_len p)) (fst (fp_sgn p)) I)
          (elem w dd (fp_point p) (snd (fp_dir p)) (snd (fp_len p)) (snd (fp_sgn p)) I).
Proof. exact free_space_sum_proof. Qed.
Print Assumptions C10_moment_sum_free_space.

(* ideal ground: direct plus image pass = real elements plus their mirror images *)
Theorem C10_moment_sum_image :
  forall w dd (p : @fpulse RNum) I, fp_gnd p = (false, false) ->
    c3add (pulse_std w one dd p I) (pulse_std w (- one)%num dd p I) =
    c3add (c3add (elem w dd (fp_point p) (fst (fp_dir p)) (fst (fp_len p)) (fst (fp_sgn p)) I)
                 (elem w dd (mirror_pt (fp_point p)) (mirror_dir (fst (fp_dir p))) (fst (fp_len p)) (fst (fp_sgn p)) I))
          (c3add (elem w dd (fp_point p) (snd (fp_dir p)) (snd (fp_len p)) (snd (fp_sgn p)) I)
                 (elem w dd (mirror_pt (fp_point p)) (mirror_dir (snd (fp_dir p))) (snd (fp_len p)) (snd (fp_sgn p)) I)).
Proof. exact image_sum_free_pulse_proof. Qed.
Print Assumptions C10_moment_sum_image.

(* E_theta = -j g0 S.theta_hat, E_phi = -j g0 S.phi_hat, g0 = 29.979221 *)
Theorem C10_projection :
  forall (g : C3R) (dd : @dirsc RNum),
    let S_th := c3dotr g (thhat dd) in
    let S_ph := cadd (cscale (- d_sp dd)%R (fst (fst g))) (cscale (d_cp dd) (snd (fst g))) in
    ff_theta S_th = cmul (copp cj) (cscale (29979221 / 1000000)%R S_th) /\
    ff_phi S_ph = cmul (copp cj) (cscale (29979221 / 1000000)%R S_ph).
Proof. exact projection_proof. Qed.
Print Assumptions C10_projection.

(* each polarisation: gain = k9c |E|^2 r^2 / P_req for the V/m values; total = sum *)
Theorem C10_units :
  forall (P Preq r : R) (e : CR * CR), (0 < P)%R -> (0 < Preq)%R -> (0 < r)%R ->
    let v := @ff_vm RNum P Preq r e in
    @ff_t1 RNum (ff_k9 P) (fst e) = (16678 / 1000000 * (cabs2 (fst v) * (r * r) / Preq))%R /\
    @ff_t2 RNum (ff_k9 P) (snd e) = (16678 / 1000000 * (cabs2 (snd v) * (r * r) / Preq))%R /\
    @ff_t3 RNum (ff_t1 (ff_k9 P) (fst e)) (ff_t2 (ff_k9 P) (snd e)) =
      (ff_t1 (ff_k9 P) (fst e) + ff_t2 (ff_k9 P) (snd e))%R.
Proof. exact units_proof. Qed.
Print Assumptions C10_units.

(* 0.016678 is 1/59.96 (and 1/(2 g0)) to 3e-7 *)
Theorem C10_constant :
  (Rabs (16678 / 1000000 - 1 / (2 * (29979221 / 1000000))) <= 3 / 10000000)%R /\
  (Rabs (16678 / 1000000 - 1 / (5996 / 100)) <= 3 / 10000000)%R.
Proof. exact k9_constant_proof. Qed.
Print Assumptions C10_constant.

Theorem C10_db : forall t : R, @ff_db RNum t = (10 * (ln t / ln 10))%R.
Proof. exact db_eq_proof. Qed.
Print Assumptions C10_db.

Theorem C10_floor : forall t : R, (t <= 1 / 10 ^ 30)%R -> @ff_gain_of RNum t = (-999)%R.
Proof. exact floor_proof. Qed.
Print Assumptions C10_floor.

(* V/m values scale with sqrt(P_req) and 1/distance *)
Theorem C10_vm_scaling :
  forall (P Preq r c : R) (e : CR * CR), (0 < P)%R -> (0 < Preq)%R -> (0 < r)%R -> (0 < c)%R ->
    cabs2 (fst (@ff_vm RNum P (c * Preq) r e)) = (c * cabs2 (fst (ff_vm P Preq r e)))%R /\
    cabs2 (fst (@ff_vm RNum P Preq (c * r) e)) = (cabs2 (fst (ff_vm P Preq r e)) / (c * c))%R.
Proof. exact vm_scaling_proof. Qed.
Print Assumptions C10_vm_scaling.

(* directions 360 degrees apart give identical fields (any environment) *)
Theorem C10_period_360 :
  forall w env pulses cur (th ph : R) (k l : Z),
    @ff_fields RNum w env pulses cur (th + 2 * IZR k * PI)%R (ph + 2 * IZR l * PI)%R =
    ff_fields w env pulses cur th ph.
Proof. exact period_proof. Qed.
Print Assumptions C10_period_360.

(* at the zenith the total gain does not depend on the azimuth (free space, ideal ground) *)
Theorem C10_zenith_azimuth_independent :
  forall w env pulses cur (sp cp : R), fe_real env = false -> (sp * sp + cp * cp = 1)%R ->
    let e := @ff_fields_d RNum w env pulses cur (mkDir 0%R 1%R sp cp) in
    let e0 := @ff_fields_d RNum w env pulses cur (mkDir 0%R 1%R 0%R 1%R) in
    (cabs2 (fst e) + cabs2 (snd e) = cabs2 (fst e0) + cabs2 (snd e0))%R.
Proof. exact zenith_proof. Qed.
Print Assumptions C10_zenith_azimuth_independent.

(* the fields are linear in the currents (used by C07 for dBi invariance) *)
Theorem C10_fields_linear :
  forall w env pulses a cur dd,
    @ff_fields_d RNum w env pulses (vscale a cur) dd =
    (cmul a (fst (ff_fields_d w env pulses cur dd)), cmul a (snd (ff_fields_d w env pulses cur dd))).
Proof. exact ff_fields_linear_proof. Qed.
Print Assumptions C10_fields_linear.
