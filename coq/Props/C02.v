(* C02 — Impedance-matrix terms equal the MININEC-3 potential-integral formulation.
   Model/Kernel.v + Model/ZMatrix.v are the path-faithful matrix fill (all
   branches: exact kernel with elliptic integral, small-radius closed forms,
   Gauss order by distance, scalar potentials derived from vector potentials,
   diagonal and symmetric copies, image pass).  Tie: correspondence stage
   `zmat`, EVERY entry of Mininec.Z on random antennas, agreement 1e-14 of
   max|Z| (tolerance 1e-9).  PARTIAL: the 1e-4 agreement of the Gauss
   quadrature with adaptive quadrature is a numerical-accuracy claim, measured
   by the search oracle (scipy.integrate.quad on the published formula). *)
From Coq Require Import ZArith List Bool Arith Reals.
From PM Require Import Base.Num Base.RNum Base.Cplx Model.Kernel Model.ZMatrix Proofs.KernelP Proofs.ZMatrixP Proofs.ZCopyP Proofs.GeometryR.
Import ListNotations.

(* a directly computed entry is the published expression, for ANY potential
   functional psi (in particular the exact integral) *)
Theorem C02_direct_entry_is_formula :
  forall (N : Num) (w srm w2 : T) psi_f conn (ps : list zpulse) (k : T) (m n : nat),
    entry w srm w2 psi_f conn ps k 0 m n =
    let pn := P ps n in
    let z := zzz ps m in
    let dot3 (g d : V3) : T :=
        add (add (mul (mul (vx g) (vx d)) (vx z)) (mul (mul (vy g) (vy d)) (vy z))) (mul k (mul (mul (vz g) (vz d)) (vz z))) in
    cadd (cscale w2 (cadd (cscale (dot3 (one, one, snd (zp_gsgn pn)) (snd (zp_dir pn))) (cscale (zp_sign pn true) (vecpot w srm psi_f conn ps k m n true)))
                          (cscale (dot3 (one, one, fst (zp_gsgn pn)) (fst (zp_dir pn))) (cscale (zp_sign pn false) (vecpot w srm psi_f conn ps k m n false)))))
         (cadd (cdivr (csub (scapot w srm psi_f conn ps k m n false true) (scapot w srm psi_f conn ps k m n true true)) (snd (zp_len pn)))
               (cdivr (csub (scapot w srm psi_f conn ps k m n true false) (scapot w srm psi_f conn ps k m n false false)) (fst (zp_len pn)))).
Proof. intros N. exact direct_entry_proof. Qed.
Print Assumptions C02_direct_entry_is_formula.

(* ground plane: minus the same expression for the mirror image of the source
   pulse, except for source pulses that sit on the ground plane *)
Theorem C02_image_term :
  forall (N : Num) (w srm w2 : T) psi_f conn (ps : list zpulse) (m n : nat),
    zentry w srm w2 psi_f conn ps true m n =
    cadd (zentry w srm w2 psi_f conn ps false m n)
         (if ngnd ps n then copp (entry w srm w2 psi_f conn ps (opp one) 0 m n) else c0).
Proof. intros N. exact image_term_proof. Qed.
Print Assumptions C02_image_term.

(* the image pass integrates the same kernel over the mirrored chord *)
Theorem C02_image_kernel :
  forall (w srm : R) (a b : V3R) (scale : R) kp ex fvs,
    @psi RNum w srm a b (-1)%R scale kp ex fvs = @psi RNum w srm b a 1%R scale kp ex fvs.
Proof. exact psi_image_proof. Qed.
Print Assumptions C02_image_kernel.

(* for far pairs (non-exact kernel) psi is the same for both orientations of
   the source segment: numpy's Gauss tables are symmetric *)
Theorem C02_orientation_free :
  forall (w srm : R) (a b : V3R) (scale : R) kp fvs,
    @psi RNum w srm b a 1%R scale kp false fvs = @psi RNum w srm a b 1%R scale kp false fvs.
Proof. exact psi_reverse_proof. Qed.
Print Assumptions C02_orientation_free.

(* the entries the fill COPIES: a pair of pulses (m', n') that is the pair (m, n) moved by one translation (same half
   lengths, directions, direction signs, objects and index distance; for the source pulse also radii and ground signs) has the same directly computed entry at every
   optimisation level, for ANY potential functional -- copying it is exact.  That the pairs of every copy group the
   code forms are such translates is checked on every case of stage `zmat` (copy_dev). *)
Theorem C02_copied_entry_is_direct :
  forall (w srm w2 : R) psi_f conn (ps : list (@zpulse RNum)) (m n m' n' : nat) (t : V3R),
    obs_shifted t (P ps m) (P ps m') -> shifted t (P ps n) (P ps n') ->
    (Z.of_nat m' - Z.of_nat n' = Z.of_nat m - Z.of_nat n)%Z ->
    forall f8, entry w srm w2 psi_f conn ps 1%R f8 m' n' = entry w srm w2 psi_f conn ps 1%R f8 m n.
Proof. exact copy_sound_proof. Qed.
Print Assumptions C02_copied_entry_is_direct.
