(* C03 — Image theory: ideal ground equals free space plus mirrored antenna.
   PARTIAL: proved are the ingredients — the image pass of the matrix is minus
   the free-space expression of the mirrored source (except grounded sources)
   with the same kernel; excitation and loads of grounded pulses carry weight 2;
   the far-field masks equal real elements plus mirror elements (grounded
   pulses: their real half and its own image); same fields at half the power
   give exactly twice the gain = 3.0103 dB.  That the mirrored free-space
   SYSTEM has the same solution (different quadrature paths, 5e-4 x condition
   schedule) is decided on the real code by the search oracle. *)
From Coq Require Import ZArith List Bool Arith Reals.
From Coquelicot Require Import Coquelicot.
From PM Require Import Base.Num Base.RNum Base.Cplx Base.CplxR Gen.Extracted Model.Kernel Model.ZMatrix Model.FarField
     Proofs.CxAlg Proofs.Linear Proofs.FarFieldP Proofs.KernelP Proofs.ZMatrixP Proofs.GeometryR.
Import ListNotations.

Theorem C03_image_term :
  forall (N : Num) (w srm w2 : T) psi_f conn (ps : list zpulse) (m n : nat),
    zentry w srm w2 psi_f conn ps true m n =
    cadd (zentry w srm w2 psi_f conn ps false m n)
         (if ngnd ps n then copp (entry w srm w2 psi_f conn ps (opp one) 0 m n) else c0).
Proof. intros N. exact image_term_proof. Qed.
Print Assumptions C03_image_term.

Theorem C03_image_kernel :
  forall (w srm : R) (a b : V3R) (scale : R) kp ex fvs,
    @psi RNum w srm a b (-1)%R scale kp ex fvs = @psi RNum w srm b a 1%R scale kp ex fvs.
Proof. exact psi_image_proof. Qed.
Print Assumptions C03_image_kernel.

(* excitation of a grounded pulse enters with weight 2 *)
Theorem C03_weights :
  forall (m : R) (g : bool) (v : CR), m <> 0%R ->
    @rhs_entry RNum m g v = cmul (cscale (if g then 2 else 1)%R (cdivr (copp cj) m)) v.
Proof. exact rhs_entry_eq. Qed.
Print Assumptions C03_weights.

(* far field: direct + image pass = real elements + their mirror images *)
Theorem C03_far_field_masks :
  forall w dd (p : @fpulse RNum) I, fp_gnd p = (false, false) ->
    c3add (pulse_std w one dd p I) (pulse_std w (- one)%num dd p I) =
    c3add (c3add (elem w dd (fp_point p) (fst (fp_dir p)) (fst (fp_len p)) (fst (fp_sgn p)) I)
                 (elem w dd (mirror_pt (fp_point p)) (mirror_dir (fst (fp_dir p))) (fst (fp_len p)) (fst (fp_sgn p)) I))
          (c3add (elem w dd (fp_point p) (snd (fp_dir p)) (snd (fp_len p)) (snd (fp_sgn p)) I)
                 (elem w dd (mirror_pt (fp_point p)) (mirror_dir (snd (fp_dir p))) (snd (fp_len p)) (snd (fp_sgn p)) I)).
Proof. exact image_sum_free_pulse_proof. Qed.
Print Assumptions C03_far_field_masks.

Theorem C03_far_field_grounded_pulse :
  forall w dd (p : @fpulse RNum) I,
    fp_gnd p = (true, false) -> vz (fp_point p) = 0%R ->
    c3add (pulse_std w one dd p I) (pulse_std w (- one)%num dd p I) =
    c3add (elem w dd (fp_point p) (snd (fp_dir p)) (snd (fp_len p)) (snd (fp_sgn p)) I)
          (elem w dd (mirror_pt (fp_point p)) (mirror_dir (snd (fp_dir p))) (snd (fp_len p)) (snd (fp_sgn p)) I).
Proof. exact image_sum_grounded_pulse_proof. Qed.
Print Assumptions C03_far_field_grounded_pulse.

Theorem C03_gain_3dB :
  forall (P : R) (e : CR), P <> 0%R ->
    @ff_t1 RNum (ff_k9 (P / 2)%R) e = (2 * @ff_t1 RNum (ff_k9 P) e)%R /\
    (Rabs (10 * (ln 2 / ln 10) - 30103 / 10000) <= 1 / 100000)%R.
Proof. exact gain_3db_proof. Qed.
Print Assumptions C03_gain_3dB.
