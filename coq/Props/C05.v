(* C05 — Rigid-motion and electromagnetic-scaling invariance.
   PARTIAL: proved are the invariances of the building blocks — the potential
   integral sees only differences (translations), is unchanged by rotations of
   the chord, scales as 1/s under (lengths x s, wave number / s) for the thin
   kernel; rotations are isometries in X,Y,Z order; options and coordinates
   apply the same maps (C13).  The invariance of the assembled matrix,
   currents and pattern (5e-4 x condition schedule) is decided on the real code
   by the search oracle; the matrix fill is tied to the model entry by entry. *)
From Coq Require Import ZArith List Bool Arith Reals.
From PM Require Import Base.Num Base.RNum Base.Cplx Model.Kernel Model.Geometry Proofs.KernelP Proofs.GeometryR.
Import ListNotations.

Theorem C05_psi_rotation_invariant :
  forall (w srm : R) (ax ay az : R) (a b : V3R) (k scale : R) kp ex fvs,
    @psi RNum w srm (m3apply (@rotation RNum ax ay az) a) (m3apply (@rotation RNum ax ay az) b) k scale kp ex fvs =
    @psi RNum w srm a b k scale kp ex fvs.
Proof. exact psi_rotation_proof. Qed.
Print Assumptions C05_psi_rotation_invariant.

Theorem C05_translation_invariant :
  forall (a o c : V3R), v3sub (v3add a c) (v3add o c) = v3sub a o.
Proof. exact diff_translate. Qed.
Print Assumptions C05_translation_invariant.

Theorem C05_rotation_isometry :
  forall (ax ay az : R) (u v : V3R),
    v3dot (m3apply (@rotation RNum ax ay az) u) (m3apply (@rotation RNum ax ay az) v) = v3dot u v /\
    v3norm (v3sub (m3apply (@rotation RNum ax ay az) u) (m3apply (@rotation RNum ax ay az) v)) = v3norm (v3sub u v).
Proof. exact rotation_isometry_proof. Qed.
Print Assumptions C05_rotation_isometry.

(* lengths x s, frequency / s: the thin-wire kernel scales as 1/s (so psi, a
   kernel integral times a length, is unchanged and Z scales as 1/s) *)
Theorem C05_kernel_scaling :
  forall (w srm t s : R) (a b : V3R) (r : R),
    (0 < s)%R -> (r <= srm)%R ->
    v3norm (v3add a (@v3scale RNum t (v3sub b a))) <> 0%R ->
    @integrand RNum (w / s)%R (s * srm)%R t (@v3scale RNum s a) (@v3scale RNum s b) 1%R (s * r)%R false =
    @cdivr RNum (@integrand RNum w srm t a b 1%R r false) s.
Proof. exact integrand_thin_scaling. Qed.
Print Assumptions C05_kernel_scaling.

Theorem C05_scale_lengths :
  forall (k : R) (a b : V3R),
    v3norm (v3sub (@v3scale RNum k a) (@v3scale RNum k b)) = (Rabs k * v3norm (v3sub a b))%R.
Proof. exact scale_distance_proof. Qed.
Print Assumptions C05_scale_lengths.
