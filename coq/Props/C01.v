(* C01 — Power balance: source power = load dissipation + radiated power.
   Proved exactly: the delivered power splits into the load dissipation and a
   quadratic form of the unloaded matrix, for every matrix, source set and
   load set; the gain normalisation k9/P with the extracted constants.  That
   the quadratic form equals the sphere integral of the reported gain is a
   discretisation-accuracy statement about the method of moments: measured by
   the search oracle (sphere quadrature of the real gain table), not proved. *)
From Coq Require Import ZArith List Reals.
From Coquelicot Require Import Coquelicot.
From PM Require Import Base.Num Base.RNum Base.Cplx Base.CplxR Gen.Extracted Model.Solve Model.FarField
     Proofs.CxAlg Proofs.Linear Proofs.Loads Proofs.Energy Proofs.FarFieldP.
Import ListNotations.

(* weights 2 on grounded pulses, as in compute_rhs / compute_impedance_matrix_loads *)
Theorem C01_energy_split :
  forall (m : R) (gnd : nat -> bool) (h : bool) (n : nat) (Z0 : matR) (I : vecR)
         (srcs : list (@source RNum)) (loads : list (@loadatt RNum)),
    m <> 0%R -> square n Z0 -> length I = n -> NoDup (map s_idx srcs) ->
    mvmul (load_matrix m gnd h Z0 loads) I = rhs_vec m gnd n srcs ->
    p_sources gnd n I srcs = (p_loads gnd h n I loads - m / 2 * cim (qform Z0 I))%R.
Proof. exact energy_split_proof. Qed.
Print Assumptions C01_energy_split.

(* the power used for normalisation is the sum of Re(V I* )/2 over the sources *)
Theorem C01_source_power :
  forall (I : vecR) (s : @source RNum),
    source_pwr I s = (Re (Cmult (s_volt s) (Cconj (vnth I (s_idx s)))) / 2)%R.
Proof. exact source_power_proof. Qed.
Print Assumptions C01_source_power.

(* gain normalisation: linear gain = 0.016678 / P * |E|^2 per polarisation, total = sum *)
Theorem C01_gain_normalisation :
  forall (P : R) (e : CR * CR), P <> 0%R ->
    @ff_t1 RNum (ff_k9 P) (fst e) = (16678 / 1000000 / P * cabs2 (fst e))%R /\
    @ff_t2 RNum (ff_k9 P) (snd e) = (16678 / 1000000 / P * cabs2 (snd e))%R /\
    @ff_t3 RNum (ff_t1 (ff_k9 P) (fst e)) (ff_t2 (ff_k9 P) (snd e)) =
      (16678 / 1000000 / P * (cabs2 (fst e) + cabs2 (snd e)))%R.
Proof. exact gain_normalisation_proof. Qed.
Print Assumptions C01_gain_normalisation.

(* the constants of the code are consistent: 0.016678 = 1/(2 g0) to 3e-7,
   and 4 pi g0 = 376.73 ohm to 0.01 *)
Theorem C01_constants :
  (Rabs (16678 / 1000000 - 1 / (2 * (29979221 / 1000000))) <= 3 / 10000000)%R /\
  (Rabs (4 * PI * (29979221 / 1000000) - 37673 / 100) <= 1 / 100)%R.
Proof. exact c01_constants_proof. Qed.
Print Assumptions C01_constants.
