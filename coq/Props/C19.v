(* C19 — Report text faithfully carries the computed values.
   Model/Format.v is util.format_float on the exact rational value of the
   binary64 input (CPython's '% .Nf' / '% e' are correctly rounded), including
   the nine-character cut, the stripping of zeros, point and leading zero, the
   padding and the '-0' rule.  Tie: correspondence stage `fmt`, character by
   character on thousands of floats per run (magnitudes 1e-30..1e12, powers of
   ten and neighbours, rounding ties, carries across a power of ten, 0.1).
   The value of the text (rep_value) is a real number; |f| = a/den, sign neg,
   t = int (log |f| / log 10) as the code computes it.
   Model/Report.v (skeleton): which rows each block of the report has.
   Reading back: Proofs/FormatT.v has a character-level reader (sign, digits,
   point, digits, E, sign, digits, blanks) and proves that it accepts every
   text the formatter renders and returns exactly rep_value; stage `fmt` also
   runs that reader inside Coq on the REAL texts and compares with Python's
   Decimal.  PARTIAL: the magnitude / phase columns and the per-table use of
   the formatter are checked by the oracle on real reports. *)
From Coq Require Import ZArith NArith List Bool Arith Reals.
From PM Require Import Base.Num Base.RNum Base.Cplx Gen.Extracted Model.Format Model.Topology Model.Report Proofs.FormatP Proofs.FormatR Proofs.FormatT Proofs.ReportS Proofs.PeakP Model.Env Proofs.EnvP Model.Conn Proofs.ConnP.
Import ListNotations.
Local Open Scope R_scope.

(* 1 <= |f|: seven digits, relative error at most 5e-7, for every magnitude (no upper limit) *)
Theorem C19_seven_digits :
  forall neg a den (L : nat) use_e, (0 < den)%N -> (p10 L * den <= a)%N -> (a < p10 (S L) * den)%N ->
    let x := NR a / NR den in
    Rabs (rep_value (format_float neg a den (Z.of_nat L) use_e) - sgn neg * x) <= x / 2000000.
Proof. exact format_seven_digits. Qed.
Print Assumptions C19_seven_digits.

(* 0.1 <= |f| < 1: six digits, relative error at most 5e-6 *)
Theorem C19_six_digits :
  forall neg a den use_e, (0 < den)%N -> (den <= 10 * a)%N -> (a < den)%N ->
    let x := NR a / NR den in
    Rabs (rep_value (format_float neg a den 0 use_e) - sgn neg * x) <= x / 200000.
Proof. exact format_six_digits. Qed.
Print Assumptions C19_six_digits.

(* fixed-point fields below 1: absolute error below 1e-6, whatever t <= 0 the float logarithm gives *)
Theorem C19_fixed_point_small :
  forall neg a den t, (0 < den)%N -> (0 < a)%N -> (a < den)%N -> (t <= 0)%Z ->
    let x := NR a / NR den in
    Rabs (rep_value (format_float neg a den t false) - sgn neg * x) < 1 / 1000000.
Proof. exact format_fixed_small. Qed.
Print Assumptions C19_fixed_point_small.

(* exponent fields below 0.1 (down to 1e-400): seven digits *)
Theorem C19_exponent_format :
  forall neg a den t, (0 < den)%N -> (0 < a)%N -> (10 * a < den)%N -> (den <= a * p10 400)%N ->
    let x := NR a / NR den in
    Rabs (rep_value (format_float neg a den t true) - sgn neg * x) <= x / 2000000.
Proof. exact format_exponent. Qed.
Print Assumptions C19_exponent_format.

Theorem C19_zero : forall neg den t use_e, rep_value (format_float neg 0 den t use_e) = 0.
Proof. exact format_zero. Qed.
Print Assumptions C19_zero.

(* at exact powers of ten the float logarithm is one too small; the text is still exact *)
Theorem C19_power_of_ten_robust :
  forall neg den (L : nat) use_e, (0 < den)%N -> (L <= 6)%nat ->
    rep_value (format_float neg (p10 L * den) den (Z.of_nat L - 1) use_e) = sgn neg * 10 ^ L.
Proof. exact format_power_of_ten. Qed.
Print Assumptions C19_power_of_ten_robust.

(* every text the formatter can render is read back, character by character, as exactly its value *)
Theorem C19_rendered_text_reads_back :
  forall r : rep, wf_rep r -> exists d, parse (render r) = Some d /\ dec_value d = rep_value r.
Proof. exact parse_render. Qed.
Print Assumptions C19_rendered_text_reads_back.

(* the headline in one statement: for |f| >= 1 the characters format_float produces, parsed back, are within
   5e-7 relative of f *)
Theorem C19_seven_digits_text :
  forall neg a den (L : nat) use_e, (0 < den)%N -> (p10 L * den <= a)%N -> (a < p10 (S L) * den)%N ->
    let x := NR a / NR den in
    exists d, parse (render (format_float neg a den (Z.of_nat L) use_e)) = Some d /\
              Rabs (dec_value d - sgn neg * x) <= x / 2000000.
Proof. exact seven_digits_text. Qed.
Print Assumptions C19_seven_digits_text.

(* structure: the geometry blocks list every pulse exactly once, in pulse order *)
Theorem C19_geometry_rows :
  forall (N : Num) (t : topology),
    flat_map (geometry_block t) (seq 0 (length (tp_by_obj t))) = seq 0 (length (tp_pulses t)).
Proof. intros N. exact geometry_rows_proof. Qed.
Print Assumptions C19_geometry_rows.

(* structure: every pulse of an object is a numbered row of its block of the current table or one of
   its junction pulses (reported by the J line of that end), never both, no row twice *)
Theorem C19_current_rows :
  forall (N : Num) (t : topology) (i k : nat),
    (In k (geometry_block t i) <-> (In k (numbered_idx t i) \/ In k (junction_idx t i))) /\
    ~ (In k (numbered_idx t i) /\ In k (junction_idx t i)) /\
    NoDup (numbered_idx t i).
Proof. intros N. exact block_rows_proof. Qed.
Print Assumptions C19_current_rows.

Theorem C19_current_block :
  forall (N : Num) (t : topology) (I : cvec) (i : nat),
    current_block t I i =
    end_rows (end_line t I i false) ++ map (fun k => RowPulse k (vnth I k)) (numbered_idx t i) ++ end_rows (end_line t I i true)
    /\ (length (end_rows (end_line t I i false)) <= 1)%nat /\ (length (end_rows (end_line t I i true)) <= 1)%nat.
Proof. intros N. exact current_block_rows_proof. Qed.
Print Assumptions C19_current_block.

(* the MAXIMUM OR PEAK FIELD line of the near-field tables (formula extracted from the source, translator item X22): at
   every instant theta = omega t the length of the real field vector Re (F e^{j theta}) is at most the printed value
   (p2 = sum |F_i|^2, p1 = sum F_i^2 of the three complex components F_i = x_i + j y_i) *)
Theorem C19_peak_bounds_the_instantaneous_field :
  forall x1 y1 x2 y2 x3 y3 theta : Rdefinitions.R,
    let p2 := (x1 * x1 + y1 * y1 + (x2 * x2 + y2 * y2) + (x3 * x3 + y3 * y3))%R in
    let p1 : @Cx RNum := ((x1 * x1 - y1 * y1) + (x2 * x2 - y2 * y2) + (x3 * x3 - y3 * y3), 2 * x1 * y1 + 2 * x2 * y2 + 2 * x3 * y3)%R in
    (inst_sq x1 y1 x2 y2 x3 y3 theta <= Rsqr (@nf_peak RNum p1 p2))%R.
Proof. exact peak_bounds_instant. Qed.
Print Assumptions C19_peak_bounds_the_instantaneous_field.

(* the ENVIRONMENT block (Model/Env.v, tied to environment_as_mininec / Medium.as_mininec by the correspondence stage `env`):
   the lines of the block are the per-medium blocks in order; the block of the i-th of n media carries a HEIGHT line exactly
   when it is not the first and an interface line exactly when it is not the last, so n media print n - 1 of each *)
Theorem C19_env_blocks_in_order :
  forall l : list med,
    env_lines l = concat (map (fun im => block (length l) (fst im) (snd im)) (combine (seq 0 (length l)) l)).
Proof. exact env_lines_blocks_proof. Qed.
Print Assumptions C19_env_blocks_in_order.

Theorem C19_env_height_of_all_but_the_first :
  forall (n i : nat) m, In LHeight (block n i m) <-> (0 < i)%nat.
Proof. exact block_height_proof. Qed.
Print Assumptions C19_env_height_of_all_but_the_first.

Theorem C19_env_interface_of_all_but_the_last :
  forall (n i : nat) m, In LCoord (block n i m) <-> (S i < n)%nat.
Proof. exact block_coord_proof. Qed.
Print Assumptions C19_env_interface_of_all_but_the_last.

Theorem C19_env_line_counts :
  forall l : list med,
    count_occ eline_eq_dec (env_lines l) LHeight = (length l - 1)%nat /\ count_occ eline_eq_dec (env_lines l) LCoord = (length l - 1)%nat.
Proof. exact (fun l => conj (height_lines_proof l) (coord_lines_proof l)). Qed.
Print Assumptions C19_env_line_counts.

(* printing the height only where no interface line was printed loses the height of a middle medium *)
Theorem C19_env_elif_refuted :
  exists (n i : nat) m, (0 < i)%nat /\ ~ In LHeight (medium_lines_elif (m_ideal m) (m_rad m) (S i <? n)%nat (0 <? i)%nat).
Proof. exact elif_refuted_proof. Qed.
Print Assumptions C19_env_elif_refuted.

(* the connection columns of the geometry table (Model/Conn.v, tied to Pulse.c_per and the overrides of
   Geobj.compute_connections by the correspondence stage `conn`): one row per pulse of the object; a pulse at a grounded
   wire end prints minus the tag of its own wire for the grounded half, whatever the position of the wire; the rows
   between the ends carry the own tag, or 0 next to a free end *)
Theorem C19_connection_rows_per_pulse :
  forall tags i nseg st, length (obj_cper tags i nseg st) = pulse_count i nseg st.
Proof. exact obj_cper_length_proof. Qed.
Print Assumptions C19_connection_rows_per_pulse.

Theorem C19_connection_grounded_first_end :
  forall tags i nseg s2, hd_error (obj_cper tags i nseg (Grounded, s2)) = Some ((- nth i tags 0)%Z, nth i tags 0%Z).
Proof. exact grounded_first_row_proof. Qed.
Print Assumptions C19_connection_grounded_first_end.

Theorem C19_connection_grounded_second_end :
  forall tags i nseg s1, last (obj_cper tags i nseg (s1, Grounded)) (0%Z, 0%Z) = (nth i tags 0%Z, (- nth i tags 0)%Z).
Proof. exact grounded_last_row_proof. Qed.
Print Assumptions C19_connection_grounded_second_end.

Theorem C19_connection_inner_rows :
  forall tg nseg z1 z2,
    Forall (fun c => (fst c = tg \/ fst c = 0%Z) /\ (snd c = tg \/ snd c = 0%Z)) (mid_cper tg nseg z1 z2).
Proof. exact mid_rows_proof. Qed.
Print Assumptions C19_connection_inner_rows.

(* the position of the wire in place of its tag is refuted as soon as tags are not positions *)
Theorem C19_connection_position_refuted :
  exists tags i, hd_error (obj_cper tags i 3 (Grounded, Free)) <> Some ((- Z.of_nat (S i))%Z, nth i tags 0%Z).
Proof. exact position_refuted_proof. Qed.
Print Assumptions C19_connection_position_refuted.
