(* C17 — Pulse addressing: sources and loads act on exactly the pulse the user
   named.  The addressing functions of Model/Report.v are tied to
   register_source / register_load / compute_tags by correspondence stage
   `addr` (absolute, per-object, all-of-object, all; explicit, permuted,
   non-consecutive and automatic tags). *)
From Coq Require Import ZArith List Bool Arith.
From PM Require Import Base.Num Base.Cplx Model.Topology Model.Report Proofs.TopologyP Proofs.AddressP.
Import ListNotations.

(* the k-th pulse of the object with tag tg is the k-th row of that object's
   block; it is global pulse (block start + k) *)
Theorem C17_rel_is_kth_row :
  forall (N : Num) (t : topology) (tags : list Z) k tg g d,
    resolve_rel t tags k tg = Some g ->
    exists i, index_of tg tags O = Some i /\ nth i tags 0%Z = tg /\
      g = (obj_start t i + k)%nat /\
      nth g (tp_pulses t) d = nth k (nth i (tp_by_obj t) []) d.
Proof. intros N. exact rel_is_kth_row_proof. Qed.
Print Assumptions C17_rel_is_kth_row.

(* both addressing forms name the same pulse *)
Theorem C17_forms_agree :
  forall (N : Num) (t : topology) (tags : list Z) k tg g,
    resolve_rel t tags k tg = Some g -> (length (tp_by_obj t) = length tags) -> resolve_abs t g = Some g.
Proof. intros N. exact forms_agree_proof. Qed.
Print Assumptions C17_forms_agree.

(* attaching to all pulses of an object loads exactly its block, each pulse once *)
Theorem C17_all_of_object_once :
  forall (N : Num) (t : topology) (tags : list Z) tg l,
    all_of_object t tags tg = Some l ->
    NoDup l /\ exists i, index_of tg tags O = Some i /\
      forall g, In g l <-> (obj_start t i <= g < obj_start t i + length (nth i (tp_by_obj t) []))%nat.
Proof. intros N. exact all_of_object_proof. Qed.
Print Assumptions C17_all_of_object_once.

(* attaching to all pulses of the antenna loads every pulse exactly once *)
Theorem C17_all_once :
  forall (N : Num) (t : topology), all_pulses_idx t = seq 0 (length (tp_pulses t)).
Proof. intros N. exact all_once_proof. Qed.
Print Assumptions C17_all_once.

(* a junction pulse belongs to the later of the two objects it joins *)
Theorem C17_junction_owner_later :
  forall (N : Num) tol os p st, nth_error (scan tol [] O os) p = Some st ->
    (forall j e2 s, fst st = Joined j e2 s -> (j < p)%nat) /\
    (forall j e2 s, snd st = Joined j e2 s -> (j <= p)%nat).
Proof. exact owner_earlier_proof. Qed.
Print Assumptions C17_junction_owner_later.

(* automatic tags continue after the largest explicit tag, in list order *)
Theorem C17_auto_tags :
  forall (tags : list (option Z)),
    length (assign_tags tags) = length tags /\
    (forall i t, nth_error tags i = Some (Some t) -> nth_error (assign_tags tags) i = Some t) /\
    (forall i, nth_error tags i = Some None ->
       exists t, nth_error (assign_tags tags) i = Some t /\ (max_tag tags < t)%Z).
Proof. exact auto_tags_proof. Qed.
Print Assumptions C17_auto_tags.
