(* C20 — Command line is fail-safe: complete finite report or one-line diagnostic.
   Model/Main.v is the exception flow of main: per stage, the kinds of
   exception its operations can raise on well-formed but arbitrary values and
   the kinds its handler turns into the diagnostic.  Tie: correspondence stage
   `main` provokes every (stage, kind) of the table through the real main and
   compares the real ending with the model's; the search oracle mutates valid
   command lines.  PARTIAL: the table is a transcription of main, not a
   translation; "the report contains only finite numbers" rests on the explicit
   finiteness guards (modelled as stage 19/20 faults) and on C19; running time
   and memory for huge but finite sizes are not decided. *)
From Coq Require Import List Bool Arith Reals.
From PM Require Import Base.Num Base.RNum Gen.Extracted Model.Main Proofs.MainP Gen.MainFlow Proofs.MainFlowP.
Import ListNotations.

(* whatever exceptions the stages raise (any admissible assignment of faults to stages), main ends in the
   report or in the diagnostic of the first failing stage — never in an uncaught exception *)
Theorem C20_no_uncaught_exception :
  forall fault : nat -> option exn, admissible stages fault -> forall j e, run stages fault <> Uncaught j e.
Proof. exact no_uncaught_proof. Qed.
Print Assumptions C20_no_uncaught_exception.

(* the table is not vacuous: before the repairs the same statement was false (frequency zero) *)
Theorem C20_before_the_repairs_refuted :
  exists fault, admissible stages_before fault /\ run stages_before fault = Uncaught 0 EZeroDiv.
Proof. exact before_refuted_proof. Qed.
Print Assumptions C20_before_the_repairs_refuted.

(* the frequency guard of main is sufficient: for every accepted frequency the constants the setter derives
   (translator-extracted) are positive and far inside the binary64 range *)
Theorem C20_frequency_guard_sufficient :
  forall f : R, (0 < f < 1e150)%R ->
    (0 < @f_wavelen RNum f /\ 0 < @f_m RNum f /\ 0 < @f_srm RNum f /\
     0 < @f_w RNum f < 1e150 /\ 0 < @f_w2 RNum f < 1e300)%R.
Proof. exact frequency_guard_proof. Qed.
Print Assumptions C20_frequency_guard_sufficient.

(* --- the same statement on the flow REGENERATED from main's syntax tree (Gen/MainFlow.v, py/translate_main.py) ---
   at every place where main performs an operation that can raise, every kind of exception that operation can
   raise (prim_raises) is turned into the diagnostic by a try statement around that place *)
Theorem C20_no_site_escapes :
  forall s e, In s main_sites -> In e (prim_raises (s_prim s)) -> site_caught s e = true.
Proof. exact no_site_escapes_proof. Qed.
Print Assumptions C20_no_site_escapes.

(* hence whichever operation raises first, main does not end in an uncaught exception *)
Theorem C20_flow_no_uncaught :
  forall k e, (forall s, nth_error main_sites k = Some s -> In e (prim_raises (s_prim s))) ->
    forall j e', run_site main_sites k e <> Uncaught j e'.
Proof. exact flow_no_uncaught_proof. Qed.
Print Assumptions C20_flow_no_uncaught.

(* the frequency setter is called for every step of a sweep outside any try statement: main checks the first and
   the last frequency against the guard, and every step lies between them *)
Theorem C20_sweep_inside_guard :
  forall (f0 d n k B : R), (0 < f0 < B)%R -> (0 < f0 + (n - 1) * d < B)%R -> (0 <= k <= n - 1)%R ->
    (0 < f0 + k * d < B)%R.
Proof. exact sweep_inside_guard_proof. Qed.
Print Assumptions C20_sweep_inside_guard.
