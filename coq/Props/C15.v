(* C15 — Option file written for a model reproduces that model when read back.
   Proved part: load attachments.  Model/Options.v is the writer
   (_Load.as_cmdline_load_attach with its "all pulses of an object" / "all
   pulses" abbreviations, absolute or per-object addressing) and the reader
   (main + Mininec.register_load) over the pulse layout of the objects.  Tie:
   correspondence stage `cmd` (the written attachment options of every lumped
   load of generated command lines, and the pulses of the re-read loads).
   Second proved part: objects and tags.  Model/Objects.v is the reader (all
   arcs, then all helices, then all wires; explicit tags positive and distinct;
   automatic tags max+1, max+2, ... in that reading order; sorted by tag) and
   the writer (model order, the tag only when it was given).
   Third proved part: the numbering of the lumped loads.  Model/LoadOrder.v is
   the writer (cmdline_loads: the model's loads grouped by kind, each followed by
   its attachments carrying its position) and the reader (argparse groups the
   defining options by kind, --attach-load picks by number, the first attachment
   registers the load).  Fourth: sources (Model/SourceOpts.v: voltage omitted
   only for a single source of 1 V, pulse omitted only for the default source;
   the reader pairs pulses and voltages).  Tie: stages `loads`, `srcs`.
   PARTIAL: tapers / transformations / media / the numeric parameters of loads
   and sources are compared on the real code by the search oracle (write, read
   back, write again; same description; same feed impedance), not modelled. *)
From Coq Require Import ZArith List Bool Arith Permutation.
From PM Require Import Model.Options Proofs.OptionsP Model.Objects Proofs.ObjectsP Model.LoadOrder Proofs.LoadOrderP Model.SourceOpts Proofs.SourceOptsP Model.MediaOpts Proofs.MediaOptsP.
Import ListNotations.
Open Scope nat_scope.

(* for EVERY list of attached pulses (any order, any multiplicity) and both addressing forms, the written
   options are accepted and put the load on the same pulses with the same multiplicities *)
Theorem C15_attachments_round_trip :
  forall (tags : list Z) (counts : list nat) (by_geo : bool) (ps : list nat),
    NoDup tags -> length tags = length counts -> Forall (fun p => p < total counts) ps ->
    exists l, resolve_all tags counts (write_attach tags counts by_geo ps) = Some l /\ Permutation l ps.
Proof. intros tags counts b ps H1 H2 H3. exact (attach_permutation_proof tags counts H1 H2 b ps H3). Qed.
Print Assumptions C15_attachments_round_trip.

(* the premises are satisfiable, and the abbreviation is used *)
Example C15_example :
  write_attach [5; 9]%Z [2; 3] true [1; 0; 3] = [AAllTag 5; ARel 1 9] /\
  resolve_all [5; 9]%Z [2; 3] [AAllTag 5; ARel 1 9] = Some [0; 1; 3].
Proof. vm_compute. split; reflexivity. Qed.

(* the condition the writer used before the repair ("as many attachments as the object has pulses") accepts a
   load attached twice to one pulse of a two-pulse wire, which is not "every pulse once" *)
Theorem C15_counting_is_not_enough :
  full_counted [2] [0; 0] 0 = true /\ full [2] [0; 0] 0 = false.
Proof. exact counted_writer_refuted. Qed.
Print Assumptions C15_counting_is_not_enough.

(* every model the reader can produce from object options (any mix of arcs, helices, wires with explicit
   non-consecutive or automatic tags) is reproduced by reading the written options: same objects, same tags,
   same "tag was given" flags, same order; hence writing again gives the same options *)
Theorem C15_objects_round_trip :
  forall (ls : list oline) (gs : list gobj), read_objs ls = Some gs -> read_objs (write_objs gs) = Some gs.
Proof. exact objects_round_trip. Qed.
Print Assumptions C15_objects_round_trip.

Theorem C15_objects_fixpoint :
  forall (ls : list oline) (gs : list gobj), read_objs ls = Some gs ->
    option_map write_objs (read_objs (write_objs gs)) = Some (write_objs gs).
Proof. intros ls gs H. rewrite (objects_round_trip ls gs H). reflexivity. Qed.
Print Assumptions C15_objects_fixpoint.

Example C15_objects_example :
  read_objs [mkLine KWire None 1; mkLine KWire (Some 5) 2; mkLine KArc None 3; mkLine KHelix (Some 2) 4; mkLine KWire None 5]%Z
  = Some [mkObj KHelix 2 true 4; mkObj KWire 5 true 2; mkObj KArc 6 false 3; mkObj KWire 7 false 1; mkObj KWire 8 false 5]%Z.
Proof. vm_compute. reflexivity. Qed.

(* writing the options of the re-read load gives the same attachment options again *)
Theorem C15_attachments_fixpoint :
  forall (tags : list Z) (counts : list nat) (by_geo : bool) (ps : list nat),
    NoDup tags -> length tags = length counts -> Forall (fun p => p < total counts) ps ->
    exists l, resolve_all tags counts (write_attach tags counts by_geo ps) = Some l /\
              write_attach tags counts by_geo l = write_attach tags counts by_geo ps.
Proof. intros tags counts b ps H1 H2 H3. exact (attach_fixpoint_proof tags counts H1 H2 b ps H3). Qed.
Print Assumptions C15_attachments_fixpoint.

(* load numbering: for EVERY list of lumped loads of any kinds in any registration order (each attached at least
   once), with any parameters P and attachment options A, the written options are accepted and give the same loads,
   each with its own attachments in order, in the parser's order (grouped by kind) ... *)
Theorem C15_load_numbering_round_trip :
  forall (P A : Type) (M : list (lumped P A)), Forall (fun l => l_att l <> []) M ->
    read_loads P A (write_loads P A M) = Some (cmdline_loads P A M).
Proof. exact loads_round_trip. Qed.
Print Assumptions C15_load_numbering_round_trip.

(* ... which are the model's loads, none lost, none duplicated ... *)
Theorem C15_load_numbering_same_loads :
  forall (P A : Type) (M : list (lumped P A)), Permutation (cmdline_loads P A M) M.
Proof. exact cmdline_loads_perm. Qed.
Print Assumptions C15_load_numbering_same_loads.

(* ... and writing the re-read model gives the same options *)
Theorem C15_load_numbering_fixpoint :
  forall (P A : Type) (M : list (lumped P A)), Forall (fun l => l_att l <> []) M ->
    option_map (write_loads P A) (read_loads P A (write_loads P A M)) = Some (write_loads P A M).
Proof. exact loads_fixpoint. Qed.
Print Assumptions C15_load_numbering_fixpoint.

Example C15_load_numbering_example :
  write_loads nat nat [mkL LTrap 7 [70]; mkL LImp 8 [80; 81]; mkL LTrap 9 [90]]
  = [ODef LImp 8; OAtt 0 80; OAtt 0 81; ODef LTrap 7; OAtt 1 70; ODef LTrap 9; OAtt 2 90].
Proof. vm_compute. reflexivity. Qed.

(* sources: every source list main can produce (the single default source, or one or more explicitly addressed
   sources with any voltages, 1 V included) is accepted again and reproduced *)
Theorem C15_sources_round_trip :
  forall (V : Type) (one : V) (is_one : V -> bool), (forall v, is_one v = true -> v = one) ->
  forall l : list (src V), wf_srcs V l -> read_srcs V one (write_srcs V is_one l) = Some l.
Proof. exact sources_round_trip. Qed.
Print Assumptions C15_sources_round_trip.

(* the writer before the repair omitted every voltage of exactly 1 V: a second source of 1 V made the list unreadable *)
Theorem C15_sources_before_the_repair_refuted :
  read_srcs Z 1%Z (flat_map (write_src_before (Z.eqb 1)) [mkSrc 2%Z (SAbs 0) false; mkSrc 1%Z (SAbs 1) false]) = None.
Proof. exact before_refuted. Qed.
Print Assumptions C15_sources_before_the_repair_refuted.

(* media (Model/MediaOpts.v, tied to Medium.as_cmdline and to the part of main that builds the media by the correspondence
   stage `media`): for every media structure the program can hold - any number of media, any coordinates including one
   given to the outermost medium, either boundary, with or without a radial screen - the written options are accepted and
   give the same media, and writing them again gives the same options *)
Theorem C15_media_round_trip :
  forall e : env, wf e -> MediaOpts.read (write e) = Some e.
Proof. exact media_round_trip_proof. Qed.
Print Assumptions C15_media_round_trip.

Theorem C15_media_fixpoint :
  forall e : env, wf e -> match MediaOpts.read (write e) with Some e' => write e' = write e | None => False end.
Proof. exact media_fixpoint_proof. Qed.
Print Assumptions C15_media_fixpoint.

(* the writer before the repair (commit 9469538) never wrote the coordinate of the outermost medium *)
Theorem C15_media_old_writer_refuted :
  exists e : env, wf e /\ MediaOpts.read (write_old e) <> Some e.
Proof. exact old_writer_refuted_proof. Qed.
Print Assumptions C15_media_old_writer_refuted.

Example C15_media_wf_example : wf (mkE [mkM 13 5 0 3; mkM 5 1 (-1) 50] true (Some (16%nat, 2)))%Z.
Proof. exact read_wf_example. Qed.
