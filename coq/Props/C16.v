(* C16 — Field tables contain exactly the requested sample points.
   `angle_deg` and `grid_axis` are the definitions extracted from
   Angle.angle_deg and from the near-field grid expression of
   Mininec.compute_near_field; `ff_rows`, `grid3`, `np_arange` are the
   hand-written models of the numpy calls around them (Base/NumpyLib.v),
   tied to the code by the correspondence stage `grid`. *)
From Coq Require Import ZArith List Reals Lia PrimFloat.
From PM Require Import Base.Num Base.RNum Base.FNum Base.NumpyLib Gen.Extracted Proofs.Grid Proofs.GridF.
Import ListNotations.

(* Far field: N_theta * N_phi rows, at start + k * step, azimuth outer and
   zenith inner — for every numeric instance, binary64 included. *)
Theorem C16_far_rows :
  forall (N : Num) (nt np : Z) (t0 dt p0 dp : T),
    let rows := ff_rows (angle_deg nt t0 dt) (angle_deg np p0 dp) in
    length rows = (Z.to_nat np * Z.to_nat nt)%nat /\
    forall k, (k < Z.to_nat np * Z.to_nat nt)%nat ->
      nth k rows (zero, zero) =
      (add t0 (mul (of_nat (k mod Z.to_nat nt)) dt),
       add p0 (mul (of_nat (k / Z.to_nat nt)) dp)).
Proof. exact C16_far_rows_proof. Qed.
Print Assumptions C16_far_rows.

(* Near field: Nx*Ny*Nz points, x fastest — for every numeric instance, given
   axis lists of the requested lengths. *)
Theorem C16_near_points :
  forall (N : Num) (xs ys zs : list T),
    length (grid3 xs ys zs) = (length zs * (length ys * length xs))%nat /\
    forall k, (k < length zs * (length ys * length xs))%nat ->
      nth k (grid3 xs ys zs) (zero, zero, zero) =
      (nth (k mod length xs) xs zero,
       nth ((k / length xs) mod length ys) ys zero,
       nth (k / (length ys * length xs)) zs zero).
Proof. exact C16_near_points_proof. Qed.
Print Assumptions C16_near_points.

(* One near-field axis, exact arithmetic: exactly n points at s + k*i for
   every start, EVERY increment (zero included: n points at the start) and
   every count. *)
Theorem C16_near_axis_exact :
  forall (s i : R) (c : Z),
    length (@grid_axis RNum s i (IZR c)) = Z.to_nat c /\
    forall k, (k < Z.to_nat c)%nat ->
      nth k (@grid_axis RNum s i (IZR c)) 0%R = (s + INR k * i)%R.
Proof. exact C16_near_axis_exact_proof. Qed.
Print Assumptions C16_near_axis_exact.

(* One near-field axis, any instance (binary64 included): for a zero increment
   always; otherwise the count is right exactly when numpy's arange produced at
   least n elements. *)
Theorem C16_near_axis_any_instance :
  forall (N : Num) (s i n : T),
    (eqb i zero = false -> Z.to_nat (ntrunc n) <= np_arange_len s (add s (mul n i)) i)%nat ->
    length (grid_axis s i n) = Z.to_nat (ntrunc n) /\
    forall k, (k < Z.to_nat (ntrunc n))%nat ->
      nth k (grid_axis s i n) zero = if eqb i zero then s else np_arange_elt s i k.
Proof. exact C16_near_axis_any_instance_proof. Qed.
Print Assumptions C16_near_axis_any_instance.

(* Non-vacuity on binary64: the case that used to give 4 points
   (0, 0.1, 3) meets the hypothesis and gives 3. *)
Theorem C16_binary64_tenth_example :
  (Z.to_nat (@ntrunc FNum 3%float) <=
     @np_arange_len FNum 0%float (PrimFloat.add 0 (PrimFloat.mul 3 0x1.999999999999ap-4))%float 0x1.999999999999ap-4%float)%nat
  /\ length (@grid_axis FNum 0%float 0x1.999999999999ap-4%float 3%float) = 3%nat
  /\ length (@np_arange FNum 0%float (PrimFloat.add 0 (PrimFloat.mul 3 0x1.999999999999ap-4))%float 0x1.999999999999ap-4%float) = 4%nat.
Proof. exact C16_binary64_tenth_example_proof. Qed.
Print Assumptions C16_binary64_tenth_example.
