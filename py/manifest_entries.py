"""Per-property entries of MANIFEST.json (see py/mkmanifest.py)."""
NOT_APPLICABLE = {}
def register(add, NOTE):
    add("C07",
        "Theorems for every matrix and every source set: the right-hand side is linear in the voltages (fold over the extracted rhs_entry), "
        "currents are linear whenever Z is nonsingular, a common complex factor leaves V/I unchanged and scales power by |a|^2, the "
        "reported impedance/power are V/I and Re(V I*)/2 (extracted Excitation.impedance/.power). Tie: translator for the leaf formulas, "
        "bit-level vm_compute correspondence of rhs, loaded matrix, source data and a residual certificate for the solver's currents; "
        "metamorphic search oracle (scaling, superposition, registration order) on the real code.",
        "Rocq proof (linear algebra over Coquelicot C) + extracted formulas + correspondence", "DESIGN.md §6 C07")
    add("C08",
        "Theorems: a lumped load on the feed pulse adds exactly z to V/I for every nonsingular matrix (grounded pulse included); loads "
        "enter only their own diagonal entry and add up; zero load is a no-op; Laplace load = ratio of polynomials in s; RLC = series, "
        "trap = parallel circuit; insulation with eps_r=1 is a no-op (incl. equivalent radius); conductivity/resistivity interchange; "
        "distributed loads = per-length impedance x real conductor length of the pulse. Leaf formulas re-extracted every run; padding, "
        "per-pulse sums and every load class tied by correspondence at two frequencies on the same object; circuit/metamorphic oracle.",
        "Rocq proof + extracted formulas + correspondence", "DESIGN.md §6 C08",
        note=NOTE + " scipy.special.jv is trusted for the Bessel ratio passed to the model; the sigma -> infinity skin-effect limit is measured by the oracle, not proved.")

    add("C10",
        "Theorems over the de-vectorised far-field model: per-pulse contribution = current moments of its half-segments at the pulse point "
        "(free space) plus mirror-image elements (ideal ground); E_theta/E_phi = -j g0 S.theta_hat / S.phi_hat with the extracted g0; "
        "per-polarisation gain = 0.016678 |E|^2 r^2 / P_req for the V/m values, total = sum, |0.016678 - 1/59.96| <= 3e-7 (interval); "
        "dB conversion and -999 floor; V/m scaling with sqrt(P_req) and 1/r; exact 360-degree periodicity; zenith total gain independent of "
        "azimuth; linearity in the currents. The model is tied to compute_far_field by a 2e-9 correspondence (incl. real ground); the 1e-4 "
        "and 2 % clauses are measured on the real code by an independent radiation sum.",
        "Rocq proof over hand model + extracted constants + vm_compute correspondence", "DESIGN.md §6 C10")
    add("C11",
        "Theorems on the reflected far field: splitting a medium into adjacent pieces with equal constants/height (no radial screen) and "
        "appending a medium beyond every reflection point leave E_theta/E_phi unchanged for all antennas, currents and directions; medium "
        "lookup = first boundary not exceeded; the solve layer sees the ground only through booleans. 'Currents identical to ideal ground' "
        "is decided on the real code (bit-identical matrix) by the oracle; the sigma->infinity limit is measured on a ladder.",
        "Rocq proof over hand model (Fresnel branch) + correspondence + metamorphic oracle", "DESIGN.md §6 C11",
        note=NOTE + " PARTIAL: the conductivity limit and the independence of the matrix fill from media constants are measured, not proved (no Coq model of the matrix fill yet).")
    add("C01",
        "Theorem: for every unloaded matrix Z0, load set and source set (distinct pulses), a solution of the loaded system satisfies "
        "sum w P_src = sum w P_load - (m/2) Im(I^H Z0 I) exactly (weights 2 on grounded pulses), with rhs/load/power formulas extracted "
        "from the source; gain normalisation 0.016678/P |E|^2 and constants (interval). PARTIAL: that the quadratic form equals the "
        "sphere integral of the reported gain within 1.5 % is a discretisation-accuracy claim of the method of moments; it is measured "
        "by sphere quadrature of the real gain table inside the property's thin-wire domain.",
        "Rocq proof (energy identity) + extracted formulas + correspondence; quadrature oracle for the numerical clause", "DESIGN.md §6 C01",
        note=NOTE + " PARTIAL as stated in the level text.")
