"""Per-property entries of MANIFEST.json (see py/mkmanifest.py)."""
NOT_APPLICABLE = {}
def register(add, NOTE):
    add("C07",
        "Theorems for every matrix and every source set: the right-hand side is linear in the voltages (fold over the extracted rhs_entry), "
        "currents are linear whenever Z is nonsingular, a common complex factor leaves V/I unchanged and scales power by |a|^2, the "
        "reported impedance/power are V/I and Re(V I*)/2 (extracted Excitation.impedance/.power). Tie: translator for the leaf formulas, "
        "bit-level vm_compute correspondence of rhs, loaded matrix, source data and a residual certificate for the solver's currents; "
        "metamorphic search oracle (scaling, superposition, registration order) on the real code.",
        "Rocq proof (linear algebra over Coquelicot C) + extracted formulas + correspondence", "DESIGN.md §6 C07")
    add("C08",
        "Theorems: a lumped load on the feed pulse adds exactly z to V/I for every nonsingular matrix (grounded pulse included); loads "
        "enter only their own diagonal entry and add up; zero load is a no-op; Laplace load = ratio of polynomials in s; RLC = series, "
        "trap = parallel circuit; insulation with eps_r=1 is a no-op (incl. equivalent radius); conductivity/resistivity interchange; "
        "distributed loads = per-length impedance x real conductor length of the pulse; attachment of distributed loads (Model/Attach.v, tied by stage `attach` to the real load lists): every pulse is on exactly one load list as soon as one of its halves lies on a loaded object and every half of loaded conductor is charged exactly once, the one-sided rule refuted. Leaf formulas re-extracted every run; padding, "
        "per-pulse sums and every load class tied by correspondence at two frequencies on the same object; circuit/metamorphic oracle.",
        "Rocq proof + extracted formulas + correspondence", "DESIGN.md §6 C08",
        note=NOTE + " scipy.special.jv is trusted for the Bessel ratio passed to the model; the sigma -> infinity skin-effect limit is measured by the oracle, not proved.")

    add("C10",
        "Theorems over the de-vectorised far-field model: per-pulse contribution = current moments of its half-segments at the pulse point "
        "(free space) plus mirror-image elements (ideal ground); E_theta/E_phi = -j g0 S.theta_hat / S.phi_hat with the extracted g0; "
        "per-polarisation gain = 0.016678 |E|^2 r^2 / P_req for the V/m values, total = sum, |0.016678 - 1/59.96| <= 3e-7 (interval); "
        "dB conversion and -999 floor; V/m scaling with sqrt(P_req) and 1/r; exact 360-degree periodicity; zenith total gain independent of "
        "azimuth; linearity in the currents. The model is tied to compute_far_field by a 2e-9 correspondence (incl. real ground); the 1e-4 "
        "and 2 % clauses are measured on the real code by an independent radiation sum.",
        "Rocq proof over hand model + extracted constants + vm_compute correspondence", "DESIGN.md §6 C10")
    add("C11",
        "Theorems on the reflected far field: splitting a medium into adjacent pieces with equal constants/height (no radial screen) and "
        "appending a medium beyond every reflection point leave E_theta/E_phi unchanged for all antennas, currents and directions; medium "
        "lookup = first boundary not exceeded; the solve layer sees the ground only through booleans. 'Currents identical to ideal ground' "
        "is decided on the real code (bit-identical matrix) by the oracle; the sigma->infinity limit is measured on a ladder.",
        "Rocq proof over hand model (Fresnel branch) + correspondence + metamorphic oracle", "DESIGN.md §6 C11",
        note=NOTE + " PARTIAL: the conductivity limit and the independence of the matrix fill from media constants are measured, not proved (no Coq model of the matrix fill yet).")
    add("C01",
        "Theorem: for every unloaded matrix Z0, load set and source set (distinct pulses), a solution of the loaded system satisfies "
        "sum w P_src = sum w P_load - (m/2) Im(I^H Z0 I) exactly (weights 2 on grounded pulses), with rhs/load/power formulas extracted "
        "from the source; gain normalisation 0.016678/P |E|^2 and constants (interval). PARTIAL: that the quadratic form equals the "
        "sphere integral of the reported gain within 1.5 % is a discretisation-accuracy claim of the method of moments; it is measured "
        "by sphere quadrature of the real gain table inside the property's thin-wire domain.",
        "Rocq proof (energy identity) + extracted formulas + correspondence; quadrature oracle for the numerical clause", "DESIGN.md §6 C01",
        note=NOTE + " PARTIAL as stated in the level text.")

    add("C12",
        "Theorems for every list of objects and every numeric instance (binary64 included; the ground predicate is extracted from "
        "Geobj.compute_ground, evaluated inside every model case, and proved to mean |z| < eps on either side of the plane): pulse count = sum over objects of "
        "(segments-1) + [end grounded] + [end joined] with each joined end owned by exactly one EARLIER end (a junction of k ends has k-1 "
        "pulses); numbering without gaps in object order (q-th pulse of object i is global start_i + q, belongs to i); interior pulses sit on "
        "the joint of the two segments they are reported with; an end is joined exactly when it is identical to / within the tolerance of "
        "an earlier registered end (dictionary semantics of the scan, first match wins). The executable model is tied to "
        "compute_connections/Pulse by a correspondence on random wire graphs with perturbed ends (exact on indices, 1e-12 on points).",
        "Rocq proof (list induction over the two-phase topology model) + vm_compute correspondence", "DESIGN.md §6 C12, App. A.1")
    add("C17",
        "Theorems: per-object address (k, tag) = global index start + k = k-th row of that object's block; both forms name the same pulse; "
        "all-of-object = the object's contiguous block, NoDup; all = 0..N-1 each once; junction pulses belong to the later object; automatic "
        "tags continue after the largest explicit tag. Tied to register_source/register_load/compute_tags by correspondence (valid and "
        "invalid requests) on graphs with explicit, permuted, gapped, mixed and automatic tags.",
        "Rocq proof + vm_compute correspondence", "DESIGN.md §6 C17")
    add("C09",
        "Theorem (all wire graphs, all current vectors): owner total and joiners' lines, counted into the junction, cancel; the printed owner "
        "line equals that total at second ends and for single joiners; refutation witness for the first-end overwrite (recorded known "
        "finding, pinned by golden files); free end -> E line, joined end -> own junction pulse, grounded end -> no line. The model of the "
        "E/J lines is tied to currents_as_mininec by correspondence with injected random complex currents.",
        "Rocq proof over topology + report model + vm_compute correspondence", "DESIGN.md §6 C09")

    add("C13",
        "Theorems: plain wires give n chained segments of equal stored length L/n with unit direction ending exactly at end 2 (reals); "
        "accepted one- and two-sided tapers give exactly n pieces chained from p1 to p2 (any numeric instance) and end-2 tapering is the "
        "mirror image; arcs: n+1 ends on the circle at uniform angles; helix ends on the tapered ellipse; rotations preserve dot products "
        "and distances, order X,Y,Z; transformations are applied as a key-sorted permutation; scaling multiplies distances. The geometry / "
        "taper models are tied to the code by a segment-level correspondence incl. assertion outcomes. PARTIAL: the growth factor <= 2.1 and "
        "the [max(2.5r,min), max] window of tapers are measured on the real segments (taper1 asserts the window itself).",
        "Rocq proof (structural for all instances, metric over R) + vm_compute correspondence + geometric oracle", "DESIGN.md §6 C13")

    add("C14",
        "Theorem over the cache state machine (zint cleared by the frequency setter, zins frequency independent): after ANY sequence of "
        "SetF/Compute/FarField/NearField the values compute() uses equal those of a fresh object at the current frequency; fields and "
        "repeated computes change no cache; the attachment writer's output is independent of set iteration order (sorted permutations of "
        "distinct keys are equal); a second state machine (matrix in memory, number of times the loads sit on it, right-hand side) over "
        "set-frequency / compute / field requests / REPLACED sources: a compute after any session leaves what it leaves on a fresh object, and "
        "the lazy-matrix and stale-right-hand-side variants are refuted; stage `session` runs the real operation sequences on that model "
        "inside Coq and compares load multiplicity and right-hand-side support of the real object. The property itself is decided on the real code: random operation sequences on one object vs fresh "
        "objects (1e-12), sweep steps of main() vs single runs (text), and byte comparison across fresh processes; per-step load "
        "impedances are tied to the extracted formulas at two frequencies on one object.",
        "Rocq invariant proof over a cache state machine + history / process oracles on the real code", "DESIGN.md §6 C14",
        note=NOTE + " BLAS/thread non-determinism is runtime behaviour outside the model.")

    PART = " PARTIAL as stated in the level text."
    add("C02",
        "The complete matrix fill (exact kernel with elliptic integral, small-radius closed forms, Gauss order by distance, derived scalar "
        "potentials, diagonal / symmetric copies, image pass) is a Gallina model that reproduces EVERY entry of Mininec.Z to 1e-14 of "
        "max|Z| on random antennas (tolerance 1e-9). Theorems: a directly computed entry is the published MININEC-3 expression for ANY "
        "potential functional; over ground the entry is the free-space term minus the same expression for the mirrored source except "
        "grounded sources; the image pass integrates the same kernel over the mirrored chord; far-pair potentials are orientation free "
        "(numpy's Gauss tables are symmetric, checked on the dumped integers); a COPIED entry is exact: the entry of a pulse pair that is a "
        "translate of another pair equals that pair's entry at every optimisation level for any potential functional, and the hypothesis "
        "(the pairs of every copy group ARE translates) is measured on every case of the correspondence. PARTIAL: the 1e-4 agreement of Gauss quadrature with the "
        "exact integral is measured by adaptive quadrature on geometry derived from the touching segments.",
        "Rocq proof over a path-faithful model + entry-wise vm_compute correspondence + quadrature oracle", "DESIGN.md §6 C02, App. A.2", note=NOTE + PART)
    add("C03",
        "Theorems: image term of the matrix, kernel of the image pass, weight 2 of grounded excitations (extracted), far-field masks = real "
        "elements + mirror elements (incl. grounded pulses), same fields at half power = +3.0103 dB (interval). PARTIAL: equality of the "
        "solutions of the ground system and the mirrored free-space system is measured on the real code (generated mirror antennas).",
        "Rocq proof (ingredients of image theory) + correspondence + mirrored-antenna oracle", "DESIGN.md §6 C03", note=NOTE + PART)
    add("C04",
        "compute_near_field / nf_helper / psi_near_field_56 are a Gallina model that reproduces E and H of the real code to 4e-13 of max|E| at "
        "random points of random solved antennas (free space and ideal ground). Theorems: the E kernel of every pulse IS the impedance-matrix "
        "expression of C02 for a virtual test dipole at the observation point (so each source half enters with its own direction, sign, "
        "radius and length), for every potential functional that sees only distances, which the code's psi is proved to be; H is the "
        "central-difference curl of the vector potential of the same pulses; both fields are linear in the currents and scale with "
        "sqrt(P_req/P); the extracted constants give 4 pi m w = 377.2 ohm for every frequency (interval). PARTIAL: the 1 % agreement with "
        "-jwA - grad Phi of currents and charges, and the far-zone limits, are measured by adaptive quadrature on independent geometry.",
        "Rocq proof over a path-faithful model + point-wise vm_compute correspondence + field oracle", "DESIGN.md §6 C04, App. A.4", note=NOTE + PART)
    add("C05",
        "Theorems: the potential integral is invariant under rotations of the chord and sees only differences; thin-kernel EM scaling 1/s; "
        "rotations are isometries composed X,Y,Z; scaling multiplies lengths. PARTIAL: invariance of currents / impedances / pattern of "
        "the assembled system is measured (options vs coordinates, up to 300 wavelengths, factors 0.01..100).",
        "Rocq proof (invariances of the kernel and the transformations) + correspondence + metamorphic oracle", "DESIGN.md §6 C05", note=NOTE + PART)
    add("C06",
        "Theorems: symmetric Gauss tables => potential of a source segment independent of its orientation (far pairs); junction sense rule "
        "from end indices alone. PARTIAL: equivariance of the assembled solution under reversal / reordering / splitting is measured.",
        "Rocq proof (orientation independence) + correspondence + re-description oracle", "DESIGN.md §6 C06", note=NOTE + PART)
    add("C19",
        "util.format_float is a Gallina model on the exact rational value of the binary64 input (correctly rounded '% .Nf' / '% e', nine-character "
        "cut, stripping of zeros / point / leading zero, padding, '-0'), equal character by character to the real function on thousands of "
        "floats per run (1e-30..1e12, powers of ten and neighbours, ties, carries, 0.1). Theorems for ALL inputs: |f| >= 1 (no upper limit) "
        "relative error <= 5e-7; 0.1 <= |f| < 1 relative <= 5e-6; fixed-point fields below 1 absolute < 1e-6 for every t <= 0 the float logarithm "
        "can give; exponent fields below 0.1 relative <= 5e-7; zero prints as zero; at exact powers of ten (float logarithm one too small) the text "
        "is exact. Structure theorems over the topology model: the geometry blocks list every pulse once in order; each pulse of an object is a "
        "numbered current row of its block or one of its junction pulses, never both. A character-level reader is proved to accept every "
        "rendered text and to return exactly its value (and is run inside Coq on the real texts). The ENVIRONMENT block is modelled line by line "
        "(Model/Env.v, stage env against the real block for 0-4 media): every medium but the first prints its height, every medium but the last its "
        "interface, in order. The connection columns of the geometry table are modelled per pulse (Model/Conn.v, stage conn): a grounded half prints "
        "minus the tag of its own wire, inner rows the tag or 0 next to a free end. The printed near-field peak (formula extracted from the source) bounds the instantaneous field. PARTIAL: column agreement and per-table "
        "formats are checked by re-reading every number of real reports. Known finding: V/m table layout.",
        "Rocq proof (decimal rounding / truncation arithmetic over N and R) + character-wise vm_compute correspondence + report re-reading oracle",
        "DESIGN.md §6 C19", note=NOTE + PART)
    add("C15",
        "Theorems: (1) load attachments — for all pulse layouts, all attachment lists in any order and multiplicity and both addressing forms, "
        "the written options (with the 'all pulses of an object' / 'all pulses' abbreviations) are accepted by the reader and put the load on "
        "the same pulses with the same multiplicities; the pre-repair criterion is refuted by a witness. (2) objects and tags — every model "
        "the reader produces from any mix of arcs, helices and wires with explicit non-consecutive or automatic tags (read in the order arcs, "
        "helices, wires; automatic tags max+1, ...; sorted by tag) is reproduced by reading the written options, and writing again gives the "
        "same options; writing the re-read load gives the same attachment options. (3) load numbering — for every list of lumped loads of "
        "any kinds in any registration order (parameters and attachment options of any type) the written options are accepted and give the "
        "same loads grouped by kind (a permutation of the model's loads), each with its own attachments, and writing again gives the same "
        "options. (4) sources — every source list main can produce (default source, single source of 1 V, several sources) is reproduced; the "
        "pre-repair writer is refuted. (5) media — every media structure the program can hold (any number of media, a coordinate given to the "
        "outermost one, either boundary, radial screen) is read back from its written options and written again identically; the writer before "
        "repair 9469538 is refuted. Tie: stages `cmd`, `objs`, `loads`, `srcs`, `media` compare the model readers / writers with the real main / "
        "as_cmdline on generated command lines. PARTIAL: tapering, transformations, media and the numeric parameters are not modelled; the "
        "oracle runs write -> main -> write on the real code and compares descriptions, feed impedance and the second writing.",
        "Rocq proof (attachment writer/reader by counting; object tags by sorting / permutation invariance; load numbering by induction over the written list; sources by cases) + vm_compute correspondence + write/read/write oracle on the real code",
        "DESIGN.md §6 C15", note=NOTE + PART)
    add("C18",
        "Theorem: for every combination of environment (free space, perfect ground, 1..n media with linear / circular boundary and radials), "
        "numbers of (emulated) wires, sources and loads of either family, orders of S-parameter functions, far-field (dBi, V/m, new power "
        "level, pattern file) and near-field requests, the generated answer sequence is read completely by the prompt automaton, which "
        "recovers exactly those counts and choices. Tie: stage `bas` runs the automaton inside Coq on the tokenised REAL generated text of "
        "random models (BASIC versions 9/12/13) and compares with the real model; the model writer's sequence must be the real one. Values: "
        "the magnitude / phase-in-degrees formulas of a source and the unit factor of S-parameter coefficients per BASIC version are extracted "
        "from the source by the translator and proved to read back as the model's complex voltage / coefficient (the phase in radians is "
        "refuted). PARTIAL: the other values on the lines and the re-read model (pulse numbering with BASIC's exact end matching, sources in degrees, loads, media, "
        "feed impedance for plain-wire models) are compared by an independent Python reader; the BASIC program itself is not available. "
        "Known finding: insulated thick wires (stale i6).",
        "Rocq proof (parser/printer round trip for the prompt automaton) + vm_compute correspondence on the real text + independent re-reading oracle",
        "DESIGN.md §6 C18", note=NOTE + PART)
    add("C20",
        "Theorems: (a) on the exception flow REGENERATED from main's syntax tree on every run (py/translate_main.py -> Gen/MainFlow.v: every "
        "place where main performs an operation that can raise, with the handlers of the try statements around it): every kind of exception "
        "the operation can raise is turned into the diagnostic, hence whichever operation raises first the run does not end in an uncaught "
        "exception; every frequency of a sweep lies inside the guarded range. (b) for every assignment of admissible faults to the 22 stages of main (parsing and constructing each kind of option, "
        "transformations, media, Mininec(), sources, loads, attachments, distributed loads, angles, near field, compute, fields, report) the "
        "run ends in the report or in the diagnostic of the first failing stage, never in an uncaught exception; the same table before the "
        "repairs is refuted by a witness (frequency zero); the frequency guard 0 < f < 1e150 keeps every constant of the frequency setter "
        "(translator-extracted) positive and below 1e300 (interval). Tie: stage `main` provokes every (stage, exception kind) row through the "
        "real main. The oracle mutates valid command lines (zero, negative, huge, denormal, non-finite values, wrong arity, unknown tags, "
        "duplicates, contradictions) and classifies the ending. PARTIAL: what each primitive / stage can raise is transcribed (where it is "
        "performed and what surrounds it is translated). 29 fix: commits repaired what the oracle found.",
        "Rocq proof (site list translated from the source, checked by vm_compute + forallb_forall; stage table; numeric guards by lra / interval) + row-by-row correspondence on the real main + mutation oracle",
        "DESIGN.md §6 C20, App. C", note=NOTE + PART)
