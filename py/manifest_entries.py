"""Per-property entries of MANIFEST.json (see py/mkmanifest.py)."""
NOT_APPLICABLE = {}
def register(add, NOTE):
    add("C07",
        "Theorems for every matrix and every source set: the right-hand side is linear in the voltages (fold over the extracted rhs_entry), "
        "currents are linear whenever Z is nonsingular, a common complex factor leaves V/I unchanged and scales power by |a|^2, the "
        "reported impedance/power are V/I and Re(V I*)/2 (extracted Excitation.impedance/.power). Tie: translator for the leaf formulas, "
        "bit-level vm_compute correspondence of rhs, loaded matrix, source data and a residual certificate for the solver's currents; "
        "metamorphic search oracle (scaling, superposition, registration order) on the real code.",
        "Rocq proof (linear algebra over Coquelicot C) + extracted formulas + correspondence", "DESIGN.md §6 C07")
    add("C08",
        "Theorems: a lumped load on the feed pulse adds exactly z to V/I for every nonsingular matrix (grounded pulse included); loads "
        "enter only their own diagonal entry and add up; zero load is a no-op; Laplace load = ratio of polynomials in s; RLC = series, "
        "trap = parallel circuit; insulation with eps_r=1 is a no-op (incl. equivalent radius); conductivity/resistivity interchange; "
        "distributed loads = per-length impedance x real conductor length of the pulse. Leaf formulas re-extracted every run; padding, "
        "per-pulse sums and every load class tied by correspondence at two frequencies on the same object; circuit/metamorphic oracle.",
        "Rocq proof + extracted formulas + correspondence", "DESIGN.md §6 C08",
        note=NOTE + " scipy.special.jv is trusted for the Bessel ratio passed to the model; the sigma -> infinity skin-effect limit is measured by the oracle, not proved.")
