"""Correspondence stage `topo`: Model.Topology.build evaluated by coqc on the
real code's objects (segments, end points, ground flags), compared with the
real pulses, per-object lists and end_segs."""
import random, re, json, os, math
from vlib import *
import gen

HEADER = '''From Coq Require Import ZArith List Bool PrimFloat.
Import ListNotations.
From PM Require Import Base.Num Base.FNum Base.Cplx Gen.Extracted Model.Topology Corr.TopoDriver.
Set Printing Depth 10000000.
Set Printing Width 200.
Local Notation SG := (@mkSeg FNum).
Local Notation OB := (@mkObj FNum).
Open Scope Z_scope.
'''
def F(h): return fhex(float.fromhex(h))
def B(b): return 'true' if b else 'false'
def v3(l): return '(%s, %s, %s)' % tuple(F(x) for x in l)

def ground_flags(o, g):
    """which ends of an object are on the ground plane, decided from the end coordinates (|z| below the matching tolerance when
    there is a ground), not read off the real object; the model itself evaluates the predicate EXTRACTED from
    Geobj.compute_ground (translator item X16, see coq_objs), this Python copy serves the oracles"""
    if not o['ground']:
        return [False, False]
    tol = float.fromhex(o['tol'])
    return [abs(float.fromhex(g['p1'][2])) < tol, abs(float.fromhex(g['p2'][2])) < tol]

def coq_objs(o):
    objs = []
    for g in o['geos']:
        segs = coq_list(['SG %s %s %s %s' % (v3(s['p1']), v3(s['p2']), F(s['len']), v3(s['dir'])) for s in g['segs']])
        if o['ground']:
            flags = '(@gnd_flags FNum %s %s %s)' % (F(g['p1'][2]), F(g['p2'][2]), F(o['tol']))      # extracted predicate
        else:
            flags = '(false, false)'
        objs.append('OB %s %s %s %s' % (segs, v3(g['p1']), v3(g['p2']), flags))
    return coq_list(objs)

_ctr = [0]
def coq_case(o):
    objs = coq_objs(o)
    _ctr[0] += 1
    nm = 'objs_%d' % _ctr[0]
    return ('Definition %s := %s.\nEval vm_compute in (topo_floats %s %s).\nEval vm_compute in (topo_ints %s %s).'
            % (nm, objs, F(o['tol']), nm, F(o['tol']), nm))

def gen_cases(rng, n, grounds=(None, None, 'ideal')):
    cases = []
    for i in range(n):
        g = rng.choice(grounds)
        if rng.random() < 0.6:
            spec = gen.gen_topology(rng, ground=g)
        else:
            spec = gen.gen_antenna(rng, ground=g)
        cases.append(dict(id=i, seed=rng.randrange(10 ** 9), spec=spec))
    return cases

def compare(o, fl, zs):
    """returns list of differences between real facts o and model output"""
    bad = []
    np_ = len(o['pulses'])
    sep = zs.index(-7) if -7 in zs else -1
    if sep < 0 or sep % 10 != 0:
        return ['model output malformed']
    if sep // 10 != np_:
        return ['number of pulses: code %d, model %d' % (np_, sep // 10)]
    if len(fl) != 9 * np_:
        return ['model returned %d coordinates for %d pulses' % (len(fl), np_)]
    scale = max([abs(float.fromhex(v)) for p in o['pulses'] for v in p['point']] + [1e-30])
    for k, p in enumerate(o['pulses']):
        real = [float.fromhex(v) for v in p['point']] + [float.fromhex(v) for v in p['ends'][0]] + [float.fromhex(v) for v in p['ends'][1]]
        mod = fl[9 * k: 9 * k + 9]
        if any(abs(a - b) > 1e-12 * max(scale, abs(a)) for a, b in zip(real, mod)):
            bad.append('pulse %d point/ends: code %r model %r' % (k, real, mod)); break
        ri = [p['segs'][0][0], p['segs'][0][1], p['segs'][1][0], p['segs'][1][1], int(p['gnd'][0]), int(p['gnd'][1]),
              p['dsgn'][0], p['dsgn'][1], p['obj'], p['n']]
        mi = zs[10 * k: 10 * k + 10]
        if ri != mi:
            bad.append('pulse %d (segs, ground, dir_sgn, object, n): code %r model %r' % (k, ri, mi)); break
        # sign = dir_sgn * gnd_sgn
        sg = [p['dsgn'][h] * (-1 if p['gnd'][h] else 1) for h in (0, 1)]
        if [float(x) for x in sg] != p['sign']:
            bad.append('pulse %d sign %r is not dir_sgn*gnd_sgn %r' % (k, p['sign'], sg))
    rest = zs[sep + 1:]
    if len(rest) != 12 * len(o['geos']):
        bad.append('model returned %d object integers for %d objects' % (len(rest), len(o['geos'])))
        return bad
    for i, g in enumerate(o['geos']):
        q = rest[12 * i: 12 * i + 12]
        es = [(-1 if e is None else e) for e in g['end_segs']]
        if es != q[0:2]:
            bad.append('object %d end_segs: code %r model %r' % (i, es, q[0:2]))
        if g['pulses'] != list(range(q[2], q[2] + q[3])):
            bad.append('object %d pulse list: code %r model start %d count %d' % (i, g['pulses'], q[2], q[3]))
    return bad

def run_stage(chk, rng, ncases, grounds=(None, None, 'ideal'), cases=None):
    cases = cases or gen_cases(rng, ncases, grounds)
    shards = [cases[k::NCPU] for k in range(NCPU) if cases[k::NCPU]]
    res = run_workers('topo', [dict(cases=s) for s in shards])
    results = []
    for ok, r in res:
        if not ok:
            chk.tie_broken('correspondence', 'topo', 'real code could not be run: ' + str(r)[-800:])
            continue
        results += r['results']
    results.sort(key=lambda r: r['id'])
    good = [r for r in results if 'obs' in r]
    errs = [r for r in results if 'error' in r]
    model_ok = all(vo_ok(f) for f in ('Corr/TopoDriver.v', 'Model/Topology.v'))
    outm = {}
    if model_ok and good:
        per = max(1, (len(good) + NCPU - 1) // NCPU)
        groups = [good[k:k + per] for k in range(0, len(good), per)]
        outs = coq_evals([('tp_%d_%d' % (os.getpid(), gi), HEADER + '\n'.join(coq_case(r['obs']) for r in g) + '\n')
                          for gi, g in enumerate(groups)])
        for g, (rc, out) in zip(groups, outs):
            blocks = re.findall(r'(?s)=\s*(\[.*?\])\s*:\s*list (\w+)', out)
            fb = [b for b, t in blocks if t == 'float']
            zb = [b for b, t in blocks if t == 'Z']
            if rc != 0 or len(fb) != len(g) or len(zb) != len(g):
                chk.tie_broken('correspondence', 'topo', 'model evaluation failed: ' + out[-600:])
                continue
            for r, a, b in zip(g, fb, zb):
                outm[r['id']] = (parse_floats(a), [int(x) for x in re.findall(r'-?\d+', b)])
    elif not model_ok:
        chk.tie_broken('correspondence', 'topo', 'model (Model/Topology.v, Corr/TopoDriver.v) does not compile')
    nbad = 0
    for r in good:
        if r['id'] not in outm:
            continue
        bad = compare(r['obs'], *outm[r['id']])
        if bad:
            nbad += 1
            chk.tie_broken('correspondence', 'topo', 'case %d (%s): %s' % (r['id'], r['spec']['family'], '; '.join(bad[:2])))
    chk.stages['topo'] = dict(cases=len(cases), real_ok=len(good), real_errors=len(errs), compared=len(outm), disagreements=nbad)
    return good, errs

# ------------------------------------------------------------------ junc
def _run_generic(chk, task, cases, stage):
    shards = [cases[k::NCPU] for k in range(NCPU) if cases[k::NCPU]]
    res = run_workers(task, [dict(cases=s) for s in shards])
    results = []
    for ok, r in res:
        if not ok:
            chk.tie_broken('correspondence', stage, 'real code could not be run: ' + str(r)[-800:])
            continue
        results += r['results']
    results.sort(key=lambda r: r['id'])
    return [r for r in results if 'obs' in r], [r for r in results if 'error' in r]

def _eval_groups(chk, stage, good, mk):
    """mk(r) -> text of commands for one case; returns {id: [(type, block text)...]}"""
    per = max(1, (len(good) + NCPU - 1) // NCPU)
    groups = [good[k:k + per] for k in range(0, len(good), per)]
    texts = []
    counts = []
    for g in groups:
        parts = [mk(r) for r in g]
        counts.append([p.count('Eval vm_compute') for p in parts])
        texts.append(HEADER + '\n'.join(parts) + '\n')
    outs = coq_evals([('%s_%d_%d' % (stage, os.getpid(), gi), t) for gi, t in enumerate(texts)])
    res = {}
    for g, cnt, (rc, out) in zip(groups, counts, outs):
        blocks = re.findall(r'(?s)=\s*(\[.*?\])\s*:\s*list (\w+)', out)
        if rc != 0 or len(blocks) != sum(cnt):
            chk.tie_broken('correspondence', stage, 'model evaluation failed: ' + out[-600:])
            continue
        k = 0
        for r, c in zip(g, cnt):
            res[r['id']] = blocks[k:k + c]
            k += c
    return res

def cxl(h): return '(%s, %s)' % (F(h[0]), F(h[1]))

def junc_probes(rng):
    """three wires, the middle one moved by a transformation of its tag: away from its junction, not at all, onto the top of the
    third wire"""
    out = []
    for v_, fam in (([0.0, 0.6, 0.0], 'probe-tagged-move-away'), ([0.0, 0.0, 0.0], 'probe-tagged-move-zero'), ([1.5, 0.0, 0.0], 'probe-tagged-move-onto')):
        ws = [gen.wire(4, [0.0, 0.0, 0.5], [0.0, 0.0, 2.5], 0.001, tag=1), gen.wire(4, [0.0, 0.0, 2.5], [1.2, 0.0, 2.9], 0.001, tag=2),
              gen.wire(4, [1.5, 0.0, 0.5], [1.5, 0.0, 2.5], 0.001, tag=3)]
        out.append(dict(id=10 ** 6 + len(out), seed=rng.randrange(10 ** 9),
                        spec=dict(f=30.0, wires=ws, media=None, family=fam, tagmode='explicit', sources=[], loads=[],
                                  transforms=[dict(op='translate', key=1.0, v=v_, tag=2)])))
    return out

def run_junc(chk, rng, ncases, grounds=(None, None, 'ideal')):
    cases = junc_probes(rng) + gen_cases(rng, ncases, grounds)
    good, errs = _run_generic(chk, 'topo.junc', cases, 'junc')
    if not all(vo_ok(f) for f in ('Corr/TopoDriver.v', 'Model/Report.v', 'Model/Topology.v')):
        chk.tie_broken('correspondence', 'junc', 'model (Model/Report.v) does not compile')
        return good, errs
    def mk(r):
        o = r['obs']
        _ctr[0] += 1
        nm = 'objs_%d' % _ctr[0]
        return 'Definition %s := %s.\nEval vm_compute in (junc_lines %s %s %s).' % (
            nm, coq_objs(o), F(o['tol']), nm, coq_list([cxl(v) for v in o['cur']]))
    res = _eval_groups(chk, 'junc', good, mk)
    nbad = nlines = 0
    for r in good:
        if r['id'] not in res:
            continue
        o = r['obs']
        v = parse_floats(res[r['id']][0][0])
        bad = []
        if o['nblocks'] != len(o['geos']):
            bad.append('%d object blocks in the current table for %d objects' % (o['nblocks'], len(o['geos'])))
        for i, (g, b) in enumerate(zip(o['geos'], o['blocks'])):
            for e in (0, 1):
                code, re_, im_ = v[6 * i + 3 * e: 6 * i + 3 * e + 3]
                line = b['ends'][e]
                nlines += 1
                if line is None:
                    if code != 0: bad.append('object %d end %d: no line printed, model code %d' % (i, e + 1, code))
                elif line[0] == 'E':
                    if code != 1: bad.append('object %d end %d: E line printed, model code %d (%r)' % (i, e + 1, code, complex(re_, im_)))
                else:
                    c = complex(line[1], line[2])
                    if code != 2 or abs(c.real - re_) > 6e-6 * abs(re_) + 1e-30 or abs(c.imag - im_) > 6e-6 * abs(im_) + 1e-30:
                        bad.append('object %d end %d: J line %r, model %s %r' % (i, e + 1, c, code, complex(re_, im_)))
            npl = len([p for p in o['pulses'] if p['obj'] == i and p['segs'][0][0] == p['segs'][1][0]])
            if b['npulse_lines'] != npl:
                bad.append('object %d: %d pulse rows in the current table, %d own pulses' % (i, b['npulse_lines'], npl))
        if bad:
            nbad += 1
            chk.tie_broken('correspondence', 'junc', 'case %d (%s): %s' % (r['id'], r['spec']['family'], '; '.join(bad[:2])))
    chk.stages['junc'] = dict(cases=len(cases), real_ok=len(good), real_errors=len(errs), compared=len(res), end_lines=nlines, disagreements=nbad)
    return good, errs

def zl(l): return coq_list(['(%d)' % x for x in l])

def tag_probes(rng):
    """chains of 2-4 wires with every pattern of untagged objects followed by small explicit tags"""
    out = []
    P = [[0.0, 0.0, 1.0], [0.2, 0.1, 4.0], [2.1, 0.3, 5.2], [2.4, 2.5, 6.8], [4.4, 2.9, 7.1]]
    pats = [[None, 1], [None, 2], [None, None, 1], [None, None, 2], [None, 2, 1], [None, 1, None], [None, 3, None, 1], [None, None, 3, 1],
            [2, None, 3], [None, 4, None, 5]]
    for k, pat in enumerate(pats):
        wires = [gen.wire(3 + (i % 2), P[i], P[i + 1], 0.002, tag=t) for i, t in enumerate(pat)]
        out.append(dict(id=10 ** 6 + k, seed=rng.randrange(10 ** 9),
                        spec=dict(f=15.0, wires=wires, media=None, family='tag-probe', tagmode='lowmixed', sources=[], loads=[])))
    return out

def run_addr(chk, rng, ncases, grounds=(None, None, 'ideal')):
    cases = tag_probes(rng) + gen_cases(rng, ncases, grounds)
    good, errs = _run_generic(chk, 'topo.addr', cases, 'addr')
    if not all(vo_ok(f) for f in ('Corr/TopoDriver.v', 'Model/Report.v', 'Model/Topology.v')):
        chk.tie_broken('correspondence', 'addr', 'model (Model/Report.v) does not compile')
        return good, errs
    def mk(r):
        o = r['obs']
        _ctr[0] += 1
        nm = 'objs_%d' % _ctr[0]
        tags = zl(o['tags'])
        cmds = ['Definition %s := %s.' % (nm, coq_objs(o))]
        cmds.append('Eval vm_compute in (addr_rel %s %s %s %s).' % (F(o['tol']), nm, tags,
                    coq_list(['(%d%%nat, %d)' % (q['k'], q['tag']) for q in o['rel']])))
        cmds.append('Eval vm_compute in (addr_abs %s %s %s).' % (F(o['tol']), nm, coq_list(['%d%%nat' % q['p'] for q in o['abs']])))
        for q in o['allobj']:
            cmds.append('Eval vm_compute in (addr_allobj %s %s %s (%d)).' % (F(o['tol']), nm, tags, q['tag']))
        cmds.append('Eval vm_compute in (addr_all %s %s).' % (F(o['tol']), nm))
        cmds.append('Eval vm_compute in (tags_case %s).' % coq_list(['None' if t is None else '(Some (%d))' % t for t in o['tags_in']]))
        return '\n'.join(cmds)
    res = _eval_groups(chk, 'addr', good, mk)
    nbad = nreq = 0
    ints = lambda b: [int(x) for x in re.findall(r'-?\d+', b)]
    for r in good:
        if r['id'] not in res:
            continue
        o = r['obs']; bl = res[r['id']]
        bad = []
        rel = ints(bl[0][0]); ab = ints(bl[1][0])
        for q, mv in zip(o['rel'], rel):
            nreq += 1
            want = -1 if q['src'] is None else q['src']
            wl = -1 if q['load'] is None else (q['load'][0] if len(q['load']) == 1 else -2)
            if want != mv or wl != mv:
                bad.append('pulse %d of object tag %d: source -> %r, load -> %r, model %d' % (q['k'] + 1, q['tag'], q['src'], q['load'], mv))
        for q, mv in zip(o['abs'], ab):
            nreq += 1
            want = -1 if q['src'] is None else q['src']
            wl = -1 if q['load'] is None else (q['load'][0] if len(q['load']) == 1 else -2)
            if want != mv or wl != mv:
                bad.append('absolute pulse %d: source -> %r, load -> %r, model %d' % (q['p'] + 1, q['src'], q['load'], mv))
        for k, q in enumerate(o['allobj']):
            nreq += 1
            mv = ints(bl[2 + k][0])
            if q['load'] != mv:
                bad.append('all pulses of object tag %d: code %r model %r' % (q['tag'], q['load'], mv))
        mv = ints(bl[2 + len(o['allobj'])][0])
        if o['all'] != mv:
            bad.append('all pulses: code %r model %r' % (o['all'], mv))
        tg = ints(bl[3 + len(o['allobj'])][0])
        if o['tags_out'] is not None:
            if o['tags_out'] != tg:
                bad.append('automatic tags for %r: code %r model %r' % (o['tags_in'], o['tags_out'], tg))
            if o['tags_sorted'] != sorted(o['tags_out']):
                bad.append('objects are not sorted by tag: %r' % o['tags_sorted'])
        if bad:
            nbad += 1
            chk.tie_broken('correspondence', 'addr', 'case %d (%s): %s' % (r['id'], r['spec']['family'], '; '.join(bad[:2])))
    chk.stages['addr'] = dict(cases=len(cases), real_ok=len(good), real_errors=len(errs), compared=len(res), requests=nreq, disagreements=nbad)
    return good, errs

# ------------------------------------------------------------------ zmat
ZHEADER = HEADER.replace('Model.Topology Corr.TopoDriver', 'Model.Topology Model.Kernel Model.ZMatrix Corr.TopoDriver Corr.ZDriver')

def run_zmat(chk, rng, ncases, grounds=(None, None, 'ideal'), cases=None, tol=1e-9, maxp=26):
    import gen as _g
    if cases is None:
        cases = []
        for i in range(ncases):
            g = rng.choice(grounds)
            if rng.random() < 0.35:
                spec = _g.gen_topology(rng, ground=g, perturb=False)
            else:
                spec = _g.gen_antenna(rng, ground=g)
            cases.append(dict(id=i, seed=rng.randrange(10 ** 9), spec=spec))
    good, errs = _run_generic(chk, 'topo.zmat', cases, 'zmat')
    good = [r for r in good if 0 < len(r['obs']['pulses']) <= maxp]
    if not all(vo_ok(f) for f in ('Corr/ZDriver.v', 'Model/ZMatrix.v', 'Model/Kernel.v', 'Model/Topology.v', 'Gen/Tables.v')):
        chk.tie_broken('correspondence', 'zmat', 'model (Model/Kernel.v, Model/ZMatrix.v) does not compile')
        return good, errs
    global HEADER
    def mk(r):
        o = r['obs']
        _ctr[0] += 1
        nm = 'objs_%d' % _ctr[0]
        radii = coq_list([F(g['r']) for g in o['geos']])
        return 'Definition %s := %s.\nEval vm_compute in (z_case %s %s %s %s %s).' % (
            nm, coq_objs(o), F(o['f']), F(o['tol']), 'true' if o['ground'] else 'false', nm, radii)
    saved = HEADER
    HEADER = ZHEADER
    try:
        res = _eval_groups(chk, 'zmat', good, mk)
    finally:
        HEADER = saved
    nbad = nent = copied = 0
    worst = worst_copy = 0.0
    for r in good:
        if r['id'] not in res:
            continue
        o = r['obs']
        v = parse_floats(res[r['id']][0][0])
        n = len(o['pulses'])
        if len(v) != 2 * n * n + 2:
            chk.tie_broken('correspondence', 'zmat', 'case %d: model returned %d numbers for a %dx%d matrix' % (r['id'], len(v), n, n)); nbad += 1; continue
        cdev, ncopy = v[-2], int(v[-1]); v = v[:-2]
        copied += ncopy; worst_copy = max(worst_copy, cdev)
        if not cdev <= 1e-9:
            # the hypothesis of C02_copied_entry_is_direct does not hold for a pair the fill copies
            chk.notes.setdefault('failing_specs', []).append(r['spec'])
            chk.tie_broken('correspondence', 'zmat-copy', 'case %d (%s): a matrix entry is copied between pulse pairs that are not translates of each other '
                           '(deviation %.3g of the segment length)' % (r['id'], r['spec']['family'], cdev))
        Z = [[complex(float.fromhex(a), float.fromhex(b)) for a, b in row] for row in o['Z']]
        zmax = max(abs(z) for row in Z for z in row)
        bad = []
        for i in range(n):
            for j in range(n):
                nent += 1
                zm = complex(v[2 * (i * n + j)], v[2 * (i * n + j) + 1])
                e = abs(zm - Z[i][j]) / zmax
                worst = max(worst, e)
                if not e <= tol:
                    bad.append('Z[%d][%d]: code %r model %r' % (i, j, Z[i][j], zm))
        if bad:
            nbad += 1
            chk.notes.setdefault('failing_specs', []).append(r['spec'])
            chk.tie_broken('correspondence', 'zmat', 'case %d (%s, %s, %d pulses): %d entries differ, e.g. %s' % (
                r['id'], r['spec']['family'], 'ground' if o['ground'] else 'free', n, len(bad), bad[0]))
    chk.stages['zmat'] = dict(cases=len(cases), real_ok=len(good), real_errors=len(errs), compared=len(res), entries=nent,
                              disagreements=nbad, worst_rel_to_max=worst, copied_entries=copied, worst_copy_pair_deviation=worst_copy)
    return good, errs

# ------------------------------------------------------------------ nf
def run_nf(chk, rng, ncases, grounds=(None, None, 'ideal'), tol=1e-8, maxp=22, families=None):
    import gen as _g
    cases = []
    for i in range(ncases):
        g = rng.choice(grounds)
        cases.append(dict(id=i, seed=rng.randrange(10 ** 9), spec=_g.gen_antenna(rng, ground=g, family=(rng.choice(families) if families else None))))
    good, errs = _run_generic(chk, 'topo.nf', cases, 'nf')
    good = [r for r in good if 0 < len(r['obs']['pulses']) <= maxp]
    if not all(vo_ok(f) for f in ('Corr/ZDriver.v', 'Model/NearField.v', 'Model/Kernel.v')):
        chk.tie_broken('correspondence', 'nf', 'model (Model/NearField.v) does not compile')
        return good, errs
    global HEADER
    def mk(r):
        o = r['obs']
        _ctr[0] += 1
        nm = 'objs_%d' % _ctr[0]
        radii = coq_list([F(g['r']) for g in o['geos']])
        return 'Definition %s := %s.\nEval vm_compute in (nf_case %s %s %s %s %s %s %s %s %s).' % (
            nm, coq_objs(o), F(o['f']), F(o['tol']), 'true' if o['ground'] else 'false', nm, radii,
            coq_list([cxl(v) for v in o['cur']]), F(o['power']), F(o['pwr']), coq_list([v3(p) for p in o['pts']]))
    saved = HEADER
    HEADER = ZHEADER.replace('Model.ZMatrix', 'Model.ZMatrix Model.NearField')
    try:
        res = _eval_groups(chk, 'nf', good, mk)
    finally:
        HEADER = saved
    nbad = npts = 0; worst = 0.0
    for r in good:
        if r['id'] not in res:
            continue
        o = r['obs']
        v = parse_floats(res[r['id']][0][0])
        if len(v) != 12 * len(o['pts']):
            chk.tie_broken('correspondence', 'nf', 'case %d: model returned %d numbers for %d points' % (r['id'], len(v), len(o['pts']))); nbad += 1; continue
        E = [[complex(float.fromhex(a), float.fromhex(b)) for a, b in e] for e in o['E']]
        H = [[complex(float.fromhex(a), float.fromhex(b)) for a, b in e] for e in o['H']]
        emax = max([abs(c) for e in E for c in e if abs(c) == abs(c)] + [1e-300]); hmax = max([abs(c) for e in H for c in e if abs(c) == abs(c)] + [1e-300])
        bad = []
        for k in range(len(o['pts'])):
            npts += 1
            for c in range(3):
                me = complex(v[12 * k + 2 * c], v[12 * k + 2 * c + 1]); mh = complex(v[12 * k + 6 + 2 * c], v[12 * k + 6 + 2 * c + 1])
                if not all(math.isfinite(x) for x in (E[k][c].real, E[k][c].imag, H[k][c].real, H[k][c].imag)):
                    # non-finite on both sides (a solution with negative input power): nothing to compare
                    if all(x != x or abs(x) == float('inf') for x in (me.real, me.imag)):
                        continue
                ee = abs(me - E[k][c]) / emax; eh = abs(mh - H[k][c]) / hmax
                worst = max(worst, ee, eh)
                if not ee <= tol or not eh <= tol:
                    bad.append('point %d component %d: E code %r model %r; H code %r model %r' % (k, c, E[k][c], me, H[k][c], mh))
        if bad:
            nbad += 1
            chk.notes.setdefault('failing_specs', []).append(r['spec'])
            chk.tie_broken('correspondence', 'nf', 'case %d (%s): %s' % (r['id'], r['spec']['family'], bad[0]))
    chk.stages['nf'] = dict(cases=len(cases), real_ok=len(good), real_errors=len(errs), compared=len(res), points=npts, disagreements=nbad, worst_rel_to_max=worst)
    return good, errs


# ------------------------------------------------------------------ stage conn: the connection columns of the geometry table
CONN_DEF = '''From PM Require Import Model.Conn.
Definition conn_case (tol : PrimFloat.float) (os : list (@obj FNum)) (tags : list Z) : list Z :=
  flat_map (fun c => [fst c; snd c]) (all_cper_from tags 0 (map (fun o => length (ob_segs o)) os) (scan tol [] O os)).
'''
def conn_cases(rng, n):
    """antennas with and without ground, half of them with tags that are not the positions of the objects"""
    cases = gen_cases(rng, n, (None, 'ideal', 'ideal'))
    for c in cases:
        sp = c['spec']
        if rng.random() < 0.6 and all(w.get('tag') is None for w in sp['wires']) and not sp.get('sources') and not sp.get('loads') \
                and not any(t.get('tag') is not None for t in sp.get('transforms', []) + sp.get('scales', [])):
            tg = rng.sample(range(2, 60), len(sp['wires'])); tg.sort()
            if rng.random() < 0.5: rng.shuffle(tg)
            for w, t_ in zip(sp['wires'], tg): w['tag'] = t_
    return cases

def run_conn(chk, rng, ncases):
    good, errs = _run_generic(chk, 'topo', conn_cases(rng, ncases), 'conn')
    if not all(vo_ok(f) for f in ('Corr/TopoDriver.v', 'Model/Conn.v', 'Model/Topology.v')):
        chk.tie_broken('correspondence', 'conn', 'model (Model/Conn.v) does not compile'); return
    first = [True]
    def mk(r):
        o = r['obs']
        _ctr[0] += 1
        nm = 'objs_%d' % _ctr[0]
        pre = CONN_DEF if first[0] else ''
        first[0] = False
        return pre + 'Definition %s := %s.\nEval vm_compute in (conn_case %s %s %s).' % (
            nm, coq_objs(o), F(o['tol']), nm, coq_list(['(%d)' % g['tag'] for g in o['geos']]))
    # the definition has to be in every generated file: one group at a time
    per = max(1, (len(good) + NCPU - 1) // NCPU)
    res = {}
    for k in range(0, len(good), per):
        first[0] = True
        res.update(_eval_groups_one(chk, 'conn', good[k:k + per], mk))
    nbad = ngnd = ntag = 0
    for r in good:
        if r['id'] not in res: continue
        o = r['obs']
        mz = [int(x) for x in re.findall(r'-?\d+', res[r['id']][0][0])]
        rz = [v for p in o['pulses'] for v in p['c_per']]
        gnd = any(any(p['gnd']) for p in o['pulses']); nonpos = any(g['tag'] != g['n'] + 1 for g in o['geos'])
        ngnd += gnd; ntag += nonpos
        chk.add_case('conn:' + json.dumps(r['spec'], sort_keys=True), len(o['geos']) > 1 or gnd, sample=dict(stage='conn', objects=len(o['geos']), ground=gnd, tags_not_positions=nonpos))
        if mz != rz:
            nbad += 1
            k = next((i for i, (a, b) in enumerate(zip(mz, rz)) if a != b), min(len(mz), len(rz)))
            chk.tie_broken('correspondence', 'conn', 'connection columns of %d objects: pulse %d column %d is %r in the geometry table, the model %r (tags %r)' % (
                len(o['geos']), k // 2 + 1, k % 2 + 1, rz[k] if k < len(rz) else None, mz[k] if k < len(mz) else None, [g['tag'] for g in o['geos']]))
            # a grounded half must print minus the tag of its own wire (C19: the table carries the model): decided here from the observation
            for p in o['pulses']:
                for h in (0, 1):
                    tg = next(g['tag'] for g in o['geos'] if g['n'] == p['segs'][h][0])
                    if p['gnd'][h] and p['c_per'][h] != -tg:
                        chk.violation(dict(stage='conn', what='grounded half'), 'pulse %d: the grounded half on the wire with tag %d prints %d in the connection column'
                                      % (p['idx'] + 1, tg, p['c_per'][h]), r['spec']); break
    chk.stages['conn'] = dict(cases=len(good), grounded=ngnd, tags_not_positions=ntag, rejected=len(errs), disagreements=nbad)

def _eval_groups_one(chk, stage, good, mk):
    parts = [mk(r) for r in good]
    cnt = [p.count('Eval vm_compute') for p in parts]
    rc, out = coq_eval('%s_%d_%d' % (stage, os.getpid(), good[0]['id'] if good else 0), HEADER + '\n'.join(parts) + '\n')
    blocks = re.findall(r'(?s)=\s*(\[.*?\])\s*:\s*list (\w+)', out)
    if rc != 0 or len(blocks) != sum(cnt):
        chk.tie_broken('correspondence', stage, 'model evaluation failed: ' + out[-600:]); return {}
    res = {}; k = 0
    for r, c in zip(good, cnt):
        res[r['id']] = blocks[k:k + c]; k += c
    return res
