"""Stage `topo` (C12, C17, C09, C06...): objects, segments, pulses, end_segs,
junction bookkeeping of the real code."""
import random, copy, math
import numpy as np
import gen
from .common import hx, hxc, exc_info

def facts(m):
    geos = []
    for g in m.geo:
        ep = np.array(g.endpoints, dtype=float)
        geos.append(dict(
            n=int(g.n), tag=int(g.tag), nseg=int(g.n_segments), r=hx(g.r), r_orig=hx(g.r_orig),
            segs=[dict(p1=[hx(v) for v in s.p1], p2=[hx(v) for v in s.p2], len=hx(s.seg_len),
                       dir=[hx(v) for v in s.dirvec]) for s in g.segments],
            p1=[hx(v) for v in ep[0]], p2=[hx(v) for v in ep[1]],
            # the ends of the conductor as it is segmented (first / last segment end): what the junctions are about
            sp1=[hx(v) for v in g.segments[0].p1], sp2=[hx(v) for v in g.segments[-1].p2],
            gnd=[bool(g.is_ground[0]), bool(g.is_ground[1])],
            end_segs=[None if e is None else int(e) for e in g.end_segs],
            pulses=[int(p.idx) for p in g.pulses],
            conn=[[[None if p is None else int(p), int(s)] for p, s in c.pulse_iter()] for c in g.conn],
            ltag=int(g.ltag), rtag=int(g.rtag), name=g.name))
    pulses = []
    for p in m.pulses:
        pulses.append(dict(
            idx=int(p.idx), point=[hx(v) for v in p.point],
            ends=[[hx(v) for v in p.ends[0]], [hx(v) for v in p.ends[1]]],
            segs=[[int(s.geobj.n), int(s.idx)] for s in p.segs],
            gnd=[bool(x) for x in p.ground], dsgn=[int(x) for x in p.dir_sgn],
            sign=[float(x) for x in p.sign], obj=int(p.geobj.n), n=int(p.n), c_per=[int(x) for x in p.c_per]))
    return dict(tol=hx(m.min_seglen * 1e-3), min_seglen=hx(m.min_seglen), geos=geos, pulses=pulses,
                ground=m.media is not None)

def run(payload):
    out = []
    for case in payload['cases']:
        r = dict(id=case['id'])
        try:
            spec = case['spec']
            r['spec'] = spec
            m = gen.build(dict(spec, sources=[], loads=[]))
            r['obs'] = facts(m)
        except Exception as e:
            r['error'] = exc_info(e)
        out.append(r)
    return dict(results=out)

def _parse_current_blocks(txt, geos):
    """Returns per object: [end1 line or None, end2 line or None]; a line is
    ('E',) or ('J', complex)."""
    lines = txt.split('\n')
    blocks = []
    cur = None
    for l in lines:
        if ' NO.' in l and l.rstrip().endswith(':'):
            cur = []
            blocks.append(cur)
            continue
        if cur is None:
            continue
        s = l.strip()
        if not s or s.startswith('PULSE') or s.startswith('NO.') or s.startswith('*'):
            continue
        cur.append(s)
    out = []
    for g, b in zip(geos, blocks):
        def parse(s):
            f = s.split()
            if f[0] == 'E':
                return ['E']
            return ['J', float(f[1]), float(f[2])]
        ends = [None, None]
        body = [x for x in b]
        if not g['gnd'][0]:
            ends[0] = parse(body.pop(0))
        if not g['gnd'][1]:
            ends[1] = parse(body.pop(-1))
        out.append(dict(ends=ends, npulse_lines=len(body)))
    return out, len(blocks)

def junc(payload):
    out = []
    for case in payload['cases']:
        r = dict(id=case['id'])
        try:
            rng = random.Random(case['seed'])
            spec = case['spec']
            r['spec'] = spec
            m = gen.build(dict(spec, sources=[], loads=[]))
            o = facts(m)
            n = len(m.pulses)
            if rng.random() < 0.5:
                # the report has been printed before on this object, for another solution (other sources / loads, same frequency)
                m.current = np.array([complex(rng.uniform(-1, 1), rng.uniform(-1, 1)) for _ in range(n)])
                m.currents_as_mininec()
                o['reported_before'] = True
            cur = np.array([complex(rng.uniform(-1, 1), rng.uniform(-1, 1)) * 10 ** rng.uniform(-3, 0) for _ in range(n)])
            m.current = cur
            txt = m.currents_as_mininec()
            blocks, nb = _parse_current_blocks(txt, o['geos'])
            o['cur'] = [hxc(v) for v in cur]
            o['blocks'] = blocks
            o['nblocks'] = nb
            r['obs'] = o
        except Exception as e:
            r['error'] = exc_info(e)
        out.append(r)
    return dict(results=out)

def addr(payload):
    from mininec import mininec as M
    out = []
    for case in payload['cases']:
        r = dict(id=case['id'])
        try:
            rng = random.Random(case['seed'])
            spec = case['spec']
            r['spec'] = spec
            m = gen.build(dict(spec, sources=[], loads=[]))
            o = facts(m)
            n = len(m.pulses)
            tags = [int(g.tag) for g in m.geo]
            o['tags'] = tags
            reqs = []
            def try_(f):
                try:
                    return f()
                except ValueError:
                    return None
            # per-object requests (valid and invalid)
            rel = []
            for _ in range(8):
                tg = rng.choice(tags + [max(tags) + 3, 0])
                g = m.geo.by_tag.get(tg)
                kmax = (len(g.pulses) if g is not None else 2)
                k = rng.randint(0, kmax + 1)
                def f():
                    e = M.Excitation(1 + 0j)
                    m.register_source(e, k, tg)
                    return int(e.idx)
                def fl():
                    l = M.Impedance_Load(1 + 0j)
                    m.register_load(l, k, tg)
                    return [int(p.idx) for p in l.pulses]
                s_ = try_(f); l_ = try_(fl)
                rel.append(dict(k=k, tag=tg, src=s_, load=l_))
            ab = []
            for _ in range(6):
                p = rng.randint(0, n + 2)
                def f():
                    e = M.Excitation(1 + 0j)
                    m.register_source(e, p)
                    return int(e.idx)
                def fl():
                    l = M.Impedance_Load(1 + 0j)
                    m.register_load(l, p)
                    return [int(q.idx) for q in l.pulses]
                ab.append(dict(p=p, src=try_(f), load=try_(fl)))
            allobj = []
            for tg in tags:
                l = M.Impedance_Load(1 + 0j)
                m.register_load(l, None, tg)
                allobj.append(dict(tag=tg, load=[int(q.idx) for q in l.pulses]))
            l = M.Impedance_Load(1 + 0j)
            m.register_load(l)
            o['rel'] = rel; o['abs'] = ab; o['allobj'] = allobj; o['all'] = [int(q.idx) for q in l.pulses]
            # the same addressing through the command line: several sources in mixed forms (a per-object one BEFORE an absolute
            # one), the first load attached to all pulses of two objects by two options, a second load pulse by pulse
            # (the command line reads arcs, then helices, then wires and numbers untagged objects in that order: the layout is
            #  taken from the model the command line itself builds, without sources and loads)
            import io
            mc0 = None
            if all(w.get('tag') is not None or not w.get('taper') for w in spec['wires']):
                try:
                    mc0 = M.main(gen.to_argv(dict(spec, sources=[], loads=[])), f_err=io.StringIO(), return_mininec=True)
                except ValueError:
                    mc0 = None
                if isinstance(mc0, int): mc0 = None
            blocks = {int(g.tag): [int(p.idx) for p in g.pulses] for g in (mc0.geo if mc0 is not None else [])}
            full = [t for t in blocks if blocks[t]]
            n_c = len(mc0.pulses) if mc0 is not None else 0
            if mc0 is not None and n_c >= 3 and len(full) >= 2:
                ta, tb = rng.sample(full, 2)
                k1 = rng.randrange(len(blocks[ta]))
                pabs = rng.choice([p for p in range(n_c) if p != blocks[ta][k1]])
                srcs = [dict(pulse=k1, tag=ta, v=[1.0, 0.0]), dict(pulse=pabs, tag=None, v=[0.5, 0.5])]
                want_src = [blocks[ta][k1], pabs]
                if rng.random() < 0.5:
                    k2 = rng.randrange(len(blocks[tb]))
                    if blocks[tb][k2] not in want_src:
                        srcs.append(dict(pulse=k2, tag=tb, v=[0.0, 1.0])); want_src.append(blocks[tb][k2])
                    p3 = rng.randrange(n_c)
                    if p3 not in want_src:
                        srcs.append(dict(pulse=p3, tag=None, v=[2.0, 0.0])); want_src.append(p3)
                junc_ = [int(p.idx) for p in mc0.pulses if p.segs[0].geobj is not p.segs[1].geobj]
                pl = rng.choice(junc_) if (junc_ and rng.random() < 0.7) else rng.randrange(n_c)
                loads = [dict(kind='imp', z=[7.0, 3.0], attach=[[None, ta], [None, tb]]),
                         dict(kind='imp', z=[11.0, -5.0], attach=[[pl], [rng.randrange(len(blocks[tb])), tb]])]
                want_l2 = sorted([pl, blocks[tb][loads[1]['attach'][1][0]]])
                if rng.random() < 0.6:
                    # the same load once more on the same pulse, named in the per-object form: two attachments, both act
                    for t_, bl in blocks.items():
                        if pl in bl:
                            loads[1]['attach'].append([bl.index(pl), t_]); want_l2 = sorted(want_l2 + [pl]); break
                # a skin-effect load given for one object: every pulse with a half on that object carries it exactly once
                tsk = rng.choice(full)
                want_skin = sorted(int(p.idx) for p in mc0.pulses if any(int(s_.geobj.tag) == tsk for s_ in p.segs))
                argv = gen.to_argv(dict(spec, sources=srcs, loads=loads))
                if rng.random() < 0.7:
                    argv = argv + ['--skin-effect-conductivity=3.7e7,%d' % tsk]
                else:
                    tsk = None
                mc = M.main(argv, f_err=io.StringIO(), return_mininec=True)
                if not isinstance(mc, int):
                    eff = {}
                    for l_ in mc.loads:
                        for q in l_.pulses:
                            key = complex(l_.impedance(mc.f, q))
                            eff.setdefault((key.real, key.imag), []).append(int(q.idx))
                    o['cli'] = dict(argv=[a for a in argv if a.startswith(('--excitation-pulse', '--attach-load', '--load'))],
                                    src=[int(s_.idx) for s_ in mc.sources], want_src=want_src,
                                    load1=sorted(eff.get((7.0, 3.0), [])), want_load1=sorted(blocks[ta] + blocks[tb]),
                                    load2=sorted(eff.get((11.0, -5.0), [])), want_load2=want_l2)
                    if tsk is not None:
                        sk = [l_ for l_ in mc.loads if type(l_).__name__ == 'Skin_Effect_Load']
                        o['cli']['skin'] = sorted(int(q.idx) for l_ in sk for q in l_.pulses); o['cli']['want_skin'] = want_skin; o['cli']['skin_tag'] = tsk
                    # what the matrix got: the diagonal of the loaded matrix minus that of the same antenna without loads is, on every
                    # pulse, the same constant times the sum of the impedances attached there (twice on a ground-connection pulse)
                    try:
                        mu = M.main([a for a in argv if not a.startswith(('--load', '--attach-load', '--skin-effect'))], f_err=io.StringIO(), return_mininec=True)
                        mc.compute(); mu.compute()
                        dz = np.diag(np.array(mc.Z)) - np.diag(np.array(mu.Z))
                        exp = np.zeros(n_c, dtype=complex)
                        for l_ in mc.loads:
                            for q in l_.pulses:
                                exp[int(q.idx)] += complex(l_.impedance(mc.f, q)) * (2 if q.ground.any() else 1)
                        nz = [j for j in range(n_c) if abs(exp[j]) > 0]
                        if nz:
                            cs = [dz[j] / exp[j] for j in nz]
                            c0 = sorted(cs, key=lambda v: abs(v))[len(cs) // 2]          # the median: the constant of the majority
                            dev = [(abs(dz[j] - c0 * exp[j]) / abs(c0 * exp[j]), j) for j in nz]
                            o['cli']['matrix_dev'] = [float(max(dev)[0]), int(max(dev)[1])]
                            o['cli']['matrix_other'] = float(max([abs(dz[j]) / abs(c0 * exp[nz[0]]) for j in range(n_c) if j not in nz] or [0.0]))
                    except (ValueError, FloatingPointError, ZeroDivisionError, np.linalg.LinAlgError):
                        pass
                    # the option writer in per-object form, read back: the loads sit on the same pulses
                    t1 = mc.as_cmdline(load_by_geo=True)
                    mr = M.main(t1.split(), f_err=io.StringIO(), return_mininec=True)
                    if isinstance(mr, int):
                        o['cli']['rewritten'] = None
                    else:
                        eff2 = {}
                        for l_ in mr.loads:
                            for q in l_.pulses:
                                key = complex(l_.impedance(mr.f, q))
                                eff2.setdefault((key.real, key.imag), []).append(int(q.idx))
                        o['cli']['rewritten'] = [sorted(eff2.get((7.0, 3.0), [])), sorted(eff2.get((11.0, -5.0), []))]
                        o['cli']['attach_written'] = [a for a in t1.split() if a.startswith('--attach-load')]
            # compute_tags on its own
            tin = [rng.choice([None, None, rng.randint(1, 12)]) for _ in range(rng.randint(1, 6))]
            objs = [M.Wire(1, 0, 0, k, 0, 0, k + 1.0, 0.001, tag=t) for k, t in enumerate(tin)]
            cont = M.Geo_Container(None, objs)
            try:
                cont.compute_tags()
                o['tags_in'] = tin; o['tags_out'] = [int(w.tag) for w in objs]
                o['tags_sorted'] = [int(w.tag) for w in cont.geo]
            except ValueError:
                o['tags_in'] = tin; o['tags_out'] = None
            r['obs'] = o
        except Exception as e:
            r['error'] = exc_info(e)
        out.append(r)
    return dict(results=out)

def zmat(payload):
    out = []
    for case in payload['cases']:
        r = dict(id=case['id'])
        try:
            spec = case['spec']
            r['spec'] = spec
            rng_ = random.Random(case.get('seed', 0))
            pre = rng_.choice([None, None, 100.0, 0.01, 10.0, 0.1, 2.0])
            if pre is None:
                m = gen.build(dict(spec, sources=[], loads=[]))
            else:
                # the object has computed a matrix at another frequency before (a sweep step): thin / thick wire limits,
                # wave number and everything else derived from the frequency must follow the new frequency
                m = gen.build(dict(spec, sources=[], loads=[], f=spec['f'] * pre))
                m.compute_impedance_matrix()
                m.f = spec['f']
            o = facts(m)
            o['prehistory'] = pre
            m.compute_impedance_matrix()
            Z = np.array(m.Z)
            o['Z'] = [[hxc(v) for v in row] for row in Z]
            o['f'] = hx(m.f)
            unc = m.pulses.matrix_geo_unconnected()
            o['unconn'] = [[bool(x) for x in row] for row in unc]
            o['cond'] = float(np.linalg.cond(Z)) if len(Z) else 1.0
            r['obs'] = o
        except Exception as e:
            r['error'] = exc_info(e)
        out.append(r)
    return dict(results=out)

def nf(payload):
    out = []
    for case in payload['cases']:
        r = dict(id=case['id'])
        try:
            rng = random.Random(case['seed'])
            spec = case['spec']
            m0 = gen.build(dict(spec, sources=[], loads=[]))
            n = len(m0.pulses)
            gnd = [i for i, p in enumerate(m0.pulses) if p.ground.any()]
            gen.add_sources(rng, spec, n, grounded=gnd)
            spec['loads'] = []
            r['spec'] = spec
            m = gen.build(spec); m.compute()
            o = facts(m)
            lam = 299.8 / m.f
            start = [rng.uniform(-2, 2) * lam, rng.uniform(-2, 2) * lam, rng.uniform(0.3, 2) * lam]
            inc = [rng.choice([1, -1]) * lam * rng.uniform(0.05, 0.5) for _ in range(3)]
            nv = [2, 1, 2]
            pwr = rng.choice([None, 100.0, 10 ** rng.uniform(-2, 3)])
            m.compute_near_field(start, inc, nv, pwr)
            o['f'] = hx(m.f); o['cur'] = [hxc(v) for v in m.current]; o['power'] = hx(m.power); o['pwr'] = hx(m.nf_power)
            o['pts'] = [[hx(v) for v in m.near_field_coord[:, k]] for k in range(m.near_field_coord.shape[1])]
            o['E'] = [[hxc(v) for v in e] for e in m.e_field]; o['H'] = [[hxc(v) for v in h] for h in m.h_field]
            r['obs'] = o
        except Exception as e:
            r['error'] = exc_info(e)
        out.append(r)
    return dict(results=out)
