"""Search oracles on the real code for C02, C03, C05, C06 (metamorphic
relations between real runs; independent quadrature for C02)."""
import random, copy, math, cmath
import numpy as np
import gen
from .common import hx, hxc, exc_info

def _tol(cond):
    """tolerance schedule of C03/C05/C06: 5e-4 up to cond 1e3, then 5e-7*cond up to 1e5"""
    if cond > 1e5:
        return None
    return 5e-4 if cond <= 1e3 else 5e-7 * cond

def _solve(spec):
    m = gen.build(spec); m.compute()
    return m

def _prep(case, ground_ok=True, nsrc=None):
    rng = random.Random(case['seed'])
    spec = case['spec']
    m0 = gen.build(dict(spec, sources=[], loads=[]))
    n = len(m0.pulses)
    gnd = [i for i, p in enumerate(m0.pulses) if p.ground.any()]
    gen.add_sources(rng, spec, n, nsrc=nsrc, grounded=gnd)
    gen.add_lumped_loads(rng, spec, n, nload=rng.choice([0, 0, 1]))
    for l in spec['loads']:
        if l['kind'] != 'imp':
            l['kind'] = 'imp'; l['z'] = [rng.uniform(0, 100), rng.uniform(-100, 100)]
    return rng, spec, m0

def _rot(v, ang):
    ax, ay, az = [math.radians(a) for a in ang]
    x, y, z = v
    y, z = y * math.cos(ax) - z * math.sin(ax), y * math.sin(ax) + z * math.cos(ax)
    x, z = x * math.cos(ay) + z * math.sin(ay), -x * math.sin(ay) + z * math.cos(ay)
    x, y = x * math.cos(az) - y * math.sin(az), x * math.sin(az) + y * math.cos(az)
    return [x, y, z]

def c05(payload):
    from mininec.mininec import Angle
    out = []
    for case in payload['cases']:
        r = dict(id=case['id'])
        try:
            rng, spec, m0 = _prep(case)
            r['spec'] = spec
            ground = spec['media'] is not None
            A = _solve(spec)
            cond = float(np.linalg.cond(A.Z)); tol = _tol(cond)
            if tol is None or any(w['type'] != 'wire' for w in spec['wires']):
                r['skipped'] = True; out.append(r); continue
            IA = np.array(A.current); ZA = [s.impedance for s in A.sources]
            bad = []
            def cmp(B, what):
                IB = np.array(B.current)
                if len(IB) != len(IA):
                    bad.append('%s: the number of unknowns changes from %d to %d' % (what, len(IA), len(IB))); return
                if np.abs(IB - IA).max() > tol * np.abs(IA).max():
                    bad.append('%s: currents change by %.3g relative (cond %.3g)' % (what, np.abs(IB - IA).max() / np.abs(IA).max(), cond))
                for a, b in zip(ZA, [s.impedance for s in B.sources]):
                    if abs(a - b) > tol * abs(a):
                        bad.append('%s: feed impedance %r -> %r' % (what, a, b))
            # rigid motion: via options and via coordinates
            ang = [0.0, 0.0, rng.uniform(-180, 180)] if ground else [rng.uniform(-180, 180) for _ in range(3)]
            lam = 299.8 / spec['f']
            far = rng.choice([30, 30, 300])
            sh = [rng.uniform(-far, far) * lam, rng.uniform(-far, far) * lam, 0.0 if ground else rng.uniform(-far, far) * lam]
            so = copy.deepcopy(spec)
            so['transforms'] = [dict(op='rotate', key=1.0, v=ang, tag=None), dict(op='translate', key=2.0, v=sh, tag=None)]
            B = _solve(so); cmp(B, 'rotation %r + translation %r by options' % ([round(a, 3) for a in ang], [round(s, 3) for s in sh]))
            sc = copy.deepcopy(spec)
            for w in sc['wires']:
                for key in ('p1', 'p2'):
                    q = _rot(w[key], ang); w[key] = [q[i] + sh[i] for i in range(3)]
                    if ground and abs(w[key][2]) < 1e-9: w[key][2] = 0.0
            C = _solve(sc); cmp(C, 'the same motion written into the coordinates')
            IB, IC = np.array(B.current), np.array(C.current)
            if len(IB) == len(IC) and np.abs(IB - IC).max() > tol * np.abs(IC).max():
                bad.append('options and coordinates give different currents (%.3g relative)' % (np.abs(IB - IC).max() / np.abs(IC).max()))
            # the same motion through the command line: the transformations are applied in the NUMERIC order of their keys,
            # whatever the order and the spelling of the options
            if all(w.get('tag') is not None or not w.get('taper') for w in spec['wires']):
                from mininec.mininec import main as _main
                import io as _io
                k1, k2 = rng.choice([('9', '10'), ('5', '100'), ('-2', '-1'), ('8', '12.0'), ('1.5', '10.5'), ('2', '1e1'), ('1', '2')])
                tr = [dict(op='translate', keytext=k2, v=sh, tag=None), dict(op='rotate', keytext=k1, v=ang, tag=None)]
                if rng.random() < 0.5: tr.reverse()
                err = _io.StringIO()
                G = _main(gen.to_argv(spec, transforms=tr), f_err=err, return_mininec=True)
                if isinstance(G, int):
                    bad.append('the same motion given on the command line is rejected: %s' % err.getvalue()[:200])
                else:
                    G.compute(); cmp(G, 'rotation (key %s) + translation (key %s) on the command line' % (k1, k2))
                    pg = np.array([p.point for p in G.pulses]); pc = np.array([p.point for p in C.pulses])
                    if pg.shape == pc.shape:
                        dev = np.abs(pg - pc).max(); ext = max(np.abs(pc).max(), lam)
                        if dev > 1e-9 * ext:
                            bad.append('command line puts the antenna elsewhere: rotation (key %s) then translation (key %s) on the command line puts the '
                                       'antenna %.3g m away from the same motion written into the coordinates' % (k1, k2, dev))
                    # ... followed by a scaling: documented to come after rotation and translation, so every position is multiplied
                    if not ground and not any(w.get('taper') for w in spec['wires']):      # taper limits are absolute lengths: they do not scale
                        s9 = float('%.3g' % 10 ** rng.uniform(-0.5, 0.5))
                        G2 = _main(gen.to_argv(dict(spec, scales=[dict(factor=s9, tag=None)]), transforms=tr), f_err=_io.StringIO(), return_mininec=True)
                        if not isinstance(G2, int):
                            pg2 = np.array([p.point for p in G2.pulses])
                            if pg2.shape == pc.shape and np.abs(pg2 - s9 * pc).max() > 1e-9 * max(np.abs(s9 * pc).max(), lam):
                                bad.append('command line scaling is not applied last: rotation, translation and --geo-scale=%g put the antenna %.3g m away from '
                                           '%g times the moved antenna (%r)' % (s9, np.abs(pg2 - s9 * pc).max(), s9, [a_ for a_ in gen.to_argv(dict(spec, scales=[dict(factor=s9, tag=None)]), transforms=tr) if a_.startswith('--geo')]))
            # ... and the same orientation in space: identical patterns
            zq = Angle(10.0, 25.0 if ground else 50.0, 3); aq = Angle(rng.uniform(0, 360), 70.0, 3)
            B.compute_far_field(zq, aq); C.compute_far_field(zq, aq)
            gb, gc = np.array(B.far_field.gain), np.array(C.far_field.gain)
            msk = gc > gc.max() - 30
            if msk.any() and np.abs(gb[msk] - gc[msk]).max() > 0.01 + 20 * tol:
                bad.append('rotation by options and by coordinates orient the antenna differently: patterns differ by %.3g dB' % np.abs(gb[msk] - gc[msk]).max())
            if len(B.pulses) != len(A.pulses) or len(C.pulses) != len(A.pulses):
                bad.append('moving the antenna changes the number of unknowns: %d -> %d (options) / %d (coordinates)' % (len(A.pulses), len(B.pulses), len(C.pulses)))
            # gain pattern moves rigidly (rotation about z: azimuth shifts)
            az = ang[2] if ground else None
            if az is not None or True:
                a3 = [0.0, 0.0, rng.uniform(-180, 180)]
                sz = copy.deepcopy(spec); sz['transforms'] = [dict(op='rotate', key=1.0, v=a3, tag=None)]
                D = _solve(sz)
                zen = Angle(10.0, 25.0, 3); az0 = rng.uniform(0, 360)
                A.compute_far_field(zen, Angle(az0, 70.0, 3)); D.compute_far_field(zen, Angle(az0 + a3[2], 70.0, 3))
                ga, gd = np.array(A.far_field.gain), np.array(D.far_field.gain)
                msk = ga > ga.max() - 30
                if msk.any() and np.abs(ga[msk] - gd[msk]).max() > 0.01 + 20 * tol:
                    bad.append('gain pattern does not rotate with the antenna: %.3g dB' % np.abs(ga[msk] - gd[msk]).max())
            # electromagnetic scaling
            s = 10 ** rng.uniform(-2, 2)
            def scale_taper(sp):
                # the limits of a taper are lengths of the segmentation request: they scale with the antenna
                for w in sp['wires']:
                    if w.get('taper'):
                        w['taper'] = [w['taper'][0]] + [None if v is None else v * s for v in w['taper'][1:]]
            ss = copy.deepcopy(spec); ss['f'] = spec['f'] / s; ss['scales'] = [dict(factor=s, tag=None)]; scale_taper(ss)
            E = _solve(ss); cmp(E, 'all dimensions x %.4g, frequency / %.4g (option)' % (s, s))
            s2 = copy.deepcopy(spec); s2['f'] = spec['f'] / s
            for w in s2['wires']:
                w['p1'] = [c * s for c in w['p1']]; w['p2'] = [c * s for c in w['p2']]; w['r'] = w['r'] * s
            scale_taper(s2)
            Fm = _solve(s2); cmp(Fm, 'all dimensions x %.4g written into the coordinates' % s)
            # the scaled copy reached by a frequency step on the same object (every quantity derived from the wavelength must follow)
            pre = spec['pre_factor'] if 'pre_factor' in spec else rng.choice([0.5, 2.0, 0.93, 1.07, 10.0, 0.1])
            mS = gen.build(dict(s2, f=s2['f'] * pre)); mS.compute(); mS.f = s2['f']; mS.compute()
            cmp(mS, 'all dimensions x %.4g, reached by a frequency step from %.6g MHz on the same object' % (s, s2['f'] * pre))
            r['bad'] = bad; r['cond'] = cond
        except Exception as e:
            r['error'] = exc_info(e)
        out.append(r)
    return dict(results=out)

def _in_c06_domain(m):
    """wires neither joined directly nor through a common neighbour stay two segment lengths apart"""
    geos = list(m.geo)
    for i, a in enumerate(geos):
        for b in geos[i + 1:]:
            if a.is_connected(b):
                continue
            sl = max(max(s.seg_len for s in a.segments), max(s.seg_len for s in b.segments))
            pa = np.array([s.p1 for s in a.segments] + [a.segments[-1].p2])
            pb = np.array([s.p1 for s in b.segments] + [b.segments[-1].p2])
            if np.sqrt(((pa[:, None, :] - pb[None, :, :]) ** 2).sum(axis=2)).min() < 2 * sl:
                return False
    return True

def c06(payload):
    from mininec.mininec import Angle
    out = []
    for case in payload['cases']:
        r = dict(id=case['id'])
        try:
            rng = random.Random(case['seed'])
            spec = case['spec']
            for w in spec['wires']: w['tag'] = None
            r['spec'] = spec
            m0 = gen.build(dict(spec, sources=[], loads=[]))
            if any(w['type'] != 'wire' for w in spec['wires']) or not _in_c06_domain(m0):
                r['skipped'] = True; out.append(r); continue
            # at most one wire end per ground point
            gpts = [tuple(np.round(g.endpoints[e], 9)) for g in m0.geo for e in (0, 1) if g.is_ground[e]]
            if len(gpts) != len(set(gpts)):
                r['skipped'] = True; out.append(r); continue
            n = len(m0.pulses)
            # feed at a position described geometrically: an interior pulse of some wire
            inter = [p for p in m0.pulses if p.geo[0] is p.geo[1] and not p.ground.any()]
            if not inter:
                r['skipped'] = True; out.append(r); continue
            fp = rng.choice(inter)
            fpt = np.array(fp.point, dtype=float); fdir = np.array(fp.segs[0].dirvec, dtype=float)
            def solve(sp):
                mm = gen.build(dict(sp, sources=[], loads=[]))
                # the pulse sitting at the feed point
                cand = [p for p in mm.pulses if np.linalg.norm(np.array(p.point, dtype=float) - fpt) < 1e-6 * (1 + np.abs(fpt).max())]
                assert len(cand) == 1, 'feed point not unique'
                p = cand[0]
                sgn = 1.0 if np.dot(np.array(p.segs[0].dirvec, dtype=float), fdir) > 0 else -1.0
                sp2 = copy.deepcopy(sp); sp2['sources'] = [dict(pulse=int(p.idx), tag=None, v=[sgn, 0.0])]; sp2['loads'] = []
                mm = gen.build(sp2); mm.compute()
                return mm
            def pos_currents(mm):
                # current vector per pulse position with the direction of half 0 (into the pulse point)
                d = {}
                for p in mm.pulses:
                    if p.geo[0] is not p.geo[1] or p.ground.any():
                        continue
                    key = tuple(np.round(np.array(p.point, dtype=float) / (1e-7 * (1 + np.abs(fpt).max()))).astype(int))
                    d[key] = mm.current[p.idx] * np.array(p.segs[0].dirvec, dtype=float)
                return d
            A = solve(spec)
            cond = float(np.linalg.cond(A.Z)); tol = _tol(cond)
            if tol is None:
                r['skipped'] = True; out.append(r); continue
            ZA = A.sources[0].impedance; PA = pos_currents(A)
            ref = max(np.abs(v).max() for v in PA.values())
            zen, azi = Angle(15.0, 30.0, 3), Angle(20.0, 100.0, 3)
            if spec['media'] is not None:
                zen = Angle(15.0, 25.0, 3)
            A.compute_far_field(zen, azi); GA = np.array(A.far_field.gain)
            lam = 299.8 / spec['f']
            npt = [2 * lam, 1.3 * lam, 1.7 * lam]
            A.compute_near_field(npt, [lam / 5, 0.1, 0.1], [2, 1, 1]); EA = np.array(A.e_field); HA = np.array(A.h_field)
            bad = []
            def cmp(B, what):
                ZB = B.sources[0].impedance
                if abs(ZB - ZA) > tol * abs(ZA):
                    bad.append('%s: feed impedance %r -> %r (cond %.3g)' % (what, ZA, ZB, cond))
                PB = pos_currents(B)
                for k, v in PA.items():
                    if k in PB and np.abs(PB[k] - v).max() > tol * ref:
                        bad.append('%s: pulse current at %r changes by %.3g relative' % (what, k, np.abs(PB[k] - v).max() / ref)); break
                B.compute_far_field(zen, azi); GB = np.array(B.far_field.gain)
                msk = GA > GA.max() - 30
                if msk.any() and np.abs(GA[msk] - GB[msk]).max() > 0.01 + 20 * tol:
                    bad.append('%s: far field changes by %.3g dB' % (what, np.abs(GA[msk] - GB[msk]).max()))
                B.compute_near_field(npt, [lam / 5, 0.1, 0.1], [2, 1, 1])
                EB = np.array(B.e_field); HB = np.array(B.h_field)
                if np.abs(EB - EA).max() > (tol + 1e-6) * np.abs(EA).max():
                    bad.append('%s: near E field changes by %.3g relative' % (what, np.abs(EB - EA).max() / np.abs(EA).max()))
                if np.abs(HB - HA).max() > (tol + 1e-6) * np.abs(HA).max():
                    bad.append('%s: near H field changes by %.3g relative' % (what, np.abs(HB - HA).max() / np.abs(HA).max()))
            # junction pulses whose two half-segments differ in length by a factor of 9 or more
            ratio = max([max(s.seg_len for s in p.segs) / min(s.seg_len for s in p.segs) for p in A.pulses if p.geo[0] is not p.geo[1]] + [1.0])
            # the root cause of the recorded finding: the exact (on-axis) kernel is used for observation points on
            # ANOTHER wire when (d0 + d3) / seg_len <= 1.1 (always for a length ratio of 9 or more; up to about
            # 50 degrees for a ratio of 2); see tasks/ff.py:_misapplied_exact
            from .ff import _misapplied_exact
            r['features'] = dict(exact_kernel_applied_off_axis=bool(ratio >= 9 or _misapplied_exact(A)))
            # (a) reverse a random subset of wires
            sr = copy.deepcopy(spec)
            for w in sr['wires']:
                if rng.random() < 0.5:
                    w['p1'], w['p2'] = w['p2'], w['p1']
                    if w.get('taper') and w['taper'][0] in (1, 2):      # the same physical end stays tapered
                        w['taper'] = [3 - w['taper'][0]] + list(w['taper'][1:])
            cmp(solve(sr), 'reversing wires')
            # (b) another order
            sp_ = copy.deepcopy(spec); rng.shuffle(sp_['wires'])
            cmp(solve(sp_), 'listing the wires in another order')
            # (c) splitting a wire at a segment boundary
            ss = copy.deepcopy(spec)
            cands = [i for i, w in enumerate(ss['wires']) if w['nseg'] >= 2 and not w.get('taper')]
            if cands:
                i = rng.choice(cands); w = ss['wires'][i]; k = rng.randint(1, w['nseg'] - 1)
                mid = [w['p1'][j] + (w['p2'][j] - w['p1'][j]) * k / w['nseg'] for j in range(3)]
                w1 = gen.wire(k, w['p1'], mid, w['r']); w2 = gen.wire(w['nseg'] - k, mid, w['p2'], w['r'])
                ss['wires'][i:i + 1] = [w1, w2]
                cmp(solve(ss), 'splitting wire %d after segment %d' % (i, k))
            # (e) lumped loads at places of the structure (preferably where a wire meets the ground plane): the same whichever way the
            #     wires are described
            if not r['features']['exact_kernel_applied_off_axis']:
                gp = [p for p in A.pulses if p.ground.any()]
                pool = (gp if (gp and rng.random() < 0.7) else list(A.pulses))
                lpos = [(np.array(p.point, dtype=float), complex(rng.uniform(10, 150), rng.uniform(-80, 80))) for p in rng.sample(pool, min(len(pool), rng.choice([1, 2])))]
                def solve_lumped(sp):
                    mm = gen.build(dict(sp, sources=[], loads=[]))
                    def at(pt):
                        c_ = [p for p in mm.pulses if np.linalg.norm(np.array(p.point, dtype=float) - pt) < 1e-6 * (1 + np.abs(pt).max())]
                        assert len(c_) == 1, 'position not unique'
                        return c_[0]
                    p = at(fpt)
                    sgn = 1.0 if np.dot(np.array(p.segs[0].dirvec, dtype=float), fdir) > 0 else -1.0
                    sp2 = copy.deepcopy(sp); sp2['sources'] = [dict(pulse=int(p.idx), tag=None, v=[sgn, 0.0])]
                    sp2['loads'] = [dict(kind='imp', z=[z_.real, z_.imag], attach=[[int(at(pt).idx)]]) for pt, z_ in lpos]
                    mm = gen.build(sp2); mm.compute()
                    return mm
                AE = solve_lumped(spec); ZE = AE.sources[0].impedance
                conde = float(np.linalg.cond(AE.Z)); tole = _tol(conde)
                if tole is not None:
                    sre = copy.deepcopy(spec)
                    for w in sre['wires']:
                        if rng.random() < 0.6:
                            w['p1'], w['p2'] = w['p2'], w['p1']
                            if w.get('taper') and w['taper'][0] in (1, 2):
                                w['taper'] = [3 - w['taper'][0]] + list(w['taper'][1:])
                    rng.shuffle(sre['wires'])
                    ZB = solve_lumped(sre).sources[0].impedance
                    if abs(ZB - ZE) > tole * abs(ZE):
                        bad.append('with lumped loads at %r: reversing and reordering the wires changes the feed impedance %r -> %r (cond %.3g)'
                                   % ([[round(float(x), 4) for x in pt] for pt, _ in lpos], ZE, ZB, conde))
            # (d) the same conductors with skin-effect loads on some of them (each with its own conductivity): the description
            #     (order, direction of the wires, order of the load options) still does not matter
            if len(spec['wires']) >= 2 and not r['features']['exact_kernel_applied_off_axis']:       # (there the unloaded antenna already depends on the order)
                for i_, w in enumerate(spec['wires']): w['_id'] = i_
                sub = spec.get('loaded') or rng.sample(range(len(spec['wires'])), rng.randint(1, len(spec['wires']) - 1))
                sig = {i_: (1e5 if spec.get('loaded') else 10 ** rng.uniform(3.5, 7.5)) for i_ in sub}
                def solve_loaded(sp):
                    lds = [dict(kind='skin', tag=pos + 1, cond=sig[w['_id']]) for pos, w in enumerate(sp['wires']) if w['_id'] in sig]
                    rng.shuffle(lds)
                    mm = gen.build(dict(sp, sources=[], loads=[]))
                    cand = [p for p in mm.pulses if np.linalg.norm(np.array(p.point, dtype=float) - fpt) < 1e-6 * (1 + np.abs(fpt).max())]
                    assert len(cand) == 1, 'feed point not unique'
                    p = cand[0]
                    sgn = 1.0 if np.dot(np.array(p.segs[0].dirvec, dtype=float), fdir) > 0 else -1.0
                    sp2 = copy.deepcopy(sp); sp2['sources'] = [dict(pulse=int(p.idx), tag=None, v=[sgn, 0.0])]; sp2['loads'] = lds
                    mm = gen.build(sp2); mm.compute()
                    return mm
                # junctions of three or more wire ends where some but not all of the wires are loaded: the end half-segment of
                # the junction's owner is represented in every junction pulse (k - 1 times), so the loaded length depends on
                # which wire is listed first (recorded finding C06-partial-load-at-multiwire-junction)
                ends = [(w['_id'], np.array(w[k_], dtype=float)) for w in spec['wires'] for k_ in ('p1', 'p2')]
                tolj = 1e-3 * min(s_.seg_len for g_ in m0.geo for s_ in g_.segments)
                multi = False
                for a_, (ia, pa_) in enumerate(ends):
                    grp = {ib for ib, pb_ in ends if np.linalg.norm(pa_ - pb_) <= tolj}
                    if len([1 for ib, pb_ in ends if np.linalg.norm(pa_ - pb_) <= tolj]) >= 3 and 0 < len(grp & set(sig)) < len(grp):
                        multi = True
                r['features']['partial_distributed_load_at_multiwire_junction'] = multi
                AL = solve_loaded(spec); ZL = AL.sources[0].impedance
                condl = float(np.linalg.cond(AL.Z)); toll = _tol(condl)
                if toll is not None:
                    srl = copy.deepcopy(spec)
                    for w in srl['wires']:
                        if rng.random() < 0.5 and not w.get('taper'):
                            w['p1'], w['p2'] = w['p2'], w['p1']
                    rng.shuffle(srl['wires'])
                    ZB = solve_loaded(srl).sources[0].impedance
                    if abs(ZB - ZL) > toll * abs(ZL):
                        bad.append('with skin-effect loads on some conductors: reversing and reordering the wires changes the feed impedance %r -> %r (conductors %r, cond %.3g)'
                                   % (ZL, ZB, sorted(sig), condl))
            r['bad'] = bad; r['cond'] = cond
        except AssertionError as e:
            r['skipped'] = True
        except Exception as e:
            r['error'] = exc_info(e)
        out.append(r)
    return dict(results=out)

def _pdir(p):
    v = np.zeros(3)
    for h in (0, 1):
        if not p.ground[h]:
            v = v + np.array(p.segs[h].dirvec, dtype=float) * p.dir_sgn[h]
    return v

def c03(payload):
    from mininec.mininec import Angle
    out = []
    for case in payload['cases']:
        r = dict(id=case['id'])
        try:
            rng = random.Random(case['seed'])
            spec = case['spec']       # generated with ground='ideal'
            for w in spec['wires']: w['tag'] = None
            m0 = gen.build(dict(spec, sources=[], loads=[]))
            if any(w['type'] != 'wire' for w in spec['wires']):
                r['skipped'] = True; out.append(r); continue
            n = len(m0.pulses)
            gnd = [i for i, p in enumerate(m0.pulses) if p.ground.any()]
            gen.add_sources(rng, spec, n, grounded=gnd)
            # lumped loads, preferably on pulses at a grounded wire end (of wires described bottom-up and top-down alike):
            # in the mirror model a load on the ground pulse is in series with its image (2 Z at the centre pulse), any other
            # load has an image load
            lp = []
            if rng.random() < 0.6:
                cand_ = gnd if (gnd and rng.random() < 0.7) else list(range(n))
                for pidx in rng.sample(cand_, min(len(cand_), rng.choice([1, 1, 2]))):
                    lp.append((pidx, complex(rng.uniform(5, 200), rng.uniform(-100, 100))))
            spec['loads'] = [dict(kind='imp', z=[z_.real, z_.imag], attach=[[pidx]]) for pidx, z_ in lp]
            # sometimes every wire (hence also every image wire) is insulated
            ins = dict(kind='ins', tag=None, radius_factor=rng.uniform(1.3, 2.5), eps=rng.uniform(1.5, 6)) if rng.random() < 0.3 else None
            if ins: spec['loads'].append(ins)
            r['spec'] = spec
            G = _solve(spec)
            cond = float(np.linalg.cond(G.Z)); tol = _tol(cond)
            if tol is None:
                r['skipped'] = True; out.append(r); continue
            # free-space model: grounded wires continued into their image with doubled segment count,
            # the others duplicated with z negated
            wires = []
            srcmap = []
            tolg = 1e-3 * min(s_.seg_len for g_ in G.geo for s_ in g_.segments)
            for g in G.geo:
                p1 = [float(x) for x in g.endpoints[0]]; p2 = [float(x) for x in g.endpoints[1]]
                # which ends stand on the ground plane is decided here from the coordinates (|z| below the matching tolerance,
                # on either side of the plane), not taken from the object; such an end is put exactly onto the plane
                gnd_ = (abs(p1[2]) < tolg, abs(p2[2]) < tolg)
                if gnd_[0]: p1[2] = 0.0
                if gnd_[1]: p2[2] = 0.0
                vertical = abs(p1[0] - p2[0]) + abs(p1[1] - p2[1]) == 0
                tp = [g.segtype, g.taper_min, g.taper_max] if getattr(g, 'segtype', 0) else None
                if tp:
                    # a tapered wire keeps its segmentation; its image is the mirrored wire (described in the opposite direction
                    # for a grounded wire, so that the ground point joins the two: the taper kind 1 <-> 2 goes with the direction)
                    sw = [{1: 2, 2: 1, 3: 3}[tp[0]], tp[1], tp[2]]
                    if gnd_[0]:
                        wires.append(gen.wire(g.n_segments, [p2[0], p2[1], -p2[2]], p1, g.r_orig, taper=sw))
                        wires.append(gen.wire(g.n_segments, p1, p2, g.r_orig, taper=tp))
                    elif gnd_[1]:
                        wires.append(gen.wire(g.n_segments, p1, p2, g.r_orig, taper=tp))
                        wires.append(gen.wire(g.n_segments, p2, [p1[0], p1[1], -p1[2]], g.r_orig, taper=sw))
                    else:
                        wires.append(gen.wire(g.n_segments, p1, p2, g.r_orig, taper=tp))
                        wires.append(gen.wire(g.n_segments, [p1[0], p1[1], -p1[2]], [p2[0], p2[1], -p2[2]], g.r_orig, taper=tp))
                    continue
                if gnd_[0] and vertical:
                    wires.append(gen.wire(2 * g.n_segments, [p2[0], p2[1], -p2[2]], p2, g.r_orig))     # image .. real, centre = ground point
                elif gnd_[1] and vertical:
                    wires.append(gen.wire(2 * g.n_segments, p1, [p1[0], p1[1], -p1[2]], g.r_orig))
                elif gnd_[0]:
                    wires.append(gen.wire(g.n_segments, [p2[0], p2[1], -p2[2]], p1, g.r_orig))         # image leg up to the ground point
                    wires.append(gen.wire(g.n_segments, p1, p2, g.r_orig))                              # real leg
                elif gnd_[1]:
                    wires.append(gen.wire(g.n_segments, p1, p2, g.r_orig))
                    wires.append(gen.wire(g.n_segments, p2, [p1[0], p1[1], -p1[2]], g.r_orig))
                else:
                    wires.append(gen.wire(g.n_segments, p1, p2, g.r_orig))
                    wires.append(gen.wire(g.n_segments, [p1[0], p1[1], -p1[2]], [p2[0], p2[1], -p2[2]], g.r_orig))
            fs = dict(f=spec['f'], wires=wires, media=None, family='mirror', sources=[], loads=[])
            F0 = gen.build(fs)
            def find(pt, d):
                c = [p for p in F0.pulses if np.linalg.norm(np.array(p.point, dtype=float) - pt) < 1e-7 * (1 + np.abs(pt).max())]
                assert len(c) == 1
                return c[0]
            srcs = []
            info = []
            for s in G.sources:
                p = G.pulses[s.idx]
                pt = np.array(p.point, dtype=float)
                d = _pdir(p)
                q = find(pt, d)
                dq = _pdir(q)
                if p.ground.any():
                    dq = dq * np.array([0, 0, 1.0])   # wire + image: horizontal parts cancel
                sg = 1.0 if np.dot(dq, d) > 0 else -1.0
                v = s.voltage * sg
                if p.ground.any():
                    # the feed at the middle of wire plus image carries the whole voltage of wire and image: 2 V
                    srcs.append(dict(pulse=int(q.idx), tag=None, v=[2 * v.real, 2 * v.imag])); info.append((s.idx, int(q.idx), sg, True))
                else:
                    srcs.append(dict(pulse=int(q.idx), tag=None, v=[v.real, v.imag])); info.append((s.idx, int(q.idx), sg, False))
                    # image source: mirror sense
                    pm = pt * np.array([1, 1, -1.0]); dm = d * np.array([-1, -1, 1.0])
                    qm = find(pm, dm)
                    sgm = 1.0 if np.dot(_pdir(qm), dm) > 0 else -1.0
                    vm = s.voltage * sgm
                    srcs.append(dict(pulse=int(qm.idx), tag=None, v=[vm.real, vm.imag]))
            fs['sources'] = srcs
            fl = []
            for pidx, z_ in lp:
                p = G.pulses[pidx]; pt = np.array(p.point, dtype=float); d = _pdir(p)
                q = find(pt, d)
                if p.ground.any():
                    fl.append(dict(kind='imp', z=[2 * z_.real, 2 * z_.imag], attach=[[int(q.idx)]]))
                else:
                    fl.append(dict(kind='imp', z=[z_.real, z_.imag], attach=[[int(q.idx)]]))
                    qm = find(pt * np.array([1, 1, -1.0]), d * np.array([-1, -1, 1.0]))
                    fl.append(dict(kind='imp', z=[z_.real, z_.imag], attach=[[int(qm.idx)]]))
            if ins: fl.append(dict(ins))
            fs['loads'] = fl
            Fm = _solve(fs)
            bad = []
            ref = np.abs(G.current).max()
            for (gi, fi, sg, grounded) in info:
                ig = G.current[gi]; i_f = Fm.current[fi] * sg
                if abs(ig - i_f) > tol * ref:
                    bad.append('feed current over ground %r, with mirror image in free space %r (cond %.3g)' % (ig, i_f, cond))
            for p in G.pulses:
                pt = np.array(p.point, dtype=float)
                d = _pdir(p)
                q = find(pt, d)
                dq = _pdir(q)
                if p.ground.any():
                    dq = dq * np.array([0, 0, 1.0])
                sg = 1.0 if np.dot(dq, d) > 0 else -1.0
                if abs(G.current[p.idx] - Fm.current[q.idx] * sg) > tol * ref:
                    bad.append('pulse %d current over ground %r, free space + image %r' % (p.idx + 1, G.current[p.idx], Fm.current[q.idx] * sg)); break
            # gain 3.0103 dB higher (meaningless when the sources nearly cancel: the net input power is then a small
            # difference of large numbers and the gain normalisation is numerical noise)
            p_app = sum(0.5 * abs(s.voltage) * abs(G.current[s.idx]) for s in G.sources)
            if not G.power > 0.02 * p_app:
                r['bad'] = bad; r['cond'] = cond; out.append(r); continue
            zen, azi = Angle(10.0, 25.0, 4), Angle(30.0, 110.0, 3)
            G.compute_far_field(zen, azi); Fm.compute_far_field(zen, azi)
            gg, gf = np.array(G.far_field.gain)[:, :, 2], np.array(Fm.far_field.gain)[:, :, 2]
            msk = gg > gg.max() - 30
            if msk.any() and np.abs(gg[msk] - gf[msk] - 3.0103).max() > 0.01 + 20 * tol:
                bad.append('gain over ground is not 3.0103 dB above the free-space pair: offsets %.4f .. %.4f dB' % ((gg[msk] - gf[msk]).min(), (gg[msk] - gf[msk]).max()))
            r['bad'] = bad; r['cond'] = cond
        except AssertionError:
            r['skipped'] = True
        except Exception as e:
            r['error'] = exc_info(e)
        out.append(r)
    return dict(results=out)

def _psi_quad(obs, a, b, k0, r, srm):
    """line integral of exp(-j k0 D)/D over the straight segment a..b, D = sqrt(d^2 + r^2) for r > srm else d"""
    from scipy.integrate import quad
    a = np.array(a, dtype=float); b = np.array(b, dtype=float); obs = np.array(obs, dtype=float)
    L = np.linalg.norm(b - a)
    thick = r > srm
    def D(t):
        d = np.linalg.norm(a + t * (b - a) - obs)
        return math.sqrt(d * d + r * r) if thick else d
    re = quad(lambda t: math.cos(k0 * D(t)) / D(t), 0, 1, epsabs=0, epsrel=1e-10, limit=200)[0]
    im = quad(lambda t: -math.sin(k0 * D(t)) / D(t), 0, 1, epsabs=0, epsrel=1e-10, limit=200)[0]
    return (re + 1j * im) * L

def _pulse_geo(m, p, tol):
    """Geometry of a pulse derived from the SEGMENTS that touch its point (not from the
    pulse's own bookkeeping): returns (point, A, B, lenA, lenB, rA, rB, grounded) with
    the current flowing A -> point -> B in the pulse's positive sense."""
    pt = np.array(p.point, dtype=float)
    touch = []
    for g in m.geo:
        for sgm in g.segments:
            for far, near in ((sgm.p2, sgm.p1), (sgm.p1, sgm.p2)):
                if np.linalg.norm(np.array(near, dtype=float) - pt) <= tol:
                    touch.append((g, sgm, np.array(far, dtype=float)))
    own = [t for t in touch if t[0] is p.geobj]
    f0 = np.array(p.segs[0].dirvec, dtype=float) * p.dir_sgn[0]
    if p.ground[0] or p.ground[1]:
        f0 = np.array(p.segs[1 if p.ground[0] else 0].dirvec, dtype=float)
    grounded = False
    if len(own) == 2:
        cand = own
    elif len(own) == 1 and m.media is not None and abs(pt[2]) <= tol:
        g, sgm, far = own[0]
        cand = [own[0], (g, sgm, far * np.array([1, 1, -1.0]))]
        grounded = True
    elif len(own) == 1:
        others = sorted([t for t in touch if t[0] is not p.geobj], key=lambda t: t[0].n)
        if not others:
            raise AssertionError('pulse %d: no second segment at its point' % p.idx)
        cand = [own[0], others[0]]
    else:
        raise AssertionError('pulse %d: %d own segments touch its point' % (p.idx, len(own)))
    # orientation: half A is the one whose inbound direction agrees with the code's positive sense
    def inbound(t):
        v = pt - t[2]
        return v / np.linalg.norm(v)
    if grounded:
        real = cand[0]
        # real half carries the current along +-f0: decide whether it is inbound or outbound
        if np.dot(inbound(real), f0) > 0:
            A, B = cand[0], cand[1]
        else:
            A, B = cand[1], cand[0]
    else:
        A, B = (cand[0], cand[1]) if np.dot(inbound(cand[0]), f0) >= np.dot(inbound(cand[1]), f0) else (cand[1], cand[0])
    lenA = np.linalg.norm(pt - A[2]); lenB = np.linalg.norm(B[2] - pt)
    return dict(pt=pt, A=A[2], B=B[2], lenA=lenA, lenB=lenB, rA=A[0].r, rB=B[0].r, grounded=grounded,
                eA=(pt - A[2]) / lenA, eB=(B[2] - pt) / lenB)

def c02(payload):
    out = []
    for case in payload['cases']:
        r = dict(id=case['id'])
        try:
            rng = random.Random(case['seed'])
            spec = case['spec']
            r['spec'] = spec
            pre = spec['pre_factor'] if 'pre_factor' in spec else rng.choice([None, None, 0.02, 50.0, 0.5, 2.0])
            if pre is None:
                m = gen.build(dict(spec, sources=[], loads=[]))
            else:
                # the object has filled a matrix at another frequency before (a sweep step)
                m = gen.build(dict(spec, sources=[], loads=[], f=spec['f'] * pre)); m.compute_impedance_matrix(); m.f = spec['f']
            m.compute_impedance_matrix()
            Z = np.array(m.Z)
            k0 = 2 * math.pi / (299.8 / m.f); srm = 1e-4 * 299.8 / m.f
            ground = m.media is not None
            ps = list(m.pulses)
            n = len(ps)
            tol = m.min_seglen * 1e-3 * 1.01
            geo = {}
            for p in ps:
                geo[p.idx] = _pulse_geo(m, p, tol)
            pairs = [(a, b) for a in range(n) for b in range(n) if a != b]
            rng.shuffle(pairs)
            bad = []; checked = 0; worst = 0.0
            for (a, b) in pairs:
                if checked >= payload.get('pairs', 24):
                    break
                gm, gn = geo[a], geo[b]
                maxlen = max(gm['lenA'], gm['lenB'], gn['lenA'], gn['lenB'])
                if np.linalg.norm(gm['pt'] - gn['pt']) < 2.5 * maxlen:
                    continue
                if gm['grounded']:
                    continue       # observers on the ground plane: their image half is a modelling convention of its own
                checked += 1
                ptm = gm['pt']
                chord = gm['lenA'] * gm['eA'] + gm['lenB'] * gm['eB']
                obs_p = ptm + (gm['B'] - ptm) * 0.5
                obs_m = ptm + (gm['A'] - ptm) * 0.5
                tot = 0j; mag = 0.0
                for k in ((1, -1) if ground else (1,)):
                    if k < 0 and gn['grounded']:
                        continue
                    kv = np.array([1, 1, k], dtype=float)
                    ptn = gn['pt'] * kv; An = gn['A'] * kv; Bn = gn['B'] * kv
                    hA = ptn + (An - ptn) * 0.5; hB = ptn + (Bn - ptn) * 0.5
                    eA = gn['eA'] * kv; eB = gn['eB'] * kv
                    VB = _psi_quad(ptm, ptn, hB, k0, gn['rB'], srm); VA = _psi_quad(ptm, hA, ptn, k0, gn['rA'], srm)
                    vec = k0 * k0 / 2 * (VB * np.dot(eB, chord) + VA * np.dot(eA, chord))
                    PBm = _psi_quad(obs_m, ptn, Bn, k0, gn['rB'], srm); PBp = _psi_quad(obs_p, ptn, Bn, k0, gn['rB'], srm)
                    PAp = _psi_quad(obs_p, An, ptn, k0, gn['rA'], srm); PAm = _psi_quad(obs_m, An, ptn, k0, gn['rA'], srm)
                    sca = (PBm - PBp) / gn['lenB'] + (PAp - PAm) / gn['lenA']
                    tot += k * (vec + sca)
                    mag += abs(k0 * k0 / 2 * VB * np.dot(eB, chord)) + abs(k0 * k0 / 2 * VA * np.dot(eA, chord)) \
                         + (abs(PBm) + abs(PBp)) / gn['lenB'] + (abs(PAp) + abs(PAm)) / gn['lenA']
                dev = abs(Z[a][b] - tot) / mag
                worst = max(worst, dev)
                if dev > 1e-4:
                    bad.append('Z[%d][%d] = %r, MININEC-3 formula by adaptive quadrature from the touching segments %r: deviation %.3g of the potential terms (%.3g)' % (a + 1, b + 1, Z[a][b], tot, dev, mag))
            r['bad'] = bad[:3]; r['checked'] = checked; r['worst'] = worst
            if checked == 0:
                r['skipped'] = True
        except AssertionError as e:
            r['skipped'] = True
        except Exception as e:
            r['error'] = exc_info(e)
        out.append(r)
    return dict(results=out)

def _G_int(obs, a, b, k0):
    """int over the straight segment a..b of exp(-j k0 R)/R dl (thin filament)"""
    from scipy.integrate import quad
    a = np.array(a, dtype=float); b = np.array(b, dtype=float); obs = np.array(obs, dtype=float)
    L = np.linalg.norm(b - a)
    def R(t): return np.linalg.norm(a + t * (b - a) - obs)
    re = quad(lambda t: math.cos(k0 * R(t)) / R(t), 0, 1, epsabs=0, epsrel=1e-9, limit=100)[0]
    im = quad(lambda t: -math.sin(k0 * R(t)) / R(t), 0, 1, epsabs=0, epsrel=1e-9, limit=100)[0]
    return (re + 1j * im) * L

def c04(payload):
    """near field versus (i) -jwA - grad Phi of the solved currents and their charges, evaluated
    independently from the touching segments, (ii) the reported far field at many wavelengths"""
    from mininec.mininec import Angle
    out = []
    MU0 = 4e-7 * math.pi; C0 = 2.998e8; EPS0 = 1 / (MU0 * C0 * C0)
    for case in payload['cases']:
        r = dict(id=case['id'])
        try:
            rng, spec, m0 = _prep(case)
            spec['loads'] = []
            r['spec'] = spec
            m = _solve(spec)
            ground = m.media is not None
            lam = 299.8 / m.f; k0 = 2 * math.pi / lam; om = k0 * C0
            tol = m.min_seglen * 1e-3 * 1.01
            geo = [_pulse_geo(m, p, tol) for p in m.pulses]
            I = np.array(m.current)
            maxseg = max(max(g['lenA'], g['lenB']) for g in geo)
            bad = []
            def elements():
                for g, i_n in zip(geo, I):
                    for k in ((1, -1) if ground else (1,)):
                        kv = np.array([1, 1, k], dtype=float)
                        # image of a current element: mirrored position, direction (-dx,-dy,dz) = -mirror(d)
                        sgn = 1.0 if k > 0 else -1.0
                        halves = []
                        if not (g['grounded'] and False):
                            halves = [('A', g['A'], g['pt'], g['eA'], g['lenA']), ('B', g['pt'], g['B'], g['eB'], g['lenB'])]
                        for (nm, a, b, e, ln) in halves:
                            # a grounded pulse: its image half IS the image of the real half; do not image it again
                            if g['grounded'] and k < 0:
                                continue
                            yield (i_n, sgn, a * kv, b * kv, e * kv, ln, nm)
            def A_phi(obs):
                A = np.zeros(3, dtype=complex); phi = 0j
                for (i_n, sgn, a, b, e, ln, nm) in elements():
                    mid = (a + b) / 2
                    h0, h1 = (mid, b) if nm == 'A' else (a, mid)     # the half next to the pulse point
                    A += sgn * i_n * e * _G_int(obs, h0, h1, k0)
                    q = (i_n / ln) if nm == 'A' else (-i_n / ln)      # dI/dl over the full segment
                    phi += sgn * q * _G_int(obs, a, b, k0)
                return MU0 / (4 * math.pi) * A, -1 / (1j * om) / (4 * math.pi * EPS0) * phi
            pts = []
            allp = np.array([g['pt'] for g in geo])
            for _ in range(40):
                c = allp[rng.randrange(len(allp))] + np.array(gen._unit(rng)) * maxseg * rng.uniform(1.5, 6)
                if ground and c[2] < maxseg: continue
                if np.linalg.norm(allp - c, axis=1).min() >= 1.2 * maxseg:
                    pts.append(c)
                if len(pts) >= payload.get('points', 2): break
            h = 1e-3 * lam
            for c in pts:
                m.compute_near_field(list(c), [1.0, 1.0, 1.0], [1, 1, 1])
                E = np.array(m.e_field[0]); H = np.array(m.h_field[0])
                A0, p0 = A_phi(c)
                grad = np.zeros(3, dtype=complex); dA = np.zeros((3, 3), dtype=complex)
                for ax in range(3):
                    d = np.zeros(3); d[ax] = h / 2
                    Ap, pp = A_phi(c + d); Am, pm = A_phi(c - d)
                    grad[ax] = (pp - pm) / h; dA[ax] = (Ap - Am) / h          # dA[ax][comp] = d A_comp / d x_ax
                Eref = -1j * om * A0 - grad
                r['worstE'] = max(r.get('worstE', 0), float(np.abs(E - Eref).max() / np.abs(Eref).max()))
                Href = np.array([dA[1][2] - dA[2][1], dA[2][0] - dA[0][2], dA[0][1] - dA[1][0]]) / MU0
                r['worstH'] = max(r.get('worstH', 0), float(np.abs(H - np.array([dA[1][2] - dA[2][1], dA[2][0] - dA[0][2], dA[0][1] - dA[1][0]]) / MU0).max() / np.abs(Href).max()))
                if np.abs(E - Eref).max() > 1e-2 * np.abs(Eref).max():
                    bad.append('E deviates from -jwA - grad Phi of the solved currents and charges: at %r E is %r, reference %r (%.3g relative)' % (
                        [round(float(x), 4) for x in c], list(np.round(E, 6)), list(np.round(Eref, 6)), np.abs(E - Eref).max() / np.abs(Eref).max()))
                if np.abs(H - Href).max() > 1e-2 * np.abs(Href).max():
                    bad.append('H deviates from curl A / mu0 of the solved currents: at %r by %.3g relative' % (
                        [round(float(x), 4) for x in c], np.abs(H - Href).max() / np.abs(Href).max()))
            # a requested power level scales the field by sqrt (P / P_in), P_in = sum Re (V I*) / 2 from the voltages and currents
            if pts:
                P_in = sum(0.5 * (complex(s_.voltage) * np.conj(m.current[s_.idx])).real for s_ in m.sources)
                if P_in > 0:
                    c = pts[0]; Pq = 10 ** rng.uniform(-1, 2)
                    m.compute_near_field(list(c), [1.0, 1.0, 1.0], [1, 1, 1]); E0 = np.array(m.e_field[0]); H0 = np.array(m.h_field[0])
                    m.compute_near_field(list(c), [1.0, 1.0, 1.0], [1, 1, 1], Pq); E1 = np.array(m.e_field[0]); H1 = np.array(m.h_field[0])
                    fac = math.sqrt(Pq / P_in)
                    if np.abs(E1 - fac * E0).max() > 1e-9 * np.abs(fac * E0).max() or np.abs(H1 - fac * H0).max() > 1e-9 * np.abs(fac * H0).max():
                        bad.append('near field for a power level of %.6g W is not sqrt (P / P_in) times the field of the solved currents (P_in = sum Re (V I*) / 2 = %.6g W): '
                                   'ratio %.6g instead of %.6g' % (Pq, P_in, np.abs(E1).max() / np.abs(E0).max(), fac))
            # the near field of a frequency reached by a sweep step on the same object is that of a fresh object
            if pts:
                c = pts[0]
                m.compute_near_field(list(c), [1.0, 1.0, 1.0], [1, 1, 1]); E0 = np.array(m.e_field[0]).copy(); H0 = np.array(m.h_field[0]).copy()
                ms = gen.build(dict(spec, f=spec['f'] * rng.choice([0.9, 1.1, 0.5])))
                ms.compute(); ms.compute_near_field(list(c), [1.0, 1.0, 1.0], [1, 1, 1])
                ms.f = spec['f']; ms.compute(); ms.compute_near_field(list(c), [1.0, 1.0, 1.0], [1, 1, 1])
                E1 = np.array(ms.e_field[0]); H1 = np.array(ms.h_field[0])
                if np.abs(E1 - E0).max() > 1e-9 * np.abs(E0).max() or np.abs(H1 - H0).max() > 1e-9 * np.abs(H0).max():
                    bad.append('near field after a frequency step on the same object differs from a fresh object: E by %.3g, H by %.3g relative'
                               % (np.abs(E1 - E0).max() / np.abs(E0).max(), np.abs(H1 - H0).max() / np.abs(H0).max()))
            # far zone: merges into the reported far field, transverse, E/H = 376.7
            # far enough that the offset of the antenna from the origin (the far field's reference point) is below 1 %
            ext = float(np.abs(allp).max()) + maxseg
            R = max(lam * rng.choice([1000, 5000]), 150 * ext)
            # not into a null of the pattern: there the (1/R^2) radial and reactive parts dominate at any finite distance
            cand = [(math.radians(rng.uniform(15, 75)), math.radians(rng.uniform(0, 360))) for _ in range(6)]
            def _ffmag(tp):
                m.compute_far_field(Angle(math.degrees(tp[0]), 0, 1), Angle(math.degrees(tp[1]), 0, 1))
                return math.hypot(abs(m.far_field.e_theta[0][0]), abs(m.far_field.e_phi[0][0]))
            th, ph = max(cand, key=_ffmag)
            u = np.array([math.sin(th) * math.cos(ph), math.sin(th) * math.sin(ph), math.cos(th)])
            P = 10 ** rng.uniform(-1, 2)
            m.compute_near_field(list(R * u), [1.0, 1.0, 1.0], [1, 1, 1], P)
            E = np.array(m.e_field[0]); H = np.array(m.h_field[0])
            m.compute_far_field(Angle(math.degrees(th), 0, 1), Angle(math.degrees(ph), 0, 1), pwr=P, dist=R)
            ff = math.hypot(abs(m.far_field.e_theta[0][0]), abs(m.far_field.e_phi[0][0]))
            nE = np.linalg.norm(E); nH = np.linalg.norm(H)
            # the reported far field treats every half segment as a point element (C10 bounds that error for segments
            # up to lambda/18); for long segments the near field, which integrates over the segments, is the better one
            tolff = 0.03 + 0.5 * (math.pi * maxseg / lam) ** 2
            if ff > 0 and abs(nE / ff - 1) > tolff:
                bad.append('near field does not merge into the reported far field: at %.0f wavelengths |E| = %.6g V/m, far field %.6g V/m (ratio %.4f)' % (R / lam, nE, ff, nE / ff))
            if abs(nE / nH / 376.7 - 1) > 0.01:
                bad.append('far-zone E/H is not 376.7 ohm: %.2f ohm at %.0f wavelengths' % (nE / nH, R / lam))
            if abs(np.dot(E, u)) > tolff * nE or abs(np.dot(H, u)) > tolff * nH:      # (long segments: few-point quadrature of the potentials, see tolff)
                bad.append('far-zone fields are not transverse: E.r/|E| = %.3g, H.r/|H| = %.3g' % (abs(np.dot(E, u)) / nE, abs(np.dot(H, u)) / nH))
            r['bad'] = bad; r['cond'] = float(np.linalg.cond(m.Z)); r['npts'] = len(pts)
        except AssertionError:
            r['skipped'] = True
        except Exception as e:
            r['error'] = exc_info(e)
        out.append(r)
    return dict(results=out)
