"""C20: argument lists with syntactically well-formed but arbitrary values, run
through the real main; the outcome must be a complete finite report, a one-line
diagnostic with return value 23, or the option parser's usage error."""
import io, math, random, re, json, contextlib, signal, sys
import numpy as np
from .common import hx, exc_info
from . import cmd as gencmd

BADNUM = ['0', '-1', '1e308', '1e-320', 'nan', 'inf', '-inf', '1e400', '-0.0', '1e-30', '123456789012', '0.0', '-5', '1e5', '3', '2']
BADINT = ['0', '-1', '1', '2', '99', '1000000', '007', '3', '7', '12', '5', '9']
JUNK = ['', 'x', '1,2', '1e', '0x10', '1_0', ' 3', '1.5']

def mutate(argv, rng):
    """one to three mutations of a valid argument list; returns (argv, tags describing what was done)"""
    a = list(argv); what = []
    for _ in range(rng.choice([1, 1, 2, 3])):
        kind = rng.choice(['field', 'field', 'field', 'arity', 'dup', 'drop', 'add', 'tag', 'freq', 'nf', 'angles', 'power', 'choice'])
        opts = [i for i, x in enumerate(a) if x.startswith('--') and '=' in x]
        if kind == 'field' and opts:
            i = rng.choice(opts); name, val = a[i].split('=', 1); f = val.split(',')
            j = rng.randrange(len(f))
            f[j] = rng.choice(BADNUM + BADINT + (JUNK if rng.random() < 0.25 else []))
            a[i] = name + '=' + ','.join(f); what.append('field:' + name)
        elif kind == 'arity' and opts:
            i = rng.choice(opts); name, val = a[i].split('=', 1); f = val.split(',')
            if rng.random() < 0.5 and len(f) > 1: f.pop(rng.randrange(len(f)))
            else: f.insert(rng.randrange(len(f) + 1), rng.choice(BADNUM))
            a[i] = name + '=' + ','.join(f); what.append('arity:' + name)
        elif kind == 'dup' and opts:
            i = rng.choice(opts); a.insert(rng.randrange(len(a) + 1), a[i]); what.append('dup:' + a[i].split('=')[0])
        elif kind == 'drop' and opts:
            i = rng.choice(opts); what.append('drop:' + a[i].split('=')[0]); a.pop(i)
        elif kind == 'add':
            extra = rng.choice(['--radial-count=%s' % rng.choice(BADINT), '--radial-radius=%s' % rng.choice(BADNUM), '--boundary=circular',
                                '--medium=%s,%s,%s' % (rng.choice(BADNUM), rng.choice(BADNUM), rng.choice(['0', '0', '-1', '1'])),
                                '--skin-effect-conductivity=%s' % rng.choice(BADNUM), '--skin-effect-resistivity=%s' % rng.choice(BADNUM),
                                '--insulation-load=%s,%s' % (rng.choice(BADNUM), rng.choice(BADNUM)),
                                '--rlc-load=%s' % ','.join(rng.choice(BADNUM + ['']) for _ in range(rng.choice([1, 2, 3, 4]))),
                                '--trap-load=%s' % ','.join(rng.choice(BADNUM) for _ in range(rng.choice([2, 3, 4]))),
                                '--laplace-load-a=%s' % ','.join(rng.choice(BADNUM) for _ in range(rng.choice([1, 2]))),
                                '--laplace-load-b=%s' % ','.join(rng.choice(BADNUM) for _ in range(rng.choice([1, 2]))),
                                '--load=%s' % rng.choice(['0', '1e308', 'nan', 'inf', '1+1e400j', '5-3j', 'j']),
                                '--attach-load=%s,%s' % (rng.choice(BADINT), rng.choice(BADINT + ['all'])),
                                '--attach-load=%s,all,%s' % (rng.choice(BADINT), rng.choice(BADINT)),
                                '--geo-scale=%s' % rng.choice(BADNUM), '--geo-rotate=1,%s,0,0' % rng.choice(BADNUM), '--geo-translate=1,0,0,%s' % rng.choice(BADNUM),
                                '--taper-wire=%s,%s' % (rng.choice(BADINT), rng.choice(['0', '1', '2', '3', '4', '-1'])),
                                '--taper-wire=1,%s,%s,%s' % (rng.choice(['1', '2', '3']), rng.choice(BADNUM), rng.choice(BADNUM)),
                                '--wire=%s' % ','.join(rng.choice(BADNUM) for _ in range(8)),
                                '--wire=3,0,0,1,0,0,1,0.001', '--wire=3,0,0,1,0,0,2,0.001', '--wire=3,0,0,1,0,0,2,0.001',
                                '--arc=%s,%s,%s,%s,0.001' % (rng.choice(BADINT), rng.choice(BADNUM), rng.choice(BADNUM), rng.choice(BADNUM)),
                                '--helix=%s,%s,%s,0.001,%s,%s' % (rng.choice(BADINT), rng.choice(BADNUM), rng.choice(BADNUM), rng.choice(BADNUM), rng.choice(BADNUM)),
                                '--excitation-pulse=%s' % rng.choice(BADINT), '--excitation-voltage=%s' % rng.choice(['0', 'nan', 'inf', '1e308', '1e-320', 'j'])])
            a.append(extra); what.append('add:' + extra.split('=')[0])
        elif kind == 'tag' and opts:
            i = rng.choice(opts); name, val = a[i].split('=', 1); f = val.split(',')
            f[-1] = rng.choice(['99', '0', '-3', '1', '2']); a[i] = name + '=' + ','.join(f); what.append('tag:' + name)
        elif kind == 'freq':
            v = rng.choice(BADNUM + ['7.1', '14'])
            if '-f' in a: a[a.index('-f') + 1] = v
            else: a += ['-f', v]
            if rng.random() < 0.3: a += ['--frequency-steps=%s' % rng.choice(['0', '1', '2', '-1', '3']), '--frequency-increment=%s' % rng.choice(BADNUM)]
            what.append('freq')
        elif kind == 'nf':
            v = [rng.choice(['0', '1', '0.5', '-1', rng.choice(BADNUM)]) for _ in range(6)] + [rng.choice(['1', '2', '0', '-1', '3']) for _ in range(3)]
            if rng.random() < 0.2: v.pop()
            a.append('--near-field=' + ','.join(v)); what.append('nf')
            if rng.random() < 0.5: a.append('--nf-power=%s' % rng.choice(BADNUM))
        elif kind == 'angles':
            nm = rng.choice(['--theta', '--phi'])
            a.append('%s=%s,%s,%s' % (nm, rng.choice(BADNUM), rng.choice(BADNUM), rng.choice(['1', '2', '0', '-1', '3', '1.5'])))
            what.append('angles')
        elif kind == 'power':
            a.append(rng.choice(['--ff-power=%s', '--ff-distance=%s', '--nf-power=%s']) % rng.choice(BADNUM)); what.append('power')
            if rng.random() < 0.5: a.append('--option=far-field-absolute')
        elif kind == 'choice':
            a.append(rng.choice(['--option=far-field', '--option=near-field', '--option=none', '--option=far-field-absolute', '--option=bogus',
                                 '--mininec-version=%s' % rng.choice(['9', '12', '13', '10']), '--timing', '--bogus-option=1', '-T']))
            what.append('choice')
    return a, what

NONFINITE = re.compile(r'(?i)(?<![a-z.\d])[-+]?(nan|inf(inity)?)(?![a-z])')

class Timeout(Exception):
    pass
def _alarm(*a):
    raise Timeout()

def classify(argv, main):
    so = io.StringIO(); se = io.StringIO(); rc = None; exc = None
    old = signal.signal(signal.SIGALRM, _alarm); signal.alarm(40)
    try:
        with contextlib.redirect_stdout(so), contextlib.redirect_stderr(se):
            try:
                rc = main(argv, f_err=se)
            except SystemExit as e:
                rc = ('exit', e.code)
    except Timeout:
        return dict(kind='timeout')
    except BaseException as e:
        exc = exc_info(e)
    finally:
        signal.alarm(0); signal.signal(signal.SIGALRM, old)
    out = so.getvalue(); err = se.getvalue()
    if exc is not None:
        return dict(kind='uncaught', error=exc, printed=bool(out.strip()))
    if isinstance(rc, tuple):
        if rc[1] == 2 and not out.strip(): return dict(kind='usage')
        return dict(kind='bad-exit', detail='SystemExit(%r), %d characters on stdout' % (rc[1], len(out)))
    if rc == 23:
        msg = [l for l in (out + err).split('\n') if l.strip()]
        # interpreter warnings (numpy RuntimeWarning with its source line) and the timing lines of -T are not the diagnostic
        keep = []; skip_next = False
        for l in msg:
            if skip_next: skip_next = False; continue
            if re.match(r'^\S+\.py:\d+: \w*Warning', l): skip_next = True; continue
            if ('-T' in argv or '--timing' in argv) and l.startswith('Time '): continue
            keep.append(l)
        msg = keep
        if 'MININEC' in out or 'CURRENT DATA' in out: return dict(kind='diag-with-report', detail=msg[:2])
        if len(msg) != 1: return dict(kind='diag-not-one-line', detail=msg[:4])
        return dict(kind='diag')
    if rc is None or rc == 0:
        bad = NONFINITE.search(out)
        if bad:
            ln = [l for l in out.split('\n') if NONFINITE.search(l)][0]
            sect = ''
            for l in out.split('\n'):
                if '****' in l: sect = l.strip('* ').strip()
                if l is ln or l == ln: break
            return dict(kind='nonfinite', detail=ln.strip()[:160], section=sect)
        if 'CURRENT DATA' not in out or 'SOURCE DATA' not in out:
            return dict(kind='incomplete-report', detail=out[-200:])
        return dict(kind='report')
    return dict(kind='bad-return', detail=repr(rc))

def c20(payload):
    from mininec.mininec import main
    out = []
    for case in payload['cases']:
        r = dict(id=case['id'])
        try:
            rng = random.Random(case['seed'])
            argv = case.get('argv')
            what = case.get('what', [])
            if argv is None:
                base = None
                for _ in range(5):
                    try:
                        with contextlib.redirect_stdout(io.StringIO()):
                            base = gencmd.gen_case(rng, main)
                    except Exception:
                        base = None
                    if base: break
                if not base: base = ['-f', '14', '--wire=5,0,0,5,0,0,15,0.001', '--excitation-pulse=3']
                base = [x for x in base]
                if rng.random() < 0.5: base += ['--theta=10,40,2', '--phi=0,90,2']
                if rng.random() < 0.1:
                    argv, what = base, ['valid']
                else:
                    argv, what = mutate(base, rng)
            r['argv'] = argv; r['what'] = what
            r['outcome'] = classify(argv, main)
        except Exception as e:
            r['error'] = exc_info(e)
        out.append(r)
    return dict(results=out)
