import io, contextlib, json
def hx(x):
    return float(x).hex()
def hxc(z):
    z = complex(z)
    return [z.real.hex(), z.imag.hex()]
def unhx(s):
    return float.fromhex(s)
def exc_info(e):
    import traceback
    import os
    tb = traceback.extract_tb(e.__traceback__)
    repo = os.environ.get('PM_REPO', '/repo')
    rframes = [f for f in tb if f.filename.startswith(repo)]
    where = rframes[-1].name if rframes else (tb[-1].name if tb else '')
    return dict(exception=type(e).__name__, message=str(e)[:300], raised_in=where, in_repo=bool(rframes))
