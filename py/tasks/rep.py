"""Stages `fmt` / `rep` and the C19 oracle: report text versus computed values."""
import math, random, re, json
import numpy as np
from .common import hx, exc_info

def fmt(payload):
    from mininec.util import format_float
    out = []
    for c in payload['cases']:
        f = float.fromhex(c['f'])
        try:
            out.append(dict(id=c['id'], s=format_float((f,), use_e=c['e'])[0]))
        except Exception as e:
            out.append(dict(id=c['id'], error=exc_info(e)))
    return dict(results=out)

# ------------------------------------------------------------------ stage env
import gen

_ENV_KINDS = ((r'^ENVIRONMENT \(\+1 FOR FREE SPACE, -1 FOR GROUND PLANE\): \+1$', 0), (r'^ENVIRONMENT \(\+1 FOR FREE SPACE, -1 FOR GROUND PLANE\): -1$', 1),
              (r'^ TYPE OF BOUNDARY \(1-LINEAR, 2-CIRCULAR\):', 2), (r'^ RELATIVE DIELECTRIC CONSTANT, CONDUCTIVITY:', 3),
              (r'^ NUMBER OF RADIAL WIRES IN GROUND SCREEN:', 4), (r'^ RADIUS OF RADIAL WIRES:', 5),
              (r'^ X OR R COORDINATE OF NEXT MEDIA INTERFACE:', 6), (r'^ HEIGHT OF MEDIA:', 7))
def env(payload):
    """the ENVIRONMENT block of the real report, each line reduced to its kind (10 + n for NUMBER OF MEDIA n, 99 = a line
    the model does not know)"""
    out = []
    for c in payload['cases']:
        try:
            spec = dict(f=10.0, wires=[gen.wire(4, [0, 0, 1.0], [0, 0, 3.0], 0.001)], media=c['media'], family='env', tagmode='none',
                        sources=[], loads=[], transforms=[], transforms_unsorted=[], scales=[])
            m = gen.build(spec)
            kinds = []
            for ln in m.environment_as_mininec().split('\n'):
                mm = re.match(r'^ NUMBER OF MEDIA \(0 FOR PERFECTLY CONDUCTING GROUND\):\s*(\d+)$', ln)
                if mm:
                    kinds.append(10 + int(mm.group(1))); continue
                mm = re.match(r'^ TYPE OF BOUNDARY \(1-LINEAR, 2-CIRCULAR\):\s*(\d+)$', ln)
                if mm:
                    kinds.append(20 + int(mm.group(1))); continue
                kinds.append(next((k for rx, k in _ENV_KINDS if re.match(rx, ln)), 99))
            out.append(dict(id=c['id'], kinds=kinds))
        except Exception as e:
            out.append(dict(id=c['id'], error=exc_info(e)))
    return dict(results=out)

# ------------------------------------------------------------------ C19 oracle

def _num(s):
    return float(s)

def _chk(bad, what, text, val, kind):
    """kind 'e': exponent-capable field, 5e-6 relative; 'f': fixed-point field, 5e-6 relative or 1e-6 absolute"""
    try:
        t = _num(text)
    except ValueError:
        bad.append('%s: unreadable number: %r' % (what, text)); return
    val = float(val)
    d = abs(t - val)
    if val != val or abs(val) == float('inf'):
        # a non-finite computed value is not C19's subject (C20: the report must not contain NaN / infinity);
        # the text only has to say the same
        if not (t != t or abs(t) == float('inf')):
            bad.append('%s: value is %r, text %r' % (what, val, text))
        return
    if t != t:
        bad.append('%s: text %r for the finite value %r' % (what, text, val)); return
    ok = d <= 5e-6 * abs(val) or (kind == 'f' and d <= 1e-6) or (val == 0 and t == 0)
    if not ok:
        bad.append('%s: text %r, value %r (relative %.3g, absolute %.3g)' % (what, text, val, d / abs(val) if val else float('inf'), d))

def _angle_close(a, b):
    d = (a - b + 180.0) % 360.0 - 180.0
    return abs(d)

def _row_consistent(bad, what, toks):
    """REAL IMAGINARY MAGNITUDE PHASE columns of one row agree with each other"""
    try:
        re_, im_, mg, ph = [float(x) for x in toks]
    except ValueError:
        bad.append('%s: unreadable row %r' % (what, toks)); return
    h = math.hypot(re_, im_)
    if abs(mg - h) > 2e-5 * max(h, mg) + (1e-30 if h == 0 else 0):
        bad.append('%s columns disagree: magnitude %r, sqrt(re^2+im^2) %r' % (what, mg, h)); return
    if h > 0:
        # a digit in the last place of re/im moves the phase by up to 1e-5/ |sin, cos| ... bound generously by 2e-3 deg
        if _angle_close(ph, math.degrees(math.atan2(im_, re_))) > 2e-3:
            bad.append('%s columns disagree: phase %r, atan2(im, re) %r' % (what, ph, math.degrees(math.atan2(im_, re_))))

def c19(payload):
    from mininec.mininec import Angle
    out = []
    for case in payload['cases']:
        r = dict(id=case['id'])
        try:
            rng = random.Random(case['seed'])
            spec = case['spec']
            m0 = gen.build(dict(spec, sources=[], loads=[]))
            n = len(m0.pulses)
            gnd = [i for i, p in enumerate(m0.pulses) if p.ground.any()]
            gen.add_sources(rng, spec, n, nsrc=rng.choice([1, 2, 2, 3]), grounded=gnd)
            scale = 10 ** rng.uniform(-9, 5) if rng.random() < 0.6 else 1.0
            for s in spec['sources']:
                s['v'] = [s['v'][0] * scale, s['v'][1] * scale]
            gen.add_lumped_loads(rng, spec, n)
            if spec['loads'] and rng.random() < 0.35:
                # a load attached twice to one pulse (two of them in series there): two entries of the listing
                l_ = rng.choice(spec['loads']); l_['attach'].append(list(l_['attach'][0]))
            if rng.random() < 0.4:
                # a distributed load: its value differs from pulse to pulse (grounded, junction and tapered pulses)
                spec['loads'].append(dict(kind='skin', cond=float('%.3g' % 10 ** rng.uniform(5, 7.8))))
            if (all(w.get('tag') is None for w in spec['wires']) and rng.random() < 0.5
                    and not any(t.get('tag') is not None for t in spec.get('transforms', []) + spec.get('scales', []))
                    and not any(s_.get('tag') is not None for s_ in spec['sources'])
                    and not any(l_.get('tag') is not None or any(len(a_) > 1 and a_[1] is not None for a_ in l_.get('attach', [])) for l_ in spec['loads'])):
                # tags that are not the positions of the objects: the connection columns print tags
                for i_, w in enumerate(spec['wires']):
                    w['tag'] = 7 + 2 * i_
            r['spec'] = spec
            m = gen.build(spec); m.compute()
            bad = []
            # ---- environment: one block per medium, with its constants, the interface towards the next and the height of all but the first
            if spec.get('media'):
                et_ = m.environment_as_mininec()
                blocks_ = re.split(r'(?m)^ RELATIVE DIELECTRIC CONSTANT, CONDUCTIVITY:', et_)
                mm = re.search(r'NUMBER OF MEDIA[^:]*:\s*(\d+)', et_)
                if not mm or int(mm.group(1)) != len(spec['media']):
                    bad.append('environment: number of media %r, model has %d' % (mm and mm.group(1), len(spec['media'])))
                mb = re.search(r'TYPE OF BOUNDARY[^:]*:\s*(\d+)', et_)
                if len(spec['media']) > 1:
                    wb = 2 if (spec['media'][0].get('boundary') == 'circular' or spec['media'][0].get('nradials')) else 1
                    if not mb or int(mb.group(1)) != wb:
                        bad.append('environment: type of boundary %r, the model has %s' % (mb and mb.group(1), 'circular (2)' if wb == 2 else 'linear (1)'))
                if len(blocks_) - 1 != len(spec['media']):
                    bad.append('environment: %d media blocks for %d media' % (len(blocks_) - 1, len(spec['media'])))
                for i_, (bt, md) in enumerate(zip(blocks_[1:], spec['media'])):
                    what = 'environment medium %d' % (i_ + 1)
                    hd = bt.split('\n')[0].split(',')
                    _chk(bad, what + ' dielectric constant', hd[0].strip(), md['perm'], 'f'); _chk(bad, what + ' conductivity', hd[1].strip(), md['cond'], 'f')
                    mc = re.search(r'COORDINATE OF NEXT MEDIA INTERFACE:\s*(\S+)', bt); mh = re.search(r'HEIGHT OF MEDIA:\s*(\S+)', bt)
                    last = i_ == len(spec['media']) - 1
                    if (mc is None) != last:
                        bad.append('%s: interface line %s' % (what, 'missing' if mc is None else 'printed for the last medium'))
                    elif mc: _chk(bad, what + ' interface coordinate', mc.group(1), md['coord'], 'f')
                    if (mh is None) != (i_ == 0):
                        bad.append('%s: height line %s' % (what, 'missing' if mh is None else 'printed for the first medium'))
                    elif mh: _chk(bad, what + ' height', mh.group(1), md.get('height', 0), 'f')
                    mr = re.search(r'NUMBER OF RADIAL WIRES IN GROUND SCREEN:\s*(\d+)', bt)
                    if bool(md.get('nradials')) != (mr is not None) or (mr and int(mr.group(1)) != md['nradials']):
                        bad.append('%s: radial screen line %r, model has %r radials' % (what, mr and mr.group(1), md.get('nradials')))
            I = np.array(m.current)
            # ---- current table
            txt = m.currents_as_mininec().split('\n')
            blocks = []; cur = None
            for ln in txt:
                mm = re.match(r'^(\S.*) NO\.\s*(-?\d+) :$', ln)
                if mm:
                    cur = dict(tag=int(mm.group(2)), rows=[]); blocks.append(cur); continue
                if cur is None or ln.startswith('PULSE') or ln.startswith(' NO.') or not ln.strip():
                    continue
                cur['rows'].append(ln.split())
            if len(blocks) != len(m.geo):
                bad.append('current table: %d object blocks for %d objects' % (len(blocks), len(m.geo)))
            seen = []
            for b, g in zip(blocks, m.geo):
                own = [p.idx for p in g.pulses if p.geo[0] == p.geo[1]]
                nums = []
                for row in b['rows']:
                    if row[0] == 'E':
                        if row[1:] != ['0'] * 4: bad.append('current table: malformed E row %r' % row)
                        continue
                    if row[0] == 'J':
                        _row_consistent(bad, 'current table J row of object %d' % g.tag, row[1:5]); continue
                    k = int(float(row[0])) - 1
                    nums.append(k)
                    if not 0 <= k < len(I):
                        bad.append('current table: row for pulse %d, model has %d pulses' % (k + 1, len(I))); continue
                    c = I[k]
                    what = 'current table pulse %d' % (k + 1)
                    _chk(bad, what + ' real', row[1], c.real, 'e'); _chk(bad, what + ' imaginary', row[2], c.imag, 'e')
                    _chk(bad, what + ' magnitude', row[3], abs(c), 'e')
                    if abs(c) > 0 and _angle_close(float(row[4]), math.degrees(math.atan2(c.imag, c.real))) > 1e-4 + 5e-6 * 180:
                        bad.append('%s phase: text %r, value %r' % (what, row[4], math.degrees(math.atan2(c.imag, c.real))))
                    _row_consistent(bad, what, row[1:5])
                if nums != own:
                    bad.append('current table: object %d lists pulses %r, its pulses on one object are %r' % (g.tag, [k + 1 for k in nums], [k + 1 for k in own]))
                seen += nums
            # ---- geometry rows
            wt = m.wires_as_mininec()
            # ---- per-object table: end points, radius, segment count; the connection of a grounded end is minus the own tag, of an
            # end that meets no other end 0, of any other end the signed tag of an object that ends in the same point (or 0: the owner)
            head_part = wt.split('**** ANTENNA GEOMETRY ****')[0]
            hb = re.split(r'(?m)^\S.* NO\. *(-?\d+)\n', head_part)
            tol_ = 1e-3 * min(s_.seg_len for g_ in m.geo for s_ in g_.segments)
            for tg_s, btxt in zip(hb[1::2], hb[2::2]):
                g_ = next((x_ for x_ in m.geo if x_.tag == int(tg_s)), None)
                nrows = [ln.split() for ln in btxt.split('\n') if ln.strip() and re.match(r'^-?[\d.]', ln.split()[0])]
                if g_ is None:
                    bad.append('object table: block for tag %s, no such object' % tg_s); continue
                if len(nrows) != 2 or len(nrows[0]) != 4 or len(nrows[1]) != 6 or type(g_).__name__ != 'Wire':
                    continue
                ends_ = [np.array(g_.segments[0].p1, dtype=float), np.array(g_.segments[-1].p2, dtype=float)]
                for e_, row in enumerate(nrows):
                    for ax in range(3):
                        _chk(bad, 'object table tag %d end %d coordinate %s' % (g_.tag, e_ + 1, 'XYZ'[ax]), row[ax], ends_[e_][ax], 'f')
                    cn = int(row[3] if e_ == 0 else row[4])
                    grounded_ = m.media is not None and abs(ends_[e_][2]) < tol_
                    others_ = [x_.tag for x_ in m.geo for pe in (x_.segments[0].p1, x_.segments[-1].p2)
                               if x_ is not g_ and np.linalg.norm(np.array(pe, dtype=float) - ends_[e_]) <= tol_
                               and not (m.media is not None and abs(pe[2]) < tol_)]
                    if grounded_:
                        if cn != -g_.tag: bad.append('object table tag %d end %d: grounded end prints connection %d, minus the tag is %d' % (g_.tag, e_ + 1, cn, -g_.tag))
                    elif not others_:
                        if cn != 0 and abs(cn) != g_.tag: bad.append('object table tag %d end %d: an end that meets no other end prints connection %d' % (g_.tag, e_ + 1, cn))
                    elif cn != 0 and abs(cn) not in others_ + [g_.tag]:
                        bad.append('object table tag %d end %d: connection %d, the objects ending there have tags %r' % (g_.tag, e_ + 1, cn, others_))
                _chk(bad, 'object table tag %d radius' % g_.tag, nrows[1][3], g_.r_orig, 'f')
                if int(nrows[1][5]) != g_.n_segments:
                    bad.append('object table tag %d: %s segments printed, the object has %d' % (g_.tag, nrows[1][5], g_.n_segments))
            geo_part = wt.split('**** ANTENNA GEOMETRY ****')[1].split('\n')
            gnums = []
            for ln in geo_part:
                tk = ln.split()
                if len(tk) == 7 and re.match(r'^-?[\d.]', tk[0]) and tk[0] != '-':
                    k = int(tk[6]) - 1
                    gnums.append(k)
                    if 0 <= k < len(m.pulses):
                        p = m.pulses[k]
                        for ax in range(3):
                            _chk(bad, 'geometry row pulse %d coordinate %s' % (k + 1, 'XYZ'[ax]), tk[ax], p.point[ax], 'f')
                        _chk(bad, 'geometry row pulse %d radius' % (k + 1), tk[3], p.geobj.r_orig, 'f')
                        for h in (0, 1):
                            g_ = p.geo[h]
                            # the grounded half prints minus the tag of its wire; any other half the tag (signed by the direction at a
                            # junction) or 0 next to a free end
                            want_ = -g_.tag if p.ground[h] else (int(tk[4 + h]) if abs(int(tk[4 + h])) in (0, g_.tag) else g_.tag)
                            if int(tk[4 + h]) != want_:
                                bad.append('geometry row pulse %d connection column %d: text %s, %s of object with tag %d gives %d' % (
                                    k + 1, h + 1, tk[4 + h], 'the grounded half' if p.ground[h] else 'the half', g_.tag, want_))
            if gnums != list(range(len(m.pulses))):
                bad.append('geometry table lists pulses %r, model has pulses 1..%d' % ([k + 1 for k in gnums][:40], len(m.pulses)))
            # ---- source data
            sd = m.source_data_as_mininec()
            blocks = re.findall(r'PULSE\s+(\d+)\s+VOLTAGE = \(\s*(\S+)\s*,\s*(\S+)\s*J\)\s*\n\s*CURRENT = \(\s*(\S+)\s*,\s*(\S+)\s*J\)\s*\n\s*IMPEDANCE = \(\s*(\S+)\s*,\s*(\S+)\s*J\)\s*\n\s*POWER =\s*(\S+)\s+WATTS', sd)
            if len(blocks) != len(m.sources):
                bad.append('source data: %d blocks for %d sources' % (len(blocks), len(m.sources)))
            for b, s, ss in zip(blocks, m.sources, spec['sources']):
                k = int(b[0]) - 1
                what = 'source data pulse %d' % (k + 1)
                if k != s.idx: bad.append('%s: source is on pulse %d' % (what, s.idx + 1)); continue
                v = complex(*ss['v']); c = I[k]
                z = v / c; pw = 0.5 * (v * c.conjugate()).real
                _chk(bad, what + ' voltage real', b[1], v.real, 'f'); _chk(bad, what + ' voltage imaginary', b[2], v.imag, 'f')
                _chk(bad, what + ' current real', b[3], c.real, 'e'); _chk(bad, what + ' current imaginary', b[4], c.imag, 'e')
                _chk(bad, what + ' impedance real', b[5], z.real, 'e'); _chk(bad, what + ' impedance imaginary', b[6], z.imag, 'e')
                _chk(bad, what + ' power', b[7], pw, 'e')
            # ---- source listing
            sl = m.sources_as_mininec().split('\n')
            if len(sl) != 1 + len(m.sources):
                bad.append('source listing: %d lines for %d sources' % (len(sl) - 1, len(m.sources)))
            for ln, ss in zip(sl[1:], spec['sources']):
                mm = re.search(r':\s*(\d+)\s*,\s*(\S+)\s*,\s*(\S+)\s*$', ln)
                v = complex(*ss['v'])
                if not mm: bad.append('source listing: unreadable line %r' % ln); continue
                _chk(bad, 'source listing magnitude', mm.group(2), abs(v), 'f')
                if _angle_close(float(mm.group(3)), math.degrees(math.atan2(v.imag, v.real))) > 1e-4 + 5e-6 * 180:
                    bad.append('source listing phase: text %r, value %r' % (mm.group(3), math.degrees(math.atan2(v.imag, v.real))))
            # ---- loads
            lt = m.loads_as_mininec().split('\n')
            nl = sum(len(l.pulses) for l in m.loads)
            lines = [ln for ln in lt if ln.startswith('PULSE NO.')]
            rx = [ln for ln in lines if 'RESISTANCE' in ln]
            npl = sum(len(l.pulses) for l in m.loads)
            if int(lt[0].split()[-1]) != npl or len(lines) != npl:
                bad.append('load listing: %d load lines, header says %s, %d loaded pulses' % (len(lines), lt[0].split()[-1], npl))
            it = iter(lines)
            for l in m.loads:
                for p in l.pulses:
                    ln = next(it, None)
                    if ln is None: break
                    if 'RESISTANCE' in ln:
                        mm = re.search(r':\s*(\d+)\s*,\s*(\S+)\s*,\s*(\S+)\s*$', ln)
                        z = l.impedance(m.f, p)
                        if int(mm.group(1)) != p.idx + 1:
                            bad.append('load listing: line for pulse %s, load is on pulse %d' % (mm.group(1), p.idx + 1)); continue
                        _chk(bad, 'load listing pulse %d resistance' % (p.idx + 1), mm.group(2), z.real, 'f')
                        _chk(bad, 'load listing pulse %d reactance' % (p.idx + 1), mm.group(3), z.imag, 'f')
            # ---- frequency
            ft = m.frequency_as_mininec()
            mm = re.search(r'FREQUENCY \(MHZ\):\s*(\S+)\s*\n\s*WAVE LENGTH =\s*(\S+)', ft)
            _chk(bad, 'frequency', mm.group(1), m.f, 'f'); _chk(bad, 'wave length', mm.group(2), 299.8 / m.f, 'f')
            # ---- far field (dB)
            zen = Angle(rng.uniform(0, 30), rng.uniform(5, 25), rng.choice([2, 3])); azi = Angle(rng.uniform(0, 300), rng.uniform(10, 50), 2)
            pw = rng.choice([None, None, 10 ** rng.uniform(-3, 4)]); dist = rng.choice([None, 10 ** rng.uniform(0, 5)])
            m.compute_far_field(zen, azi, **({} if pw is None else dict(pwr=pw)), **({} if dist is None else dict(dist=dist)))
            rows = [ln.split() for ln in m.far_field.db_as_mininec().split('\n')]
            g = np.array(m.far_field.gain); zz = list(np.array(m.far_field.zen).flat); aa = list(np.array(m.far_field.azi).flat)
            gv, gh, gt = g.T
            if len(rows) != zen.number * azi.number:
                bad.append('far-field table: %d rows for %d x %d directions' % (len(rows), zen.number, azi.number))
            for row, th, ph, v, h, t in zip(rows, zz, aa, gv.flat, gh.flat, gt.flat):
                what = 'far-field dB row (%.4g, %.4g)' % (th, ph)
                _chk(bad, what + ' zenith', row[0], th, 'f'); _chk(bad, what + ' azimuth', row[1], ph, 'f')
                _chk(bad, what + ' vertical', row[2], v, 'f'); _chk(bad, what + ' horizontal', row[3], h, 'f'); _chk(bad, what + ' total', row[4], t, 'f')
            # ---- far field (V/m)
            rows = [ln.split() for ln in m.far_field.abs_gain_as_mininec().split('\n')]
            et = list(np.array(m.far_field.e_theta).flat); ep = list(np.array(m.far_field.e_phi).flat)
            def vm(what, text, val, own):
                """V/m table: inside the property's tolerance: fine; inside the table's own printed precision
                (4 significant digits / 2 decimals, the BASIC layout): the known layout finding; otherwise wrong"""
                tmp = []
                _chk(tmp, what, text, val, 'f' if own is not None else 'e')
                if not tmp: return
                t = float(text); d = abs(t - float(val))
                if (own is not None and d <= own) or (own is None and d <= 5.0001e-4 * abs(val)):
                    bad.append('far-field V/m table prints fewer digits than the values need: ' + tmp[0])
                else:
                    bad.append('far-field V/m table value wrong: ' + tmp[0])
            for row, th, ph, a, b in zip(rows, zz, aa, et, ep):
                what = 'row (%.4g, %.4g)' % (th, ph)
                vm(what + ' zenith', row[0], th, 5.0001e-3); vm(what + ' azimuth', row[1], ph, 5.0001e-3)
                vm(what + ' E(theta) magnitude', row[2], abs(a), None); vm(what + ' E(phi) magnitude', row[4], abs(b), None)
                if abs(a) > 0: vm(what + ' E(theta) phase', row[3], math.degrees(math.atan2(a.imag, a.real)), 5.0001e-3)
                if abs(b) > 0: vm(what + ' E(phi) phase', row[5], math.degrees(math.atan2(b.imag, b.real)), 5.0001e-3)
            if len(rows) != zen.number * azi.number:
                bad.append('far-field V/m table: %d rows for %d x %d directions' % (len(rows), zen.number, azi.number))
            # ---- near field
            maxseg = max(s.seg_len for p in m.pulses for s in p.segs)
            st = [rng.uniform(-3, 3) * maxseg for _ in range(3)]; st[2] = abs(st[2]) + 2 * maxseg
            inc = [rng.uniform(0.5, 2) * maxseg for _ in range(3)]
            cnt = [rng.choice([1, 2]), 1, rng.choice([1, 2])]
            npw = rng.choice([None, 10 ** rng.uniform(-3, 4)])
            m.compute_near_field(st, inc, cnt, *([] if npw is None else [npw]))
            for nm, fld, tx in (('E', m.e_field, m.near_field_e_as_mininec()), ('H', m.h_field, m.near_field_h_as_mininec())):
                pts = tx.split('FIELD POINT:')[1:]
                if len(pts) != len(fld):
                    bad.append('near-field %s table: %d points printed, %d computed' % (nm, len(pts), len(fld)))
                for ptxt, v, coord in zip(pts, fld, m.near_field_iter()):
                    mm = re.match(r'\s*X =\s*(\S+)\s+Y =\s*(\S+)\s+Z =\s*(\S+)', ptxt)
                    for ax in range(3):
                        _chk(bad, 'near-field %s point coordinate' % nm, mm.group(ax + 1), coord[ax], 'f')
                    for ax, comp in zip('XYZ', v):
                        mm = re.search(r'\n\s+%s\s+(\S+)\s+(\S+)\s+(\S+)\s+(\S+)\s*\n' % ax, ptxt)
                        if not mm: bad.append('near-field %s table: no row for component %s' % (nm, ax)); continue
                        what = 'near-field %s component %s' % (nm, ax)
                        _chk(bad, what + ' real', mm.group(1), comp.real, 'e'); _chk(bad, what + ' imaginary', mm.group(2), comp.imag, 'e')
                        _chk(bad, what + ' magnitude', mm.group(3), abs(comp), 'e')
                        _row_consistent(bad, what, [mm.group(k) for k in (1, 2, 3, 4)])
                        _chk(bad, what + ' phase', mm.group(4), math.degrees(math.atan2(comp.imag, comp.real)) if abs(comp) > 0 else 0.0, 'f') \
                            if abs(comp) > 1e-30 * max(abs(c_) for c_ in v) and min(abs(comp.real), abs(comp.imag)) > 1e-3 * abs(comp) else None
                    # the peak line: the largest value |Re (F e^{jwt})| takes over a period = sqrt ((sum |F_i|^2 + |sum F_i^2|) / 2)
                    mm = re.search(r'MAXIMUM OR PEAK FIELD =\s*(\S+)', ptxt)
                    if not mm:
                        bad.append('near-field %s table: no peak line' % nm)
                    else:
                        vv = [complex(c_) for c_ in v]
                        pk = math.sqrt((sum(abs(c_) ** 2 for c_ in vv) + abs(sum(c_ * c_ for c_ in vv))) / 2)
                        _chk(bad, 'near-field %s peak field' % nm, mm.group(1), pk, 'e')
            r['bad'] = bad
            r['features'] = {}
        except AssertionError:
            r['skipped'] = True
        except Exception as e:
            r['error'] = exc_info(e)
        out.append(r)
    return dict(results=out)
