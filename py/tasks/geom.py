"""Stage `geom` (C13, C05): segments of every object after transformations."""
import random, copy, math
import numpy as np
import gen
from .common import hx, hxc, exc_info

def run(payload):
    from mininec import mininec as M
    out = []
    for case in payload['cases']:
        r = dict(id=case['id'])
        try:
            spec = case['spec']
            r['spec'] = spec
            # replicate gen.build up to segmentation, without topology (no matching errors)
            geo = []
            for w in spec['wires']:
                if w['type'] == 'wire':
                    g = M.Wire(w['nseg'], *w['p1'], *w['p2'], w['r'], tag=w.get('tag'))
                    if w.get('taper'):
                        g.segtype = w['taper'][0]; g.taper_min = w['taper'][1]; g.taper_max = w['taper'][2]
                elif w['type'] == 'arc':
                    g = M.Arc(w['nseg'], w['radius'], w['ang1'], w['ang2'], w['r'], tag=w.get('tag'))
                else:
                    g = M.Helix(w['nseg'], w['length'], w['turnlen'], w['r'], w['rx1'], w['ry1'], w.get('rx2'), w.get('ry2'), tag=w.get('tag'))
                geo.append(g)
            cont = M.Geo_Container(None, geo)
            cont.compute_tags()
            for t in spec.get('transforms', []):
                if t['op'] == 'rotate':
                    cont.rotate(t['key'], np.array(t['v']), t.get('tag'))
                else:
                    cont.translate(t['key'], np.array(t['v']), t.get('tag'))
            for t in spec.get('scales', []):
                cont.scale(t['factor'], t.get('tag'))
            objs = []
            for g in cont.geo:
                try:
                    g.compute_segments()
                    objs.append(dict(tag=int(g.tag), r=hx(g.r), segs=[dict(p1=[hx(v) for v in s.p1], p2=[hx(v) for v in s.p2],
                                     len=hx(s.seg_len), dir=[hx(v) for v in s.dirvec]) for s in g.segments],
                                     segtype=int(getattr(g, 'segtype', 0)), min_seglen=hx(g.min_seglen)))
                except AssertionError as e:
                    objs.append(dict(tag=int(g.tag), assertion=True))
            r['obs'] = dict(objs=objs)
        except Exception as e:
            r['error'] = exc_info(e)
        out.append(r)
    return dict(results=out)
