"""Stage `geom` (C13, C05): segments of every object after transformations."""
import random, copy, math
import numpy as np
import gen
from .common import hx, hxc, exc_info

def run(payload):
    from mininec import mininec as M
    out = []
    for case in payload['cases']:
        r = dict(id=case['id'])
        try:
            spec = case['spec']
            r['spec'] = spec
            # replicate gen.build up to segmentation, without topology (no matching errors)
            geo = []
            for w in spec['wires']:
                if w['type'] == 'wire':
                    g = M.Wire(w['nseg'], *w['p1'], *w['p2'], w['r'], tag=w.get('tag'))
                    if w.get('taper'):
                        g.segtype = w['taper'][0]; g.taper_min = w['taper'][1]; g.taper_max = w['taper'][2]
                elif w['type'] == 'arc':
                    g = M.Arc(w['nseg'], w['radius'], w['ang1'], w['ang2'], w['r'], tag=w.get('tag'))
                else:
                    g = M.Helix(w['nseg'], w['length'], w['turnlen'], w['r'], w['rx1'], w['ry1'], w.get('rx2'), w.get('ry2'), tag=w.get('tag'))
                geo.append(g)
            cont = M.Geo_Container(None, geo)
            cont.compute_tags()
            for t in spec.get('transforms', []):
                if t['op'] == 'rotate':
                    cont.rotate(t['key'], np.array(t['v']), t.get('tag'))
                else:
                    cont.translate(t['key'], np.array(t['v']), t.get('tag'))
            for t in spec.get('scales', []):
                cont.scale(t['factor'], t.get('tag'))
            objs = []
            for g in cont.geo:
                try:
                    g.compute_segments()
                    objs.append(dict(tag=int(g.tag), r=hx(g.r), segs=[dict(p1=[hx(v) for v in s.p1], p2=[hx(v) for v in s.p2],
                                     len=hx(s.seg_len), dir=[hx(v) for v in s.dirvec]) for s in g.segments],
                                     segtype=int(getattr(g, 'segtype', 0)), min_seglen=hx(g.min_seglen)))
                except AssertionError as e:
                    objs.append(dict(tag=int(g.tag), assertion=True))
            r['obs'] = dict(objs=objs)
        except Exception as e:
            r['error'] = exc_info(e)
        out.append(r)
    return dict(results=out)


def front(payload):
    """The command line in front of the geometry layer: the same objects, tapers, keyed transformations (given in their
    UNSORTED order, keys spelled so that text order and numeric order differ) and scalings through main() must give the
    segments the documented API calls give (which stage `geom` ties to the model)."""
    from mininec import mininec as M
    import io
    out = []
    for case in payload['cases']:
        r = dict(id=case['id'])
        try:
            spec = case['spec']
            r['spec'] = spec
            rng = random.Random(case.get('seed', 0))
            # API path, as in run() above
            geo = []
            for w in spec['wires']:
                if w['type'] == 'wire':
                    g = M.Wire(w['nseg'], *w['p1'], *w['p2'], w['r'], tag=w.get('tag'))
                    if w.get('taper'):
                        g.segtype = w['taper'][0]; g.taper_min = w['taper'][1]; g.taper_max = w['taper'][2]
                elif w['type'] == 'arc':
                    g = M.Arc(w['nseg'], w['radius'], w['ang1'], w['ang2'], w['r'], tag=w.get('tag'))
                else:
                    g = M.Helix(w['nseg'], w['length'], w['turnlen'], w['r'], w['rx1'], w['ry1'], w.get('rx2'), w.get('ry2'), tag=w.get('tag'))
                geo.append(g)
            cont = M.Geo_Container(None, geo)
            cont.compute_tags()
            # numeric key order; among equal keys the option parser hands over all rotations before all translations, each
            # kind in the order given (the order of equal keys is not documented: this is what main does)
            given = spec.get('transforms_unsorted', spec.get('transforms', []))
            coll = [t for t in given if t['op'] == 'rotate'] + [t for t in given if t['op'] != 'rotate']
            for t in sorted(coll, key=lambda t: float(t['key'])):
                (cont.rotate if t['op'] == 'rotate' else cont.translate)(t['key'], np.array(t['v']), t.get('tag'))
            for t in spec.get('scales', []):
                cont.scale(t['factor'], t.get('tag'))
            api = []
            for g in cont.geo:
                g.compute_segments()
                api.append([[float(v) for v in s.p1] + [float(v) for v in s.p2] for s in g.segments])
            # command-line path: keys respelled (10 -> '1e1', 5 -> '5.0', ...) and options in the unsorted order
            def spell(k):
                k = float(k)
                return rng.choice([repr(k), '%g' % k, '%.1f' % k, ('%e' % k)])
            tr = [dict(t, keytext=spell(t['key'])) for t in spec.get('transforms_unsorted', spec.get('transforms', []))]
            argv = gen.to_argv(dict(spec, sources=[], loads=[]), transforms=tr)
            err = io.StringIO()
            m = M.main(argv, f_err=err, return_mininec=True)
            if isinstance(m, int):
                r['skipped'] = True; r['why'] = err.getvalue()[:200]; out.append(r); continue
            cli = [[[float(v) for v in s.p1] + [float(v) for v in s.p2] for s in g.segments] for g in m.geo]
            bad = []
            if len(cli) != len(api) or any(len(a) != len(b) for a, b in zip(api, cli)):
                bad.append('command line gives %r segments per object, the API calls %r' % ([len(x) for x in cli], [len(x) for x in api]))
            else:
                sc = max([abs(v) for o in api for s_ in o for v in s_] + [1e-30])
                dev = max([abs(x - y) for a, b in zip(api, cli) for s1, s2 in zip(a, b) for x, y in zip(s1, s2)] + [0.0])
                if dev > 1e-12 * sc:
                    bad.append('segments through the command line are up to %.3g away from the documented construction (tapers, transformations in '
                               'numeric key order, then scaling): %r' % (dev, [a for a in argv if a.startswith(('--geo', '--taper'))]))
            r['bad'] = bad; r['ntrans'] = len(tr); r['nscale'] = len(spec.get('scales', []))
        except Exception as e:
            r['error'] = exc_info(e)
        out.append(r)
    return dict(results=out)
