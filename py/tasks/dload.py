"""Stage `dload` (C08): impedance of every load class on every attached pulse,
with the geometric facts the model needs; C08 search oracle."""
import random, copy, cmath, math
import numpy as np
import gen
from .common import hx, hxc, exc_info

MU0 = 1.25663706127e-6

def finalise(rng, spec):
    m0 = gen.build(dict(spec, sources=[], loads=[]))
    n = len(m0.pulses)
    gnd = [i for i, p in enumerate(m0.pulses) if p.ground.any()]
    gen.add_sources(rng, spec, n, nsrc=1, grounded=gnd)
    tags = [g.tag for g in m0.geo]
    loads = []
    # lumped loads of every class
    for kind in rng.sample(['imp', 'rlc', 'trap', 'laplace'], rng.randint(1, 3)):
        gen.add_lumped_loads(rng, spec, n, nload=1)
        l = spec['loads'][0]; l['kind'] = kind
        if kind == 'imp':
            l.setdefault('z', [rng.uniform(0, 100), rng.uniform(-200, 200)])
        elif kind == 'rlc':
            l['rlc'] = [rng.choice([None, 10 ** rng.uniform(-1, 3)]), rng.choice([None, 10 ** rng.uniform(-8, -4)]),
                        rng.choice([None, 10 ** rng.uniform(-12, -8)])]
        elif kind == 'trap':
            l['rlc'] = [10 ** rng.uniform(-1, 2), 10 ** rng.uniform(-7, -5), 10 ** rng.uniform(-12, -10)]
        else:
            na = rng.randint(1, 3)
            l['a'] = [rng.choice([1.0, 0.0, 10 ** rng.uniform(-9, -6)]) for _ in range(na)]
            if not any(l['a']): l['a'][0] = 1.0
            l['b'] = [rng.choice([1.0, 50.0, 10 ** rng.uniform(-7, -4)]) for _ in range(rng.randint(1, 3))]
        loads.append(l)
    # distributed loads
    mode = rng.choice(['skin_all', 'skin_some', 'ins_all', 'ins_some', 'both'])
    if mode in ('skin_all', 'both'):
        loads.append(dict(kind='skin', tag=None, cond=10 ** rng.uniform(2, 8)))
    if mode == 'skin_some':
        for t in rng.sample(tags, rng.randint(1, len(tags))):
            if rng.random() < 0.5:
                loads.append(dict(kind='skin', tag=t, cond=10 ** rng.uniform(2, 8)))
            else:
                loads.append(dict(kind='skin', tag=t, res=10 ** rng.uniform(-8, -2)))
    if mode in ('ins_all', 'both'):
        loads.append(dict(kind='ins', tag=None, radius_factor=rng.uniform(1.2, 4), eps=rng.choice([1.0, 2.1, 3.0, rng.uniform(1, 10)])))
    if mode == 'ins_some':
        for t in rng.sample(tags, rng.randint(1, len(tags))):
            loads.append(dict(kind='ins', tag=t, radius_factor=rng.uniform(1.2, 4), eps=rng.uniform(1, 10)))
    spec['loads'] = loads
    return spec

def half_facts(p, i):
    seg = p.segs[i]; g = seg.geobj
    d = dict(len=hx(seg.seg_len), image=bool(p.ground[i]), r_orig=hx(g.r_orig), r=hx(g.r))
    if g.skin_load is not None:
        d['cond'] = hx(g.skin_load.conductivity)
        d['res'] = None if g.skin_load.resistivity is None else hx(g.skin_load.resistivity)
    if g.coat_load is not None:
        d['coat'] = [hx(g.coat_load.radius), hx(g.coat_load.epsilon_r)]
    return d

def run(payload):
    from mininec import mininec as M
    from scipy.special import jv
    out = []
    for case in payload['cases']:
        r = dict(id=case['id'])
        try:
            rng = random.Random(case['seed'])
            if case.get('fixed_loads'):
                spec = case['spec']
                m0_ = gen.build(dict(spec, sources=[], loads=[]))
                gen.add_sources(rng, spec, len(m0_.pulses), nsrc=1)
            else:
                spec = finalise(rng, case['spec'])
            r['spec'] = spec
            m = gen.build(spec)
            items = []
            # two passes on the SAME object: the second after a frequency change
            # (a sweep step), so that stale per-object caches are visible
            for fpass in (m.f, m.f * rng.choice([0.5, 2.0, 1.37])):
              m.f = fpass
              f = m.f
              for l in m.loads:
                  cls = type(l).__name__
                  for p in l.pulses:
                      it = dict(cls=cls, pulse=int(p.idx), z=hxc(l.impedance(f, p)), f=hx(f))
                      if cls == 'Impedance_Load':
                          it['param'] = hxc(l._impedance)
                      elif cls in ('Laplace_Load',):
                          it['a'] = [hx(x) for x in l.a]; it['b'] = [hx(x) for x in l.b]
                      elif cls in ('Series_RLC_Load', 'Trap_Load'):
                          it['rlc'] = [None if x is None else hx(x) for x in (l.r, l.l, l.c)]
                          it['a'] = [hx(x) for x in l.a]; it['b'] = [hx(x) for x in l.b]
                      else:
                          it['halves'] = [half_facts(p, 0), half_facts(p, 1)]
                          if cls == 'Skin_Effect_Load':
                              omg = 2 * np.pi * f * 1e6
                              for h in it['halves']:
                                  if 'cond' in h:
                                      k = np.sqrt(-1j * omg * MU0 * float.fromhex(h['cond']))
                                      kr = k * float.fromhex(h['r_orig'])
                                      h['bessel'] = hxc(jv(0, kr) / jv(1, kr)) if abs(kr) < 110 else hxc(1j)
                                      h['abs_kr'] = abs(kr)
                      items.append(it)
            r['items'] = items
            # which pulses are on the list of which object's distributed load (Model/Attach.v)
            att = {}
            for kind, attr in (('skin', 'skin_load'), ('ins', 'coat_load')):
                loaded = [int(g.n) for g in m.geo if getattr(g, attr) is not None]
                rows = []
                for p in m.pulses:
                    on = sorted(int(g.n) for g in m.geo if getattr(g, attr) is not None and any(q is p for q in getattr(g, attr).pulses))
                    mult = max([sum(1 for q in getattr(g, attr).pulses if q is p) for g in m.geo if getattr(g, attr) is not None] + [0])
                    rows.append([int(p.geobj.n), int(p.segs[0].geobj.n), int(p.segs[1].geobj.n), on, mult])
                att[kind] = dict(loaded=loaded, nobj=len(m.geo), pulses=rows)
            r['attach'] = att
            r['requiv'] = [[hx(g.r_orig), hx(g.coat_load.radius), hx(g.coat_load.epsilon_r), hx(g.r)]
                           for g in m.geo if g.coat_load is not None]
            r['media'] = [[bool(md.is_ideal), hx(f), hx(md.permittivity), hx(md.conductivity), hxc(md.impedance(f))]
                          for md in (m.media or [])]
        except Exception as e:
            r['error'] = exc_info(e)
        out.append(r)
    return dict(results=out)

# ---------------------------------------------------------------- oracle
def _zin(spec):
    m = gen.build(spec); m.compute()
    return m, m.sources[0].impedance

def oracle(payload):
    """C08 on the real code: metamorphic relations between real runs and
    closed-form circuit values computed here."""
    from scipy.special import jv
    out = []
    for case in payload['cases']:
        r = dict(id=case['id'])
        try:
            rng = random.Random(case['seed'])
            spec = case['spec']
            m0 = gen.build(dict(spec, sources=[], loads=[]))
            n = len(m0.pulses)
            gnd = [i for i, p in enumerate(m0.pulses) if p.ground.any()]
            gen.add_sources(rng, spec, n, nsrc=1, grounded=gnd)
            spec['loads'] = []
            j = spec['sources'][0]['pulse']
            r['spec'] = spec; r['feed_grounded'] = j in gnd
            bad = []
            mA, zA = _zin(spec)
            cond = float(np.linalg.cond(mA.Z)); tol = 1e-9 * max(cond, 1) + 1e-11
            f = spec['f']; s = 2j * math.pi * f * 1e6
            # (a) lumped load on the feed pulse adds exactly z; two loads add their sum; zero load changes nothing
            z1 = complex(rng.uniform(0, 200), rng.uniform(-300, 300)); z2 = complex(rng.uniform(0, 50), rng.uniform(-50, 50))
            sp = copy.deepcopy(spec); sp['loads'] = [dict(kind='imp', z=[z1.real, z1.imag], attach=[[j]])]
            mB, zB = _zin(sp)
            if abs(zB - (zA + z1)) > tol * max(abs(zA), abs(z1)):
                bad.append('feed load: Zin %r + %r became %r' % (zA, z1, zB))
            # the load is in series ONCE, however often the antenna is solved
            mB.compute(); zB2 = mB.sources[0].impedance
            if abs(zB2 - zB) > tol * max(abs(zB), abs(z1)):
                bad.append('feed load after solving the same object again: Zin %r became %r (load %r)' % (zB, zB2, z1))
            sp['loads'].append(dict(kind='imp', z=[z2.real, z2.imag], attach=[[j]]))
            _, zC = _zin(sp)
            if abs(zC - (zA + z1 + z2)) > tol * max(abs(zA), abs(z1)):
                bad.append('two loads on the feed pulse do not add: %r vs %r' % (zC, zA + z1 + z2))
            sp = copy.deepcopy(spec); sp['loads'] = [dict(kind='imp', z=[0.0, 0.0], attach=[[k] for k in range(n)])]
            m3, zD = _zin(sp)
            if abs(zD - zA) > tol * abs(zA):
                bad.append('zero load changes the feed impedance')
            # (b) RLC / trap / Laplace on the feed pulse = circuit value
            R, L, C = 10 ** rng.uniform(-1, 3), 10 ** rng.uniform(-8, -4), 10 ** rng.uniform(-12, -8)
            for kind, rlc, want in (
                ('rlc', [R, L, C], R + s * L + 1 / (s * C)),
                ('rlc', [R, None, C], R + 1 / (s * C)),
                ('rlc', [None, L, None], s * L),
                ('trap', [R, L, C], (R + s * L) * (1 / (s * C)) / (R + s * L + 1 / (s * C)))):
                sp = copy.deepcopy(spec); sp['loads'] = [dict(kind=kind, rlc=rlc, attach=[[j]])]
                _, zE = _zin(sp)
                if abs(zE - (zA + want)) > (tol + 1e-9) * max(abs(zA), abs(want)):
                    bad.append('%s load %r acts as %r, circuit value %r' % (kind, rlc, zE - zA, want))
            a = [rng.choice([1.0, 0.0, 1e-8]) for _ in range(rng.randint(1, 3))]
            if not any(a): a[0] = 1.0
            b = [rng.choice([1.0, 50.0, 1e-6]) for _ in range(rng.randint(1, 3))]
            den = sum(c * s ** k for k, c in enumerate(a)); num = sum(c * s ** k for k, c in enumerate(b))
            if abs(den) > 1e-12:
                sp = copy.deepcopy(spec); sp['loads'] = [dict(kind='laplace', a=a, b=b, attach=[[j]])]
                _, zF = _zin(sp)
                if abs(zF - (zA + num / den)) > (tol + 1e-9) * max(abs(zA), abs(num / den)):
                    bad.append('laplace load a=%r b=%r acts as %r, ratio %r' % (a, b, zF - zA, num / den))
            # (c) insulation eps=1, skin load of huge conductivity change nothing
            sp = copy.deepcopy(spec); sp['loads'] = [dict(kind='ins', tag=None, radius_factor=2.0, eps=1.0)]
            _, zG = _zin(sp)
            if abs(zG - zA) > tol * abs(zA):
                bad.append('insulation with eps_r = 1 changes Zin: %r -> %r' % (zA, zG))
            sp = copy.deepcopy(spec); sp['loads'] = [dict(kind='skin', tag=None, cond=1e30)]
            _, zH = _zin(sp)
            if abs(zH - zA) > 1e-6 * abs(zA):
                bad.append('skin effect with conductivity 1e30 changes Zin: %r -> %r' % (zA, zH))
            # (d) conductivity s <-> resistivity 1/s
            sg = 10 ** rng.uniform(3, 8)
            sp = copy.deepcopy(spec); sp['loads'] = [dict(kind='skin', tag=None, cond=sg)]
            mI, zI = _zin(sp)
            sp2 = copy.deepcopy(spec); sp2['loads'] = [dict(kind='skin', tag=None, res=1 / sg)]
            _, zJ = _zin(sp2)
            if abs(zI - zJ) > 1e-9 * abs(zI) * max(cond, 1):
                bad.append('conductivity %r and resistivity 1/%r differ: %r vs %r' % (sg, sg, zI, zJ))
            # (e) distributed load per pulse = closed-form per-length impedance x real conductor length
            for f_e in (f, f * rng.choice([0.5, 2.0, 1.37])):
              mI.f = f_e       # second pass: a sweep step on the same object
              omg = 2 * math.pi * f_e * 1e6
              stop = False
              for l in mI.loads:
                for p in l.pulses:
                    want = 0j
                    for i in (0, 1):
                        g = p.segs[i].geobj
                        if g.skin_load is None or p.ground[i]:
                            continue
                        k = cmath.sqrt(-1j * omg * MU0 * sg); kr = k * g.r_orig
                        bz = jv(0, kr) / jv(1, kr) if abs(kr) < 110 else 1j
                        want += k / (2 * math.pi * g.r_orig * sg) * bz * p.segs[i].seg_len / 2
                    got = l.impedance(f_e, p)
                    if abs(got - want) > 1e-9 * abs(want):
                        bad.append('skin load on pulse %d at %.6g MHz (object first used at %.6g MHz) is %r, closed form x real length %r' % (p.idx, f_e, f, got, want))
                        stop = True
                        break
                if stop:
                    break
            # (f) skin-effect loads on SOME of the objects: every pulse carries, summed over the loads it is attached to, the closed
            #     form times the length of loaded conductor it represents (a junction pulse half of whose conductor is loaded: that half)
            tags = [g.tag for g in mA.geo]
            import itertools
            subsets = [rng.sample(tags, rng.randint(1, len(tags)))]
            if case.get('probe'):
                subsets = [list(c) for n_ in range(1, len(tags) + 1) for c in itertools.combinations(tags, n_)]
            omg = 2 * math.pi * f * 1e6
            k = cmath.sqrt(-1j * omg * MU0 * sg)
            for sub in subsets:
                # every loaded wire has its own conductivity; the options come in a random order
                sgs = {t: sg * rng.choice([1.0, 1.0, 0.03, 40.0]) for t in sub}
                order = list(sub); rng.shuffle(order)
                sp = copy.deepcopy(spec); sp['loads'] = [dict(kind='skin', tag=t, cond=sgs[t]) for t in order]
                mK = None
                try:
                    # each of them as a conductivity or as the resistivity 1 / conductivity
                    argv = gen.to_argv(sp, with_loads=False) + [('--skin-effect-conductivity=%r,%d' % (sgs[t], t)) if rng.random() < 0.5
                                                                else ('--skin-effect-resistivity=%r,%d' % (1.0 / sgs[t], t)) for t in order]
                    from mininec.mininec import main as _main
                    import io as _io
                    mK = _main(argv, f_err=_io.StringIO(), return_mininec=True)
                    if isinstance(mK, int): mK = None
                except ValueError:
                    mK = None
                if mK is None:
                    mK = gen.build(sp)
                for p in mK.pulses:
                    want = 0j
                    for i in (0, 1):
                        g = p.segs[i].geobj
                        if g.tag not in sub or p.ground[i]:
                            continue
                        kk = cmath.sqrt(-1j * omg * MU0 * sgs[g.tag]); kr = kk * g.r_orig
                        bz = jv(0, kr) / jv(1, kr) if abs(kr) < 110 else 1j
                        want += kk / (2 * math.pi * g.r_orig * sgs[g.tag]) * bz * p.segs[i].seg_len / 2
                    got = 0j
                    for l in mK.loads:
                        for q in l.pulses:
                            if q is p: got += l.impedance(f, p)
                    if abs(got - want) > 1e-9 * max(abs(want), 1e-30):
                        bad.append('skin loads on some objects: loaded %r (conductivities %r, given in the order %r): pulse %d (objects %d / %d) carries %r, closed form x loaded conductor length %r'
                                   % (sorted(sub), [sgs[t] for t in sorted(sub)], order, p.idx, p.segs[0].geobj.tag, p.segs[1].geobj.tag, got, want))
                        break
                # insulation on the same objects: j w mu0 (1 - 1/eps_r) ln (R / a) / (2 pi) per length of real, insulated conductor;
                # alone, and together with the skin-effect loads (which keep the radius of the bare conductor)
                eps_r = rng.choice([2.1, 3.5, rng.uniform(1.2, 9)]); fac = rng.uniform(1.3, 3)
                for both in (False, True):
                  sp = copy.deepcopy(spec); sp['loads'] = [dict(kind='ins', tag=t, radius_factor=fac, eps=eps_r) for t in order]
                  if both:
                      sp['loads'] = [dict(kind='skin', tag=t, cond=sgs[t]) for t in order] + sp['loads']
                  try:
                    mI2 = gen.build(sp)
                  except ValueError:
                    mI2 = None
                  if mI2 is not None:
                      for p in mI2.pulses:
                          want = 0j
                          for i in (0, 1):
                              g = p.segs[i].geobj
                              if g.tag not in sub or p.ground[i]:
                                  continue
                              want += 1j * omg * MU0 * (eps_r - 1) / eps_r * math.log(fac) / (2 * math.pi) * p.segs[i].seg_len / 2
                              if both:
                                  kk = cmath.sqrt(-1j * omg * MU0 * sgs[g.tag]); kr = kk * g.r_orig
                                  bz = jv(0, kr) / jv(1, kr) if abs(kr) < 110 else 1j
                                  want += kk / (2 * math.pi * g.r_orig * sgs[g.tag]) * bz * p.segs[i].seg_len / 2
                          got = 0j
                          for l in mI2.loads:
                              for q in l.pulses:
                                  if q is p: got += l.impedance(f, p)
                          if abs(got - want) > 1e-9 * max(abs(want), 1e-30):
                              bad.append('insulation' + (' and skin-effect loads' if both else '') + ' on some objects: insulated %r: pulse %d (objects %d / %d, image halves %r) carries %r, closed form x insulated conductor length %r'
                                         % (sorted(sub), p.idx, p.segs[0].geobj.tag, p.segs[1].geobj.tag, [bool(x) for x in p.ground], got, want))
                              break
            r['bad'] = bad
        except Exception as e:
            r['error'] = exc_info(e)
        out.append(r)
    return dict(results=out)
