"""Search oracles on the real code for C07 (linearity, source data) and C08
(series loads): metamorphic relations between several real runs."""
import random, copy, cmath
import numpy as np
import gen
from .common import hx, hxc, exc_info

def _solve(spec):
    m = gen.build(spec)
    m.compute()
    return m

def c07(payload):
    out = []
    for case in payload['cases']:
        r = dict(id=case['id'], checks=0)
        try:
            rng = random.Random(case['seed'])
            spec = case['spec']
            m0 = gen.build(dict(spec, sources=[], loads=[]))
            n = len(m0.pulses)
            gnd = [i for i, p in enumerate(m0.pulses) if p.ground.any()]
            gen.add_sources(rng, spec, n, nsrc=rng.choice([1, 2, 2, 3, 4]), grounded=gnd)
            gen.add_lumped_loads(rng, spec, n)
            rng.shuffle(spec['sources'])
            r['spec'] = spec
            m = _solve(spec)
            I = np.array(m.current)
            cond = float(np.linalg.cond(m.Z))
            tol = 1e-9 * max(cond, 1.0)
            bad = []
            # (a) complex scaling
            a = cmath.rect(10 ** rng.uniform(-1, 1), rng.uniform(-3.1, 3.1))
            s2 = copy.deepcopy(spec)
            for s in s2['sources']:
                v = complex(*s['v']) * a
                s['v'] = [v.real, v.imag]
            m2 = _solve(s2)
            if np.abs(np.array(m2.current) - a * I).max() > tol * np.abs(a * I).max():
                bad.append('scaling voltages by %r does not scale currents' % a)
            for k, (x, y) in enumerate(zip(m.sources, m2.sources)):
                if abs(x.impedance - y.impedance) > tol * abs(x.impedance):
                    bad.append('impedance of source %d changes under voltage scaling: %r -> %r' % (k, x.impedance, y.impedance))
                if abs(y.power - abs(a) ** 2 * x.power) > tol * abs(a) ** 2 * (abs(x.voltage) * abs(x.current)):
                    bad.append('power of source %d does not scale with |a|^2: %r -> %r' % (k, x.power, y.power))
            # (a') the dBi pattern is a ratio: unchanged when all voltages are scaled, and whatever power level is requested
            #      for the V/m table of the same request
            from mininec.mininec import Angle
            if m.power > 0 and m2.power > 0:
                zq = Angle(10.0, 25.0 if spec['media'] is not None else 50.0, 3); aq = Angle(rng.uniform(0, 360), 80.0, 3)
                m.compute_far_field(zq, aq); g1 = np.array(m.far_field.gain)
                m2.compute_far_field(zq, aq, pwr=10 ** rng.uniform(-2, 3), dist=10 ** rng.uniform(0, 4)); g2 = np.array(m2.far_field.gain)
                msk = g1 > g1.max() - 40
                if msk.any() and np.abs(g1[msk] - g2[msk]).max() > 1e-6 + 100 * tol:
                    bad.append('dBi pattern changes by %.3g dB when the voltages are scaled by %r and a power level is requested' % (np.abs(g1[msk] - g2[msk]).max(), a))
            # (b) superposition: each source alone in its own model (others absent)
            # and with the others held at 0 V
            tot0 = np.zeros(n, dtype=complex); tot1 = np.zeros(n, dtype=complex)
            for k in range(len(spec['sources'])):
                s3 = copy.deepcopy(spec)
                for j, s in enumerate(s3['sources']):
                    if j != k:
                        s['v'] = [0.0, 0.0]
                tot0 += np.array(_solve(s3).current)
                s4 = copy.deepcopy(spec)
                s4['sources'] = [spec['sources'][k]]
                tot1 += np.array(_solve(s4).current)
            if np.abs(tot0 - I).max() > tol * np.abs(I).max():
                bad.append('response is not the sum of the single-source responses (others at 0 V)')
            if np.abs(tot1 - I).max() > tol * np.abs(I).max():
                bad.append('response is not the sum of the responses of single-source models')
            # (b') the same superposition on ONE object whose sources are replaced between the runs
            from mininec.mininec import Excitation
            mr = gen.build(dict(spec, sources=[])); tot2 = np.zeros(n, dtype=complex)
            for sk in spec['sources']:
                mr.sources = []
                mr.register_source(Excitation(complex(*sk['v'])), sk['pulse'])
                mr.compute(); tot2 += np.array(mr.current)
            if np.abs(tot2 - I).max() > tol * np.abs(I).max():
                bad.append('response is not the sum of the single-source responses computed one after the other on one object')
            # (c) registration order irrelevant
            s5 = copy.deepcopy(spec); s5['sources'].reverse()
            if np.abs(np.array(_solve(s5).current) - I).max() > tol * np.abs(I).max():
                bad.append('currents depend on the order in which sources are registered')
            # (d) source data = V/I and Re(V I*)/2 for the current on the feed pulse; report text
            for k, s in enumerate(m.sources):
                i = m.current[s.idx]
                if abs(s.impedance - s.voltage / i) > 1e-12 * abs(s.voltage / i):
                    bad.append('source %d impedance is not V/I' % k)
                p = 0.5 * (s.voltage * np.conj(i)).real
                if abs(s.power - p) > 1e-12 * abs(s.voltage) * abs(i):
                    bad.append('source %d power %r is not Re(V I*)/2 = %r' % (k, s.power, p))
            if abs(m.power - sum(0.5 * (s.voltage * np.conj(m.current[s.idx])).real for s in m.sources)) > 1e-12 * sum(abs(s.voltage) * abs(s.current) for s in m.sources):
                bad.append('total power is not the sum of the source powers')
            # (e) the SOURCE DATA block of the report: per source, the printed impedance and power are V/I and Re (V I*) / 2 of the
            #     printed voltage and current
            import re as _re
            blk = m.source_data_as_mininec()
            ents = _re.findall(r'VOLTAGE = \(\s*(\S+)\s*,\s*(\S+)\s*J\)\s*\n\s*CURRENT = \(\s*(\S+)\s*,\s*(\S+)\s*J\)\s*\n\s*IMPEDANCE = \(\s*(\S+)\s*,\s*(\S+)\s*J\)\s*\n\s*POWER =\s*(\S+)\s+WATTS', blk)
            if len(ents) != len(m.sources):
                bad.append('SOURCE DATA lists %d sources, the model has %d' % (len(ents), len(m.sources)))
            for k, (e_, s_) in enumerate(zip(ents, m.sources)):
                v_ = complex(float(e_[0]), float(e_[1])); i_ = complex(float(e_[2]), float(e_[3])); z_ = complex(float(e_[4]), float(e_[5])); p_ = float(e_[6])
                if abs(i_) > 0 and abs(z_ - v_ / i_) > 2e-5 * abs(v_ / i_):
                    bad.append('SOURCE DATA of source %d: printed impedance %r is not printed V / I = %r' % (k, z_, v_ / i_))
                pw = 0.5 * (v_ * i_.conjugate()).real
                if abs(p_ - pw) > 2e-5 * 0.5 * abs(v_) * abs(i_) + 1e-30:
                    bad.append('SOURCE DATA of source %d: printed power %r W is not Re (V I*) / 2 = %r W of the printed voltage and current' % (k, p_, pw))
            # (f) the same sources through the command line, one of them held at 0 V: a valid computation (positive total power)
            #     ends in a report
            if all(w['type'] == 'wire' for w in spec['wires']) and all(w.get('tag') is not None or not w.get('taper') for w in spec['wires']) and all(l['kind'] == 'imp' for l in spec['loads']) \
               and all(len(a_) == 1 for l in spec['loads'] for a_ in l['attach']):
                import io as _io, contextlib as _cl
                from mininec.mininec import main as _main
                for zero in ([None] if len(spec['sources']) < 2 else [None, rng.randrange(len(spec['sources']))]):
                    sp_ = copy.deepcopy(spec)
                    if zero is not None: sp_['sources'][zero]['v'] = [0.0, 0.0]
                    mz = _solve(sp_)
                    if not (np.isfinite(mz.power) and mz.power > 0):
                        continue
                    so_, se_ = _io.StringIO(), _io.StringIO()
                    with _cl.redirect_stdout(so_):
                        rc_ = _main(gen.to_argv(sp_) + ['--theta=10,30,2', '--phi=0,90,2'], f_err=se_)
                    if rc_:
                        bad.append('a valid computation%s is refused by the command line: %s' % (' with source %d at 0 V' % zero if zero is not None else '', se_.getvalue().strip()[:160]))
            r['checks'] = 7
            r['bad'] = bad
            r['nsrc'] = len(spec['sources'])
            r['gnd_src'] = any(s['pulse'] in gnd for s in spec['sources'])
            r['complex_v'] = any(abs(s['v'][1]) > 0 for s in spec['sources'])
        except Exception as e:
            r['error'] = exc_info(e)
        out.append(r)
    return dict(results=out)
