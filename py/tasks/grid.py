"""Stage `grid` (C16): sample points of far-field and near-field tables."""
import numpy as np
from .common import hx, exc_info

def _model():
    from mininec.mininec import Mininec, Wire, Excitation
    m = Mininec(10.0, [Wire(2, 0, 0, 0, 1.0, 0, 0, 0.001)])
    m.register_source(Excitation(1+0j), 0)
    m.compute()
    return m

def run(payload):
    from mininec.mininec import Angle
    m = _model()
    out = []
    for case in payload['cases']:
        r = dict(id=case['id'])
        try:
            if 'near' in case:
                s, i, n = case['near']
                # a request that differs only in the 6th digit has just been served on the same object
                s_ = [float.fromhex(x) for x in s]; i_ = [float.fromhex(x) for x in i]
                m.compute_near_field([v * (1 + 3e-6) + 2e-9 for v in s_], [v * (1 - 2e-6) for v in i_], [int(x) for x in n])
                m.compute_near_field([float.fromhex(x) for x in s],
                                     [float.fromhex(x) for x in i], [int(x) for x in n])
                c = np.array(m.near_field_coord)
                r['coord'] = [[hx(v) for v in c[:, k]] for k in range(c.shape[1])]
                r['n_e'] = len(m.e_field)
                r['n_h'] = len(m.h_field)
                txt = m.near_field_as_mininec()
                r['rep_points'] = txt.count('FIELD POINT:')
                import re as _re
                r['rep_coord'] = [[float(x) for x in mm] for mm in _re.findall(r'FIELD POINT: X =\s*(\S+)\s+Y =\s*(\S+)\s+Z =\s*(\S+)', txt)]
            if 'far' in case:
                t0, dt, nt, p0, dp, np_ = case['far']
                # the Angle objects have served another request before and are then given the values of this one
                zen = Angle(float.fromhex(t0) + 1.5, float.fromhex(dt) * 2, int(nt) + 1)
                azi = Angle(float.fromhex(p0) - 3.0, float.fromhex(dp) + 1.0, max(1, int(np_) - 1))
                m.compute_far_field(zen, azi)
                zen.initial, zen.inc, zen.number = float.fromhex(t0), float.fromhex(dt), int(nt)
                azi.initial, azi.inc, azi.number = float.fromhex(p0), float.fromhex(dp), int(np_)
                m.compute_far_field(zen, azi)
                r['zen'] = [hx(v) for v in m.far_field.zen.flat]
                r['azi'] = [hx(v) for v in m.far_field.azi.flat]
                r['rep_rows'] = len(m.far_field.db_as_mininec().split('\n'))
                # the angles of the printed rows, dB table and V/m table
                r['rep_db'] = [[float(x) for x in l.split()[:2]] for l in m.far_field.db_as_mininec().split('\n')]
                r['rep_abs'] = [[float(x) for x in l.split()[:2]] for l in m.far_field.abs_gain_as_mininec().split('\n')]
                r['gain_shape'] = list(m.far_field.gain.shape)
        except Exception as e:
            r['error'] = exc_info(e)
        out.append(r)
    return dict(results=out)
