"""Stage `lin` (C07, C08, C01): matrix before/after loads, rhs, currents,
source data of the real code for generated antennas."""
import random, copy
import numpy as np
import gen
from .common import hx, hxc, exc_info

def observe(m):
    m.compute_impedance_matrix()
    Z0 = np.array(m.Z, dtype=complex).copy()
    m.compute_impedance_matrix_loads()
    Z = np.array(m.Z, dtype=complex).copy()
    m.compute_rhs()
    rhs = np.array(m.rhs).copy()
    m.compute_currents()
    m.power = sum(s.power for s in m.sources)
    n = len(m.pulses)
    att = []
    for l in m.loads:
        for p in l.pulses:
            att.append([int(p.idx), hxc(l.impedance(m.f, p))])
    return dict(
        n=n, m=hx(m.m), f=hx(m.f), has_media=m.media is not None,
        gnd=[bool(p.ground.any()) for p in m.pulses],
        Z0=[[hxc(v) for v in row] for row in Z0], Z=[[hxc(v) for v in row] for row in Z],
        rhs=[hxc(v) for v in rhs], cur=[hxc(v) for v in m.current],
        sources=[dict(idx=int(s.idx), v=hxc(s.voltage), imp=hxc(s.impedance), pwr=hx(s.power),
                      cur=hxc(s.current)) for s in m.sources],
        att=att, power=hx(m.power), cond=float(np.linalg.cond(Z)))

def run(payload):
    out = []
    for case in payload['cases']:
        r = dict(id=case['id'])
        try:
            spec = case['spec']
            if case.get('finalise', True):
                rng = random.Random(case['seed'])
                m0 = gen.build(dict(spec, sources=[], loads=[]))
                n = len(m0.pulses)
                gnd = [i for i, p in enumerate(m0.pulses) if p.ground.any()]
                gen.add_sources(rng, spec, n, grounded=gnd)
                on = None
                if rng.random() < 0.4:
                    on = [spec['sources'][0]['pulse']]
                gen.add_lumped_loads(rng, spec, n, on=on)
            r['spec'] = spec
            m = gen.build(spec)
            r['obs'] = observe(m)
        except Exception as e:
            r['error'] = exc_info(e)
        out.append(r)
    return dict(results=out)
