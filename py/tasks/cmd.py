"""C15: option lists -> real main -> written option list -> real main -> ...
Generation happens here (the real code is asked for the pulse counts so that
sources and loads get valid addresses)."""
import io, math, random, re, json
import numpy as np
from .common import hx, exc_info

def _d(rng, lo, hi, digits=4):
    """a decimal with few digits, so that printing with %g / %.11g is exact"""
    return float(('%%.%dg' % digits) % rng.uniform(lo, hi))

def _fmt(x):
    return repr(float(x)) if isinstance(x, float) else str(x)

def gen_geometry(rng, ground):
    """returns (options, objects) with objects = list of dict(kind, tag (explicit or None))"""
    opts = []; objs = []
    nw = rng.choice([1, 2, 2, 3])
    tagmode = rng.choice(['none', 'explicit', 'explicit', 'mixed'])
    pool = rng.sample(range(1, 40), 8)
    def tag():
        if tagmode == 'none': return None
        if tagmode == 'mixed' and rng.random() < 0.5: return None
        return pool.pop()
    z0 = 0.0
    dg = rng.choice([4, 7, 9])      # coordinates are written with 11 digits, radii with 8 or more
    start = [_d(rng, -2, 2, dg), _d(rng, -2, 2, dg), (rng.choice([0.0, 0.0, 1e-9, -2.8e-17]) if (ground and rng.random() < 0.6) else _d(rng, 1, 4, dg))]
    pts = [start]
    for k in range(nw):
        p1 = pts[-1] if rng.random() < 0.7 else [_d(rng, -3, 3, dg), _d(rng, -3, 3, dg), _d(rng, 1, 5, dg)]
        if p1 is pts[-1] and k > 0 and rng.random() < 0.35:
            # joined by the fuzzy end matching only: not the same numbers
            p1 = [float('%.9g' % (v + rng.choice([1e-7, -2e-7, 3e-7]))) if (v != 0 or not ground) else v for v in p1]
        ln = _d(rng, 1.5, 4)
        d = np.array([rng.gauss(0, 1), rng.gauss(0, 1), abs(rng.gauss(0, 1)) + 0.4]); d /= np.linalg.norm(d)
        p2 = [float('%.*g' % (dg + 1, p1[i] + ln * d[i])) for i in range(3)]
        pts.append(p2)
        t = tag()
        nseg = rng.randrange(3, 8)
        r = _d(rng, 0.0005, 0.004, rng.choice([3, 7]))
        fields = ([str(t)] if t is not None else []) + [str(nseg)] + [_fmt(v) for v in p1 + p2] + [_fmt(r)]
        opts.append(rng.choice(['-w', '--wire=']) .rstrip('=') )
        opts[-1] = ('--wire=' + ','.join(fields))
        objs.append(dict(kind='wire', tag=t, nseg=nseg))
    if rng.random() < 0.3:
        t = tag()
        nseg = rng.randrange(4, 9)
        fields = ([str(t)] if t is not None else []) + [str(nseg), _fmt(_d(rng, 0.5, 2)), _fmt(_d(rng, 10, 60)), _fmt(_d(rng, 100, 170)), _fmt(_d(rng, 0.001, 0.004, 2))]
        opts.append('--arc=' + ','.join(fields)); objs.append(dict(kind='arc', tag=t, nseg=nseg))
    if rng.random() < 0.3:
        t = tag()
        nseg = rng.randrange(8, 16)
        form = rng.choice(['ellip', 'cone'])
        rad = [_fmt(_d(rng, 0.05, 0.2, 2)) for _ in range(2 if form == 'ellip' else 4)]
        # the parser tells tagged from untagged helices by the field count: 6 / 8 without, 7 / 9 with tag
        fields = ([str(t)] if t is not None else []) + [str(nseg), _fmt(_d(rng, 0.5, 1.5, 3)), _fmt(_d(rng, 0.2, 0.5, 2)), _fmt(_d(rng, 0.001, 0.003, 2))] + rad
        opts.append('--helix=' + ','.join(fields)); objs.append(dict(kind='helix', tag=t, nseg=nseg))
    return opts, objs

def auto_tags(objs):
    """tags as compute_tags assigns them; reading order is arcs, helices, wires"""
    order = [o for o in objs if o['kind'] == 'arc'] + [o for o in objs if o['kind'] == 'helix'] + [o for o in objs if o['kind'] == 'wire']
    mx = max([o['tag'] for o in order if o['tag'] is not None] + [0])
    for o in order:
        if o['tag'] is None:
            mx += 1; o['atag'] = mx
        else:
            o['atag'] = o['tag']
    return order

def gen_case(rng, main):
    ground = rng.choice([None, None, 'ideal', 'real', 'two', 'three'])
    gopts, objs = gen_geometry(rng, ground)
    order = auto_tags(objs)
    opts = ['-f', _fmt(_d(rng, 3, 30, rng.choice([4, 6, 7, 8])))] + gopts      # the option writer prints 8 digits
    tags = [o['atag'] for o in objs]
    wires = [o for o in objs if o['kind'] == 'wire']
    # taper
    for o in wires:
        if rng.random() < 0.3:
            t = '--taper-wire=%d,%d' % (o['atag'], rng.choice([1, 2, 3]))
            if rng.random() < 0.4:
                t += ',' + _fmt(_d(rng, 0.02, 0.08, 2))
                if rng.random() < 0.5: t += ',' + _fmt(_d(rng, 0.8, 1.5, 2))
            opts.append(t)
    # transformations
    for _ in range(rng.choice([0, 0, 1, 2])):
        kind = rng.choice(['rotate', 'translate'])
        v = [_d(rng, -40, 40, 3) if kind == 'rotate' else _d(rng, -2, 2, 3) for _ in range(3)]
        if ground: v = [0.0, 0.0, v[2]] if kind == 'rotate' else [v[0], v[1], 0.0]
        t = '--geo-%s=%s,%s' % (kind, _fmt(float(rng.choice([1, 2, 3, 2.5]))), ','.join(_fmt(x) for x in v))
        if rng.random() < 0.4: t += ',%d' % rng.choice(tags)
        opts.append(t)
    if rng.random() < 0.15 and not ground:
        t = '--geo-scale=' + _fmt(_d(rng, 0.5, 2, 3))
        if rng.random() < 0.3: t += ',%d' % rng.choice(tags)
        opts.append(t)
    # media
    if ground == 'ideal':
        opts.append('--medium=0,0,0')
    elif ground == 'real':
        opts.append('--medium=%s,%s,0' % (_fmt(_d(rng, 3, 20, 3)), _fmt(_d(rng, 0.001, 0.03, 2))))
    elif ground == 'three':
        c1 = _d(rng, 5, 20, 3)
        opts.append('--medium=%s,%s,0,%s' % (_fmt(_d(rng, 3, 20, 3)), _fmt(_d(rng, 0.001, 0.03, 2)), _fmt(c1)))
        opts.append('--medium=%s,%s,%s,%s' % (_fmt(_d(rng, 3, 20, 3)), _fmt(_d(rng, 0.001, 0.03, 2)), _fmt(-_d(rng, 0, 2, 2)), _fmt(float('%.3g' % (c1 + _d(rng, 5, 30, 3))))))
        opts.append('--medium=%s,%s,%s' % (_fmt(_d(rng, 3, 20, 3)), _fmt(_d(rng, 0.001, 0.03, 2)), _fmt(-_d(rng, 0, 3, 2))))
        if rng.random() < 0.3:
            # the outermost medium given an interface coordinate of its own (3-4 values are accepted for every medium)
            opts[-1] += ',' + _fmt(float('%.3g' % (c1 + _d(rng, 40, 90, 3))))
        opts.append('--boundary=' + rng.choice(['linear', 'circular']))
    elif ground == 'two':
        opts.append('--medium=%s,%s,0,%s' % (_fmt(_d(rng, 3, 20, 3)), _fmt(_d(rng, 0.001, 0.03, 2)), _fmt(_d(rng, 5, 20, 3))))
        opts.append('--medium=%s,%s,%s' % (_fmt(_d(rng, 3, 20, 3)), _fmt(_d(rng, 0.001, 0.03, 2)), _fmt(-_d(rng, 0, 3, 2))))
        if rng.random() < 0.3:
            opts[-1] += ',' + _fmt(_d(rng, 25, 90, 3))
        opts.append('--boundary=' + rng.choice(['linear', 'circular']))
        if rng.random() < 0.5:
            opts += ['--radial-count=%d' % rng.choice([8, 16, 32]), '--radial-radius=' + _fmt(_d(rng, 0.001, 0.003, 2))]
    # ask the real code for the pulses
    err = io.StringIO()
    m0 = main(opts + ['--excitation-pulse=1'], f_err=err, return_mininec=True)
    if isinstance(m0, int):
        return None
    npulse = len(m0.pulses)
    per = {g.tag: len(g.pulses) for g in m0.geo}
    # sources
    ns = min(npulse, rng.choice([1, 1, 2, 3]))
    if npulse >= 5 and rng.random() < 0.12:
        # the default source (no --excitation-pulse: pulse 5), with or without a voltage
        ns = 0
        if rng.random() < 0.6:
            v = rng.choice([1, complex(_d(rng, -5, 5, 3), _d(rng, -5, 5, 3)), complex(_d(rng, 0.1, 9, 3), 0), rng.choice([1j, -1 + 0j, 0.6 + 0.8j])])
            opts.append('--excitation-voltage=%s' % (('%g%+gj' % (v.real, v.imag)) if isinstance(v, complex) else str(v)))
    for p in rng.sample(range(npulse), ns):
        if rng.random() < 0.4:
            g = m0.pulses[p].geobj
            opts.append('--excitation-pulse=%d,%d' % (m0.pulses[p].n + 1, g.tag))
        else:
            opts.append('--excitation-pulse=%d' % (p + 1))
        v = rng.choice([1, 1.0, complex(_d(rng, -5, 5, 3), _d(rng, -5, 5, 3)), complex(_d(rng, 0.1, 9, 3), 0), complex(0, _d(rng, -3, 3, 2)),
                        rng.choice([1j, -1 + 0j, 0.6 + 0.8j, -0.8 - 0.6j])])       # (the last: magnitude 1, not 1 V)
        opts.append('--excitation-voltage=%s' % (('%g%+gj' % (v.real, v.imag)) if isinstance(v, complex) else str(v)))
    # lumped loads, grouped by kind or interleaved, attached in any order
    loads = []
    for _ in range(rng.choice([0, 1, 2, 3, 4])):
        k = rng.choice(['imp', 'imp', 'rlc', 'trap', 'laplace'])
        if k == 'imp':
            z = complex(rng.choice([0, 5, 50, _d(rng, 0.1, 900, 4)]), rng.choice([0, 0, 30, -30, _d(rng, -500, 500, 4), -_d(rng, 1e-4, 1e-2, 2)]))
            loads.append(('--load=' + (('%g%+gj' % (z.real, z.imag)) if z.imag else '%g' % z.real)))
        elif k == 'rlc':
            r, l, c = rng.choice([None, _d(rng, 0.1, 900, 3)]), rng.choice([None, _d(rng, 1e-8, 1e-4, 3)]), rng.choice([None, _d(rng, 1e-12, 1e-8, 3)])
            if r is None and l is None and c is None: r = 10.0
            loads.append('--rlc-load=' + ','.join('' if x is None else '%g' % x for x in (r, l, c)))
        elif k == 'trap':
            loads.append('--trap-load=%g,%g,%g' % (_d(rng, 0.1, 50, 3), _d(rng, 1e-7, 1e-5, 3), _d(rng, 1e-12, 1e-10, 3)))
        else:
            na = rng.choice([1, 2, 3]); nb = rng.choice([1, 2, 3])
            loads.append(('--laplace-load-a=' + ','.join('%g' % _d(rng, 1e-7, 2, 3) for _ in range(na)),
                          '--laplace-load-b=' + ','.join('%g' % _d(rng, 1e-7, 90, 3) for _ in range(nb))))
    # the parser numbers the loads by kind: --load, --rlc-load, --trap-load, --laplace
    def rank(o):
        s = o[0] if isinstance(o, tuple) else o
        return ['--load', '--rlc-', '--trap', '--lapl'].index(s[:6])
    numbering = sorted(range(len(loads)), key=lambda i: rank(loads[i]))
    idx_of = {i: k + 1 for k, i in enumerate(numbering)}
    att = []
    for i in range(len(loads)):
        form = rng.choice(['abs', 'abs', 'rel', 'all', 'alltag', 'everypulse'])
        n = idx_of[i]
        if form == 'abs':
            for p in rng.sample(range(npulse), min(npulse, rng.choice([1, 1, 2, 3]))):
                att.append('--attach-load=%d,%d' % (n, p + 1))
        elif form == 'rel':
            t = rng.choice(list(per)); 
            if per[t]:
                att.append('--attach-load=%d,%d,%d' % (n, rng.randrange(per[t]) + 1, t))
            else:
                att.append('--attach-load=%d,%d' % (n, rng.randrange(npulse) + 1))
        elif form == 'all':
            att.append('--attach-load=%d,all' % n)
        elif form == 'alltag':
            t = rng.choice([t for t in per if per[t]] or list(per))
            att.append('--attach-load=%d,all,%d' % (n, t))
        else:
            t = rng.choice([t for t in per if per[t]] or list(per))
            for q in range(per[t]):
                att.append('--attach-load=%d,%d,%d' % (n, q + 1, t))
    rng.shuffle(att)
    flat = []
    for o in loads:
        flat += list(o) if isinstance(o, tuple) else [o]
    opts += flat + att
    # distributed loads
    r = rng.random()
    if r < 0.15:
        opts.append('--skin-effect-conductivity=%g' % _d(rng, 1e5, 6e7, 3))
    elif r < 0.3:
        for t in rng.sample(tags, rng.randrange(1, len(tags) + 1)):
            opts.append(rng.choice(['--skin-effect-conductivity=%g,%d' % (_d(rng, 1e5, 6e7, 3), t), '--skin-effect-resistivity=%g,%d' % (_d(rng, 1e-8, 1e-6, 3), t)]))
    elif r < 0.38:
        opts.append('--skin-effect-resistivity=%g' % _d(rng, 1e-8, 1e-6, 3))
    r = rng.random()
    if r < 0.12:
        opts.append('--insulation-load=%g,%g' % (_d(rng, 0.005, 0.01, 2), _d(rng, 1.5, 5, 2)))
    elif r < 0.25:
        for t in rng.sample(tags, rng.randrange(1, len(tags) + 1)):
            opts.append('--insulation-load=%g,%g,%d' % (_d(rng, 0.005, 0.01, 2), _d(rng, 1.5, 5, 2), t))
    return opts

def _describe(m):
    """what "the same model" means, from the real object"""
    d = {}
    d['f'] = m.f
    d['objects'] = [dict(kind=type(g).__name__, tag=g.tag, had_tag=bool(g.had_tag), nseg=g.n_segments,
                         taper=([g.segtype, g.taper_min or 0, g.taper_max] if g.segtype else [0]) if type(g).__name__ == 'Wire' else None,   # limits of an untapered (or fallen-back) wire mean nothing
                         npulses=len(g.pulses)) for g in m.geo]
    d['transforms'] = [[float(k), t, [float(v) for v in x], tag] for k, t, x, tag in m.geo.transforms]
    d['scales'] = [[float(f), tag] for f, tag in m.geo.scales]
    d['points'] = [[float(v) for v in p.point] for p in m.pulses]
    d['radii'] = [float(p.geobj.r_orig) for p in m.pulses]
    d['sources'] = sorted([[s.idx, s.voltage.real, s.voltage.imag] for s in m.sources])
    lo = []
    for l in m.loads:
        for p in l.pulses:
            z = l.impedance(m.f, p)
            lo.append([type(l).__name__, p.idx, float(np.real(z)), float(np.imag(z))])
    d['loads'] = sorted(lo)
    md = []
    for g in (m.media or []):
        md.append([g.permittivity, g.conductivity, g.height, getattr(g, 'coord', None), g.nradials, getattr(g, 'radius', None), g.boundary if g.next else None])
    d['media'] = md
    return d

def _close(a, b, rel):
    if isinstance(a, (list, tuple)) and isinstance(b, (list, tuple)):
        return len(a) == len(b) and all(_close(x, y, rel) for x, y in zip(a, b))
    if isinstance(a, dict) and isinstance(b, dict):
        return set(a) == set(b) and all(_close(a[k], b[k], rel) for k in a)
    if isinstance(a, bool) or isinstance(b, bool) or a is None or b is None or isinstance(a, str) or isinstance(b, str):
        return a == b
    a = float(a); b = float(b)
    return abs(a - b) <= rel * max(abs(a), abs(b)) + 1e-12

def _observe_attach(m1, m2, by_geo):
    tags = [g.tag for g in m1.geo]; counts = [len(g.pulses) for g in m1.geo]
    layout_ok = all(p.idx == sum(counts[:p.geobj.n]) + p.n for p in m1.pulses)
    loads = []
    lumped1 = m1.cmdline_loads() if hasattr(m1, 'cmdline_loads') else [l for l in m1.loads if not hasattr(l, 'all_wires')]
    lumped2 = [l for l in m2.loads if not hasattr(l, 'all_wires')]
    for k, l in enumerate(lumped1):
        txt = l.as_cmdline_load_attach(m1, by_geo).split()
        toks = []
        for t in txt:
            f = t.split('=')[1].split(',')[1:]
            if f == ['all']: toks.append([2])
            elif f[0] == 'all': toks.append([3, int(f[1])])
            elif len(f) == 2: toks.append([1, int(f[0]) - 1, int(f[1])])
            else: toks.append([0, int(f[0]) - 1])
        loads.append(dict(pulses=[p.idx for p in l.pulses], written=toks,
                          reread=[p.idx for p in lumped2[k].pulses] if k < len(lumped2) else None))
    return dict(tags=tags, counts=counts, layout_ok=layout_ok, by_geo=by_geo, loads=loads)

KINDS = {'Impedance_Load': 0, 'Series_RLC_Load': 1, 'Trap_Load': 2, 'Laplace_Load': 3}
DEFOPT = ('--load=', '--rlc-load=', '--trap-load=', '--laplace-load-a=', '--laplace-load-b=')

def _observe_loads(m1, t1, m2, by_geo):
    """lumped loads: the model's loads in registration order (kind, attachment ids), the load section of the written
    text as rows [0, kind, load] / [1, number - 1, attachment id], the order of the re-read model's loads"""
    lumped1 = [l for l in m1.loads if type(l).__name__ in KINDS]
    if not lumped1:
        return None
    info = []; nid = 0
    for l in lumped1:
        lines = l.as_cmdline(m1, by_geo).split()
        d = [x for x in lines if x.startswith(DEFOPT)]
        a = [x.split('=')[1].split(',', 1)[1] for x in lines if x.startswith('--attach-load=')]
        ids = list(range(nid, nid + len(a))); nid += len(a)
        info.append(dict(kind=KINDS[type(l).__name__], defs=d, atts=a, ids=ids, pulses=sorted(p.idx for p in l.pulses)))
    given = [[x['kind'], x['ids']] for x in info]
    # the load section of the written text, block by block
    rows = []; used = set(); lines = t1.split(); i = 0
    while i < len(lines):
        if not lines[i].startswith(DEFOPT):
            i += 1; continue
        d = []
        while i < len(lines) and lines[i].startswith(DEFOPT):
            d.append(lines[i]); i += 1
        a = []
        while i < len(lines) and lines[i].startswith('--attach-load='):
            f = lines[i].split('=')[1].split(',', 1); a.append((int(f[0]), f[1])); i += 1
        cand = [k for k, x in enumerate(info) if k not in used and x['defs'] == d and x['atts'] == [y[1] for y in a]]
        if not cand:
            return dict(given=given, unparsed='load block %r %r of the written text matches no load of the model' % (d, a))
        k = cand[0]; used.add(k)
        rows.append([0, info[k]['kind'], k])
        for (n, _), aid in zip(a, info[k]['ids']):
            rows.append([1, n - 1, aid])
    reread = None
    if m2 is not None:
        reread = []; used2 = set()
        for l in [l for l in m2.loads if type(l).__name__ in KINDS]:
            d = [x for x in l.as_cmdline(m2, by_geo).split() if x.startswith(DEFOPT)]
            ps = sorted(p.idx for p in l.pulses)
            cand = [k for k, x in enumerate(info) if k not in used2 and x['defs'] == d and x['pulses'] == ps]
            if not cand:
                reread = None; break
            used2.add(cand[0]); reread.append(cand[0])
    return dict(given=given, written=rows, reread=reread)

def _observe_sources(m1, t1, m2):
    """sources: (voltage id, address, default flag) of the model in order, the source options of the written text as
    rows [0, voltage id] / [1, pulse - 1] / [1, pulse - 1, tag], the sources of the re-read model"""
    vt = lambda v: '%g%+gj' % (v.real, v.imag)
    table = {}
    def vid(v):
        if v == 1 + 0j: return 1
        return table.setdefault(vt(v), 2 + len(table))
    def addr(s):
        if s.geo_tag is not None and s.geo_idx is not None: return [int(s.geo_idx), int(s.geo_tag)]
        return [int(s.idx)]
    given = [[vid(complex(s.voltage)), addr(s), bool(s.is_default)] for s in m1.sources]
    rows = []
    for x in t1.split():
        if x.startswith('--excitation-voltage='):
            t = x.split('=', 1)[1]
            v = complex(t)
            rows.append([0, 1 if (v == 1 + 0j and t in ('1+0j', '1')) else table.get(t, -5)])
        elif x.startswith('--excitation-pulse='):
            f = [int(y) for y in x.split('=', 1)[1].split(',')]
            rows.append([1, f[0] - 1] + f[1:])
    reread = None
    if m2 is not None:
        reread = [[(1 if complex(s.voltage) == 1 + 0j else table.get(vt(complex(s.voltage)), -5)), 1 if s.is_default else 0] + addr(s) for s in m2.sources]
    return dict(given=given, written=rows, reread=reread)

def _obj_lines(argv):
    """object options of an argument list in order: (kind, tag or None, fields after the tag)"""
    out = []; i = 0
    names = {'-a': 0, '--arc': 0, '-H': 1, '--helix': 1, '-w': 2, '--wire': 2}
    while i < len(argv):
        a = argv[i]; val = None
        if '=' in a and a.split('=')[0] in names: k = names[a.split('=')[0]]; val = a.split('=', 1)[1]
        elif a in names and i + 1 < len(argv): k = names[a]; val = argv[i + 1]; i += 1
        if val is not None:
            f = [x.strip() for x in val.split(',')]
            ntag = {0: 6, 2: 9}.get(k)
            tagged = (len(f) in (7, 9)) if k == 1 else (len(f) == ntag)
            out.append((k, int(f[0]) if tagged else None, [float(x) for x in (f[1:] if tagged else f)]))
        i += 1
    return out

def _observe_objects(argv, m1, t1):
    lines = _obj_lines(argv)
    # body = position of the option among the object options
    given = [[k, (-1 if t is None else t), i] for i, (k, t, f) in enumerate(lines)]
    kinds = {'Arc': 0, 'Helix': 1, 'Wire': 2}
    used = set(); model = []
    for g in m1.geo:
        k = kinds[type(g).__name__]
        # which option does this object come from: same kind, same (given or assigned) tag situation, same numbers
        cand = [i for i, (kk, t, f) in enumerate(lines) if kk == k and i not in used and ((t == g.tag) if g.had_tag else (t is None)) and int(f[0]) == g.n_segments]
        if len(cand) > 1:
            ref = list(map(float, (g.endp_unscaled.flat if k == 2 else [])))
            c2 = [i for i in cand if k != 2 or np.allclose(lines[i][2][1:7], ref)]
            cand = c2 or cand
        if not cand: return None
        used.add(cand[0]); model.append([k, int(g.tag), 1 if g.had_tag else 0, cand[0]])
    written = []
    wl = _obj_lines(t1.split())
    # the written options in order, mapped to the same bodies through the model order
    if len(wl) != len(model): return None
    for (k, t, f), mo in zip(wl, model):
        written.append([k, (-1 if t is None else t), mo[3]])
    return dict(given=given, model=model, written=written)

def c15(payload):
    from mininec.mininec import main
    out = []
    for case in payload['cases']:
        r = dict(id=case['id'])
        try:
            rng = random.Random(case['seed'])
            try:
                argv = case.get('argv') or gen_case(rng, main)
                if argv is None:
                    r['skipped'] = True; out.append(r); continue
                r['argv'] = argv
                err = io.StringIO()
                m1 = main(argv, f_err=err, return_mininec=True)
            except Exception as e:
                # not an accepted command line (whether it should end in a diagnostic is C20's subject)
                r['skipped'] = True; r['why'] = 'raises ' + type(e).__name__; out.append(r); continue
            if isinstance(m1, int):
                r['skipped'] = True; r['why'] = err.getvalue()[:200]; out.append(r); continue
            bad = []
            by_geo = bool(case.get('by_geo', rng.random() < 0.5))
            t1 = m1.as_cmdline(load_by_geo=by_geo)
            argv2 = t1.split()
            err2 = io.StringIO()
            import contextlib
            so = io.StringIO()
            with contextlib.redirect_stdout(so), contextlib.redirect_stderr(so):
                try:
                    m2 = main(argv2, f_err=err2, return_mininec=True)
                except SystemExit as e_:
                    # the option parser itself refuses the written text (usage error)
                    m2 = 2; err2.write('usage error (exit %r): ' % (e_.code,))
            if isinstance(m2, int):
                bad.append('written option list is rejected: %s' % (err2.getvalue() + so.getvalue()).strip()[:300])
            else:
                t2 = m2.as_cmdline(load_by_geo=by_geo)
                if t2 != t1:
                    l1 = t1.split('\n'); l2 = t2.split('\n')
                    diff = [(a, b) for a, b in zip(l1 + [''] * len(l2), l2 + [''] * len(l1)) if a != b][:3]
                    bad.append('option list differs after re-reading: %r' % diff)
                d1 = _describe(m1); d2 = _describe(m2)
                for k in d1:
                    if not _close(d1[k], d2[k], 2e-5 if k in ('loads',) else 1e-9):
                        bad.append('re-read model differs: %s: %r versus %r' % (k, d1[k] if k not in ('points',) else '...', d2[k] if k not in ('points',) else '...'))
                if not bad:
                    m1.compute(); m2.compute()
                    for s1, s2 in zip(sorted(m1.sources, key=lambda s: s.idx), sorted(m2.sources, key=lambda s: s.idx)):
                        z1 = s1.impedance; z2 = s2.impedance
                        if abs(z1 - z2) > 1e-4 * abs(z1):
                            bad.append('feed impedance differs: %r versus %r' % (z1, z2))
            r['bad'] = bad; r['written'] = argv2
            if not isinstance(m2, int):
                r['obs'] = _observe_attach(m1, m2, by_geo)
                r['objs'] = _observe_objects(argv, m1, t1)
            m2x = None if isinstance(m2, int) else m2
            r['lds'] = _observe_loads(m1, t1, m2x, by_geo)
            r['srcs'] = _observe_sources(m1, t1, m2x)
            r['features'] = dict(nobj=len(m1.geo), nloads=len(m1.loads), media=len(m1.media or []), by_geo=by_geo)
        except Exception as e:
            r['error'] = exc_info(e)
        out.append(r)
    return dict(results=out)


# ------------------------------------------------------------------ stage media
def media(payload):
    """the media options through the real main: rejected, or the media of the model it builds (numbers as integers, radial
    wire radius in mm) and the media options of the list the model writes"""
    import io
    from mininec.mininec import main
    out = []
    for c in payload['cases']:
        r = dict(id=c['id'])
        try:
            err = io.StringIO(); so = io.StringIO()
            import contextlib
            with contextlib.redirect_stdout(so):
                try:
                    m = main(['-w', '4,0,0,1,0,0,3,0.001', '--excitation-pulse=2'] + c['opts'], f_err=err, return_mininec=True)
                except SystemExit as e_:
                    m = 2
            if isinstance(m, int):
                r['rejected'] = (err.getvalue() + so.getvalue()).strip()[:200]
            else:
                md = m.media or []
                f0 = md[0] if md else None
                r['env'] = [len(md), int(len(md) >= 2 and m.boundary == 'circular')] \
                    + ([int(f0.nradials), int(round(f0.radius * 1000))] if (f0 is not None and f0.nradials) else [0, 0]) \
                    + [int(round(v)) for g in md for v in (g.permittivity, g.conductivity, g.height, g.coord)]
                toks = []
                for ln in m.as_cmdline().split('\n'):
                    for w in ln.split():
                        if w.startswith('--medium='): toks.append([0] + [int(round(float(x))) for x in w.split('=')[1].split(',')])
                        elif w.startswith('--boundary='): toks.append([1, int(w.split('=')[1] == 'circular')])
                        elif w.startswith('--radial-count='): toks.append([2, int(w.split('=')[1])])
                        elif w.startswith('--radial-radius='): toks.append([3, int(round(float(w.split('=')[1]) * 1000))])
                r['written'] = toks
                # the property itself on this command line: the written list is accepted and gives the same media
                def _envof(mm):
                    return [[float(g.permittivity), float(g.conductivity), float(g.height), float(g.coord), int(g.nradials), float(g.radius),
                             g.boundary if len(mm.media) > 1 else None] for g in (mm.media or [])]
                e2 = io.StringIO()
                with contextlib.redirect_stdout(so):
                    try:
                        m2 = main(m.as_cmdline().split(), f_err=e2, return_mininec=True)
                    except SystemExit:
                        m2 = 2
                if isinstance(m2, int):
                    r['rt'] = 'the written list is rejected: ' + e2.getvalue().strip()[:200]
                elif _envof(m2) != _envof(m):
                    r['rt'] = 're-read media %r, written from %r' % (_envof(m2), _envof(m))
                elif m2.as_cmdline() != m.as_cmdline():
                    r['rt'] = 'the option list differs after re-reading'
        except Exception as e:
            r['error'] = exc_info(e)
        out.append(r)
    return dict(results=out)
