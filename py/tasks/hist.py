"""Stage `hist` (C14): operation sequences on ONE real object versus fresh
objects; sweep steps of main() versus single runs; repeated fresh processes."""
import random, copy, math, io, os, sys, subprocess, tempfile, contextlib, hashlib
import numpy as np
import gen
from .common import hx, hxc, exc_info
from . import dload

def _observe(m, far=True):
    from mininec.mininec import Angle
    o = dict(f=m.f, cur=[complex(c) for c in m.current], z=[complex(s.impedance) for s in m.sources], power=float(m.power))
    o['loads'] = [[complex(l.impedance(m.f, p)) for p in l.pulses] for l in m.loads]
    if far:
        zmax = 80.0 if m.media is not None else 170.0
        m.compute_far_field(Angle(5.0, zmax / 4, 4), Angle(10.0, 100.0, 3))
        o['gain'] = np.array(m.far_field.gain).copy()
    return o

def _differs(a, b, tol=1e-12):
    msgs = []
    ca, cb = np.array(a['cur']), np.array(b['cur'])
    if np.abs(ca - cb).max() > tol * np.abs(cb).max():
        msgs.append('currents differ by %.3g relative' % (np.abs(ca - cb).max() / np.abs(cb).max()))
    for k, (x, y) in enumerate(zip(a['z'], b['z'])):
        if abs(x - y) > tol * abs(y):
            msgs.append('feed impedance %d: %r vs fresh %r' % (k, x, y))
    for la, lb in zip(a['loads'], b['loads']):
        for x, y in zip(la, lb):
            if abs(x - y) > tol * max(abs(y), 1e-300):
                msgs.append('load impedance %r vs fresh %r' % (x, y)); break
    if 'gain' in a and 'gain' in b:
        msk = b['gain'] > -150
        if msk.any() and np.abs(a['gain'][msk] - b['gain'][msk]).max() > 1e-9:
            msgs.append('far field differs by %.3g dB' % np.abs(a['gain'][msk] - b['gain'][msk]).max())
    return msgs

def _resrc(rng, m, spec):
    """replace the sources of the live object by new ones on other pulses; spec follows"""
    from mininec.mininec import Excitation
    n = len(m.pulses)
    old = [s_['pulse'] for s_ in spec['sources']]
    cand = [i for i in range(n) if i not in old] or list(range(n))
    new = []
    for i in rng.sample(cand, min(len(cand), rng.choice([1, 1, 2]))):
        v = complex(rng.uniform(0.5, 3), rng.choice([0.0, rng.uniform(-2, 2)]))
        new.append(dict(pulse=i, tag=None, v=[v.real, v.imag]))
    m.sources = []
    for s_ in new:
        m.register_source(Excitation(complex(*s_['v'])), s_['pulse'])
    spec['sources'] = new

def run(payload):
    from mininec.mininec import Angle
    out = []
    for case in payload['cases']:
        r = dict(id=case['id'])
        try:
            rng = random.Random(case['seed'])
            spec = dload.finalise(rng, case['spec'])
            r['spec'] = spec
            m = gen.build(spec)
            f0 = spec['f']
            r['src0'] = [int(s_['pulse']) for s_ in spec['sources']]
            ops = []
            nops = rng.randint(3, 9)
            bad = []
            computed = False
            for k in range(nops):
                op = rng.choice(['setf', 'setf', 'compute', 'far', 'near', 'compute2', 'resrc'])
                if op == 'setf':
                    fk = f0 * rng.choice([0.5, 0.8, 1.0, 1.25, 2.0, rng.uniform(0.3, 3)])
                    if rng.random() < 0.3:
                        fk = float(m.f) * (1 + rng.choice([-1, 1]) * rng.choice([2e-6, 5e-6, 8e-6]))      # a narrow-band sweep step
                    m.f = fk; computed = False
                    ops.append(['setf', fk])
                elif op.startswith('compute'):
                    m.compute(); computed = True
                    if op == 'compute2':
                        m.compute()
                    ops.append([op])
                elif op == 'resrc':
                    # the sources are replaced on the live object (the idiom of the package's own doctests)
                    _resrc(rng, m, spec); computed = False
                    ops.append(['resrc', [s_['pulse'] for s_ in spec['sources']]])
                elif op == 'far' and computed:
                    m.compute_far_field(Angle(0, 30, 3), Angle(0, 90, 2)); ops.append(['far'])
                elif op == 'near' and computed:
                    lam = 299.8 / m.f
                    m.compute_near_field([lam, lam, lam], [lam / 10, 0.1, 0.1], [2, 1, 1]); ops.append(['near'])
            F = f0 * rng.choice([1.0, 0.7, 1.9, rng.uniform(0.4, 2.5)])
            last = rng.choice(['setf-compute', 'setf-compute', 'compute-again', 'resrc-compute'])
            if last == 'setf-compute':
                if rng.random() < 0.3:
                    F = float(m.f) * (1 + rng.choice([-1, 1]) * rng.choice([2e-6, 5e-6, 8e-6]))
                m.f = F; m.compute(); ops += [['setf', F], ['compute']]
            elif last == 'compute-again':
                # the last computation repeats one at the same frequency, with nothing changed in between
                F = float(m.f); m.compute(); m.compute(); ops += [['compute'], ['compute']]
            else:
                F = float(m.f); m.compute(); _resrc(rng, m, spec); m.compute()
                ops += [['compute'], ['resrc', [s_['pulse'] for s_ in spec['sources']]], ['compute']]
            order = rng.choice(['far-first', 'near-first'])
            lam = 299.8 / F
            if order == 'near-first':
                m.compute_near_field([lam, 0.5 * lam, lam], [lam / 7, 0.1, 0.1], [2, 1, 1])
            a = _observe(m)
            near_a = None
            m.compute_near_field([lam, 0.5 * lam, lam], [lam / 7, 0.1, 0.1], [2, 1, 1])
            near_a = (np.array(m.e_field).copy(), np.array(m.h_field).copy())
            # fresh object at F
            sf = copy.deepcopy(spec); sf['f'] = F
            mf = gen.build(sf); mf.compute()
            b = _observe(mf)
            mf.compute_near_field([lam, 0.5 * lam, lam], [lam / 7, 0.1, 0.1], [2, 1, 1])
            near_b = (np.array(mf.e_field), np.array(mf.h_field))
            bad += _differs(a, b)
            # what is left in memory, in the terms of Model/Session.v: where the right-hand side is non-zero, and how many times
            # the loads sit on the diagonal of the matrix (measured against an unloaded matrix at the same frequency)
            rhs = np.array(m.rhs); r['rhs_nz'] = [int(i) for i in np.nonzero(rhs)[0]]
            r['src_pulses'] = sorted(int(s_['pulse']) for s_ in spec['sources'] if complex(*s_['v']) != 0)
            su = copy.deepcopy(sf); su['loads'] = []
            mu = gen.build(su); mu.compute_impedance_matrix()
            dz_f = np.diag(np.array(mf.Z)) - np.diag(np.array(mu.Z)); dz_r = np.diag(np.array(m.Z)) - np.diag(np.array(mu.Z))
            big = np.abs(dz_f) > 1e-9 * np.abs(np.diag(np.array(mu.Z)))
            mult = None
            if big.any():
                q = dz_r[big] / dz_f[big]
                mult = float(np.real(q).mean()) if np.abs(q - q.mean()).max() < 1e-6 else -1.0
            r['load_mult'] = mult
            for x, y, nm in ((near_a[0], near_b[0], 'E'), (near_a[1], near_b[1], 'H')):
                if np.abs(x - y).max() > 1e-12 * np.abs(y).max():
                    bad.append('near %s field after the history differs from a fresh object by %.3g relative' % (nm, np.abs(x - y).max() / np.abs(y).max()))
            r['ops'] = ops; r['bad'] = bad; r['nloads'] = len(m.loads)
            r['kinds'] = sorted(set(type(l).__name__ for l in m.loads))
        except Exception as e:
            r['error'] = exc_info(e)
        out.append(r)
    return dict(results=out)

# ----------------------------------------------------------- main()-level
def _spec_argv(spec, extra=()):
    argv = ['-f', repr(spec['f'])]
    for w in spec['wires']:
        t = [] if w.get('tag') is None else [str(w['tag'])]
        argv += ['-w', ','.join(t + [str(w['nseg'])] + [repr(x) for x in w['p1'] + w['p2']] + [repr(w['r'])])]
    if spec['media'] is not None:
        if not spec['media']:
            argv += ['--medium=0,0,0']
        else:
            for md in spec['media']:
                s = '%r,%r,%r' % (md['perm'], md['cond'], md.get('height', 0.0))
                if md.get('coord') is not None:
                    s += ',%r' % md['coord']
                argv += ['--medium=' + s]
            if len(spec['media']) > 1:
                argv += ['--boundary=%s' % spec['media'][0].get('boundary', 'linear')]
            if spec['media'][0].get('nradials'):
                argv += ['--radial-count=%d' % spec['media'][0]['nradials'], '--radial-radius=%r' % spec['media'][0]['radius']]
    for s in spec['sources']:
        argv += ['--excitation-pulse=%d' % (s['pulse'] + 1), '--excitation-voltage=%r' % complex(*s['v'])]
    nl = 0
    for l in spec['loads']:
        k = l['kind']
        if k == 'imp':
            z = complex(*l['z']); argv += ['--load=%r' % z]
        elif k == 'rlc':
            argv += ['--rlc-load=' + ','.join('' if x is None else repr(x) for x in l['rlc'])]
        elif k == 'trap':
            argv += ['--trap-load=' + ','.join(repr(x) for x in l['rlc'])]
        elif k == 'laplace':
            argv += ['--laplace-load-a=' + ','.join(repr(x) for x in l['a']), '--laplace-load-b=' + ','.join(repr(x) for x in l['b'])]
        elif k == 'skin':
            v = ('--skin-effect-conductivity=%r' % l['cond']) if l.get('cond') is not None else ('--skin-effect-resistivity=%r' % l['res'])
            argv += [v + ('' if l.get('tag') is None else ',%d' % l['tag'])]
            continue
        elif k == 'ins':
            continue
        nl += 1
        for a in l['attach']:
            if a[0] is None:
                argv += ['--attach-load=%d,all%s' % (nl, '' if len(a) < 2 or a[1] is None else ',%d' % a[1])]
            else:
                argv += ['--attach-load=%d,%d' % (nl, a[0] + 1)]
    return argv + list(extra)

def _run_main(argv):
    from mininec.mininec import main
    buf = io.StringIO(); err = io.StringIO()
    with contextlib.redirect_stdout(buf):
        rc = main(argv, f_err=err)
    return rc, buf.getvalue(), err.getvalue()

def _tail(txt, marker='SOURCE DATA'):
    i = txt.find(marker)
    return txt[i:] if i >= 0 else txt

def sweep(payload):
    """step k of a frequency sweep equals a fresh single-frequency run"""
    out = []
    for case in payload['cases']:
        r = dict(id=case['id'])
        try:
            rng = random.Random(case['seed'])
            spec = dload.finalise(rng, case['spec'])
            # lumped + skin loads only (insulation has no simple option form here); explicit tags for skin
            spec['loads'] = [l for l in spec['loads'] if l['kind'] != 'ins']
            r['spec'] = spec
            steps = rng.randint(2, 4); inc = spec['f'] * rng.choice([0.05, 0.1, 0.31])
            argv = _spec_argv(spec, ['--theta=10,35,3', '--phi=0,120,2'])
            rc, txt, err = _run_main(argv + ['--frequency-steps=%d' % steps, '--frequency-increment=%r' % inc])
            if rc is not None:
                r['skipped'] = 'main returned %r: %s' % (rc, (txt + err)[:200]); out.append(r); continue
            blocks = txt.split('FREQUENCY (MHZ)')
            bad = []
            if len(blocks) != steps + 1:
                bad.append('sweep printed %d frequency blocks for %d steps' % (len(blocks) - 1, steps))
            else:
                for k in range(steps):
                    fk = spec['f'] + k * inc
                    a2 = list(argv); a2[1] = repr(fk)
                    rc2, t2, e2 = _run_main(a2)
                    if _tail(blocks[k + 1]).rstrip() != _tail(t2).rstrip():
                        la = _tail(blocks[k + 1]).rstrip().split('\n'); lb = _tail(t2).rstrip().split('\n')
                        j = next((i for i, (x, y) in enumerate(zip(la, lb)) if x != y), min(len(la), len(lb)))
                        bad.append('sweep step %d (%.6g MHz) differs from a fresh single-frequency run at line %d: %r vs %r' % (
                            k, fk, j, la[j] if j < len(la) else None, lb[j] if j < len(lb) else None))
                        break
            # one request does not depend on the others of the same command line: the far-field section (V/m, with and without its
            # own power level) and the near-field section are the same whether asked for alone or together
            lam_ = 299.8 / spec['f']
            nfo = ['--option=near-field', '--near-field=%r,%r,%r,1,1,1,2,1,1' % (2 * lam_, lam_, 1.5 * lam_), '--nf-power=%r' % float('%.3g' % 10 ** rng.uniform(-1, 2))]
            ffo = ['--option=far-field-absolute', '--ff-distance=%r' % float('%.3g' % 10 ** rng.uniform(1, 4))] + ([] if rng.random() < 0.6 else ['--ff-power=%r' % float('%.3g' % 10 ** rng.uniform(-1, 2))])
            def sect(txt, first, until=None):
                i = txt.find(first)
                if i < 0: return None
                j = txt.find(until, i + 10) if until else -1
                return txt[i:(j if j > 0 else len(txt))].rstrip()
            rcA, tA, eA = _run_main(argv + ffo); rcB, tB, eB = _run_main(argv + nfo); rcC, tC, eC = _run_main(argv + ffo + nfo)
            if rcA is None and rcB is None and rcC is None:
                FF = '     FAR FIELD      '; NF = '    NEAR FIELDS     '
                if sect(tA, FF) != sect(tC, FF, '*' * 20 + NF):
                    la = (sect(tA, FF) or '').split('\n'); lc = (sect(tC, FF, '*' * 20 + NF) or '').split('\n')
                    j = next((i for i, (x, y) in enumerate(zip(la, lc)) if x != y), min(len(la), len(lc)))
                    bad.append('the far-field section changes when a near field is requested on the same command line (%r): line %d %r vs %r'
                               % (nfo[-1], j, la[j] if j < len(la) else None, lc[j] if j < len(lc) else None))
                if sect(tB, '*' * 20 + NF) != sect(tC, '*' * 20 + NF):
                    bad.append('the near-field section changes when a far field is requested on the same command line (%r)' % ffo)
            r['bad'] = bad; r['steps'] = steps
            r['kinds'] = sorted(set(l['kind'] for l in spec['loads']))
        except Exception as e:
            r['error'] = exc_info(e)
        out.append(r)
    return dict(results=out)

def procs(payload):
    """the same command line in fresh processes: byte-identical report and option file"""
    out = []
    repo = os.environ.get('PM_REPO', '/repo')
    for case in payload['cases']:
        r = dict(id=case['id'])
        try:
            rng = random.Random(case['seed'])
            spec = case['spec']
            m0 = gen.build(dict(spec, sources=[], loads=[]))
            n = len(m0.pulses)
            gen.add_sources(rng, spec, n, nsrc=1)
            tags = [int(g.tag) for g in m0.geo]
            # one load covering all pulses of several (not all) objects, one on everything, one on single pulses
            spec['loads'] = []
            if len(tags) >= 3:
                sub = rng.sample(tags, rng.randint(2, len(tags) - 1))
                spec['loads'].append(dict(kind='imp', z=[10.0, -20.0], attach=[[None, t] for t in sub]))
            spec['loads'].append(dict(kind='rlc', rlc=[1.0, 1e-6, None], attach=[[rng.randrange(n)], [rng.randrange(n)]]))
            r['spec'] = spec
            argv = _spec_argv(spec, ['--theta=0,45,3', '--phi=0,90,2'])
            outs = []
            for k in range(payload.get('repeats', 4)):
                with tempfile.TemporaryDirectory() as td:
                    of = os.path.join(td, 'opt.txt')
                    code = 'import sys\nfrom mininec.mininec import main\nsys.exit(main(%r) or 0)' % (argv + ['--output-cmdline=' + of],)
                    env = dict(os.environ, PYTHONPATH=repo)
                    env.pop('PYTHONHASHSEED', None)
                    p = subprocess.run([sys.executable, '-c', code], capture_output=True, env=env, timeout=300)
                    opt = open(of, 'rb').read() if os.path.exists(of) else b''
                    outs.append((p.returncode, hashlib.sha256(p.stdout).hexdigest(), hashlib.sha256(opt).hexdigest(), opt.decode(errors='replace')))
            bad = []
            if len(set(o[1] for o in outs)) > 1:
                bad.append('%d different reports in %d runs of one command line' % (len(set(o[1] for o in outs)), len(outs)))
            if len(set(o[2] for o in outs)) > 1:
                bad.append('%d different option files in %d runs of one command line' % (len(set(o[2] for o in outs)), len(outs)))
            r['bad'] = bad; r['rc'] = [o[0] for o in outs]; r['nobj'] = len(tags)
        except Exception as e:
            r['error'] = exc_info(e)
        out.append(r)
    return dict(results=out)
