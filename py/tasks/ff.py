"""Stage `ff` (C10, C11, C01, C03): far field of the real code with the
pulse-level facts the model needs."""
import random, copy, math
import numpy as np
import gen
from .common import hx, hxc, exc_info

def pulse_facts(p):
    return dict(point=[hx(v) for v in p.point],
                len=[hx(s.seg_len) for s in p.segs],
                dir=[[hx(v) for v in s.dirvec] for s in p.segs],
                sgn=[hx(v) for v in p.sign],
                gnd=[bool(g) for g in p.ground])

def env_facts(m):
    d = dict(ground=m.media is not None, real=bool(m.media) and not m.media[0].is_ideal,
             circ=getattr(m, 'boundary', 'linear') != 'linear', nr=0.0.hex(), rr=0.0.hex(), media=[])
    if m.media:
        d['nr'] = hx(m.media[0].nradials); d['rr'] = hx(m.media[0].radius)
        for md in m.media:
            d['media'].append(dict(ideal=bool(md.is_ideal), perm=hx(md.permittivity), cond=hx(md.conductivity),
                                   coord=hx(md.coord), height=hx(md.height)))
    return d

def far(m, zen, azi, pwr=None, dist=0):
    from mininec.mininec import Angle
    d = {}
    if pwr is not None: d['pwr'] = pwr
    if dist: d['dist'] = dist
    m.compute_far_field(Angle(*zen), Angle(*azi), **d)
    ff = m.far_field
    rows = []
    for a in range(azi[2]):
        for z in range(zen[2]):
            rows.append(dict(zen=hx(ff.zen[a][z]), azi=hx(ff.azi[a][z]),
                             eth=hxc(ff.e_theta[a][z]), eph=hxc(ff.e_phi[a][z]),
                             gain=[hx(v) for v in ff.gain[z][a]]))
    return rows

def gen_angles(rng, ground):
    zmax = 89.0 if ground else 180.0
    nz, na = rng.randint(2, 4), rng.randint(1, 3)
    z0 = rng.choice([0.0, rng.uniform(0, 30)]); dz = rng.uniform(5, (zmax - z0) / nz)
    a0 = rng.choice([0.0, rng.uniform(-180, 360)]); da = rng.uniform(10, 120)
    return [z0, dz, nz], [a0, da, na]

def run(payload):
    out = []
    for case in payload['cases']:
        r = dict(id=case['id'])
        try:
            rng = random.Random(case['seed'])
            spec = case['spec']
            m0 = gen.build(dict(spec, sources=[], loads=[]))
            n = len(m0.pulses)
            gnd = [i for i, p in enumerate(m0.pulses) if p.ground.any()]
            gen.add_sources(rng, spec, n, grounded=gnd)
            gen.add_lumped_loads(rng, spec, n, nload=rng.choice([0, 0, 1]))
            r['spec'] = spec
            m = gen.build(spec)
            m.compute()
            zen, azi = gen_angles(rng, spec['media'] is not None)
            pwr = rng.choice([None, None, 100.0, 10 ** rng.uniform(-2, 3)])
            dist = rng.choice([0, 0, 1000.0, 10 ** rng.uniform(0, 5)])
            if rng.random() < 0.5:
                # an earlier request with other angles of the same counts on the same object
                far(m, [zen[0] + 7.0, zen[1] * 0.5, zen[2]], [azi[0] + 11.0, azi[1], azi[2]], None, 0)
            rows = far(m, zen, azi, pwr, dist)
            r['obs'] = dict(w=hx(m.w), f=hx(m.f), power=hx(m.power), ff_power=hx(m.ff_power), dist=hx(dist),
                            pulses=[pulse_facts(p) for p in m.pulses], cur=[hxc(v) for v in m.current],
                            env=env_facts(m), zen=zen, azi=azi, rows=rows)
        except Exception as e:
            r['error'] = exc_info(e)
        out.append(r)
    return dict(results=out)

# ------------------------------------------------------------------ oracles
def _mx(a):
    a = np.asarray(a)
    return float(a.max()) if a.size else 0.0

def _rad_sum(m, th, ph, exact=False):
    """Independent radiation sum from pulse geometry and m.current.
    Returns (E_theta, E_phi) un-normalised (as h12/x34 before /dist)."""
    k0 = 2 * math.pi / (299.8 / m.f)
    g0 = 29.979221
    st, ct, sp, cp = math.sin(th), math.cos(th), math.sin(ph), math.cos(ph)
    rh = np.array([st * cp, st * sp, ct]); tht = np.array([ct * cp, ct * sp, -st]); pht = np.array([-sp, cp, 0.0])
    S = np.zeros(3, dtype=complex)
    ground = m.media is not None
    for p, I in zip(m.pulses, m.current):
        pt = np.array(p.point, dtype=float)
        for h in (0, 1):
            if p.ground[h]:
                continue            # image half: represented by the mirror element below
            seg = p.segs[h]
            d = np.array(seg.dirvec, dtype=float) * p.dir_sgn[h]
            L = seg.seg_len / 2
            # the half extends from the pulse point towards -d (h=0) or +d (h=1)
            u = -d if h == 0 else d
            elems = [(pt, d, u)]
            if ground:
                mir = np.array([1, 1, -1.0])
                elems.append((pt * mir, d * np.array([-1, -1, 1.0]), u * mir))     # the image current flips, the image path mirrors
            for (q, dv, uv) in elems:
                if exact:
                    a = k0 * np.dot(uv, rh)
                    # int_0^L exp(j k0 (q + t u).rh) dt
                    if abs(a) < 1e-12:
                        integ = L
                    else:
                        integ = (np.exp(1j * a * L) - 1) / (1j * a)
                    S += dv * I * k0 * np.exp(1j * k0 * np.dot(q, rh)) * integ
                else:
                    S += dv * I * k0 * L * np.exp(1j * k0 * np.dot(q, rh))
    return -1j * g0 * np.dot(S, tht), -1j * g0 * np.dot(S, pht)

def _setup(case):
    rng = random.Random(case['seed'])
    spec = case['spec']
    if case.get('fixed_sources'):
        m = gen.build(spec); m.compute()
        return rng, spec, m
    m0 = gen.build(dict(spec, sources=[], loads=[]))
    n = len(m0.pulses)
    gnd = [i for i, p in enumerate(m0.pulses) if p.ground.any()]
    gen.add_sources(rng, spec, n, grounded=gnd)
    gen.add_lumped_loads(rng, spec, n, nload=rng.choice([0, 0, 1, 2]))
    m = gen.build(spec); m.compute()
    return rng, spec, m

def c10_oracle(payload):
    from mininec.mininec import Angle
    out = []
    for case in payload['cases']:
        r = dict(id=case['id'])
        try:
            rng, spec, m = _setup(case)
            r['spec'] = spec
            bad = []
            ground = spec['media'] is not None
            zmax = 89.0 if ground else 180.0
            zen = [0.0, zmax / 6, 7]; azi = [rng.uniform(0, 90), 67.0, 5]
            m.compute_far_field(Angle(*zen), Angle(*azi))
            ff = m.far_field
            et = np.array(ff.e_theta); ep = np.array(ff.e_phi); gain = np.array(ff.gain)
            emax = max(np.abs(et).max(), np.abs(ep).max())
            # the input power the gain refers to, from the voltages and currents themselves (not the program's own sum)
            P_in = sum(0.5 * (complex(s_.voltage) * np.conj(m.current[s_.idx])).real for s_ in m.sources)
            if abs(m.power - P_in) > 1e-9 * sum(0.5 * abs(s_.voltage) * abs(m.current[s_.idx]) for s_ in m.sources):
                bad.append('input power used for the gain %r is not sum Re(V I*)/2 = %r' % (m.power, P_in))
            maxseg = max(s.seg_len for p in m.pulses for s in p.segs)
            lam = 299.8 / m.f
            for a in range(azi[2]):
                for z in range(zen[2]):
                    th = math.radians(zen[0] + z * zen[1]); ph = math.radians(azi[0] + a * azi[1])
                    st_, sp_ = _rad_sum(m, th, ph)
                    if abs(et[a][z] - st_) > 1e-4 * emax or abs(ep[a][z] - sp_) > 1e-4 * emax:
                        bad.append('far field at (%.4g, %.4g) deg is (%r, %r), radiation sum of the currents (%r, %r)' % (
                            math.degrees(th), math.degrees(ph), et[a][z], ep[a][z], st_, sp_)); break
                    if maxseg <= lam / 18:
                        xt, xp = _rad_sum(m, th, ph, exact=True)
                        if abs(et[a][z] - xt) > 2e-2 * emax or abs(ep[a][z] - xp) > 2e-2 * emax:
                            bad.append('far field deviates more than 2 %% from the exact half-segment integral at (%.4g, %.4g)' % (math.degrees(th), math.degrees(ph))); break
                    # dBi table: each polarisation and total, from the un-normalised field
                    for j, v in enumerate((abs(et[a][z]) ** 2, abs(ep[a][z]) ** 2, abs(et[a][z]) ** 2 + abs(ep[a][z]) ** 2)):
                        lin = v / (59.96 * P_in) if P_in > 0 else 0.0
                        if lin > 1e-12 and abs(gain[z][a][j] - 10 * math.log10(lin)) > 2e-3:
                            bad.append('gain[%d] at (%.4g, %.4g) is %.6f dBi, |E|^2/(59.96 P) gives %.6f' % (j, math.degrees(th), math.degrees(ph), gain[z][a][j], 10 * math.log10(lin))); break
                if bad: break
            # zenith: total gain the same for every azimuth
            tz = gain[0, :, 2]
            if zen[0] == 0 and tz.max() > -100 and tz.max() - tz.min() > 1e-6:
                bad.append('total gain at the zenith varies with azimuth: %r' % list(tz))
            # V/m table versus dBi table, power and distance scaling
            P2 = 10 ** rng.uniform(-1, 3); dist = 10 ** rng.uniform(1, 4)
            m.compute_far_field(Angle(*zen), Angle(*azi), pwr=P2, dist=dist)
            f2 = m.far_field
            e2t = np.array(f2.e_theta); e2p = np.array(f2.e_phi); g2 = np.array(f2.gain)
            if np.abs(g2 - gain).max() > 1e-9:
                bad.append('dBi table changes when power level / distance are requested (max diff %.3g dB)' % np.abs(g2 - gain).max())
            for (ev, gj, nm) in ((e2t, 0, 'vertical'), (e2p, 1, 'horizontal')):
                lin = np.abs(ev) ** 2 * dist ** 2 / (59.96 * P2)
                gl = 10 ** (gain[:, :, gj].T / 10)
                mask = gl > 1e-9 * (10 ** (gain[:, :, 2].T / 10)).max()
                if mask.any() and np.abs(lin[mask] / gl[mask] - 1).max() > 5e-4:
                    bad.append('%s gain does not equal |E|^2 r^2 / (59.96 P) of the V/m table (ratio off by %.3g)' % (nm, np.abs(lin[mask] / gl[mask] - 1).max()))
            m.compute_far_field(Angle(*zen), Angle(*azi), pwr=4 * P2, dist=dist / 2)
            f3 = m.far_field
            for (a0, a1, nm) in ((e2t, np.array(f3.e_theta), 'E_theta'), (e2p, np.array(f3.e_phi), 'E_phi')):
                if np.abs(a1 - 4 * a0).max() > 1e-9 * max(np.abs(a0).max(), 1e-300) * 4:
                    bad.append('%s does not scale with sqrt(power)/distance (4x power, half distance should give 4x)' % nm)
            # 360 degree periodicity
            m.compute_far_field(Angle(zen[0], zen[1], zen[2]), Angle(azi[0] + 360, azi[1], azi[2]))
            g4 = np.array(m.far_field.gain)
            msk = gain > -150
            if msk.any() and _mx(np.abs(g4[msk] - gain[msk])) > 1e-6:
                bad.append('rows 360 degrees apart in azimuth differ by %.3g dB' % _mx(np.abs(g4[msk] - gain[msk])))
            # a sweep symmetric about azimuth 0 (phi and -phi have the same cosine) and one over a full turn: each row on its own
            a0 = rng.uniform(20, 75)
            for az5 in ([-a0, a0, 3], [a0, 360 - 2 * a0, 2], [rng.uniform(0, 80), 90.0, 5]):
                m.compute_far_field(Angle(*zen), Angle(*az5))
                e5t = np.array(m.far_field.e_theta); e5p = np.array(m.far_field.e_phi)
                for a in range(az5[2]):
                    for z in (2, 5):
                        th = math.radians(zen[0] + z * zen[1]); ph = math.radians(az5[0] + a * az5[1])
                        st_, sp_ = _rad_sum(m, th, ph)
                        if abs(e5t[a][z] - st_) > 1e-4 * emax or abs(e5p[a][z] - sp_) > 1e-4 * emax:
                            bad.append('far field at (%.4g, %.4g) deg in the azimuth sweep %r is (%r, %r), radiation sum of the currents (%r, %r)' % (
                                math.degrees(th), math.degrees(ph), az5, e5t[a][z], e5p[a][z], st_, sp_)); break
            def _asym(p):
                a, b = p.segs[0], p.segs[1]
                if p.ground.any():
                    return abs(a.dirvec[0]) > 1e-9 or abs(a.dirvec[1]) > 1e-9
                if np.linalg.norm(np.cross(a.dirvec, b.dirvec)) > math.sin(math.radians(5.0)): return True
                return max(a.seg_len, b.seg_len) > 1.2 * min(a.seg_len, b.seg_len)
            r['features'] = dict(asymmetric_pulse=bool(any(_asym(p) for p in m.pulses)))
            r['bad'] = bad
        except Exception as e:
            r['error'] = exc_info(e)
        out.append(r)
    return dict(results=out)

def c11_oracle(payload):
    from mininec.mininec import Angle
    out = []
    for case in payload['cases']:
        r = dict(id=case['id'])
        try:
            rng = random.Random(case['seed'])
            spec = case['spec']          # generated with ground='real'
            m0 = gen.build(dict(spec, sources=[], loads=[]))
            n = len(m0.pulses)
            gnd = [i for i, p in enumerate(m0.pulses) if p.ground.any()]
            gen.add_sources(rng, spec, n, grounded=gnd)
            on = None
            if gnd and rng.random() < 0.6:
                on = [gnd[0]]
            gen.add_lumped_loads(rng, spec, n, nload=rng.choice([0, 1, 2]), on=on)
            r['spec'] = spec
            bad = []
            m = gen.build(spec); m.compute()
            si = copy.deepcopy(spec); si['media'] = []
            mi = gen.build(si); mi.compute()
            if np.abs(np.array(m.Z) - np.array(mi.Z)).max() > 0:
                bad.append('impedance matrix over real ground differs from ideal ground')
            if np.abs(np.array(m.current) - np.array(mi.current)).max() > 1e-12 * np.abs(mi.current).max():
                bad.append('currents over real ground differ from ideal ground (max rel %.3g)' % (np.abs(np.array(m.current) - np.array(mi.current)).max() / np.abs(mi.current).max()))
            for a, b in zip(m.sources, mi.sources):
                if abs(a.impedance - b.impedance) > 1e-12 * abs(b.impedance):
                    bad.append('feed impedance over real ground %r differs from ideal ground %r' % (a.impedance, b.impedance))
            zen = [5.0, 14.0, 6]; azi = [rng.uniform(0, 360), 73.0, 4]
            def pattern(sp):
                mm = gen.build(sp); mm.compute(); mm.compute_far_field(Angle(*zen), Angle(*azi))
                return np.array(mm.far_field.gain)
            g = pattern(spec)
            # the pattern of a request does not depend on the requests made before it on the same object
            mm = gen.build(spec); mm.compute()
            mm.compute_far_field(Angle(zen[0] + 30.0, 8.0, zen[2]), Angle(*azi))
            mm.compute_far_field(Angle(*zen), Angle(azi[0] + 40.0, azi[1], azi[2]))
            mm.compute_far_field(Angle(*zen), Angle(*azi))
            gh = np.array(mm.far_field.gain)
            if _mx(np.abs(gh[g > -100] - g[g > -100])) > 1e-9:
                bad.append('far field after other far-field requests on the same object differs from the first request of a fresh object by %.3g dB'
                           % _mx(np.abs(gh[g > -100] - g[g > -100])))
            # split a medium into two adjacent pieces (no radials)
            med = spec['media']
            if True:
                lam_ = 299.8 / spec['f']
                # (a radial screen lies in the first medium only: with radials the media behind it are split)
                ks = [k_ for k_ in range(len(med)) if not (med[0].get('nradials') and k_ == 0)]
                for k in ((ks if case.get('fixed_sources') else [rng.choice(ks)]) if ks else []):
                    s2 = copy.deepcopy(spec)
                    piece = copy.deepcopy(med[k])
                    lo = med[k - 1]['coord'] if k > 0 else 0.0
                    hi = med[k]['coord'] if med[k].get('coord') is not None else lo + rng.choice([1e6, 0.5 * lam_])
                    piece['coord'] = lo + (hi - lo) * rng.uniform(0.1, 0.9)
                    s2['media'].insert(k, piece)
                    if k == 0 and len(s2['media']) > 1:
                        s2['media'][1]['height'] = med[0].get('height', 0.0)
                        s2['media'][0]['height'] = 0.0
                    g2 = pattern(s2)
                    msk = g > -100
                    if _mx(np.abs(g2[msk] - g[msk])) > 1e-6:
                        bad.append('splitting medium %d changes the pattern by %.3g dB' % (k, _mx(np.abs(g2[msk] - g[msk]))))
            # a further medium beyond every reflection point: the boundary is put just
            # outside the largest TRUE specular distance (computed here from geometry),
            # for a linear and for a circular boundary
            def true_b9(circ):
                best = -1e30
                for p in m.pulses:
                    x, y, z = [float(v) for v in p.point]
                    for a in range(azi[2]):
                        phd = math.radians(azi[0] + a * azi[1])
                        for zz in range(zen[2]):
                            thd = math.radians(zen[0] + zz * zen[1])
                            t4 = z * math.tan(thd)
                            bx, by = x + t4 * math.cos(phd), y + t4 * math.sin(phd)
                            best = max(best, math.hypot(bx, by) if circ else bx)
                return best
            for circ in (False, True):
                base = copy.deepcopy(spec)
                m1 = dict(med[0]); m1['coord'] = None; m1['boundary'] = 'circular' if circ else 'linear'
                m1.pop('nradials', None); m1.pop('radius', None); m1['height'] = 0.0
                base['media'] = [m1]
                gb = pattern(base)
                s3 = copy.deepcopy(base)
                rmax = true_b9(circ)
                s3['media'][0]['coord'] = rmax * (1.02 if rmax > 0 else 0.98) + 1e-3
                s3['media'].append(dict(perm=rng.choice([1.5, 80.0]), cond=rng.choice([1e-4, 5.0]), height=0.0,
                                        coord=None, boundary=m1['boundary']))
                g3 = pattern(s3)
                msk = gb > -100
                if _mx(np.abs(g3[msk] - gb[msk])) > 1e-6:
                    bad.append('a further medium (%s boundary at %.6g m, beyond every reflection point <= %.6g m) changes the pattern by %.3g dB'
                               % (m1['boundary'], s3['media'][0]['coord'], rmax, _mx(np.abs(g3[msk] - gb[msk]))))
            # conductivity ladder towards the ideal-ground pattern (single medium, height 0, no radials)
            s4 = copy.deepcopy(spec); s4['media'] = [dict(perm=med[0]['perm'], cond=1.0, height=0.0, coord=None)]
            gi = pattern(si)
            prev = None
            mlad = gen.build(s4); mlad.compute()
            for cond in (1e2, 1e5, 1e8, 1e12):
                s4['media'][0]['cond'] = cond
                gc = pattern(s4)
                # the same study on ONE solved object whose ground constants are changed in place
                mlad.media[0].conductivity = cond
                mlad.compute_far_field(Angle(*zen), Angle(*azi)); gl = np.array(mlad.far_field.gain)
                if _mx(np.abs(gl[gc > -100] - gc[gc > -100])) > 1e-9:
                    bad.append('far field after changing the conductivity of the ground of a solved object to %g differs from a fresh object by %.3g dB'
                               % (cond, _mx(np.abs(gl[gc > -100] - gc[gc > -100]))))
                msk = gi > gi.max() - 40
                dev = _mx(np.abs(gc[msk] - gi[msk]))
                if prev is not None and dev > prev * 1.01 + 1e-9:
                    bad.append('pattern moves away from the ideal-ground pattern as conductivity grows (%.3g -> %.3g dB at sigma=%g)' % (prev, dev, cond))
                prev = dev
            if prev > 1e-2:
                bad.append('pattern at sigma = 1e12 still differs from ideal ground by %.3g dB' % prev)
            r['bad'] = bad
        except Exception as e:
            r['error'] = exc_info(e)
        out.append(r)
    return dict(results=out)

def _in_domain(m, spec):
    """thin-wire modelling rules of C01 that the generator does not guarantee"""
    lam = 299.8 / m.f
    segs = [(s, g) for g in m.geo for s in g.segments]
    for s, g in segs:
        if not (lam / 200 <= s.seg_len <= lam / 10) or s.seg_len < 8 * g.r:
            return False
    # wires that are not joined at least two segment lengths apart
    geos = list(m.geo)
    for i, a in enumerate(geos):
        for b in geos[i + 1:]:
            if a.is_connected(b):
                continue
            sl = max(a.segments[0].seg_len, b.segments[0].seg_len)
            pa = np.array([s.p1 for s in a.segments] + [a.segments[-1].p2])
            pb = np.array([s.p1 for s in b.segments] + [b.segments[-1].p2])
            d = np.sqrt(((pa[:, None, :] - pb[None, :, :]) ** 2).sum(axis=2)).min()
            if d < 2 * sl:
                return False
    if m.media is not None:
        for g in geos:
            for k in (0, 1):
                if g.is_ground[k]:
                    s = g.segments[0] if k == 0 else g.segments[-1]
                    if abs(s.dirvec[2]) < math.sin(math.radians(20)):
                        return False
            zs = [s.p1[2] for s in g.segments] + [g.segments[-1].p2[2]]
            if not any(g.is_ground) and min(zs) < g.segments[0].seg_len:
                return False
    return True

def _misapplied_exact(m):
    """The code switches to the exact (on-axis) kernel when observer and source objects are connected and
    (d0 + d3) / seg_len <= 1.1, d0 / d3 the distances of the observation point from the two ends of the source
    piece.  That is meant to recognise an observer ON the source segment; at a junction of wires with unequal
    segment lengths it also holds for observers on the OTHER wire (the shorter its segment, the wider the angle).
    Returns True when some observation point that is not collinear with the source piece passes that test:
    scalar potential: observers are the half-segment ends m +- 1/2, sources the full segments n .. n +- 1;
    vector potential: observers are the pulse points, sources the half segments n .. n +- 1/2."""
    def off_axis(o, a, b, L):
        d0 = np.linalg.norm(a - o); d3 = np.linalg.norm(b - o)
        if (d0 + d3) / L <= 1.1:
            cr = np.linalg.norm(np.cross(a - o, b - o))
            if cr > 1e-6 * L * L and cr / (max(d0, 1e-300) * max(d3, 1e-300)) > math.sin(math.radians(1.0)):
                return True
        return False
    for pn in m.pulses:
        for hn in (0, 1):
            a = np.array(pn.point, dtype=float); b = np.array(pn.ends[hn], dtype=float)
            L = float(np.linalg.norm(b - a))
            if L == 0: continue
            for pm in m.pulses:
                if pm is pn: continue
                if not (pm.geobj is pn.geobj or pm.geobj.is_connected(pn.geobj)): continue
                for hm in (0, 1):
                    o = (np.array(pm.point, dtype=float) + np.array(pm.ends[hm], dtype=float)) / 2
                    if off_axis(o, a, b, L): return True
                if off_axis(np.array(pm.point, dtype=float), a, (a + b) / 2, L): return True
    return False

def c01_oracle(payload):
    from mininec.mininec import Angle
    from numpy.polynomial.legendre import leggauss
    out = []
    for case in payload['cases']:
        r = dict(id=case['id'])
        try:
            rng, spec, m = _setup(case)
            r['spec'] = spec
            if not _in_domain(m, spec) or np.linalg.cond(m.Z) > 1e6:
                r['skipped'] = True
                out.append(r); continue
            ground = spec['media'] is not None
            real = bool(spec['media'])
            # Gauss-Legendre in cos(theta), uniform in phi
            nt, nphi = 40, 72
            x, wts = leggauss(nt)
            if ground:
                mu = (x + 1) / 2; wts = wts / 2      # cos(theta) in (0, 1)
            else:
                mu = x
            th = np.degrees(np.arccos(mu))
            tot = 0.0
            for t, wq in zip(th, wts):
                m.compute_far_field(Angle(float(t), 0, 1), Angle(0, 360.0 / nphi, nphi))
                g = np.array(m.far_field.gain)[0, :, 2]
                tot += wq * (10 ** (g / 10)).sum() * (2 * math.pi / nphi)
            p_rad = tot / (4 * math.pi) * m.power
            p_src = sum(0.5 * (s.voltage * np.conj(m.current[s.idx])).real for s in m.sources)
            p_app = sum(0.5 * abs(s.voltage) * abs(m.current[s.idx]) for s in m.sources)
            p_load = 0.0
            for l in m.loads:
                for p in l.pulses:
                    p_load += 0.5 * l.impedance(m.f, p).real * abs(m.current[p.idx]) ** 2
            imb = (p_rad + p_load - p_src) / p_app
            r['imbalance'] = imb; r['real_ground'] = real
            rstep = any(max(s.geobj.r for s in p.segs) >= 2 * min(s.geobj.r for s in p.segs) for p in m.pulses if p.geo[0] is not p.geo[1])
            hstep = bool(m.media) and len(m.media) > 1 and any(abs(g.height) > 0 for g in m.media)
            r['features'] = dict(exact_kernel_applied_off_axis=_misapplied_exact(m), radius_step_at_junction=bool(rstep), media_height_step=bool(hstep))
            bad = []
            if abs(m.power - p_src) > 1e-12 * p_app:
                bad.append('power used for normalisation %r is not sum Re(V I*)/2 = %r' % (m.power, p_src))
            if real:
                if imb > 0.015:
                    bad.append('over real ground radiated + dissipated power exceeds the delivered power by %.2f %% of the apparent power' % (100 * imb))
            elif abs(imb) > 0.015:
                bad.append('power balance off by %.2f %% of the apparent source power (P_src %.6g, P_rad %.6g, P_load %.6g)' % (100 * imb, p_src, p_rad, p_load))
            # the gain refers to the delivered power whatever power level is requested for the V/m table of the same request
            zq_, aq_ = Angle(20.0, 25.0, 3), Angle(15.0, 100.0, 3)
            m.compute_far_field(zq_, aq_); ga_ = np.array(m.far_field.gain)
            m.compute_far_field(zq_, aq_, pwr=10 ** rng.uniform(-2, 3), dist=10 ** rng.uniform(0, 4)); gb_ = np.array(m.far_field.gain)
            if np.abs(ga_ - gb_)[ga_ > -150].max(initial=0.0) > 1e-9:
                bad.append('power balance off when a power level is requested: the gain table moves by %.4g dB, the pattern integral with it' % np.abs(ga_ - gb_)[ga_ > -150].max())
            # the same antenna solved again on the same object (e.g. after a field request): the same powers must come out
            i1 = np.array(m.current).copy(); m.compute(); i2 = np.array(m.current)
            p_src2 = sum(0.5 * (s.voltage * np.conj(m.current[s.idx])).real for s in m.sources)
            p_load2 = sum(0.5 * l.impedance(m.f, p).real * abs(m.current[p.idx]) ** 2 for l in m.loads for p in l.pulses)
            if abs(p_src2 - p_src) > 1e-9 * p_app or abs(p_load2 - p_load) > 1e-9 * p_app:
                bad.append('power balance off after solving the same antenna again on the same object: delivered %.6g -> %.6g, dissipated %.6g -> %.6g, '
                           'pattern integral %.6g' % (p_src, p_src2, p_load, p_load2, p_rad))
            r['bad'] = bad
        except Exception as e:
            r['error'] = exc_info(e)
        out.append(r)
    return dict(results=out)
