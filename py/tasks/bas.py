"""C18: generated BASIC-MININEC input, read back by an independent prompt
automaton (transcribed from the prompt comments of as_basic_input and the
.mini files), compared with the model it was written for."""
import io, math, random, re, json, types
import numpy as np
from .common import hx, exc_info
from . import cmd as gencmd

class ReadError(Exception):
    pass

def basic_read(text, version):
    """answers -> description, consuming the lines in prompt order"""
    L = text.split('\n'); pos = [0]
    def nxt(what):
        if pos[0] >= len(L): raise ReadError('input ends at prompt %s' % what)
        s = L[pos[0]].strip(); pos[0] += 1
        return s
    def nums(what, n=None):
        s = nxt(what)
        try:
            v = [float(x) for x in s.split(',')]
        except ValueError:
            raise ReadError('prompt %s answered with %r' % (what, s))
        if n is not None and len(v) != n: raise ReadError('prompt %s needs %d numbers, got %r' % (what, n, s))
        return v
    def word(what, allowed):
        s = nxt(what)
        if s not in allowed: raise ReadError('prompt %s answered with %r' % (what, s))
        return s
    d = {}
    word('OUTPUT TO CONSOLE, PRINTER, OR DISK', ('D',)); d['file'] = nxt('FILENAME')
    d['f'] = nums('FREQUENCY', 1)[0]
    env = word('ENVIRONMENT', ('+1', '-1'))
    d['media'] = None
    if env == '-1':
        nm = int(nums('NUMBER OF MEDIA', 1)[0]); d['media'] = []
        bnd = None
        for k in range(nm):
            md = {}
            if k == 0 and nm > 1:
                bnd = word('TYPE OF BOUNDARY', ('1', '2'))
            md['boundary'] = {'1': 'linear', '2': 'circular', None: 'linear'}[bnd]
            md['perm'], md['cond'] = nums('RELATIVE DIELECTRIC CONSTANT, CONDUCTIVITY', 2)
            if k > 0:
                md['height'] = nums('HEIGHT OF MEDIA', 1)[0]
            elif nm > 1 and bnd == '2':
                md['nradials'] = int(nums('NUMBER OF RADIAL WIRES', 1)[0])
                if md['nradials']: md['radius'] = nums('RADIUS OF RADIAL WIRES', 1)[0]
            if k < nm - 1:
                md['coord'] = nums('X OR R COORDINATE OF NEXT MEDIA INTERFACE', 1)[0]
            d['media'].append(md)
    nw = int(nums('NO. OF WIRES', 1)[0]); d['wires'] = []
    for k in range(nw):
        w = {}
        w['nseg'] = int(nums('NO. OF SEGMENTS', 1)[0])
        w['p1'] = nums('END ONE COORDINATES', 3); w['p2'] = nums('END TWO COORDINATES', 3); w['r'] = nums('RADIUS', 1)[0]
        word('CHANGE WIRE NO.', ('N',)); d['wires'].append(w)
    word('CHANGE GEOMETRY', ('N',))
    ns = int(nums('NO. OF SOURCES', 1)[0]); d['sources'] = []
    for k in range(ns):
        p, mag, ph = nums('PULSE NO., VOLTAGE MAGNITUDE, PHASE (DEGREES)', 3)
        d['sources'].append(dict(pulse=int(p) - 1, mag=mag, phase=ph))
    nl = int(nums('NUMBER OF LOADS', 1)[0]); d['loads'] = []; d['s_loads'] = []
    if nl:
        yn = word('S-PARAMETER (S=jw) IMPEDANCE LOAD', ('Y', 'N'))
        for k in range(nl):
            if yn == 'N':
                p, rr, xx = nums('PULSE NO.,RESISTANCE,REACTANCE', 3)
                d['loads'].append(dict(pulse=int(p) - 1, z=complex(rr, xx)))
            else:
                p, order = nums('PULSE NO., ORDER OF S-PARAMETER FUNCTION', 2)
                co = [nums('NUMERATOR, DENOMINATOR COEFFICIENTS', 2) for _ in range(int(order) + 1)]
                fac = [10.0 ** (6 * j) if version == '9' else 1.0 for j in range(int(order) + 1)]
                d['s_loads'].append(dict(pulse=int(p) - 1, b=[c[0] / f for c, f in zip(co, fac)], a=[c[1] / f for c, f in zip(co, fac)]))
    word('C - COMPUTE/DISPLAY CURRENTS', ('C',)); word('SAVE CURRENTS TO A FILE', ('N',))
    s = nxt('command')
    if s == 'P':
        ff = {}
        ff['unit'] = word('CALCULATE PATTERN IN DBI OR VOLTS/METER', ('D', 'V'))
        if ff['unit'] == 'V':
            if word('CHANGE POWER LEVEL', ('Y', 'N')) == 'Y':
                ff['power'] = nums('NEW POWER LEVEL', 1)[0]; word('CHANGE POWER LEVEL', ('N',))
            ff['dist'] = nums('RADIAL DISTANCE', 1)[0]
        ff['zen'] = nums('ZENITH ANGLE', 3); ff['azi'] = nums('AZIMUTH ANGLE', 3)
        if word('FILE PATTERN', ('Y', 'N')) == 'Y': ff['file'] = nxt('FILENAME')
        d['ff'] = ff
        s = nxt('command')
    d['nf'] = []
    while s == 'N':
        nf = {}
        nf['field'] = word('ELECTRIC OR MAGNETIC NEAR FIELDS', ('E', 'H'))
        nf['axes'] = [nums('%s-COORDINATE (M): INITIAL,INCREMENT,NUMBER' % ax, 3) for ax in 'XYZ']
        if word('CHANGE POWER LEVEL', ('Y', 'N')) == 'Y':
            nf['power'] = nums('NEW POWER LEVEL', 1)[0]; word('CHANGE POWER LEVEL', ('N',))
        word('SAVE TO A FILE', ('N',))
        d['nf'].append(nf)
        s = nxt('command')
    if s != 'Q': raise ReadError('command prompt answered with %r' % s)
    if pos[0] != len(L): raise ReadError('%d lines after Q' % (len(L) - pos[0]))
    return d

def basic_pulses(d):
    """pulse points in BASIC numbering; wire ends are connected when their coordinates are EQUAL as numbers
    (BASIC compares the typed coordinates) or lie on the ground plane"""
    ground = d['media'] is not None
    pts = []; ends = []
    for w in d['wires']:
        p1 = np.array(w['p1']); p2 = np.array(w['p2']); n = w['nseg']
        def connected(p):
            if ground and p[2] == 0: return True
            return any((p == e).all() for e in ends)
        if connected(p1): pts.append(p1)
        for k in range(1, n): pts.append(p1 + (p2 - p1) * k / n)
        if connected(p2): pts.append(p2)
        ends += [p1, p2]
    return pts

def rebuild(d):
    from mininec import mininec as M
    geo = [M.Wire(w['nseg'], *w['p1'], *w['p2'], w['r']) for w in d['wires']]
    media = None
    if d['media'] is not None:
        media = [M.Medium(0, 0)] if not d['media'] else []
        for md in d['media']:
            kw = dict(boundary=md['boundary'])
            if 'coord' in md: kw['coord'] = md['coord']
            if md.get('nradials'): kw['nradials'] = md['nradials']; kw['radius'] = md['radius']
            media.append(M.Medium(md['perm'], md['cond'], md.get('height', 0), **kw))
    m = M.Mininec(d['f'], geo, media=media)
    for s in d['sources']:
        v = s['mag'] * complex(math.cos(math.radians(s['phase'])), math.sin(math.radians(s['phase'])))
        m.register_source(M.Excitation(v), s['pulse'])
    for l in d['loads']:
        m.register_load(M.Impedance_Load(l['z']), l['pulse'])
    for l in d['s_loads']:
        m.register_load(M.Laplace_Load(a=l['a'], b=l['b']), l['pulse'])
    return m

def _restrict_loads(argv, rng):
    """BASIC has either impedance loads or S-parameter loads: keep one family"""
    fam = rng.choice(['imp', 'lap'])
    lap = ('--rlc-load', '--trap-load', '--laplace-load')
    dist = ('--skin-effect', '--insulation-load')
    out = [a for a in argv if not a.startswith('--attach-load')]
    if fam == 'imp':
        out = [a for a in out if not a.startswith(lap)]
    else:
        out = [a for a in out if not (a.startswith('--load=') or a.startswith(dist))]
    return out, fam

def c18(payload):
    from mininec.mininec import main, Angle
    out = []
    for case in payload['cases']:
        r = dict(id=case['id'])
        try:
            rng = random.Random(case['seed'])
            try:
                argv = case.get('argv')
                if argv is None:
                    base = gencmd.gen_case(rng, main)
                    if base is None:
                        r['skipped'] = True; out.append(r); continue
                    argv, fam = _restrict_loads(base, rng)
                    if rng.random() < 0.5 and argv[0] == '-f':
                        # the BASIC input carries the frequency with 12 digits
                        argv[1] = repr(float('%.*g' % (rng.choice([7, 9, 10, 11]), rng.uniform(3, 30))))
                    # re-attach the remaining lumped loads
                    err = io.StringIO()
                    m0 = main([a for a in argv if not a.startswith(('--load=', '--rlc-load', '--trap-load', '--laplace-load'))], f_err=err, return_mininec=True)
                    npulse = len(m0.pulses)
                    nl = len([a for a in argv if a.startswith(('--load=', '--rlc-load', '--trap-load', '--laplace-load-a'))])
                    for k in range(nl):
                        for p in rng.sample(range(npulse), min(npulse, rng.choice([1, 1, 2]))):
                            argv.append('--attach-load=%d,%d' % (k + 1, p + 1))
                            if rng.random() < 0.2:
                                argv.append('--attach-load=%d,%d' % (k + 1, p + 1))      # the load twice on that pulse: two entries
                r['argv'] = argv
                err = io.StringIO()
                m = main(argv, f_err=err, return_mininec=True)
                if isinstance(m, int):
                    r['skipped'] = True; r['why'] = err.getvalue()[:100]; out.append(r); continue
            except Exception as e:
                r['skipped'] = True; r['why'] = 'raises ' + type(e).__name__; out.append(r); continue
            version = case.get('version') or rng.choice(['9', '12', '13'])
            args = types.SimpleNamespace(mininec_version=version)
            kw = {}
            if rng.random() < 0.5:
                kw.update(azi=Angle(0, 30, 3), zen=Angle(10, 20, 2))
                if rng.random() < 0.5:
                    kw.update(ff_abs=True, ff_dist=float('%g' % 10 ** rng.uniform(0, 4)))
                    if rng.random() < 0.5: kw.update(pwr_ff=float('%g' % 10 ** rng.uniform(-2, 3)))
            if rng.random() < 0.3:
                kw.update(near=[0.5, 1, 2, 0.1, 0.2, 0.3, 1, 2, 1])
                if rng.random() < 0.5: kw.update(pwr_nf=100.0)
            r['version'] = version; r['kw'] = {k: (str(v)) for k, v in kw.items()}
            bad = []
            m.compute()
            text = m.as_basic_input(args, **kw)
            r['text'] = text
            try:
                d = basic_read(text, version)
            except ReadError as e:
                bad.append('answers do not follow the prompts: %s' % e); d = None
            if d is not None:
                def close(a, b, rel=2e-6): return abs(a - b) <= rel * max(abs(a), abs(b)) + 1e-300
                if not close(d['f'], m.f, 1e-11): bad.append('frequency: %r, model %r' % (d['f'], m.f))
                # environment
                mm = m.media
                if (d['media'] is None) != (not mm): bad.append('environment: %r, model media %r' % (d['media'], mm))
                elif mm:
                    ideal = len(mm) == 1 and mm[0].is_ideal
                    if ideal != (d['media'] == []): bad.append('media: perfect ground %r, answers %r' % (ideal, d['media']))
                    elif not ideal:
                        if len(d['media']) != len(mm): bad.append('media: %d answered, model has %d' % (len(d['media']), len(mm)))
                        for k, (a, g) in enumerate(zip(d['media'], mm)):
                            if not (close(a['perm'], g.permittivity) and close(a['cond'], g.conductivity)): bad.append('medium %d: parameters %r, model %r' % (k + 1, (a['perm'], a['cond']), (g.permittivity, g.conductivity)))
                            if k > 0 and not close(a['height'], g.height): bad.append('medium %d: height %r, model %r' % (k + 1, a['height'], g.height))
                            if g.next and not close(a['coord'], g.coord): bad.append('medium %d: interface %r, model %r' % (k + 1, a.get('coord'), g.coord))
                            if k == 0 and len(mm) > 1 and a['boundary'] != g.boundary: bad.append('boundary: %r, model %r' % (a['boundary'], g.boundary))
                            if k == 0 and (a.get('nradials') or 0) != (g.nradials or 0): bad.append('radials: %r, model %r' % (a.get('nradials'), g.nradials))
                            if k == 0 and g.nradials and a.get('nradials') and not close(a['radius'], g.radius): bad.append('radial radius: %r, model %r' % (a.get('radius'), g.radius))
                # wires: segments and radii
                segs = [s for g in m.geo for s in g.segments]
                nw = sum(w['nseg'] for w in d['wires'])
                if nw != len(segs): bad.append('wires: %d segments answered, model has %d' % (nw, len(segs)))
                # pulses in BASIC numbering
                bp = basic_pulses(d)
                if len(bp) != len(m.pulses):
                    bad.append('pulse numbering: the answers give %d pulses (ends joined when their coordinates are equal), the model has %d' % (len(bp), len(m.pulses)))
                else:
                    # the model itself identifies points closer than 1e-3 of the shortest segment (end matching, snapping
                    # of wire ends to the ground plane): that is the resolution of "the same antenna"
                    tolp = 1.01e-3 * m.min_seglen
                    for k, (a, p) in enumerate(zip(bp, m.pulses)):
                        if np.abs(a - np.array(p.point)).max() > tolp:
                            bad.append('pulse numbering: pulse %d at %r, model %r' % (k + 1, list(a), list(p.point))); break
                # radius per wire
                gi = iter([(g, s) for g in m.geo for s in (g.segments if g.n_emulated_wires > 1 else [None])])
                for w, (g, s) in zip(d['wires'], gi):
                    if not close(w['r'], g.r, 1e-7): bad.append('wire radius %r, model %r' % (w['r'], g.r)); break
                # sources
                if len(d['sources']) != len(m.sources): bad.append('sources: %d answered, model has %d' % (len(d['sources']), len(m.sources)))
                for a, s in zip(d['sources'], m.sources):
                    v = a['mag'] * complex(math.cos(math.radians(a['phase'])), math.sin(math.radians(a['phase'])))
                    if a['pulse'] != s.idx: bad.append('source on pulse %d, model %d' % (a['pulse'] + 1, s.idx + 1))
                    if abs(v - s.voltage) > 1e-5 * abs(s.voltage): bad.append('source voltage: magnitude %r phase %r degrees = %r, model %r' % (a['mag'], a['phase'], v, s.voltage))
                # loads
                want = sorted([(p.idx, complex(l.impedance(m.f, p))) for l in m.loads for p in l.pulses], key=lambda t: (t[0], t[1].real, t[1].imag))
                got = sorted([(l['pulse'], l['z']) for l in d['loads']] +
                             [(l['pulse'], complex(np.polyval(l['b'][::-1], 2j * np.pi * m.f * 1e6) / np.polyval(l['a'][::-1], 2j * np.pi * m.f * 1e6))) for l in d['s_loads']],
                             key=lambda t: (t[0], t[1].real, t[1].imag))
                if len(want) != len(got) or any(a[0] != b[0] or abs(a[1] - b[1]) > 1e-4 * abs(a[1]) + 1e-9 for a, b in zip(want, got)):
                    bad.append('loads: answered %r, model %r' % (got[:6], want[:6]))
                # same feed impedance
                # (an arc, helix or tapered wire is ONE object for pymininec and a chain of one-segment wires for BASIC:
                #  the solver's description dependence at junctions is C06's subject, so impedances are compared
                #  only for models made of plain wires)
                emulated = any(g.n_emulated_wires > 1 for g in m.geo)
                if not bad and not emulated:
                    try:
                        m2 = rebuild(d); m2.compute()
                        if len(m2.pulses) != len(m.pulses):
                            bad.append('re-read model has %d pulses, the model %d' % (len(m2.pulses), len(m.pulses)))
                        else:
                            for s1, s2 in zip(m.sources, m2.sources):
                                # every load and radius is printed with 6 to 8 digits; a loaded, high-impedance feed amplifies that
                                if abs(s1.impedance - s2.impedance) > 1e-3 * abs(s1.impedance):
                                    bad.append('feed impedance of the re-read model %r, of the model %r' % (s2.impedance, s1.impedance))
                    except ValueError as e:
                        bad.append('the re-read answers are rejected: %s' % e)
            r['bad'] = bad
            mm = m.media
            if not mm: env = ['free']
            elif len(mm) == 1 and mm[0].is_ideal: env = ['perfect']
            else:
                circ = len(mm) > 1 and mm[0].boundary == 'circular'
                env = ['media', len(mm), circ, int(mm[0].nradials or 0) if circ else 0]
            from mininec.mininec import Impedance_Load, Skin_Effect_Load, Insulation_Load
            lsum = sum(len(l.pulses) for l in m.loads)
            is_s = any(not isinstance(l, (Impedance_Load, Skin_Effect_Load, Insulation_Load)) for l in m.loads)
            lo = ['none'] if lsum == 0 else (['s', [int(l.degree) for l in m.loads for p in l.pulses]] if is_s else ['imp', lsum])
            ffs = None
            if 'azi' in kw:
                ffs = ['abs', kw.get('pwr_ff') is not None, False] if kw.get('ff_abs') else ['db', False]
            r['shape'] = dict(env=env, wires=sum(g.n_emulated_wires for g in m.geo), sources=len(m.sources), loads=lo, ff=ffs,
                              nf=(None if 'near' not in kw else (kw.get('pwr_nf') is not None)))
            r['insulated_exact_kernel'] = bool(any(g.coat_load and g.r > m.srm for g in m.geo))
            r['features'] = dict(version=version, objects=len(m.geo), emulated=sum(g.n_emulated_wires for g in m.geo), media=len(m.media or []),
                                 loads=len(m.loads), sources=len(m.sources), ff='azi' in kw, nf='near' in kw)
        except NotImplementedError as e:
            r['skipped'] = True; r['why'] = 'NotImplementedError'
        except Exception as e:
            r['error'] = exc_info(e)
        out.append(r)
    return dict(results=out)
