#!/usr/bin/env python3
"""Fail-closed translator of the EXCEPTION FLOW of mininec.main (C20).

Reads /repo/mininec/mininec.py with ast and writes coq/Gen/MainFlow.v: the list
`main_sites` of every place in main (after argument parsing) where an
operation that can raise is performed, in program order, each with
  * its source line,
  * the primitive performed there (constructor of Model/Main.v's `prim`), and
  * the exception kinds that the try statements around it turn into the
    one-line diagnostic (handlers whose body is `print (...); return 23`),
    with `except Exception` as a catch-all flag.
What each primitive can raise is Model/Main.v's `prim_raises` (transcribed
knowledge about Python / pymininec operations); that no admissible exception
at any site escapes is proved from the generated list (Proofs/MainFlowP.v).

Fail closed: a call whose callee is in neither the list of raising primitives
nor the list of operations that cannot raise on the values main passes to
them, a handler of an unknown class, a handler that does something other than
print the diagnostic and return 23, a try with else / finally -- each makes the
translator refuse; Gen/MainFlow.v is then written with the reason as a comment
and WITHOUT `main_sites`, so the proofs depending on it stop compiling.
"""
import ast, json, os, sys, hashlib

REPO = os.environ.get('PM_REPO', '/repo')
OUT = os.path.join(os.path.dirname(os.path.abspath(__file__)), '..', 'coq', 'Gen')

class Fail(Exception):
    pass

# exception class (source text) -> kinds of Model/Main.v it catches (with the subclass relation of CPython / numpy)
ARITH = ['EZeroDiv', 'EOverflow', 'EFloat']
HANDLER = {
    'ValueError': ['EValue', 'ELinAlg'],            # numpy.linalg.LinAlgError is a subclass of ValueError
    'KeyError': ['EKey'], 'IndexError': ['EIndex'], 'LookupError': ['EKey', 'EIndex'],
    'TypeError': ['EType'], 'AssertionError': ['EAssert'],
    'OverflowError': ['EOverflow'], 'ZeroDivisionError': ['EZeroDiv'], 'FloatingPointError': ['EFloat'],
    'ArithmeticError': ARITH,
    'np.linalg.LinAlgError': ['ELinAlg'], 'numpy.linalg.LinAlgError': ['ELinAlg'], 'LinAlgError': ['ELinAlg'],
    'MemoryError': ['EMemory'], 'OSError': ['EOs'], 'IOError': ['EOs'],
    # proper subclasses of OSError: a handler that names only these does not cover the kind
    'FileNotFoundError': [], 'PermissionError': [], 'IsADirectoryError': [], 'NotADirectoryError': [], 'FileExistsError': [],
    'NotImplementedError': ['ENotImpl'], 'UnboundLocalError': ['EUnbound'], 'NameError': ['EUnbound'],
}
CATCH_ALL = ('Exception', 'BaseException')

# callee text -> primitive
RAISING_CALL = {
    'int': 'PInt', 'float': 'PFloat', 'complex': 'PFloat',
    'Arc': 'PGeoCtor', 'Helix': 'PGeoCtor', 'Wire': 'PGeoCtor',
    'geo.compute_tags': 'PTags', 't[1]': 'PTransform', 'geo.scale': 'PScale',
    'Medium': 'PMedium', 'Mininec': 'PMininec',
    'm.register_source': 'PRegSource', 'm.register_load': 'PRegLoad',
    'Impedance_Load': 'PLoadCtor', 'Series_RLC_Load': 'PLoadCtor', 'Trap_Load': 'PLoadCtor', 'Laplace_Load': 'PLoadCtor',
    'parse_floatlist': 'PFloatList',
    'Skin_Effect_Load': 'PDistLoad', 'Insulation_Load': 'PDistLoad',
    'm.fix_distributed_loads': 'PFixDist',
    'Angle': 'PAngle', 'open': 'POpen', 'f.write': 'PWrite',
    'm.as_basic_input': 'PBasic', 'm.as_cmdline': 'PCmdline',
    'm.compute': 'PCompute', 'm.compute_near_field': 'PNear', 'm.compute_far_field': 'PFar',
    'm.as_mininec': 'PReport', 'm.frq_dependent_as_mininec': 'PReport', 'm.frq_independent_as_mininec': 'PReportGeo',
    'Excitation': 'PExcitation',
}
RAISING_SUBSCRIPT = {'geo.by_tag': 'PByTag', 'm.geo.by_tag': 'PByTag'}
RAISE_STMT = {'ValueError': 'PRaiseValue', 'ArithmeticError': 'PRaiseArith'}
# operations that cannot raise on the values main passes to them
BENIGN_NAMES = {'print', 'len', 'str', 'repr', 'set', 'sorted', 'zip', 'range', 'enumerate', 'dict', 'isinstance', 'min', 'max',
                'getattr', 'hasattr', 'list', 'tuple', 'bool', 'abs', 'any', 'all', 'sum', 'map', 'filter', 'reversed', 'round', 'type', 'frozenset', 'np.isfinite', 'np.array', 'ValueError', 'ArithmeticError', 'Geo_Container'}
BENIGN_METHODS = {'split', 'strip', 'pop', 'append', 'add', 'update', 'startswith', 'endswith', 'replace', 'max', 'min', 'all', 'any',
                  'get', 'extend', 'join', 'lower', 'items', 'keys', 'values'}

def handler_kinds(h, walker):
    """kinds caught by one `except` clause, and whether it is a catch-all; the body must be the diagnostic ending."""
    body = h.body
    if not body or not walker.is_diag_return(body[-1]):
        raise Fail('line %d: handler does not end in `return 23`' % h.lineno)
    for s in body[:-1]:
        ok = isinstance(s, ast.Expr) and isinstance(s.value, ast.Call) and ast.unparse(s.value.func) == 'print'
        if not ok:
            raise Fail('line %d: handler does something other than print the diagnostic' % s.lineno)
    if h.type is None:
        return [], True
    types = h.type.elts if isinstance(h.type, ast.Tuple) else [h.type]
    kinds, call = [], False
    for t in types:
        txt = ast.unparse(t)
        if txt in CATCH_ALL:
            call = True
        elif txt in HANDLER:
            kinds += HANDLER[txt]
        else:
            raise Fail('line %d: handler of unknown class %s' % (h.lineno, txt))
    return kinds, call

class Walker:
    def __init__(self, tree=None):
        self.sites = []    # (line, col, prim, kinds, catch_all)
        self.funcs = {}    # module-level helper functions main may call
        self.consts = {}   # module-level NAME = constant
        self.depth = 0
        self.in_helper = False
        self.loopenv = {}     # loop variable -> source texts of the values it takes (for x, C, ... in ((a, Arc, ...), (b, Helix, ...)))
        self.paramenv = {}    # parameter of the helper being walked -> source texts of the values passed for it
        for n in (tree.body if tree is not None else []):
            if isinstance(n, ast.FunctionDef) and n.name != 'main':
                self.funcs[n.name] = n
            if isinstance(n, ast.Assign) and len(n.targets) == 1 and isinstance(n.targets[0], ast.Name) and isinstance(n.value, ast.Constant):
                self.consts[n.targets[0].id] = n.value.value

    def is_diag_return(self, st):
        """`return 23` (literally or through a module-level constant) in main; in a helper function any `return` of a
        constant or name: the helper reports the failure to main, which is expected to return 23 (not checked)"""
        if not isinstance(st, ast.Return):
            return False
        v = st.value
        if self.in_helper:
            return v is None or isinstance(v, (ast.Constant, ast.Name))
        if isinstance(v, ast.Constant):
            return v.value == 23
        if isinstance(v, ast.Name):
            return self.consts.get(v.id) == 23
        return False

    def site(self, node, prim, ctx):
        kinds, call = [], False
        for k, c in ctx:
            kinds += [x for x in k if x not in kinds]
            call = call or c
        self.sites.append((node.lineno, node.col_offset, prim, kinds, call))

    def expr(self, e, ctx):
        for n in ast.walk(e):
            if isinstance(n, ast.Call):
                f = ast.unparse(n.func)
                if f in self.paramenv:
                    # the callee is a parameter of the helper: one of the values passed at the call in main
                    for v in self.paramenv[f]:
                        if v in RAISING_CALL: self.site(n, RAISING_CALL[v], ctx)
                        elif v in BENIGN_NAMES: pass
                        else: raise Fail('line %d: parameter %s may be %s, which is neither a known raising primitive nor known not to raise' % (n.lineno, f, v))
                elif f in RAISING_CALL:
                    self.site(n, RAISING_CALL[f], ctx)
                elif f in self.funcs and f not in BENIGN_NAMES:
                    # a helper function of the same module: its operations are performed here, inside the try statements
                    # around this call (and its own)
                    if self.depth >= 3:
                        raise Fail('line %d: helper functions nested too deeply at %s' % (n.lineno, f))
                    fn = self.funcs[f]
                    plist = [a.arg for a in fn.args.args]
                    params = set(plist) | {a.arg for a in fn.args.kwonlyargs}
                    penv = {}
                    for k, a in enumerate(n.args):
                        if k < len(plist) and isinstance(a, ast.Name):
                            if a.id in self.loopenv: penv[plist[k]] = self.loopenv[a.id]
                            elif a.id in RAISING_CALL or a.id in BENIGN_NAMES: penv[plist[k]] = [a.id]
                    for kw in n.keywords:
                        if isinstance(kw.value, ast.Name) and kw.value.id in self.loopenv: penv[kw.arg] = self.loopenv[kw.value.id]
                    for sub in ast.walk(fn):
                        if isinstance(sub, ast.Call) and isinstance(sub.func, ast.Name) and sub.func.id in params and sub.func.id not in penv:
                            raise Fail('line %d: helper %s calls its parameter %s, whose values at this call are not known' % (sub.lineno, f, sub.func.id))
                        if isinstance(sub, (ast.FunctionDef, ast.Lambda)) and sub is not fn and isinstance(sub, ast.FunctionDef):
                            raise Fail('line %d: nested function in helper %s' % (sub.lineno, f))
                    self.depth += 1; old = self.in_helper; self.in_helper = True
                    oldp = self.paramenv; self.paramenv = penv
                    try:
                        self.stmts([b for b in fn.body if not (isinstance(b, ast.Expr) and isinstance(b.value, ast.Constant))], ctx)
                    finally:
                        self.depth -= 1; self.in_helper = old; self.paramenv = oldp
                elif f in BENIGN_NAMES:
                    pass
                elif isinstance(n.func, ast.Attribute) and n.func.attr in BENIGN_METHODS:
                    pass
                else:
                    raise Fail('line %d: call of %s is neither a known raising primitive nor known not to raise' % (n.lineno, f))
            elif isinstance(n, ast.Subscript) and isinstance(n.ctx, ast.Load):
                v = ast.unparse(n.value)
                if v in RAISING_SUBSCRIPT:
                    self.site(n, RAISING_SUBSCRIPT[v], ctx)
            elif isinstance(n, ast.BinOp) and isinstance(n.op, ast.Mult) and 'args.frequency_steps' in ast.unparse(n):
                self.site(n, 'PSweepArith', ctx)
            elif isinstance(n, (ast.Await, ast.Yield, ast.YieldFrom, ast.NamedExpr)):
                raise Fail('line %d: unsupported expression %s' % (n.lineno, type(n).__name__))

    def stmts(self, body, ctx):
        for s in body:
            self.stmt(s, ctx)

    def stmt(self, s, ctx):
        if isinstance(s, ast.Try):
            if s.orelse or s.finalbody:
                raise Fail('line %d: try with else / finally' % s.lineno)
            hk = [handler_kinds(h, self) for h in s.handlers]
            kinds, call = [], False
            for k, c in hk:
                kinds += k
                call = call or c
            self.stmts(s.body, ctx + [(kinds, call)])
            for h in s.handlers:            # the handler bodies: print + return 23 (checked above); their expressions
                for b in h.body:
                    self.stmt(b, ctx)
        elif isinstance(s, (ast.For, ast.While)):
            if isinstance(s, ast.For) and isinstance(s.target, ast.Tuple) and isinstance(s.iter, ast.Tuple) \
               and all(isinstance(e, ast.Tuple) and len(e.elts) == len(s.target.elts) for e in s.iter.elts):
                for k, t in enumerate(s.target.elts):
                    if isinstance(t, ast.Name):
                        self.loopenv[t.id] = [ast.unparse(e.elts[k]) for e in s.iter.elts]
            self.expr(s.iter if isinstance(s, ast.For) else s.test, ctx)
            self.stmts(s.body, ctx)
            self.stmts(s.orelse, ctx)
        elif isinstance(s, ast.If):
            self.expr(s.test, ctx)
            self.stmts(s.body, ctx)
            self.stmts(s.orelse, ctx)
        elif isinstance(s, ast.With):
            for it in s.items:
                self.expr(it.context_expr, ctx)
            self.stmts(s.body, ctx)
        elif isinstance(s, ast.Assign):
            self.expr(s.value, ctx)
            for t in s.targets:
                if isinstance(t, ast.Tuple) and not isinstance(s.value, ast.Tuple):
                    self.site(s, 'PUnpack', ctx)
                if isinstance(t, ast.Attribute) and ast.unparse(t) == 'm.f':
                    self.site(s, 'PSetFreq', ctx)
                if isinstance(t, ast.Subscript):
                    self.expr(t.value, ctx)
        elif isinstance(s, ast.AugAssign):
            self.expr(s.value, ctx)
        elif isinstance(s, ast.Expr):
            self.expr(s.value, ctx)
        elif isinstance(s, ast.Return):
            if s.value is not None:
                self.expr(s.value, ctx)
        elif isinstance(s, ast.Raise):
            if s.exc is None or s.cause is not None or not isinstance(s.exc, ast.Call):
                raise Fail('line %d: unsupported raise' % s.lineno)
            cls = ast.unparse(s.exc.func)
            if cls not in RAISE_STMT:
                raise Fail('line %d: raise of unknown class %s' % (s.lineno, cls))
            self.site(s, RAISE_STMT[cls], ctx)
        elif isinstance(s, ast.Assert):
            self.expr(s.test, ctx)
            self.site(s, 'PAssert', ctx)
        elif isinstance(s, (ast.Pass, ast.Continue, ast.Break)):
            pass
        else:
            raise Fail('line %d: unsupported statement %s' % (s.lineno, type(s).__name__))

def translate(src):
    tree = ast.parse(src)
    mains = [n for n in tree.body if isinstance(n, ast.FunctionDef) and n.name == 'main']
    if len(mains) != 1:
        raise Fail('function main not found')
    main = mains[0]
    idx = [i for i, s in enumerate(main.body)
           if isinstance(s, ast.Assign) and isinstance(s.value, ast.Call) and ast.unparse(s.value.func).endswith('.parse_args')]
    if len(idx) != 1:
        raise Fail('args = cmd.parse_args (argv) not found exactly once at the top level of main')
    w = Walker(tree)
    w.stmts(main.body[idx[0] + 1:], [])
    w.sites.sort(key=lambda x: (x[0], x[1]))
    return w.sites

def main():
    os.makedirs(OUT, exist_ok=True)
    target = os.path.join(OUT, 'MainFlow.v')
    status = 'ok'
    head = ('(* GENERATED by py/translate_main.py from %s/mininec/mininec.py (function main) -- do not edit *)\n'
            'From Coq Require Import ZArith List Bool.\nFrom PM Require Import Model.Main.\nImport ListNotations.\nOpen Scope Z_scope.\n\n' % REPO)
    try:
        src = open(os.path.join(REPO, 'mininec', 'mininec.py')).read()
        sites = translate(src)
        rows = ['  mkSite %d %s [%s] %s' % (ln, prim, '; '.join(k), 'true' if c else 'false') for ln, col, prim, k, c in sites]
        text = head + 'Definition main_sites : list site := [\n' + ';\n'.join(rows) + '\n].\n'
        n = len(sites)
    except (Fail, SyntaxError, OSError) as e:
        status = 'FAIL: %s' % e
        text = head + '(* NOT EXTRACTED: %s *)\n' % str(e).replace('*)', '* )')
        n = 0
    old = open(target).read() if os.path.exists(target) else None
    if old != text:
        with open(target, 'w') as f:
            f.write(text)
    with open(os.path.join(OUT, 'mainflow_status.json'), 'w') as f:
        json.dump({'status': {'main_sites': status}, 'sites': n}, f, indent=1)
    if status != 'ok':
        print('translate_main: %s' % status)
    return 0 if status == 'ok' else 1

if __name__ == '__main__':
    sys.exit(main())
