#!/venv/bin/python
"""Accuracy test of /verif/coq/Base/FloatLib.v against Python's math module.

Run:  /venv/bin/python /verif/py/test_floatlib.py

What it does
  1. compiles FloatLib.v in place  (cd /verif/coq; coqc -R /verif/coq PM Base/FloatLib.v)
  2. generates ~400 test points per function (fixed seed, many edge cases),
     writes /tmp/floatlib_test/T.v which evaluates the Coq functions on them
     with vm_compute (inputs are given as exact hex literals, float.hex())
  3. parses coqc's output (17 significant decimal digits => exact round trip)
  4. compares with math.exp / log / sin / cos / atan2, int(), math.floor(),
     float(int) and prints the max ulp error per function.

Pass criterion (exit status 0 iff every point of every function passes)
  * nan must map to nan, +-inf to the same infinity, exact zeros must have the
    same sign as Python's zero;
  * exp, ln, atan2: |coq - py| <= 4 ulp(py);
  * sin, cos: |coq - py| <= 4 ulp(py),  or  |py| < 1e-3 and |coq - py| <= 4e-16
    (absolute criterion near the zeros of sin / cos);
  * fl_of_Z, fl_trunc, fl_floor: exact equality with float(z), int(x),
    math.floor(x).
Domains: exp on [-700, 700] (+ overflow/underflow edges), ln on [1e-300, 1e300]
(+ subnormals, 0, negatives, inf), sin/cos on |x| <= 1e5 (+ a few points up to
1e6, which the 3-part Cody-Waite reduction still handles), atan2 everywhere.
"""
import math
import os
import random
import re
import subprocess
import sys

COQ_ROOT = "/verif/coq"
LIB = "Base/FloatLib.v"
OUT_DIR = "/tmp/floatlib_test"
ULP_TOL = 4.0
ABS_TOL_TRIG = 4e-16
TRIG_SMALL = 1e-3

INF = math.inf
NAN = math.nan


# ----------------------------------------------------------------------------
# literals / parsing
# ----------------------------------------------------------------------------

def coq_float(x):
    """Exact Coq literal (float_scope) of the Python float x."""
    if math.isnan(x):
        return "nan"
    if math.isinf(x):
        return "infinity" if x > 0 else "neg_infinity"
    h = x.hex()
    return "(%s)" % h if h.startswith("-") else h


def coq_Z(z):
    return "(%d)" % z if z < 0 else "%d" % z


def parse_float_token(tok):
    t = tok.strip()
    t = t.replace("%float", "").replace("(", "").replace(")", "").strip()
    if t == "infinity":
        return INF
    if t == "neg_infinity":
        return -INF
    if t == "nan":
        return NAN
    return float(t)          # handles "-0", "1e-300", "12345678", ...


def parse_Z_token(tok):
    t = tok.strip().replace("%Z", "").replace("(", "").replace(")", "").strip()
    return int(t)


def parse_lists(output):
    """Map name -> raw token list for every  'name = [ ... ] : list ...'."""
    res = {}
    for m in re.finditer(r"(\w+)\s*=\s*\[(.*?)\]\s*:\s*list\b", output, re.S):
        body = m.group(2).strip()
        res[m.group(1)] = [t for t in body.split(";")] if body else []
    return res


# ----------------------------------------------------------------------------
# reference functions with Python's exceptions turned into IEEE results
# ----------------------------------------------------------------------------

def ref_exp(x):
    try:
        return math.exp(x)
    except OverflowError:
        return INF


def ref_ln(x):
    if math.isnan(x):
        return NAN
    if x == 0:
        return -INF
    if x < 0:
        return NAN
    return math.log(x)


def ref_sin(x):
    return NAN if math.isinf(x) else math.sin(x)


def ref_cos(x):
    return NAN if math.isinf(x) else math.cos(x)


# ----------------------------------------------------------------------------
# test points
# ----------------------------------------------------------------------------

def neighbours(x, n=2):
    out = [x]
    a = b = x
    for _ in range(n):
        a = math.nextafter(a, INF)
        b = math.nextafter(b, -INF)
        out += [a, b]
    return out


def gen_points():
    rnd = random.Random(20260929)
    tiny = 5e-324
    minnorm = 2.2250738585072014e-308

    def logu(lo, hi):
        return math.exp(rnd.uniform(math.log(lo), math.log(hi)))

    # ---- exp
    p_exp = [0.0, -0.0, tiny, -tiny, 1e-300, -1e-300, 1e-10, -1e-10, 2.0**-28,
             -2.0**-28, 2.0**-29, 1.0, -1.0, 0.5, -0.5, 700.0, -700.0,
             709.0, 709.78, 709.782712893384, 709.7827128933841, 710.0, 711.0,
             1000.0, 1e300, -708.0, -708.4, -720.0, -744.0, -745.0, -745.2,
             -746.0, -747.0, -1000.0, -1e300, INF, -INF, NAN]
    ln2 = math.log(2.0)
    for k in (0.5, 1.0, 1.5, 2.5, 10.5, -0.5, -1.5, -10.5, 100.5, -1000.5):
        p_exp += neighbours(k * ln2, 1)
    p_exp += [rnd.uniform(-700, 700) for _ in range(260)]
    p_exp += [rnd.uniform(-2, 2) for _ in range(50)]
    p_exp += [rnd.choice((-1, 1)) * logu(1e-20, 1.0) for _ in range(40)]

    # ---- ln
    p_ln = [0.0, -0.0, -1.0, -tiny, -INF, INF, NAN, tiny, 3 * tiny, minnorm,
            minnorm / 4, 1e-310, 1e-300, 1e300, 1.7976931348623157e308,
            0.5, 2.0, 4.0, 10.0, math.e, 1.0 / math.e, math.sqrt(2.0),
            math.sqrt(0.5)]
    p_ln += neighbours(1.0, 6)
    p_ln += neighbours(math.sqrt(2.0), 2) + neighbours(math.sqrt(0.5), 2)
    p_ln += neighbours(2.0, 2) + neighbours(0.5, 2)
    for _ in range(40):
        p_ln.append(1.0 + rnd.choice((-1, 1)) * logu(1e-16, 0.3))
    p_ln += [rnd.uniform(0.5, 2.0) for _ in range(60)]
    p_ln += [logu(1e-300, 1e300) for _ in range(220)]
    p_ln += [logu(1e-5, 1e5) for _ in range(30)]

    # ---- sin / cos
    p_trig = [0.0, -0.0, tiny, -tiny, 1e-300, -1e-300, 1e-10, 2.0**-27,
              2.0**-28, -2.0**-27, 1.0, -1.0, 1e5, -1e5, 99999.99999, INF,
              -INF, NAN, math.pi / 4, -math.pi / 4]
    p_trig += neighbours(math.pi / 4, 2)
    for k in list(range(-12, 13)) + [25, 100, 355, 1000, 10000, 20000, 40000,
                                     51819, 63661, 63662, -63661, -31830]:
        if k != 0:
            p_trig += neighbours(k * (math.pi / 2), 1)
    p_trig += [k * (math.pi / 2) + rnd.choice((-1, 1)) * logu(1e-12, 1e-3)
               for k in (rnd.randrange(-60000, 60000) for _ in range(30))]
    p_trig += [rnd.uniform(-1e5, 1e5) for _ in range(150)]
    p_trig += [rnd.uniform(-10, 10) for _ in range(60)]
    p_trig += [rnd.choice((-1, 1)) * logu(1e-20, 1.0) for _ in range(30)]
    p_trig += [rnd.choice((-1, 1)) * logu(1.0, 1e5) for _ in range(30)]
    p_trig += [rnd.uniform(-1e6, 1e6) for _ in range(10)]

    # ---- atan2 (y, x)
    special = [0.0, -0.0, 1.0, -1.0, INF, -INF, NAN, tiny, -tiny, 1e308,
               -1e308, 1e-300, 3.0]
    p_atan2 = [(a, b) for a in special for b in special]
    for t in (0.4375, 0.6875, 1.1875, 2.4375, 1.0, 2.0**-29, 2.0**60, 2.0**66):
        for v in neighbours(t, 1):
            p_atan2 += [(v, 1.0), (-v, 1.0), (v, -1.0), (-v, -1.0)]
    p_atan2 += [(rnd.gauss(0, 1), rnd.gauss(0, 1)) for _ in range(100)]
    p_atan2 += [(rnd.choice((-1, 1)) * logu(1e-300, 1e300),
                 rnd.choice((-1, 1)) * logu(1e-300, 1e300)) for _ in range(60)]
    p_atan2 += [(rnd.choice((-1, 1)) * logu(1e-3, 1e3),
                 rnd.choice((-1, 1)) * logu(1e-3, 1e3)) for _ in range(60)]
    p_atan2 += [(rnd.choice((-1, 1)) * logu(1e-18, 1e-2),
                 float(rnd.choice((-1, 1)))) for _ in range(20)]

    # ---- Z -> float
    p_ofZ = [0, 1, -1, 2, 3, -7, 10, 2**53 - 1, 2**53, 2**53 + 1, 2**53 + 2,
             2**53 + 3, -(2**53 + 1), 2**54 + 2, 2**54 + 6, 2**61, 2**62 - 1,
             2**62, 2**62 + 1, 2**63 - 1, 2**63, 2**63 + 2**10, 2**64 + 1,
             (2**53 + 1) * 2**20, (2**53 + 1) * 2**20 + 1,
             (2**53 + 1) * 2**20 - 1, (2**53 + 3) * 2**20, -(2**53 + 3) * 2**70,
             10**15, 10**16, 10**17, 10**18, 10**19, 10**20, 10**21, 10**22,
             10**23, -10**22, 10**100, 10**308, 2**1023, 2**1024 - 2**970,
             2**1024 - 2**970 - 1, 2**1024, 10**309, -10**400]
    for _ in range(150):
        bits = rnd.randrange(1, 200)
        p_ofZ.append(rnd.choice((-1, 1)) * rnd.getrandbits(bits))
    for _ in range(60):                     # ties and near-ties
        m = rnd.getrandbits(52) | (1 << 52)
        s = rnd.randrange(1, 80)
        p_ofZ += [(2 * m + 1) << s, ((2 * m + 1) << s) + 1,
                  ((2 * m + 1) << s) - 1]

    # ---- float -> Z
    p_toZ = [0.0, -0.0, 0.5, -0.5, 0.999, -0.999, 1.0, -1.0, 1.5, -1.5, 2.5,
             -2.5, tiny, -tiny, 1e-300, -1e-300, 2.0**52 + 0.5,
             -(2.0**52 + 0.5), 2.0**53, -(2.0**53), 2.0**53 - 1, 2.0**62,
             -(2.0**62), 4611686018427387000.0, 1e22, -1e22, 1e300,
             0.49999999999999994, -0.49999999999999994, 0.9999999999999999,
             -0.9999999999999999, 4503599627370495.5, -4503599627370495.5]
    p_toZ += [rnd.uniform(-1000, 1000) for _ in range(150)]
    p_toZ += [rnd.choice((-1, 1)) * logu(1e-10, 4e18) for _ in range(150)]
    p_toZ += [float(rnd.randrange(-10**6, 10**6)) for _ in range(40)]
    p_toZ_special = [INF, -INF, NAN]        # must give 0

    return dict(exp=p_exp, ln=p_ln, trig=p_trig, atan2=p_atan2, ofZ=p_ofZ,
                toZ=p_toZ, toZ_special=p_toZ_special)


# ----------------------------------------------------------------------------
# Coq driver
# ----------------------------------------------------------------------------

def flist(xs):
    return "[" + "; ".join(coq_float(x) for x in xs) + "]"


def write_T(pts, path):
    L = []
    L.append("From Coq Require Import ZArith PrimFloat List.")
    L.append("Import ListNotations.")
    L.append("Require Import PM.Base.FloatLib.")
    L.append("Open Scope float_scope.")
    L.append("Definition r_exp := Eval vm_compute in map fl_exp %s." % flist(pts["exp"]))
    L.append("Definition r_ln := Eval vm_compute in map fl_ln %s." % flist(pts["ln"]))
    L.append("Definition r_sin := Eval vm_compute in map fl_sin %s." % flist(pts["trig"]))
    L.append("Definition r_cos := Eval vm_compute in map fl_cos %s." % flist(pts["trig"]))
    pairs = "[" + "; ".join("(%s, %s)" % (coq_float(y), coq_float(x))
                            for (y, x) in pts["atan2"]) + "]"
    L.append("Definition r_atan2 := Eval vm_compute in "
             "map (fun p : float * float => fl_atan2 (fst p) (snd p)) %s." % pairs)
    zs = "[" + "; ".join(coq_Z(z) + "%Z" for z in pts["ofZ"]) + "]"
    L.append("Definition r_ofZ := Eval vm_compute in map fl_of_Z %s." % zs)
    toz = pts["toZ"] + pts["toZ_special"]
    L.append("Definition r_trunc := Eval vm_compute in map fl_trunc %s." % flist(toz))
    L.append("Definition r_floor := Eval vm_compute in map fl_floor %s." % flist(toz))
    L.append("Definition r_const := Eval vm_compute in [fl_pi; fl_abs (-2.5); fl_abs (-0.0); fl_abs neg_infinity].")
    L.append("Close Scope float_scope.")
    for n in ("r_exp", "r_ln", "r_sin", "r_cos", "r_atan2", "r_ofZ", "r_const"):
        L.append("Print %s." % n)
    L.append("Open Scope Z_scope.")
    for n in ("r_trunc", "r_floor"):
        L.append("Print %s." % n)
    with open(path, "w") as f:
        f.write("\n".join(L) + "\n")


def run(cmd, cwd):
    p = subprocess.run(cmd, cwd=cwd, stdout=subprocess.PIPE,
                       stderr=subprocess.PIPE, text=True)
    if p.returncode != 0:
        sys.stdout.write(p.stdout)
        sys.stderr.write(p.stderr)
        sys.exit("command failed: %s" % " ".join(cmd))
    return p.stdout


# ----------------------------------------------------------------------------
# comparison
# ----------------------------------------------------------------------------

def ulp_err(got, ref):
    """(ok_special, err_in_ulps) ; err is None when decided by special rules."""
    if math.isnan(ref) or math.isnan(got):
        return (math.isnan(ref) and math.isnan(got)), None
    if math.isinf(ref) or math.isinf(got):
        return (got == ref), None
    if ref == 0.0 and got == 0.0:
        return (math.copysign(1.0, got) == math.copysign(1.0, ref)), None
    return True, abs(got - ref) / math.ulp(ref)


def check_float_fn(name, args, got, ref, trig=False):
    assert len(got) == len(ref) == len(args), (name, len(got), len(ref))
    worst, worst_arg, nfail, worst_abs_small = 0.0, None, 0, 0.0
    fails = []
    for a, g, r in zip(args, got, ref):
        ok, e = ulp_err(g, r)
        if e is not None:
            if trig and abs(r) < TRIG_SMALL and e > ULP_TOL:
                # absolute criterion near zeros of sin / cos
                worst_abs_small = max(worst_abs_small, abs(g - r))
                ok = abs(g - r) <= ABS_TOL_TRIG
            else:
                ok = e <= ULP_TOL
                if e > worst:
                    worst, worst_arg = e, a
        if not ok:
            nfail += 1
            fails.append((a, g, r, e))
    extra = ""
    if trig:
        extra = "  (points judged by abs criterion: max abs err %.3g)" % worst_abs_small
    print("%-9s %4d points   max err %.3f ulp  at %s%s   %s"
          % (name, len(args), worst, fmt_arg(worst_arg), extra,
             "OK" if nfail == 0 else "FAIL (%d)" % nfail))
    for a, g, r, e in fails[:10]:
        print("    FAIL arg=%s coq=%r py=%r ulps=%s" % (fmt_arg(a), g, r, e))
    return nfail == 0, worst


def fmt_arg(a):
    if a is None:
        return "-"
    if isinstance(a, tuple):
        return "(" + ", ".join(repr(v) for v in a) + ")"
    return repr(a)


def check_exact(name, args, got, ref, eq):
    assert len(got) == len(ref) == len(args), (name, len(got), len(ref))
    fails = [(a, g, r) for a, g, r in zip(args, got, ref) if not eq(g, r)]
    print("%-9s %4d points   exact comparison%s   %s"
          % (name, len(args), " " * 41, "OK" if not fails else "FAIL (%d)" % len(fails)))
    for a, g, r in fails[:10]:
        print("    FAIL arg=%r coq=%r py=%r" % (a, g, r))
    return not fails


def float_same(g, r):
    if math.isnan(r):
        return math.isnan(g)
    return g == r and math.copysign(1.0, g) == math.copysign(1.0, r)


def ref_of_Z(z):
    try:
        return float(z)
    except OverflowError:
        return INF if z > 0 else -INF


def main():
    os.makedirs(OUT_DIR, exist_ok=True)
    run(["coqc", "-R", COQ_ROOT, "PM", LIB], cwd=COQ_ROOT)
    src = open(os.path.join(COQ_ROOT, LIB)).read()
    body = re.sub(r"\(\*.*?\*\)", "", src, flags=re.S)
    for bad in ("Axiom", "Parameter", "Admitted", "admit"):
        if re.search(r"\b%s\b" % bad, body):
            sys.exit("FloatLib.v contains forbidden keyword %s" % bad)

    pts = gen_points()
    tpath = os.path.join(OUT_DIR, "T.v")
    write_T(pts, tpath)
    out = run(["coqc", "-R", COQ_ROOT, "PM", tpath], cwd=OUT_DIR)
    with open(os.path.join(OUT_DIR, "T.out"), "w") as f:
        f.write(out)
    raw = parse_lists(out)
    need = ["r_exp", "r_ln", "r_sin", "r_cos", "r_atan2", "r_ofZ", "r_const",
            "r_trunc", "r_floor"]
    for n in need:
        if n not in raw:
            sys.exit("could not find %s in coqc output (see %s/T.out)" % (n, OUT_DIR))
    F = {n: [parse_float_token(t) for t in raw[n]]
         for n in need if n not in ("r_trunc", "r_floor")}
    Zs = {n: [parse_Z_token(t) for t in raw[n]] for n in ("r_trunc", "r_floor")}

    ok = True
    worst = {}
    r, worst["exp"] = check_float_fn("fl_exp", pts["exp"], F["r_exp"],
                                     [ref_exp(x) for x in pts["exp"]])
    ok &= r
    r, worst["ln"] = check_float_fn("fl_ln", pts["ln"], F["r_ln"],
                                    [ref_ln(x) for x in pts["ln"]])
    ok &= r
    r, worst["sin"] = check_float_fn("fl_sin", pts["trig"], F["r_sin"],
                                     [ref_sin(x) for x in pts["trig"]], trig=True)
    ok &= r
    r, worst["cos"] = check_float_fn("fl_cos", pts["trig"], F["r_cos"],
                                     [ref_cos(x) for x in pts["trig"]], trig=True)
    ok &= r
    r, worst["atan2"] = check_float_fn("fl_atan2", pts["atan2"], F["r_atan2"],
                                       [math.atan2(y, x) for (y, x) in pts["atan2"]])
    ok &= r
    ok &= check_exact("fl_of_Z", pts["ofZ"], F["r_ofZ"],
                      [ref_of_Z(z) for z in pts["ofZ"]], float_same)
    toz = pts["toZ"] + pts["toZ_special"]
    nsp = len(pts["toZ_special"])
    ok &= check_exact("fl_trunc", toz, Zs["r_trunc"],
                      [int(x) for x in pts["toZ"]] + [0] * nsp,
                      lambda g, r: g == r)
    ok &= check_exact("fl_floor", toz, Zs["r_floor"],
                      [math.floor(x) for x in pts["toZ"]] + [0] * nsp,
                      lambda g, r: g == r)
    ok &= check_exact("consts", ["fl_pi", "abs -2.5", "abs -0.0", "abs -inf"],
                      F["r_const"], [math.pi, 2.5, 0.0, INF], float_same)

    print("summary: max ulp  " + "  ".join("%s=%.3f" % kv for kv in worst.items()))
    print("criterion: <= %g ulp of Python's result; sin/cos alternatively "
          "abs err <= %g when |result| < %g" % (ULP_TOL, ABS_TOL_TRIG, TRIG_SMALL))
    print("PASS" if ok else "FAIL")
    sys.exit(0 if ok else 1)


if __name__ == "__main__":
    main()
