"""C18 — Generated BASIC-MININEC input describes the same antenna."""
from checks.zcommon import *
import stage_bas

def run(tier, seed):
    chk = Check('C18', tier, seed)
    chk.rule = ('generated command lines as for C15, restricted to what BASIC MININEC can express (either impedance-type loads incl. skin effect '
                'and insulation, or S-parameter loads: RLC, trap, Laplace), BASIC versions 9 / 12 / 13, with and without far-field (dBi and V/m, '
                'new power level) and near-field requests; the generated text is read by an independent prompt automaton; non-trivial = '
                'accepted line; distinct by (argv, version)')
    chk.assumptions = ['the BASIC program is not in the sandbox: the prompt order is transcribed from the prompt comments of as_basic_input and the 48 .mini files',
                       'BASIC joins wire ends whose typed coordinates are equal: the reader joins ends only when the printed coordinates are equal as numbers',
                       'PARTIAL: the theorem covers the answer sequence against the prompt automaton (structure); values are compared by the oracle; '
                       'feed impedances are compared for models made of plain wires only (emulated arcs / helices / tapered wires are one object for '
                       'pymininec and a chain of wires for BASIC: that difference is the subject of C06)']
    standard_front(chk, 'Props/C18.v', needs_items=('bas_coef_scale', 'src_polar'), extra_vo=('Model/Basic.v', 'Proofs/BasicP.v', 'Proofs/BasicV.v', 'Corr/BasDriver.v'))
    rng = random.Random(seed)
    q = tier == 'quick'
    cases = [dict(id=i, seed=rng.randrange(10 ** 9)) for i in range(200 if q else 12000)]
    rp = replay_input()
    if rp and rp['kind'] == 'argv':
        cases.insert(0, dict(id=2 * 10 ** 6, seed=1, argv=list(rp['value']), version=rp.get('version')))
    # the input of the recorded finding is always exercised
    cases.append(dict(id=10 ** 6, seed=1, version='12', argv=['-f', '15.72', '--wire=4,0.5844,0.506,0.0,-0.22586,-0.88239,1.4111,0.00212',
        '--wire=7,-0.22586,-0.88239,1.4111,0.38378,1.6284,2.5133,0.00107', '--medium=0,0,0', '--excitation-pulse=3', '--insulation-load=0.0091,4.3']))
    shards = [cases[k::NCPU] for k in range(NCPU) if cases[k::NCPU]]
    res = run_workers('bas.c18', [dict(cases=s) for s in shards])
    good = []; n = sk = 0; why = {}
    for ok, r in res:
        if not ok:
            chk.tie_broken('oracle', 'c18-oracle', 'real code could not be run: ' + str(r)[-600:]); continue
        for x in r['results']:
            if 'error' in x:
                x['spec'] = dict(argv=x.get('argv'), version=x.get('version'))
                report_error(chk, 'c18-oracle', x); continue
            if x.get('skipped'):
                sk += 1; w = (x.get('why') or 'generator').split(':')[0][:40]; why[w] = why.get(w, 0) + 1; continue
            n += 1; good.append(x)
            chk.add_case('bas:' + json.dumps([x['argv'], x['version'], x.get('kw')]), True, sample=dict(oracle='c18', **x.get('features', {})))
            seen = set()
            for b in x['bad']:
                head = b.split(':')[0]
                if head.startswith('feed impedance of the re-read model'):
                    sig = dict(stage='c18-oracle', what='feed impedance of the re-read model')
                    if x.get('insulated_exact_kernel'): sig['insulated_exact_kernel'] = True
                else:
                    sig = dict(stage='c18-oracle', what=re.sub(r'\d+', '#', head)[:60])
                k = json.dumps(sig, sort_keys=True)
                if k in seen: continue
                seen.add(k)
                chk.violation(sig, b, dict(argv=x['argv'], version=x['version'], kw=x.get('kw'), text=x.get('text')))
    chk.stages['c18-oracle'] = dict(inputs=n, outside_domain=sk, outside_domain_kinds=why)
    stage_bas.run_bas(chk, good)
    return chk.finish()
