"""C01 — Power balance."""
from checks.ffcommon import *

def run(tier, seed):
    chk = Check('C01', tier, seed)
    chk.rule = ('generated antennas (free space, ideal and real ground) with 1-4 complex sources and lumped loads; the oracle integrates '
                'the real gain table over the sphere / hemisphere (40-point Gauss in cos(theta) x 72 azimuths) for antennas inside the '
                'thin-wire domain of the property; non-trivial = more than one pulse; distinct by full spec')
    chk.assumptions = ['proved: exact split of delivered power into load dissipation and -(m/2) Im(I^H Z0 I), gain normalisation and constants; '
                       'measured (not provable: discretisation accuracy of the method of moments): that quadratic form equals the sphere integral of the gain within 1.5 %',
                       'distinct source pulses (NoDup) in the energy-split theorem']
    standard_front(chk, 'Props/C01.v',
                   needs_items=('src_power', 'rhs_entry', 'load_diag', 'ff_k9', 'ff_t1', 'ff_t2', 'ff_t3', 'medium_imp'),
                   extra_vo=('Proofs/Energy.v', 'Proofs/FarFieldP.v', 'Model/FarField.v', 'Corr/FFDriver.v', 'Corr/LinDriver.v'))
    rng = random.Random(seed)
    out, errs = stage_lin.run_stage(chk, rng, 24 if tier == 'quick' else 800)
    for r, o, mt in out:
        chk.add_case(json.dumps(r['spec'], sort_keys=True), o['n'] > 1)
    ff_cases(chk, rng, 24 if tier == 'quick' else 800, (None, 'ideal', 'real'))
    nor = 16 if (tier == 'quick' and not chk.broken) else (48 if tier == 'quick' else 960)
    run_oracle(chk, rng, nor, 'ff.c01_oracle', 'c01-oracle', (None, None, 'ideal', 'ideal', 'real'),
               probes=[os.path.join(ROOT, 'probes', f) for f in ('C01-exact-kernel.json', 'C01-radius-step.json', 'C01-stepped-ground.json', 'C01-topdown-grounded-load.json', 'C01-topdown-sloper-load.json', 'C01-long-sloper-topdown.json', 'C01-long-sloper-topdown-loaded.json')])
    return chk.finish()
