"""C13 — Segmentation tiles each object; tapers, arcs, helices, transforms."""
import random, math
from vlib import *
import stage_geom, gen

def hv(l): return [float.fromhex(x) for x in l]

def rot(v, ang):
    ax, ay, az = [math.radians(a) for a in ang]
    x, y, z = v
    y, z = y * math.cos(ax) - z * math.sin(ax), y * math.sin(ax) + z * math.cos(ax)
    x, z = x * math.cos(ay) + z * math.sin(ay), -x * math.sin(ay) + z * math.cos(ay)
    x, y = x * math.cos(az) - y * math.sin(az), x * math.sin(az) + y * math.cos(az)
    return [x, y, z]

def expected_points(w, spec):
    """Independent construction of the object's defining points (end points of a
    wire, all segment ends of a curve) after the documented transformations."""
    if w['type'] == 'wire':
        pts = [list(w['p1']), list(w['p2'])]
    elif w['type'] == 'arc':
        a1, a2 = math.radians(w['ang1']), math.radians(w['ang2'])
        pts = []
        for i in range(w['nseg'] + 1):
            a = a1 + (a2 - a1) * i / w['nseg']
            pts.append([w['radius'] * math.cos(a), 0.0, w['radius'] * math.sin(a)])
    else:
        n = w['nseg']; ln, tl = w['length'], w['turnlen']
        rx2 = w['rx1'] if w.get('rx2') is None else w['rx2']; ry2 = w['ry1'] if w.get('ry2') is None else w['ry2']
        s = 1.0 if ln * tl > 0 else -1.0
        pts = []
        for i in range(n + 1):
            f = i / n
            z = f * abs(ln)
            xm = w['rx1'] + f * (rx2 - w['rx1']); ym = w['ry1'] + f * (ry2 - w['ry1'])
            a = s * 2 * math.pi * z / abs(tl)
            if ln < 0:
                pts.append([-xm * math.sin(a), ym * math.cos(a), z])
            else:
                pts.append([xm * math.cos(a), ym * math.sin(a), z])
    r = w['r']
    ts = sorted(enumerate(spec.get('transforms_unsorted', [])), key=lambda x: (x[1]['key'], x[0]))
    for _, t in ts:
        if t.get('tag') is not None and t['tag'] != w['tag']:
            continue
        if t['op'] == 'rotate':
            pts = [rot(p, t['v']) for p in pts]
        else:
            pts = [[p[i] + t['v'][i] for i in range(3)] for p in pts]
    for sc in spec.get('scales', []):
        if sc.get('tag') is not None and sc['tag'] != w['tag']:
            continue
        pts = [[c * sc['factor'] for c in p] for p in pts]; r *= sc['factor']
    return pts, r

def oracle(chk, good):
    n = 0
    for rr in good:
        spec = rr['spec']
        for w, o in zip(sorted(spec['wires'], key=lambda w: w['tag']), rr['obs']['objs']):
            n += 1
            if o.get('assertion'):
                continue        # taper preconditions violated: C20's business
            segs = o['segs']
            pts, r = expected_points(w, spec)
            P1 = [hv(s['p1']) for s in segs]; P2 = [hv(s['p2']) for s in segs]
            lens = [math.dist(a, b) for a, b in zip(P1, P2)]
            scale = max(max(abs(c) for p in pts for c in p), 1e-30)
            def viol(what, msg):
                chk.violation(dict(stage='c13-oracle', what=what), '%s (object tag %d, %s): %s' % (what, w['tag'], w['type'], msg), spec)
            if len(segs) != w['nseg']:
                viol('segment count', '%d segments, %d requested' % (len(segs), w['nseg'])); continue
            if any(l <= 0 for l in lens):
                viol('positive length', 'a segment has length %r' % min(lens))
            if any(math.dist(P2[i], P1[i + 1]) > 1e-9 * scale for i in range(len(segs) - 1)):
                viol('chain', 'segments do not chain end to end')
            if math.dist(P1[0], pts[0]) > 1e-9 * scale or math.dist(P2[-1], pts[-1]) > 1e-9 * scale:
                viol('end points', 'first/last segment end (%r, %r) is not the object end (%r, %r)' % (P1[0], P2[-1], pts[0], pts[-1]))
            if abs(float.fromhex(o['r']) - r) > 1e-12 * r:
                viol('radius', 'radius %r, expected %r' % (float.fromhex(o['r']), r))
            for s_, l in zip(segs, lens):
                if abs(float.fromhex(s_['len']) - l) > 1e-9 * l:
                    viol('stored length', 'stored seg_len %r, geometric %r' % (float.fromhex(s_['len']), l)); break
            if w['type'] != 'wire':
                for i, p in enumerate(pts):
                    q = P1[i] if i < len(segs) else P2[-1]
                    if math.dist(p, q) > 1e-9 * scale:
                        viol('curve point', 'segment end %d is %r, documented position %r' % (i, q, p)); break
                continue
            tp = w.get('taper')
            L = math.dist(pts[0], pts[1])
            if not tp or o['segtype'] == 0:
                if max(lens) - min(lens) > 1e-9 * L:
                    viol('equal lengths', 'plain wire with unequal segments %r' % lens)
                continue
            kind, tmin, tmax = tp
            fac = 1.0
            for sc in spec.get('scales', []):
                if sc.get('tag') is None or sc['tag'] == w['tag']:
                    fac *= sc['factor']
            lo = max(2.5 * r, tmin or 0.0); hi = tmax if tmax else L
            eps = 0.11 * min(lens)
            if min(lens) < lo - eps:
                viol('taper minimum', 'shortest segment %r below max(2.5 r, min) = %r' % (min(lens), lo))
            if max(lens) > hi + eps:
                viol('taper maximum', 'longest segment %r exceeds the maximum %r' % (max(lens), hi))
            seq_ = lens if kind == 1 else (lens[::-1] if kind == 2 else None)
            def grow(seq_):
                for a, b in zip(seq_, seq_[1:]):
                    if b < a * (1 - 1e-9) - 1e-12 * L:
                        return 'lengths decrease from the tapered end: %r' % seq_
                    if b > 2.1 * a * (1 + 1e-9):
                        return 'growth factor %.4f exceeds 2.1: %r' % (b / a, seq_)
                return None
            if seq_ is not None:
                g = grow(seq_)
                if g: viol('taper growth', g)
            else:
                h = (len(lens) + 1) // 2
                g = grow(lens[:h]) or grow(lens[::-1][:h])
                if g: viol('taper growth', g)
                if any(abs(a - b) > 1e-6 * L for a, b in zip(lens, lens[::-1])):
                    viol('taper symmetry', 'two-sided taper is not symmetric: %r' % lens)
    chk.stages['c13-oracle'] = dict(objects=n)

def mirror_cases(rng, n):
    """taper from end 2 must be the mirror image of the taper from end 1 of the reversed wire"""
    cases = []
    for i in range(n):
        L = 10 ** rng.uniform(-1, 1.5); k = rng.randint(2, 10)
        p1 = [rng.uniform(-3, 3) for _ in range(3)]; d = gen._unit(rng); p2 = gen._add(p1, d, L)
        tmin = tmax = None
        if rng.random() < 0.5: tmax = L / k * rng.uniform(1.05, 3)
        if rng.random() < 0.3: tmin = L / k * rng.uniform(0.05, 0.5)
        r = L / k / rng.choice([30, 100, 1000])
        a = gen.wire(k, p1, p2, r, tag=1, taper=[2, tmin, tmax])
        b = gen.wire(k, p2, p1, r, tag=2, taper=[1, tmin, tmax])
        cases.append(dict(id=10000 + i, seed=0, spec=dict(f=10.0, wires=[a, b], media=None, family='taper-mirror', tagmode='explicit',
                                                         sources=[], loads=[], transforms=[], transforms_unsorted=[], scales=[])))
    return cases

def run(tier, seed):
    chk = Check('C13', tier, seed)
    chk.rule = ('1-4 objects per case: plain wires (1-12 segments), tapered wires of all three kinds with / without min / max limits, arcs, '
                'helices (both signs of length and turn length, radius taper), followed by up to 4 keyed rotations / translations (tagged '
                'or not, equal keys included) and up to 2 scalings; non-trivial = tapered, curved or transformed; distinct by full spec')
    chk.assumptions = ['proved for all inputs: counts, chaining, end points (any numeric instance); equal lengths, unit directions, circle / '
                       'ellipse membership, isometry of rotations, sorted application order, scaling of lengths (reals)',
                       'measured by the oracle on the real segments: growth factor <= 2.1, >= max(2.5 r, min), <= max for accepted tapers '
                       '(taper1 enforces the window by its own assertions; no closed invariant proof for the three-state loop of taper2)']
    standard_front(chk, 'Props/C13.v', extra_vo=('Model/Geometry.v', 'Model/Taper.v', 'Proofs/GeometryP.v', 'Proofs/GeometryR.v', 'Corr/GeomDriver.v'))
    rng = random.Random(seed)
    good, errs = stage_geom.run_stage(chk, rng, 160 if tier == 'quick' else 9600)
    for r in good:
        sp = r['spec']
        nt = any(w['type'] != 'wire' or w.get('taper') for w in sp['wires']) or bool(sp['transforms']) or bool(sp['scales'])
        chk.add_case(json.dumps(sp, sort_keys=True), nt,
                     sample=dict(objects=[(w['type'], w['nseg'], w.get('taper')) for w in sp['wires']], transforms=len(sp['transforms']), scales=len(sp['scales'])) if nt else None)
    for r in errs:
        if r['error']['exception'] != 'ValueError':      # documented rejection of the input
            report_error(chk, 'geom', r)
    oracle(chk, good)
    # the command line in front of the geometry layer
    fc = [dict(id=i, seed=rng.randrange(10 ** 9), spec=gen.gen_geometry(rng)) for i in range(96 if tier == 'quick' else 4800)]
    shards = [fc[k::NCPU] for k in range(NCPU) if fc[k::NCPU]]
    nf_ = nsk = 0
    for ok_, res in run_workers('geom.front', [dict(cases=s_) for s_ in shards]):
        if not ok_:
            chk.tie_broken('oracle', 'c13-front', 'real code could not be run: ' + str(res)[-600:]); continue
        for r in res['results']:
            if 'error' in r:
                if r['error']['exception'] != 'ValueError': report_error(chk, 'c13-front', r)
                continue
            if r.get('skipped'): nsk += 1; continue
            nf_ += 1
            chk.add_case('front:' + json.dumps(r['spec'], sort_keys=True), r['ntrans'] + r['nscale'] > 0)
            for b in r['bad']:
                chk.violation(dict(stage='c13-front', what=b.split(' ')[0] + ' ' + b.split(' ')[1]), b, r['spec'])
    chk.stages['c13-front'] = dict(command_lines=nf_, rejected=nsk)
    # mirror property on the real code
    mc = mirror_cases(rng, 40 if tier == 'quick' else 1600)
    ok_, res = run_worker('geom', dict(cases=mc))
    nm = 0
    if ok_:
        for r in res['results']:
            if 'obs' not in r: continue
            a, b = r['obs']['objs']
            if a.get('assertion') or b.get('assertion'): continue
            nm += 1
            la = [float.fromhex(s['len']) for s in a['segs']]; lb = [float.fromhex(s['len']) for s in b['segs']]
            if any(abs(x - y) > 1e-9 * max(la) for x, y in zip(la, lb[::-1])):
                chk.violation(dict(stage='c13-oracle', what='taper mirror'), 'taper from end 2 %r is not the mirror image of the taper from end 1 of the reversed wire %r' % (la, lb), r['spec'])
    chk.stages['c13-mirror'] = dict(cases=nm)
    return chk.finish()
