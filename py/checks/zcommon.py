import random
from vlib import *
import stage_lin, stage_topo, gen

def run_oracle(chk, rng, ncases, task, name, grounds, families=None):
    cases = []
    # inputs on which a correspondence stage disagreed are tried first
    for k, sp in enumerate(chk.notes.get('failing_specs', [])[:16]):
        cases.append(dict(id=10 ** 6 + k, seed=rng.randrange(10 ** 9), spec=json.loads(json.dumps(sp))))
    for i in range(ncases):
        g = rng.choice(grounds)
        cases.append(dict(id=i, seed=rng.randrange(10 ** 9), spec=gen.gen_antenna(rng, ground=g, family=(rng.choice(families) if families else None))))
    shards = [cases[k::NCPU] for k in range(NCPU) if cases[k::NCPU]]
    res = run_workers(task, [dict(cases=s) for s in shards])
    n = sk = 0
    for ok, r in res:
        if not ok:
            chk.tie_broken('oracle', name, 'real code could not be run: ' + str(r)[-600:]); continue
        for x in r['results']:
            if 'error' in x:
                if x['error']['exception'] == 'ValueError' and x['error'].get('in_repo'):
                    sk += 1; continue
                report_error(chk, name, x); continue
            if x.get('skipped'):
                sk += 1; continue
            n += 1
            chk.add_case(name + ':' + json.dumps(x['spec'], sort_keys=True), True,
                         sample=dict(oracle=name, family=x['spec']['family'], cond=round(x.get('cond', 0), 1)))
            for b in x['bad']:
                sig = dict(stage=name, what=b.split(':')[0][:40])
                LOADED = 'partial_distributed_load_at_multiwire_junction'
                for fk, fv in (x.get('features') or {}).items():
                    # the feature of the loaded variant belongs to its own message only
                    if fv and ((fk == LOADED) == b.startswith('with skin-effect loads')):
                        sig = dict(stage=name, **{fk: True})
                chk.violation(sig, b, x['spec'])
    chk.stages[name] = dict(cases=n, skipped_outside_domain=sk)

def zmat_cases(chk, rng, n, grounds, families=None):
    cases = None
    if families:
        cases = [dict(id=i, seed=rng.randrange(10 ** 9), spec=gen.gen_antenna(rng, ground=rng.choice(grounds), family=rng.choice(families))) for i in range(n)]
    good, errs = stage_topo.run_zmat(chk, rng, n, grounds=grounds, cases=cases)
    for r in good:
        chk.add_case('z:' + json.dumps(r['spec'], sort_keys=True), len(r['obs']['pulses']) > 2,
                     sample=dict(family=r['spec']['family'], pulses=len(r['obs']['pulses']), ground=r['obs']['ground']))
    for r in errs:
        if r['error']['exception'] not in ('ValueError', 'IndexError'):
            report_error(chk, 'zmat', r)
