import random
from vlib import *
import stage_lin, stage_topo, gen

def run_oracle(chk, rng, ncases, task, name, grounds, families=None):
    cases = []
    rp = replay_input()
    if rp and rp['kind'] == 'spec':
        chk.notes.setdefault('failing_specs', []).insert(0, json.loads(json.dumps(rp['value'])))
    # inputs on which a correspondence stage disagreed are tried first
    for k, sp in enumerate(chk.notes.get('failing_specs', [])[:16]):
        cases.append(dict(id=10 ** 6 + k, seed=rng.randrange(10 ** 9), spec=json.loads(json.dumps(sp))))
    for i in range(ncases):
        g = rng.choice(grounds)
        cases.append(dict(id=i, seed=rng.randrange(10 ** 9), spec=gen.gen_antenna(rng, ground=g, family=(rng.choice(families) if families else None))))
    shards = [cases[k::NCPU] for k in range(NCPU) if cases[k::NCPU]]
    res = run_workers(task, [dict(cases=s) for s in shards])
    n = sk = 0
    for ok, r in res:
        if not ok:
            chk.tie_broken('oracle', name, 'real code could not be run: ' + str(r)[-600:]); continue
        for x in r['results']:
            if 'error' in x:
                if x['error']['exception'] == 'ValueError' and x['error'].get('in_repo'):
                    sk += 1; continue
                report_error(chk, name, x); continue
            if x.get('skipped'):
                sk += 1; continue
            n += 1
            chk.add_case(name + ':' + json.dumps(x['spec'], sort_keys=True), True,
                         sample=dict(oracle=name, family=x['spec']['family'], cond=round(x.get('cond', 0), 1)))
            for b in x['bad']:
                sig = dict(stage=name, what=b.split(':')[0][:40])
                LOADED = 'partial_distributed_load_at_multiwire_junction'
                for fk, fv in (x.get('features') or {}).items():
                    # the feature of the loaded variant belongs to its own message only
                    if fv and ((fk == LOADED) == b.startswith('with skin-effect loads')):
                        sig = dict(stage=name, **{fk: True})
                chk.violation(sig, b, x['spec'])
    chk.stages[name] = dict(cases=n, skipped_outside_domain=sk)

def zmat_probes(rng):
    """structures on which the copy / translation shortcuts of the matrix fill are at their limits: a tapered wire standing on the
    ground plane with a run of equal long segments (short equal halves at the ground pulse, long equal halves in the run);
    collinear wires of equal segment length and different radii joined end to end (a junction pulse with two equal, parallel
    halves on different objects), thick and thin; both over ideal ground and in free space"""
    out = []
    def case(wires, media, fam, f=30.0):
        out.append(dict(id=10 ** 6 + len(out), seed=rng.randrange(10 ** 9),
                        spec=dict(f=f, wires=wires, media=media, family=fam, tagmode='none', sources=[], loads=[])))
    lam = 299.8 / 30.0
    for media in ([], None):
        z0 = 0.0 if media is not None else 1.3
        case([gen.wire(12, [0.0, 0.0, z0], [0.0, 0.0, z0 + 0.24 * lam], 0.004, taper=[1, None, 0.03 * lam])], media, 'probe-taper-grounded')
        case([gen.wire(10, [0.3, 0.2, z0 + 0.2 * lam], [0.3, 0.2, z0], 0.004, taper=[2, None, 0.03 * lam])], media, 'probe-taper-grounded-topdown')
        for r1, r2 in ((0.025, 0.010), (0.0004, 0.0011)):
            s_ = 0.0625
            case([gen.wire(4, [0.0, 0.0, z0 + 0.5], [0.0, 4 * s_, z0 + 0.5], r1), gen.wire(5, [0.0, 4 * s_, z0 + 0.5], [0.0, 9 * s_, z0 + 0.5], r2),
                  gen.wire(4, [0.0, 9 * s_, z0 + 0.5], [0.0, 13 * s_, z0 + 0.5], r1)], media, 'probe-stepped-diameter', f=110.0)
        # thick and thin wires in one model (radius 0.1 of the segment length next to a hair-thin wire): batches of potential
        # integrals mix the two kernels
        case([gen.wire(6, [0.0, 0.0, z0 + 0.2], [0.0, 0.0, z0 + 2.0], 0.035), gen.wire(5, [0.0, 0.0, z0 + 2.0], [1.4, 0.3, z0 + 2.6], 0.0002),
              gen.wire(4, [1.2, -0.9, z0 + 0.4], [1.2, -0.9, z0 + 1.6], 0.0002)], media, 'probe-thick-and-thin', f=30.0)
    return out

def zmat_cases(chk, rng, n, grounds, families=None):
    cases = None
    if families:
        cases = [c for c in zmat_probes(rng) if (c['spec']['media'] is not None) == ('ideal' in grounds) or None in grounds]
        cases += [dict(id=i, seed=rng.randrange(10 ** 9), spec=gen.gen_antenna(rng, ground=rng.choice(grounds), family=rng.choice(families))) for i in range(n)]
    else:
        cases = zmat_probes(rng)
        for i in range(n):
            g = rng.choice(grounds)
            sp = gen.gen_topology(rng, ground=g, perturb=False) if rng.random() < 0.35 else gen.gen_antenna(rng, ground=g)
            cases.append(dict(id=i, seed=rng.randrange(10 ** 9), spec=sp))
    good, errs = stage_topo.run_zmat(chk, rng, n, grounds=grounds, cases=cases)
    for r in good:
        chk.add_case('z:' + json.dumps(r['spec'], sort_keys=True), len(r['obs']['pulses']) > 2,
                     sample=dict(family=r['spec']['family'], pulses=len(r['obs']['pulses']), ground=r['obs']['ground']))
    for r in errs:
        if r['error']['exception'] not in ('ValueError', 'IndexError'):
            report_error(chk, 'zmat', r)
