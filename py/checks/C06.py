"""C06"""
from checks.zcommon import *

def run(tier, seed):
    chk = Check('C06', tier, seed)
    chk.rule = ("structures inside the property's domain (unjoined wires two segment lengths apart, at most one wire per ground point): every wire reversed with probability 1/2, wires listed in another order, one wire split at a segment boundary; feed impedance, pulse currents by position (sign by direction), far field and near E/H field compared" + '; non-trivial = every case; distinct by full spec')
    chk.assumptions = ["PARTIAL: equivariance of the assembled solution is measured at the property's tolerance schedule; proved are the orientation independence of the potential of a source segment (symmetric Gauss tables), the junction sense rule and KCL-consistent signs", 'the matrix fill is tied to Model/ZMatrix.v entry by entry (stage zmat)']
    standard_front(chk, 'Props/C06.v', needs_items=(),
                   extra_vo=('Model/Kernel.v', 'Model/ZMatrix.v', 'Model/Topology.v', 'Proofs/KernelP.v', 'Proofs/ZMatrixP.v', 'Corr/ZDriver.v', 'Gen/Tables.v'))
    rng = random.Random(seed)
    q = tier == 'quick'
    zmat_cases(chk, rng, 32 if q else 1600, (None, None, 'ideal'))
    # fixed probe for the recorded finding C06-junction-length-ratio
    probe = dict(f=21.0, media=None, family='probe-taper-junction', tagmode='none', sources=[], loads=[], wires=[
        dict(type='wire', nseg=6, p1=[0.0, 0.0, 0.0], p2=[3.7, 0.0, 0.0], r=0.0041, tag=None, taper=[2, None, None]),
        dict(type='wire', nseg=4, p1=[3.7, 0.0, 0.0], p2=[3.7, 2.124, 0.0], r=0.0077, tag=None, taper=None)])
    for _ in range(5):      # several copies: each draws its own reversal / order / split
        chk.notes.setdefault('failing_specs', []).insert(0, json.loads(json.dumps(probe)))
    # fixed probe for the recorded finding C06-partial-load-at-multiwire-junction (the oracle loads conductor 0 of it)
    tee = dict(f=50.0, media=[], family='probe-tee-partial-load', tagmode='none', sources=[], loads=[], loaded=[0], wires=[
        dict(type='wire', nseg=3, p1=[0.4788746053933119, 0.106208347016158, 0.5086252755378776], p2=[0.02912017528775452, -0.5100669260245381, 0.5086252755378776], r=0.002569129307207997, tag=None, taper=None),
        dict(type='wire', nseg=2, p1=[0.02912017528775452, -0.5100669260245381, 0.5086252755378776], p2=[0.02912017528775452, -0.5100669260245381, 0.0], r=0.002496488446937928, tag=None, taper=None),
        dict(type='wire', nseg=4, p1=[0.02912017528775452, -0.5100669260245381, 0.5086252755378776], p2=[-0.570552398186322, -1.3317672900787996, 0.5086252755378776], r=0.001486227605481688, tag=None, taper=None)])
    for _ in range(4):
        chk.notes.setdefault('failing_specs', []).insert(0, json.loads(json.dumps(tee)))
    nor = 24 if (q and not chk.broken) else (64 if q else 1600)
    run_oracle(chk, rng, nor, 'zor.c06', 'c06-oracle', (None, None, 'ideal'))
    return chk.finish()
