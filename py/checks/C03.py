"""C03"""
from checks.zcommon import *

def run(tier, seed):
    chk = Check('C03', tier, seed)
    chk.rule = ('antennas over ideal ground (vertical, sloping, horizontal, bent, branched, several grounded wires; 1-4 complex sources on interior, junction and grounded pulses): the ground run is compared with a generated free-space run of antenna plus mirror image (grounded wires continued with doubled segment count, image sources in mirror sense, 2V at the centre of wire plus image)' + '; non-trivial = every case; distinct by full spec')
    chk.assumptions = ["PARTIAL: equality of the two SYSTEMS' solutions is measured (5e-4, growing with the condition number as the property states); proved are the image term, the kernel of the image pass, the weights, the far-field masks and the 3.0103 dB", 'the matrix fill is tied to Model/ZMatrix.v entry by entry (stage zmat)']
    standard_front(chk, 'Props/C03.v', needs_items=('rhs_entry', 'ff_k9', 'ff_t1', 'ff_f3'),
                   extra_vo=('Model/Kernel.v', 'Model/ZMatrix.v', 'Model/Topology.v', 'Proofs/KernelP.v', 'Proofs/ZMatrixP.v', 'Corr/ZDriver.v', 'Gen/Tables.v'))
    rng = random.Random(seed)
    q = tier == 'quick'
    fams = ['sloper', 'sloper', 'sloper', 'mono', 'invl', 'tee', 'mono2', 'two_g', 'dipole_h']
    zmat_cases(chk, rng, 48 if q else 2400, ('ideal',), families=fams)
    # tapered wires standing on the ground plane: always tried by the mirror oracle
    for c_ in zmat_probes(rng):
        if c_['spec']['family'].startswith('probe-taper-grounded') and c_['spec']['media'] is not None:
            chk.notes.setdefault('failing_specs', []).append(json.loads(json.dumps(c_['spec'])))
    # feet a rounding error below / above the plane (0.3 - 0.1 - 0.2 = -2.8e-17): still standing on it
    for z_ in (-2.8e-17, -1e-9, 5.6e-17):
        chk.notes.setdefault('failing_specs', []).append(dict(f=30.0, media=[], family='probe-foot-rounding', tagmode='none', sources=[], loads=[],
            wires=[gen.wire(6, [0.2, 0.1, z_], [0.2, 0.1, 2.3], 0.001)]))
        chk.notes.setdefault('failing_specs', []).append(dict(f=30.0, media=[], family='probe-foot-rounding-invl', tagmode='none', sources=[], loads=[],
            wires=[gen.wire(5, [0.3, 0.0, 2.0], [0.3, 0.0, z_], 0.001), gen.wire(4, [0.3, 0.0, 2.0], [2.0, 0.5, 2.0], 0.001)]))
    # the weight 2 of grounded excitations (rhs_entry) and the far-field scalars the theorems use are evaluated against the real
    # code here too: stages lin and ff
    import stage_lin, stage_ff
    out_, errs_ = stage_lin.run_stage(chk, rng, 16 if q else 600)
    for r_ in errs_: report_error(chk, 'lin', r_)
    good_, errs_ = stage_ff.run_stage(chk, rng, 16 if q else 600, grounds=('ideal',))
    for r_ in errs_: report_error(chk, 'ff', r_)
    nor = 24 if (q and not chk.broken) else (64 if q else 1600)
    run_oracle(chk, rng, nor, 'zor.c03', 'c03-oracle', ('ideal',), families=fams)
    return chk.finish()
