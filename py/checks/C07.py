"""C07 — Currents are linear in the source voltages; V/I and Re(VI*)/2."""
import random
from vlib import *
import stage_lin

def run_oracle(chk, rng, ncases):
    cases = stage_lin.gen_cases(rng, ncases)
    shards = [cases[k::NCPU] for k in range(NCPU) if cases[k::NCPU]]
    res = run_workers('linor.c07', [dict(cases=s) for s in shards])
    n = 0
    for ok, r in res:
        if not ok:
            chk.tie_broken('oracle', 'c07', 'real code could not be run: ' + str(r)[-600:])
            continue
        for x in r['results']:
            if 'error' in x:
                report_error(chk, 'c07-oracle', x)
                continue
            n += 1
            key = json.dumps(x['spec'], sort_keys=True)
            chk.add_case('or:' + key, x['nsrc'] > 1 or x['complex_v'],
                         sample=dict(oracle='c07', family=x['spec']['family'], sources=x['spec']['sources']))
            for b in x['bad']:
                chk.violation(dict(stage='c07-oracle', what=b.split(':')[0][:60]), b, x['spec'])
    chk.stages['c07-oracle'] = dict(cases=n, relations='scaling, superposition (0 V and single-source models), registration order, V/I, Re(VI*)/2, total power')

def run(tier, seed):
    chk = Check('C07', tier, seed)
    chk.rule = ('antennas from the seeded generator (py/gen.py: dipoles, bends, stars, loops, chains, monopoles, inverted L, T over '
                'ideal/real ground; 1-4 complex sources incl. grounded pulses; lumped loads); non-trivial = more than one source '
                'or a complex voltage; distinct by full spec')
    chk.assumptions = ['numpy.linalg.solve modelled by its specification: the returned current is checked as a certificate (residual of Z I = rhs)',
                       'Z nonsingular is an explicit hypothesis (injective_on) of the linearity theorem']
    standard_front(chk, 'Props/C07.v', needs_items=('rhs_entry', 'src_power', 'src_impedance'),
                   extra_vo=('Proofs/Linear.v', 'Model/Solve.v', 'Corr/LinDriver.v'))
    rng = random.Random(seed)
    ncases = 48 if tier == 'quick' else 1600
    out, errs = stage_lin.run_stage(chk, rng, ncases)
    for r, o, mt in out:
        key = json.dumps(r['spec'], sort_keys=True)
        nontriv = len(o['sources']) > 1 or any(float.fromhex(s['v'][1]) != 0 for s in o['sources'])
        chk.add_case(key, nontriv, sample=dict(family=r['spec']['family'], n=o['n'], sources=r['spec']['sources']) if nontriv else None)
    for r in errs:
        report_error(chk, 'lin', r)
    # the search oracle runs at reduced size in quick mode, at full size when a tie broke or in thorough mode
    nor = 24 if (tier == 'quick' and not chk.broken) else (60 if tier == 'quick' else 1200)
    run_oracle(chk, rng, nor)
    return chk.finish()
