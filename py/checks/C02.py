"""C02 — Impedance-matrix terms equal the MININEC-3 potential-integral formulation."""
from checks.zcommon import *

def run(tier, seed):
    chk = Check('C02', tier, seed)
    chk.rule = ('antenna families and random wire graphs (junctions of different radii / segment lengths in every end-to-end combination, '
                'grounded ends, tapers, arcs, helices) in free space and over ground, thin and thick wires: EVERY matrix entry is compared '
                'with the Coq model; the oracle re-evaluates up to 24 far pairs per antenna with adaptive quadrature; non-trivial = more than '
                '2 pulses; distinct by full spec')
    chk.assumptions = ['scipy.special.ellipk modelled by an AGM iteration, numpy leggauss tables dumped at run time (exact dyadics), libm by Base/FloatLib.v',
                       'PARTIAL: agreement of the Gauss 8/4/2 quadrature with the exact integral (the 1e-4 clause) is measured by the oracle; '
                       'the refinement to an abstract exact-integration functional is proved for directly computed entries and the image term, not yet for copied / derived entries']
    standard_front(chk, 'Props/C02.v', needs_items=('fset',), extra_vo=('Model/Kernel.v', 'Model/ZMatrix.v', 'Proofs/KernelP.v', 'Proofs/ZMatrixP.v', 'Corr/ZDriver.v', 'Gen/Tables.v'))
    rng = random.Random(seed)
    q = tier == 'quick'
    zmat_cases(chk, rng, 48 if q else 2400, (None, None, 'ideal'))
    first = chk.stages.pop('zmat', None)
    tj = [dict(id=1000 + i, seed=rng.randrange(10 ** 9), spec=gen.gen_antenna(rng, family='taperjoin')) for i in range(16 if q else 480)]
    g2, e2 = stage_topo.run_zmat(chk, rng, 0, cases=tj)
    chk.stages['zmat-taperjoin'] = chk.stages.pop('zmat')
    if first: chk.stages['zmat'] = first
    cases = [dict(id=10 ** 6 + k, seed=rng.randrange(10 ** 9), spec=json.loads(json.dumps(sp)))
             for k, sp in enumerate(chk.notes.get('failing_specs', [])[:16])]
    # a sweep step across the thin / thick wire limit (radius 1e-4 wavelengths) with segments of a few radii: everything derived
    # from the frequency has to follow it
    for k_, (f1, f2) in enumerate(((2.8, 3.0), (3.0, 2.8), (3.2, 2.9))):
        cases.append(dict(id=2 * 10 ** 6 + k_, seed=rng.randrange(10 ** 9), spec=dict(
            f=f2, pre_factor=f1 / f2, media=None, family='probe-sweep-thin-thick', tagmode='none', sources=[], loads=[], wires=[
                gen.wire(12, [0.0, 0.0, 0.0], [0.0, 0.72, 0.0], 0.0102), gen.wire(11, [0.0, 0.72, 0.0], [0.5, 1.2, 0.1], 0.0102)])))
    for i in range(24 if (q and not chk.broken) else (64 if q else 1200)):
        g = rng.choice((None, None, 'ideal'))
        spec = gen.gen_topology(rng, ground=g, perturb=False) if rng.random() < 0.3 else gen.gen_antenna(rng, ground=g, family=('taperjoin' if rng.random() < 0.25 else None))
        cases.append(dict(id=i, seed=rng.randrange(10 ** 9), spec=spec))
    shards = [cases[k::NCPU] for k in range(NCPU) if cases[k::NCPU]]
    res = run_workers('zor.c02', [dict(cases=s, pairs=24 if q else 240) for s in shards])
    n = sk = npairs = 0; worst = 0.0
    for ok, r in res:
        if not ok:
            chk.tie_broken('oracle', 'c02-oracle', 'real code could not be run: ' + str(r)[-600:]); continue
        for x in r['results']:
            if 'error' in x:
                if x['error']['exception'] in ('ValueError', 'IndexError'): sk += 1; continue
                report_error(chk, 'c02-oracle', x); continue
            if x.get('skipped'): sk += 1; continue
            n += 1; npairs += x['checked']; worst = max(worst, x['worst'])
            chk.add_case('or:' + json.dumps(x['spec'], sort_keys=True), True, sample=dict(oracle='c02', family=x['spec']['family'], pairs=x['checked'], worst=x['worst']))
            for b in x['bad']:
                chk.violation(dict(stage='c02-oracle', what='deviation from the published formulation'), b, x['spec'])
    chk.stages['c02-oracle'] = dict(antennas=n, skipped=sk, far_pairs=npairs, worst_deviation=worst)
    return chk.finish()
