"""C09 — Kirchhoff current law and end conditions in the current report."""
import random, math
from vlib import *
import stage_topo

def oracle(chk, good):
    n = 0
    for r in good:
        o = r['obs']
        n += 1
        # the matching tolerance and the grounded ends are re-derived here from the coordinates (1/1000 of the shortest segment of the
        # whole structure; an end within it of the ground plane), not taken from the objects
        tol = 1e-3 * min(float.fromhex(s_['len']) for g in o['geos'] for s_ in g['segs'])
        gflags = {g['n']: [bool(o['ground']) and abs(float.fromhex(g.get('s' + k, g[k])[2])) < tol for k in ('p1', 'p2')] for g in o['geos']}
        cur = [complex(float.fromhex(a), float.fromhex(b)) for a, b in o['cur']]
        # junctions by coordinates; expected end current from pulse geometry alone
        ends = []
        for g, b in zip(o['geos'], o['blocks']):
            for e, key in ((0, 'p1'), (1, 'p2')):
                if gflags[g['n']][e]:
                    continue
                pt = [float.fromhex(v) for v in g.get('s' + key, g[key])]       # the end of the conductor as it is segmented
                # total of the pulse currents through this wire end, positive along the wire:
                # pulses having a half on this object's end segment at this end point
                tot = 0j; cnt = 0
                si = 0 if e == 0 else g['nseg'] - 1
                for p in o['pulses']:
                    if math.dist([float.fromhex(v) for v in p['point']], pt) > 1.0001 * tol:
                        continue
                    for h in (0, 1):
                        if p['segs'][h] == [g['n'], si] and not p['gnd'][h]:
                            tot += p['dsgn'][h] * cur[p['idx']]; cnt += 1
                ends.append(dict(obj=g['n'], e=e, pt=pt, line=b['ends'][e], expect=tot, npulses=cnt))
        # group into junctions
        used = [False] * len(ends)
        for a in range(len(ends)):
            if used[a]: continue
            grp = [a]; used[a] = True
            for b in range(a + 1, len(ends)):
                if not used[b] and math.dist(ends[a]['pt'], ends[b]['pt']) <= tol:
                    grp.append(b); used[b] = True
            members = [ends[k] for k in grp]
            if len(members) == 1:
                m = members[0]
                if m['line'] is None or m['line'][0] != 'E':
                    chk.violation(dict(stage='c09-oracle', what='free end'), 'unconnected end %d of object %d is not reported as E 0: %r' % (m['e'] + 1, m['obj'], m['line']), r['spec'])
                continue
            tot = 0j; scale = 1e-30
            first_end_multi = False
            for m in members:
                if m['line'] is None or m['line'][0] != 'J':
                    chk.violation(dict(stage='c09-oracle', what='junction end without J line'), 'end %d of object %d at a junction prints %r' % (m['e'] + 1, m['obj'], m['line']), r['spec'])
                    continue
                c = complex(m['line'][1], m['line'][2])
                tot += c if m['e'] == 1 else -c
                scale = max(scale, abs(c))
            owner = min(members, key=lambda m: (m['obj'], m['e']))
            sig = dict(stage='c09-oracle', what='kcl')
            if owner['e'] == 0 and len(members) >= 3:
                sig['first_end_owner_with_two_or_more_joiners'] = True
            # each reported junction-end current = total of the pulse currents through that wire end
            for m in members:
                if m['line'] is None or m['line'][0] != 'J':
                    continue
                c = complex(m['line'][1], m['line'][2])
                if abs(c - m['expect']) > 2e-5 * max(abs(c), abs(m['expect']), 1e-30):
                    s2 = dict(stage='c09-oracle', what='kcl')
                    if m is owner and owner['e'] == 0 and len(members) >= 3:
                        s2['first_end_owner_with_two_or_more_joiners'] = True
                    else:
                        s2 = dict(stage='c09-oracle', what='end total')
                    chk.violation(s2, 'end %d of object %d prints %r, the pulse currents through that end total %r (%d pulses)' % (
                        m['e'] + 1, m['obj'], c, m['expect'], m['npulses']), r['spec'])
            if abs(tot) > 2e-5 * scale:
                chk.violation(sig, 'currents into the junction at %r sum to %r (largest %.3g): %s' % (
                    [round(x, 6) for x in owner['pt']], tot, scale, [(m['obj'], m['e'] + 1, m['line']) for m in members]), r['spec'])
    chk.stages['c09-oracle'] = dict(cases=n)

KNOWN_PROBE = dict(f=14.2, media=None, family='probe-first-end-star', tagmode='none', sources=[], loads=[], wires=[
    dict(type='wire', nseg=3, p1=[0, 0, 0], p2=[2.0, 0, 0], r=0.001, tag=None, taper=None),
    dict(type='wire', nseg=3, p1=[0, 0, 0], p2=[0, 2.0, 0], r=0.001, tag=None, taper=None),
    dict(type='wire', nseg=3, p1=[0, 0, 0], p2=[0, 0, 2.0], r=0.001, tag=None, taper=None)])

def _w(n, p1, p2, r=0.001):
    return dict(type='wire', nseg=n, p1=list(map(float, p1)), p2=list(map(float, p2)), r=r, tag=None, taper=None)
_C, _S = math.cos(math.radians(60)), math.sin(math.radians(60))
def low_junction_probes():
    """junctions a few millimetres above a ground plane: above 1/1000 of the structure's shortest segment, below 1/1000 of the
    segment length of a wire ending there, or below the radius of a thick wire ending there"""
    out = []
    for h, L, n in ((0.005, 20.0, 2), (0.01, 30.0, 3), (0.002, 12.0, 2)):
        out.append([_w(n, [L, 0, 0.5], [0, 0, h]), _w(n, [-L * _C, L * _S, 0.5], [0, 0, h]), _w(n, [-L * _C, -L * _S, 0.5], [0, 0, h]),
                    _w(10, [0, 0, h], [0, 0, 10 + h])])
        out.append([_w(n, [L, 0, 1], [0, 0, h]), _w(8, [0, 0, h], [0, 0, 8 + h]), _w(8, [0, 0, 8 + h], [-8, 0, 8 + h])])
    for up in (True, False):
        a, b = [0, 0, 0.02], [0, 0, 5.02]
        tube = _w(10, a, b, 0.025) if up else _w(10, b, a, 0.025)
        out.append([tube, _w(5, [0, 0, 0.02], [5, 0, 0.02]), _w(5, [0, 0, 0.02], [-5 * _C, 5 * _S, 0.02]), _w(5, [-5 * _C, -5 * _S, 0.02], [0, 0, 0.02])])
        out.append([_w(5, [0, 0, 0.02], [4, 0, 0.02]), tube])
    return [dict(f=7.1, media=[], family='probe-low-junction', tagmode='none', sources=[], loads=[], wires=ws) for ws in out]

def run(tier, seed):
    chk = Check('C09', tier, seed)
    chk.rule = ('random wire graphs (chains, stars of up to 5 ends in every first/second-end combination and order, closed loops, with and '
                'without ground) with random complex pulse currents injected; the CURRENT DATA block is parsed; non-trivial = at least one '
                'junction; distinct by full spec')
    chk.assumptions = ['printed numbers carry 6-7 digits: J lines are compared at 6e-6 relative',
                       'KCL is a theorem for the sum of the joiners\' terms; the code\'s first-end overwrite is modelled faithfully (owner_current_code) and recorded as a known finding']
    standard_front(chk, 'Props/C09.v', extra_vo=('Model/Topology.v', 'Model/Report.v', 'Proofs/ReportP.v', 'Corr/TopoDriver.v'))
    rng = random.Random(seed)
    cases_extra = [dict(id=10 ** 6, seed=1, spec=KNOWN_PROBE)]
    cases_extra += [dict(id=10 ** 6 + 1 + k, seed=1, spec=sp) for k, sp in enumerate(low_junction_probes())]
    good, errs = stage_topo.run_junc(chk, rng, 80 if tier == 'quick' else 4000)
    g2, e2 = stage_topo._run_generic(chk, 'topo.junc', cases_extra, 'junc')
    for r in good + g2:
        o = r['obs']
        nj = sum(1 for b in o['blocks'] for l in b['ends'] if l is not None and l[0] == 'J')
        chk.add_case(json.dumps(r['spec'], sort_keys=True), nj > 0,
                     sample=dict(family=r['spec']['family'], objects=len(o['geos']), j_lines=nj))
    for r in errs + e2:
        if r['error']['exception'] != 'ValueError':
            report_error(chk, 'junc', r)
    oracle(chk, good + g2)
    return chk.finish()
