"""C20 — Command line is fail-safe: complete finite report or one-line diagnostic."""
from checks.zcommon import *
import stage_main

def run(tier, seed):
    chk = Check('C20', tier, seed)
    chk.rule = ('valid generated command lines (as for C15, with field requests) with one to three mutations: a field replaced by zero, a negative, '
                'huge, denormal or non-finite number, an integer out of range or junk; a field dropped or added; an option duplicated, dropped '
                'or added with arbitrary values (media, radials, all load kinds, attachments, transformations, tapers, wires / arcs / helices, '
                'sources, frequency and sweep, near field, angles, power levels, report options, unknown options); the real main is run with '
                'stdout / stderr captured; non-trivial = mutated line; distinct by argv; runs longer than 40 s are not classified')
    chk.assumptions = ['interpreter warnings (numpy RuntimeWarning) and the timing lines of -T are not counted as diagnostic lines',
                       'PARTIAL: the theorems cover the guards of main (frequency range sufficient for a finite wave number, classification of '
                       'outcomes, exception kinds versus handlers of each stage as transcribed); that the transcribed table is what the code does '
                       'is the job of the stage `main` correspondence and of the oracle; termination within bounded time and memory for huge but '
                       'finite sizes is not decided']
    standard_front(chk, 'Props/C20.v', needs_items=('fset', 'main_sites'), extra_vo=('Model/Main.v', 'Proofs/MainP.v', 'Gen/MainFlow.v', 'Proofs/MainFlowP.v'))
    stage_main.unsafe_sites(chk)
    rng = random.Random(seed)
    q = tier == 'quick'
    stage_main.run_rows(chk)
    cases = [dict(id=i, seed=rng.randrange(10 ** 9)) for i in range(640 if q else 64000)]
    rp = replay_input()
    if rp and rp['kind'] == 'argv':
        cases.insert(0, dict(id=2 * 10 ** 6, seed=1, argv=list(rp['value']), what=['replay']))
    # a fixed grid of option combinations around the constructors that validate several options together
    W = ['-w', '5,0,0,5,0,0,15,0.001', '--excitation-pulse=3']
    grid = []
    for med in ([], ['--medium=0,0,0'], ['--medium=13,0.005,0'], ['--medium=13,0.005,0,10', '--medium=5,0.001,-1'],
                ['--medium=13,0.005,0,10', '--medium=5,0.001,-1', '--boundary=circular']):
        for cnt in (None, '-1', '0', '8'):
            for rad in (None, '0', '-1', '0.001', 'inf'):
                grid.append(W + med + ([] if cnt is None else ['--radial-count=' + cnt]) + ([] if rad is None else ['--radial-radius=' + rad]))
    for a in (['--insulation-load=0.002,2.5'], ['--insulation-load=0.0005,2.5'], ['--insulation-load=0.002,2.5', '--insulation-load=0.003,2'],
              ['--skin-effect-conductivity=1e6', '--skin-effect-resistivity=1e-6'], ['--skin-effect-conductivity=1e6,1', '--skin-effect-conductivity=2e6,1']):
        grid.append(W + a)
    for k1 in ('1', '1.0', '0'):
        for k2 in ('1', '2'):
            grid.append(W + ['--geo-rotate=%s,0,0,90' % k1, '--geo-translate=%s,0,0,2' % k2])
            grid.append(W + ['--geo-translate=%s,1,0,0' % k1, '--geo-translate=%s,0,0,2' % k2])
            grid.append(W + ['--geo-rotate=%s,10,0,0' % k1, '--geo-rotate=%s,0,0,20' % k2])
    for k, a in enumerate(grid):
        cases.append(dict(id=10 ** 6 + k, seed=0, argv=a, what=['grid']))
    shards = [cases[k::NCPU] for k in range(NCPU) if cases[k::NCPU]]
    res = run_workers('mainf.c20', [dict(cases=s) for s in shards], timeout=6000)
    kinds = {}; n = 0
    for ok, r in res:
        if not ok:
            chk.tie_broken('oracle', 'c20-oracle', 'real code could not be run: ' + str(r)[-600:]); continue
        for x in r['results']:
            if 'error' in x:
                chk.tie_broken('oracle', 'c20-oracle', 'harness error: %r' % x['error']); continue
            o = x['outcome']; k = o['kind']
            kinds[k] = kinds.get(k, 0) + 1
            if k == 'timeout': continue
            n += 1
            chk.add_case('argv:' + json.dumps(x['argv']), x['what'] != ['valid'], sample=dict(oracle='c20', outcome=k, mutations=x['what']))
            if k in ('report', 'diag', 'usage'): continue
            if k == 'uncaught':
                sig = dict(stage='c20-oracle', exception=o['error']['exception'], raised_in=o['error']['raised_in'])
                det = 'uncaught %s in %s: %s' % (o['error']['exception'], o['error']['raised_in'], o['error']['message'][:200])
            elif k == 'nonfinite':
                sig = dict(stage='c20-oracle', kind='nonfinite', section=o.get('section', ''))
                det = 'the report contains a non-finite number in section %r: %s' % (o.get('section'), o.get('detail'))
            else:
                sig = dict(stage='c20-oracle', kind=k)
                det = '%s: %s' % (k, o.get('detail'))
            chk.violation(sig, det, dict(argv=x['argv'], mutations=x['what']))
    chk.stages['c20-oracle'] = dict(classified=n, outcomes=kinds)
    return chk.finish()
