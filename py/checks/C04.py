"""C04 — Near fields are the fields of the solved currents."""
from checks.zcommon import *

def run(tier, seed):
    chk = Check('C04', tier, seed)
    chk.rule = ('antenna families (junctions of different radii / segment lengths, grounded ends, tapers, bends) in free space and over ideal '
                'ground, solved with random sources; E and H at random observation points are compared with the Coq model; the oracle '
                're-evaluates E = -jwA - grad Phi and H = curl A / mu0 of the solved currents and charges with adaptive quadrature on '
                'geometry derived from the touching segments, and compares the field at 60..1000 wavelengths with the reported far field; '
                'non-trivial = solved antenna with at least 2 pulses; distinct by full spec')
    chk.assumptions = ['libm by Base/FloatLib.v, leggauss tables dumped at run time',
                       'PARTIAL: the 1 % agreement with the exact thin-wire fields and the far-zone limits (E/H, transversality, far-field match) '
                       'are numerical-accuracy claims measured by the oracle; the theorems give the structure (virtual matrix row, curl of A, '
                       'linearity, power scaling, constants)']
    standard_front(chk, 'Props/C04.v', needs_items=('fset',), extra_vo=('Model/Kernel.v', 'Model/ZMatrix.v', 'Model/NearField.v', 'Proofs/NearFieldP.v', 'Corr/ZDriver.v', 'Gen/Tables.v'))
    rng = random.Random(seed)
    q = tier == 'quick'
    good, errs = stage_topo.run_nf(chk, rng, 40 if q else 1600, grounds=(None, None, 'ideal'))
    for r in good:
        chk.add_case('nf:' + json.dumps(r['spec'], sort_keys=True), len(r['obs']['pulses']) >= 2,
                     sample=dict(family=r['spec']['family'], pulses=len(r['obs']['pulses']), ground=r['obs']['ground']))
    for r in errs:
        if r['error']['exception'] not in ('ValueError', 'IndexError'):
            report_error(chk, 'nf', r)
    run_oracle(chk, rng, 32 if q else 1280, 'zor.c04', 'c04-oracle', (None, None, 'ideal'))
    return chk.finish()
