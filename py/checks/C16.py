"""C16 — Field tables contain exactly the requested sample points."""
import random, math, re
from vlib import *

HEADER = '''From Coq Require Import ZArith List PrimFloat.
Import ListNotations.
From PM Require Import Base.Num Base.FNum Base.NumpyLib Gen.Extracted.
Set Printing Depth 10000000.
Set Printing Width 200.
Definition flat3 (l : list (float * float * float)) : list float :=
  flat_map (fun p => [fst (fst p); snd (fst p); snd p]) l.
Definition flat2 (l : list (float * float)) : list float :=
  flat_map (fun p => [fst p; snd p]) l.
Definition near (sx ix nx sy iy ny sz iz nz : float) : list float :=
  flat3 (@grid3 FNum (grid_axis sx ix nx) (grid_axis sy iy ny) (grid_axis sz iz nz)).
Definition far (t0 dt : float) (nt : Z) (p0 dp : float) (np : Z) : list float :=
  flat2 (@ff_rows FNum (angle_deg nt t0 dt) (angle_deg np p0 dp)).
'''

STARTS = [0.0, -1.0, 0.1, 1/3, -2.5, 1000.0, 90.0, 1e-3, -0.05, 7.3]
INCS   = [0.1, 0.05, -0.3, 1/3, 1.0, 0.7, 1e-3, -0.1, 2.5, 0.2, 0.15, -1.0, 1e-2, 3.3]

def gen_cases(rng, tier):
    cases = []
    cid = 0
    def near(s, i, n):
        nonlocal cid
        cid += 1
        cases.append(dict(id=cid, near=[[float(x).hex() for x in s], [float(x).hex() for x in i], list(n)]))
    def far(t0, dt, nt, p0, dp, np_):
        nonlocal cid
        cid += 1
        cases.append(dict(id=cid, far=[float(t0).hex(), float(dt).hex(), nt, float(p0).hex(), float(dp).hex(), np_]))
    if tier == 'thorough':
        # every count 1..100 with every listed increment on one axis
        for inc in INCS:
            for n in range(1, 101):
                ax = rng.randrange(3)
                s = [rng.choice(STARTS) for _ in range(3)]
                i = [1.0, 1.0, 1.0]; nn = [1, 1, 1]
                i[ax] = inc; nn[ax] = n
                near(s, i, nn)
        for _ in range(150):
            near([rng.choice(STARTS) for _ in range(3)],
                 [rng.choice(INCS) for _ in range(3)],
                 [rng.randint(1, 6) for _ in range(3)])
        for _ in range(150):
            s = [rng.uniform(-50, 50) for _ in range(3)]
            i = [rng.choice([-1, 1]) * 10 ** rng.uniform(-3, 1) for _ in range(3)]
            near(s, i, [rng.randint(1, 5), rng.randint(1, 5), rng.randint(1, 5)])
        for nt in range(1, 101, 3):
            far(rng.choice(STARTS), rng.choice(INCS), nt, rng.choice(STARTS), rng.choice(INCS), rng.randint(1, 4))
            far(rng.choice(STARTS), rng.choice(INCS), rng.randint(1, 4), rng.choice(STARTS), rng.choice(INCS), nt)
    else:
        for inc in INCS:
            for n in (1, 2, 3, 6, 12, rng.randint(13, 100), 100):
                ax = rng.randrange(3)
                s = [rng.choice(STARTS) for _ in range(3)]
                i = [1.0, 1.0, 1.0]; nn = [1, 1, 1]
                i[ax] = inc; nn[ax] = n
                near(s, i, nn)
        for _ in range(12):
            near([rng.choice(STARTS) for _ in range(3)],
                 [rng.choice(INCS) for _ in range(3)],
                 [rng.randint(1, 5) for _ in range(3)])
        for _ in range(25):
            far(rng.choice(STARTS), rng.choice(INCS), rng.randint(1, 40),
                rng.choice(STARTS), rng.choice(INCS), rng.randint(1, 12))
    # probe for the listed finding: zero increment
    cid += 1
    cases.append(dict(id=cid, near=[[0.0.hex()] * 3, [0.0.hex(), 0.0.hex(), 1.0.hex()], [1, 1, 5]], probe='zero-inc'))
    return cases

def coq_case(c):
    if 'near' in c:
        s, i, n = c['near']
        a = []
        for k in range(3):
            a += [fhex(float.fromhex(s[k])), fhex(float.fromhex(i[k])), fhex(float(n[k]))]
        return 'Eval vm_compute in (near %s).' % ' '.join(a)
    t0, dt, nt, p0, dp, np_ = c['far']
    return 'Eval vm_compute in (far %s %s (%d)%%Z %s %s (%d)%%Z).' % (
        fhex(float.fromhex(t0)), fhex(float.fromhex(dt)), nt,
        fhex(float.fromhex(p0)), fhex(float.fromhex(dp)), np_)

def oracle_case(c, r):
    """The property itself, checked on the real output. Returns None or text."""
    if 'near' in c:
        s, i, n = c['near']
        s = [float.fromhex(x) for x in s]; i = [float.fromhex(x) for x in i]
        N = n[0] * n[1] * n[2]
        pts = [[float.fromhex(v) for v in p] for p in r['coord']]
        if len(pts) != N or r['n_e'] != N or r['n_h'] != N or r['rep_points'] != 2 * N:
            return 'near-field: %d points, %d E, %d H, %d report blocks for request %s (= %d)' % (
                len(pts), r['n_e'], r['n_h'], r['rep_points'], n, N)
        for k, p in enumerate(pts):
            idx = (k % n[0], (k // n[0]) % n[1], k // (n[0] * n[1]))
            for a in range(3):
                want = s[a] + idx[a] * i[a]
                if abs(p[a] - want) > 1e-9 * (abs(s[a]) + abs(idx[a] * i[a]) + 1e-300):
                    return 'near-field point %d axis %d is %r, expected %r' % (k, a, p[a], want)
        # the printed field points, E blocks then H blocks, in the same order (7 digits printed)
        for blk in (r.get('rep_coord', [])[:N], r.get('rep_coord', [])[N:2 * N]):
            for k, p in enumerate(blk):
                idx = (k % n[0], (k // n[0]) % n[1], k // (n[0] * n[1]))
                for a in range(3):
                    want = s[a] + idx[a] * i[a]
                    if abs(p[a] - want) > 1e-6 * abs(want) + 1e-6:
                        return 'printed near-field point %d axis %d is %r, expected %r' % (k, a, p[a], want)
        return None
    t0, dt, nt, p0, dp, np_ = c['far']
    t0, dt, p0, dp = [float.fromhex(x) for x in (t0, dt, p0, dp)]
    zen = [float.fromhex(v) for v in r['zen']]
    azi = [float.fromhex(v) for v in r['azi']]
    if len(zen) != nt * np_ or len(azi) != nt * np_ or r['rep_rows'] != nt * np_:
        return 'far-field: %d rows (%d printed) for %d x %d' % (len(zen), r['rep_rows'], nt, np_)
    for k in range(nt * np_):
        wz, wa = t0 + (k % nt) * dt, p0 + (k // nt) * dp
        if abs(zen[k] - wz) > 1e-9 * (abs(wz) + 1e-12) or abs(azi[k] - wa) > 1e-9 * (abs(wa) + 1e-12):
            return 'far-field row %d is (%r, %r), expected (%r, %r)' % (k, zen[k], azi[k], wz, wa)
    # the printed tables: row k names direction k (dB table 7 digits, V/m table two decimals)
    for name, rows, tol in (('dB', r.get('rep_db', []), 1e-6), ('V/m', r.get('rep_abs', []), 5.1e-3)):
        if len(rows) != nt * np_:
            return 'far-field %s table: %d rows printed for %d x %d' % (name, len(rows), nt, np_)
        for k, row in enumerate(rows):
            wz, wa = t0 + (k % nt) * dt, p0 + (k // nt) * dp
            if abs(row[0] - wz) > tol * max(abs(wz), 1) or abs(row[1] - wa) > tol * max(abs(wa), 1):
                return 'printed far-field %s table row %d is (%r, %r), expected (%r, %r)' % (name, k, row[0], row[1], wz, wa)
    return None

def run(tier, seed):
    chk = Check('C16', tier, seed)
    chk.rule = ('near-field cases (start, increment, count per axis) and far-field cases (start, step, '
                'count for theta and phi) from a seeded generator over listed awkward decimals, negative '
                'steps and counts 1..100; a case is non-trivial when some count > 1; distinct by input tuple')
    chk.assumptions = ['numpy.arange/meshgrid modelled by Base/NumpyLib.v (np_arange, grid3, ff_rows), validated by this stage',
                       'binary64 count clause proved under the explicit arange-length hypothesis; unconditional over R for inc <> 0']
    st, th = standard_front(chk, 'Props/C16.v', needs_items=('angle_deg', 'grid_axis'),
                            extra_vo=('Proofs/Grid.v', 'Proofs/GridF.v'))
    rng = random.Random(seed)
    cases = gen_cases(rng, tier)
    shards = [cases[k::NCPU] for k in range(NCPU) if cases[k::NCPU]]
    res = run_workers('grid', [dict(cases=s) for s in shards])
    byid = {}
    for ok, r in res:
        if not ok:
            chk.tie_broken('correspondence', 'grid', 'real code could not be run: ' + str(r)[-800:])
            continue
        for x in r['results']:
            byid[x['id']] = x
    # model side
    model = {}
    if vo_ok('Gen/Extracted.v') and vo_ok('Base/FNum.v') and vo_ok('Base/NumpyLib.v'):
        normal = [c for c in cases if 'probe' not in c]
        jobs = []
        per = max(1, (len(normal) + NCPU - 1) // NCPU)
        groups = [normal[k:k + per] for k in range(0, len(normal), per)]
        for gi, g in enumerate(groups):
            jobs.append(('c16_%d_%d' % (os.getpid(), gi), HEADER + '\n'.join(coq_case(c) for c in g) + '\n'))
        outs = coq_evals(jobs)
        for g, (rc, out) in zip(groups, outs):
            blocks = re.findall(r'(?s)=\s*(\[.*?\])\s*:\s*list float', out)
            if rc != 0 or len(blocks) != len(g):
                chk.tie_broken('correspondence', 'grid', 'model evaluation failed: ' + out[-600:])
                continue
            for c, b in zip(g, blocks):
                model[c['id']] = parse_floats(b)
    else:
        chk.tie_broken('correspondence', 'grid', 'model does not compile')
    ncmp = 0
    for c in cases:
        r = byid.get(c['id'])
        if r is None:
            continue
        key = json.dumps(c.get('near') or c.get('far'))
        nontriv = any(n > 1 for n in (c['near'][2] if 'near' in c else (c['far'][2], c['far'][5])))
        chk.add_case(key, nontriv, sample=c if nontriv else None)
        if 'error' in r:
            sig = dict(stage='grid', exception=r['error']['exception'])
            if c.get('probe') == 'zero-inc':
                sig['zero_increment'] = True
            chk.violation(sig, 'real code raised %s: %s' % (r['error']['exception'], r['error']['message']), c)
            continue
        bad = oracle_case(c, r)
        if bad:
            chk.violation(dict(stage='grid', kind='wrong-points'), bad, c)
        if c['id'] in model:
            ncmp += 1
            if 'near' in c:
                real = [float.fromhex(v) for p in r['coord'] for v in p]
            else:
                real = [v for z, a in zip(r['zen'], r['azi']) for v in (float.fromhex(z), float.fromhex(a))]
            mv = model[c['id']]
            if len(real) != len(mv) or any(a != b for a, b in zip(real, mv)):
                k = next((j for j, (a, b) in enumerate(zip(real, mv)) if a != b), min(len(real), len(mv)))
                chk.tie_broken('correspondence', 'grid',
                               'case %s: model and code differ (lengths %d/%d, first difference at %d)'
                               % (key, len(mv), len(real), k))
    chk.stages['grid'] = dict(cases=len(cases), compared_bit_exact=ncmp)
    return chk.finish()
