"""C12 — Number and placement of current unknowns follow from the wire topology."""
import random, math
from vlib import *
import stage_topo

def oracle(chk, good):
    """The property itself on the real objects: count formula from an
    independent clustering of the end points, numbering, joint placement."""
    n = 0
    for r in good:
        o = r['obs']
        n += 1
        # the matching tolerance is re-derived here: 1/1000 of the shortest segment of the whole structure
        tol = 1e-3 * min(float.fromhex(s_['len']) for g in o['geos'] for s_ in g['segs'])
        if abs(tol - float.fromhex(o['tol'])) > 1e-9 * tol:
            chk.violation(dict(stage='c12-oracle', what='matching tolerance'), 'the end-matching tolerance is %.6g, 1/1000 of the shortest segment is %.6g'
                          % (float.fromhex(o['tol']), tol), r['spec'])
        # the ends as the user gave them (plain wires without transformations): the program may not move an end by more than it
        # documents (onto the ground plane when there is one)
        given = {}
        sp_ = r['spec']
        if not sp_.get('transforms') and not sp_.get('scales') and all(w.get('tag') is None for w in sp_['wires']) and all(w['type'] == 'wire' for w in sp_['wires']):
            for g, w in zip(o['geos'], sp_['wires']):
                given[g['n']] = (list(map(float, w['p1'])), list(map(float, w['p2'])))
        # independent junction clustering: union-find over non-grounded ends within tol
        ends = []
        gflags = {g['n']: stage_topo.ground_flags(o, g) for g in o['geos']}     # from the coordinates, not from the object
        for g in o['geos']:
            for e, key in ((0, 'p1'), (1, 'p2')):
                if not gflags[g['n']][e]:
                    ends.append((g['n'], e, given[g['n']][e] if g['n'] in given else [float.fromhex(v) for v in g['s' + key]]))
        par = list(range(len(ends)))
        def find(x):
            while par[x] != x:
                par[x] = par[par[x]]; x = par[x]
            return x
        amb = False
        for a in range(len(ends)):
            for b in range(a + 1, len(ends)):
                d = math.dist(ends[a][2], ends[b][2])
                if d <= tol:
                    par[find(a)] = find(b)
                elif d <= 2.2 * tol:
                    amb = True     # chain-matching territory: outside "closer than tol"
        clusters = {}
        for a in range(len(ends)):
            clusters.setdefault(find(a), []).append(a)
        # cliques only (the property's reading of "joined exactly when closer than tol")
        for c in clusters.values():
            for a in c:
                for b in c:
                    if a < b and math.dist(ends[a][2], ends[b][2]) > tol:
                        amb = True
        expect = sum(g['nseg'] - 1 for g in o['geos']) + sum(int(x) for g in o['geos'] for x in gflags[g['n']]) \
                 + sum(len(c) - 1 for c in clusters.values())
        key = json.dumps(r['spec'], sort_keys=True)
        chk.add_case('or:' + key, len(o['geos']) > 1, sample=dict(oracle='c12', objects=len(o['geos']), pulses=len(o['pulses']),
                                                                  junction_sizes=sorted(len(c) for c in clusters.values() if len(c) > 1)))
        if not amb and expect != len(o['pulses']):
            chk.violation(dict(stage='c12-oracle', what='pulse count'),
                          '%d pulses, topology demands %d (segments-1: %d, grounded ends: %d, junction extras: %d)' % (
                              len(o['pulses']), expect, sum(g['nseg'] - 1 for g in o['geos']),
                              sum(int(x) for g in o['geos'] for x in gflags[g['n']]), sum(len(c) - 1 for c in clusters.values())), r['spec'])
        # numbering 0..N-1 without gaps in object order
        idx = [p['idx'] for p in o['pulses']]
        if idx != list(range(len(idx))):
            chk.violation(dict(stage='c12-oracle', what='numbering'), 'pulse numbers are not 1..N: %r' % idx, r['spec'])
        objs = [p['obj'] for p in o['pulses']]
        if objs != sorted(objs):
            chk.violation(dict(stage='c12-oracle', what='object order'), 'pulses are not numbered in object order: %r' % objs, r['spec'])
        # each pulse sits on a joint shared by the two segments it is reported with
        for p in o['pulses']:
            pt = [float.fromhex(v) for v in p['point']]
            if any(p['gnd']) and p['segs'][0] != p['segs'][1]:
                chk.violation(dict(stage='c12-oracle', what='ground pulse segments'),
                              'ground pulse %d is reported with two different segments %r (its image half must be the same segment)' % (p['idx'] + 1, p['segs']), r['spec'])
            for h in (0, 1):
                gi, si = p['segs'][h]
                sg = o['geos'][gi]['segs'][si]
                d = min(math.dist(pt, [float.fromhex(v) for v in sg['p1']]), math.dist(pt, [float.fromhex(v) for v in sg['p2']]))
                if d > 1.0001 * tol and not (p['gnd'][h]):
                    chk.violation(dict(stage='c12-oracle', what='pulse not on its segment'),
                                  'pulse %d lies %.3g from the nearest end of segment %d of object %d it is reported with (tolerance %.3g)' % (
                                      p['idx'] + 1, d, si, gi, tol), r['spec'])
                    break
    chk.stages['c12-oracle'] = dict(cases=n)

def probes():
    """valid structures the random families rarely produce: arcs with both ends on the ground plane (half loops), wire ends a
    rounding error below / above the plane, a half loop with a wire leaving one of its feet"""
    import gen
    out = []
    def case(wires, fam):
        out.append(dict(id=10 ** 6 + len(out), seed=0, must_accept=True,
                        spec=dict(f=30.0, wires=wires, media=[], family=fam, tagmode='none', sources=[], loads=[])))
    for n in (4, 8, 9):
        case([dict(type='arc', nseg=n, radius=1.0, ang1=0.0, ang2=180.0, r=0.001, tag=None)], 'probe-halfloop')
    case([dict(type='arc', nseg=6, radius=1.0, ang1=0.0, ang2=180.0, r=0.001, tag=None), gen.wire(4, [1.0, 0.0, 0.0], [1.0, 1.5, 1.0], 0.001)], 'probe-halfloop-wire')
    case([dict(type='arc', nseg=6, radius=1.0, ang1=0.0, ang2=90.0, r=0.001, tag=None), gen.wire(4, [0.0, 0.0, 1.0], [0.0, 0.0, 0.0], 0.001)], 'probe-quarterloop-down')
    for z in (-5.6e-17, -2.8e-17, -1e-9, 1e-9, 0.0):
        case([gen.wire(5, [0.0, 0.0, z], [0.0, 0.0, 2.0], 0.001)], 'probe-foot-rounding')
        case([gen.wire(5, [0.3, 0.0, 2.0], [0.3, 0.0, z], 0.001), gen.wire(4, [0.3, 0.0, 2.0], [2.0, 0.5, 2.0], 0.001)], 'probe-invl-rounding')
    # a wire tapered towards its SECOND end holds the shortest segment of the structure; another wire ends 10 / 20 true
    # tolerances away from it (far inside 1/1000 of the taper's first, longest segment): not joined
    for gap in (10, 20):
        a = gen.wire(7, [0.0, 0.0, 1.0], [0.25, 0.0, 1.0], 0.0002, taper=[2, None, None])
        out.append(dict(id=10 ** 6 + len(out), seed=0, must_accept=True, gap_tolerances=gap,
                        spec=dict(f=30.0, wires=[a, gen.wire(3, [0.25, 0.0, 1.0 + gap * 2.5e-6], [0.25, 0.9, 1.4], 0.0002)], media=None,
                                  family='probe-taper2-tolerance', tagmode='none', sources=[], loads=[])))
    # free space: ends near the plane z = 0 are ends like any others (1.6 tolerances apart across the plane: not joined;
    # 0.4 tolerances apart at heights 0.9 and 1.3 tolerances: joined)
    t_ = 1e-3 * 0.25
    for za, zb in ((0.8 * t_, -0.8 * t_), (0.9 * t_, 1.3 * t_), (-0.3 * t_, 0.3 * t_)):
        out.append(dict(id=10 ** 6 + len(out), seed=0, must_accept=True,
                        spec=dict(f=30.0, wires=[gen.wire(4, [-1.0, 0.0, 0.5], [0.0, 0.0, za], 0.0005), gen.wire(4, [0.0, 0.0, zb], [1.0, 0.0, 0.5], 0.0005)],
                                  media=None, family='probe-free-space-near-z0', tagmode='none', sources=[], loads=[])))
    # ends whose offset is oblique to the axes: the distance decides (1.2 and 1.5 tolerances apart although every single
    # coordinate differs by less than one tolerance: not joined; 0.9 tolerances: joined)
    t_ = 1e-3 * 0.25
    for k_, dirv in ((1.2, (1, 1, 1)), (1.5, (1, 1, 1)), (0.9, (1, 1, 1)), (1.2, (1, -1, 0)), (1.3, (0, 1, 1)), (0.95, (1, 0, -1))):
        nrm = math.sqrt(sum(c * c for c in dirv))
        off = [k_ * t_ * c / nrm for c in dirv]
        out.append(dict(id=10 ** 6 + len(out), seed=0, must_accept=True,
                        spec=dict(f=30.0, wires=[gen.wire(4, [-1.0, 0.0, 0.0], [0.0, 0.0, 0.0], 0.0005), gen.wire(4, off, [off[0], off[1] + 1.0, off[2]], 0.0005)],
                                  media=None, family='probe-oblique-offset', tagmode='none', sources=[], loads=[])))
    # a transformation of ONE tagged wire moves its end away from a junction (or onto another one): junctions are decided on the
    # transformed conductors
    for v_, fam in (([0.0, 0.6, 0.0], 'probe-tagged-move-away'), ([0.0, 0.0, 0.0], 'probe-tagged-move-zero'), ([1.5, 0.0, 0.0], 'probe-tagged-move-onto')):
        ws = [gen.wire(4, [0.0, 0.0, 0.5], [0.0, 0.0, 2.5], 0.001, tag=1), gen.wire(4, [0.0, 0.0, 2.5], [1.2, 0.0, 2.9], 0.001, tag=2),
              gen.wire(4, [1.5, 0.0, 0.5], [1.5, 0.0, 2.5], 0.001, tag=3)]
        out.append(dict(id=10 ** 6 + len(out), seed=0, must_accept=True,
                        spec=dict(f=30.0, wires=ws, media=None, family=fam, tagmode='explicit', sources=[], loads=[],
                                  transforms=[dict(op='translate', key=1.0, v=v_, tag=2)])))
    return out

def run(tier, seed):
    chk = Check('C12', tier, seed)
    chk.rule = ('random wire graphs (2-6 nodes, up to 6 wires in random order and orientation, 1-4 segments, junctions of up to 5 ends, '
                'closed loops, several components, arcs, helices, tapered wires, ends perturbed by 0.3x / 0.45x / 3x the matching tolerance, '
                'nodes on the ground plane) and the antenna families of py/gen.py; non-trivial = more than one object; distinct by full spec')
    chk.assumptions = ['the end scan compares with the tolerance computed by the code (1e-3 * min_seglen); min_seglen itself is an input of the model',
                       'junction sizes of the count formula are read off the statuses (each joined end has exactly one earlier owner end); the '
                       'oracle re-derives them by an independent clustering of the end points']
    standard_front(chk, 'Props/C12.v', needs_items=('gnd_flags',), extra_vo=('Model/Topology.v', 'Proofs/TopologyP.v', 'Corr/TopoDriver.v'))
    rng = random.Random(seed)
    pr = probes()
    good, errs = stage_topo.run_stage(chk, rng, 0, cases=pr + stage_topo.gen_cases(rng, 96 if tier == 'quick' else 4800))
    must = {c['id'] for c in pr}
    for r in good:
        chk.add_case(json.dumps(r['spec'], sort_keys=True), len(r['obs']['geos']) > 1,
                     sample=dict(family=r['spec']['family'], objects=len(r['obs']['geos']), pulses=len(r['obs']['pulses'])))
    for r in errs:
        if r['error']['exception'] == 'ValueError':
            if r['id'] in must:
                chk.violation(dict(stage='c12-oracle', what='valid structure rejected'),
                              'a valid structure (%s) is rejected: %s' % (r['spec']['family'], r['error']['message'][:200]), r['spec'])
            continue        # documented rejection of the input (both ends grounded, below ground, ...)
        report_error(chk, 'topo', r)
    oracle(chk, good)
    return chk.finish()
