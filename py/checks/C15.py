"""C15 — Option file written for a model reproduces that model when read back."""
from checks.zcommon import *
import stage_cmd

def run(tier, seed):
    chk = Check('C15', tier, seed)
    chk.rule = ('generated command lines: 1-3 wires plus optional arc and helix with no / explicit non-consecutive / mixed tags, tapers with 0-2 '
                'limits, tagged and untagged rotations / translations / scaling, 1-3 sources addressed absolutely or per object with complex '
                'voltages, up to 4 lumped loads of all kinds (negative reactance, blank R/L/C) attached in any order and in every form (absolute, '
                'per object, all, all of an object, every pulse of an object one by one), skin-effect and insulation loads with and without tag, '
                'free space / ideal / real / two-media ground with radials; rejected lines are outside the domain; written list -> real main -> '
                'written again; non-trivial = accepted line; distinct by argv')
    chk.assumptions = ['PARTIAL: the theorem covers the attachment writer / reader; objects, tags, tapers, transformations, sources, media and '
                       'load parameters are compared on the real code (same description, same feed impedance, second writing identical)',
                       'numbers are generated with at most as many digits as the writer prints, so the decimal round trip is exact']
    standard_front(chk, 'Props/C15.v', needs_items=(), extra_vo=('Model/Options.v', 'Proofs/OptionsP.v', 'Model/Objects.v', 'Proofs/ObjectsP.v', 'Model/LoadOrder.v', 'Proofs/LoadOrderP.v', 'Model/MediaOpts.v', 'Proofs/MediaOptsP.v', 'Model/SourceOpts.v', 'Proofs/SourceOptsP.v', 'Corr/OptDriver.v'))
    rng = random.Random(seed)
    q = tier == 'quick'
    cases = [dict(id=i, seed=rng.randrange(10 ** 9)) for i in range(240 if q else 16000)]
    rp = replay_input()
    if rp and rp['kind'] == 'argv':
        cases.insert(0, dict(id=2 * 10 ** 6, seed=1, argv=list(rp['value'])))
    shards = [cases[k::NCPU] for k in range(NCPU) if cases[k::NCPU]]
    res = run_workers('cmd.c15', [dict(cases=s) for s in shards])
    good = []; n = sk = 0; why = {}
    for ok, r in res:
        if not ok:
            chk.tie_broken('oracle', 'c15-oracle', 'real code could not be run: ' + str(r)[-600:]); continue
        for x in r['results']:
            if 'error' in x:
                x['spec'] = dict(argv=x.get('argv'))
                report_error(chk, 'c15-oracle', x); continue
            if x.get('skipped'):
                sk += 1; w = (x.get('why') or 'generator').split(':')[0][:40]; why[w] = why.get(w, 0) + 1; continue
            n += 1; good.append(x)
            chk.add_case('argv:' + json.dumps(x['argv']), True, sample=dict(oracle='c15', **x.get('features', {})))
            seen = set()
            for b in x['bad']:
                sig = dict(stage='c15-oracle', what=b.split(':')[0][:60])
                k = json.dumps(sig, sort_keys=True)
                if k in seen: continue
                seen.add(k)
                chk.violation(sig, b, dict(argv=x['argv'], written=x.get('written')))
    chk.stages['c15-oracle'] = dict(command_lines=n, outside_domain=sk, outside_domain_kinds=why)
    stage_cmd.run_cmd(chk, good)
    stage_cmd.run_objs(chk, good)
    stage_cmd.run_loads(chk, good)
    stage_cmd.run_srcs(chk, good)
    stage_cmd.run_media(chk, random.Random(seed + 15), 150 if tier == 'quick' else 4000)
    return chk.finish()
