"""C17 — Pulse addressing."""
import random
from vlib import *
import stage_topo

def run(tier, seed):
    chk = Check('C17', tier, seed)
    chk.rule = ('random wire graphs and antenna families with explicit, permuted, non-consecutive, mixed and automatic tags; per case 8 '
                'per-object requests (valid and out of range, unknown tags), 6 absolute requests, all-of-object for every tag, all; '
                'non-trivial = more than one object; distinct by full spec')
    chk.assumptions = ['report listing of the named pulse number (source/load lines) is covered by C19\'s report stage',
                       'tags: Python dict by_tag modelled as first index in the tag-sorted list (tags are distinct by compute_tags)']
    standard_front(chk, 'Props/C17.v', extra_vo=('Model/Topology.v', 'Model/Report.v', 'Proofs/AddressP.v', 'Corr/TopoDriver.v'))
    rng = random.Random(seed)
    good, errs = stage_topo.run_stage(chk, rng, 48 if tier == 'quick' else 2400)
    for r in errs:
        if r['error']['exception'] != 'ValueError':
            report_error(chk, 'topo', r)
    good, errs = stage_topo.run_addr(chk, rng, 64 if tier == 'quick' else 3200)
    for r in good:
        o = r['obs']
        chk.add_case(json.dumps(r['spec'], sort_keys=True), len(o['geos']) > 1,
                     sample=dict(tags=o['tags'], rel=o['rel'][:2], tagmode=r['spec'].get('tagmode')))
        # the property itself on the real answers: both forms agree, all-of-object loads each pulse of the block once
        for q in o['rel']:
            blk_ = [p['idx'] for p in o['pulses'] if [g['n'] for g in o['geos'] if g['tag'] == q['tag']] and p['obj'] == [g['n'] for g in o['geos'] if g['tag'] == q['tag']][0]]
            if q['src'] is None and 0 <= q['k'] < len(blk_):
                chk.violation(dict(stage='c17-oracle', what='valid per-object address rejected'),
                              'pulse %d of object tag %d (block %r) is refused as a source address' % (q['k'] + 1, q['tag'], blk_), r['spec'])
            if q['load'] is None and 0 <= q['k'] < len(blk_):
                chk.violation(dict(stage='c17-oracle', what='valid per-object address rejected'),
                              'pulse %d of object tag %d (block %r) is refused as a load address' % (q['k'] + 1, q['tag'], blk_), r['spec'])
            if q['src'] is not None:
                blk = [p['idx'] for p in o['pulses'] if p['obj'] == [g['n'] for g in o['geos'] if g['tag'] == q['tag']][0]]
                if q['k'] >= len(blk) or blk[q['k']] != q['src'] or q['load'] != [q['src']]:
                    chk.violation(dict(stage='c17-oracle', what='per-object addressing'),
                                  'pulse %d of object tag %d resolved to source %r / load %r, block is %r' % (q['k'] + 1, q['tag'], q['src'], q['load'], blk), r['spec'])
        for q in o['allobj']:
            blk = [p['idx'] for p in o['pulses'] if p['obj'] == [g['n'] for g in o['geos'] if g['tag'] == q['tag']][0]]
            if q['load'] != blk:
                chk.violation(dict(stage='c17-oracle', what='all-of-object'), 'all pulses of object tag %d loaded %r, block is %r' % (q['tag'], q['load'], blk), r['spec'])
        if o['all'] != list(range(len(o['pulses']))):
            chk.violation(dict(stage='c17-oracle', what='all'), 'all pulses loaded %r' % o['all'], r['spec'])
        c = o.get('cli')
        if c:
            if c['src'] != c['want_src']:
                chk.violation(dict(stage='c17-oracle', what='command-line sources'), 'sources %r feed pulses %r, the geometry table says %r' % (
                    [a for a in c['argv'] if 'excitation' in a], c['src'], c['want_src']), r['spec'])
            if c['load1'] != c['want_load1'] or c['load2'] != c['want_load2']:
                chk.violation(dict(stage='c17-oracle', what='command-line loads'), 'attachments %r load pulses %r / %r (with multiplicity, as the matrix fill '
                              'sees them), the geometry table says %r / %r' % ([a for a in c['argv'] if 'attach' in a], c['load1'], c['load2'], c['want_load1'], c['want_load2']), r['spec'])
            if 'rewritten' in c and c['rewritten'] != [c['want_load1'], c['want_load2']]:
                chk.violation(dict(stage='c17-oracle', what='per-object option writer'), 'the loads written per object (%r) sit on pulses %r when read back, they were attached to %r / %r'
                              % (c.get('attach_written'), c['rewritten'], c['want_load1'], c['want_load2']), r['spec'])
            if 'skin' in c and c['skin'] != c['want_skin']:
                chk.violation(dict(stage='c17-oracle', what='load on all of one object'), 'a skin-effect load given for the object with tag %d sits on the pulses %r (with multiplicity), '
                              'the pulses with a half on that object are %r' % (c['skin_tag'], c['skin'], c['want_skin']), dict(r['spec'], argv_loads=c['argv']))
            if c.get('matrix_dev') and (c['matrix_dev'][0] > 1e-6 or c.get('matrix_other', 0) > 1e-6):
                chk.violation(dict(stage='c17-oracle', what='attachments that do not act'), 'attachments %r: the loaded matrix differs from the unloaded one on pulse %d by something else than the '
                              'sum of the impedances attached there (relative deviation %.3g; on pulses without a load %.3g)' % (
                              [a for a in c['argv'] if 'attach' in a], c['matrix_dev'][1] + 1, c['matrix_dev'][0], c.get('matrix_other', 0)), dict(r['spec'], argv_loads=c['argv']))
        tags = o['tags']
        if tags != sorted(tags) or len(set(tags)) != len(tags):
            chk.violation(dict(stage='c17-oracle', what='tag order'), 'objects not ordered by distinct tags: %r' % tags, r['spec'])
        for p in o['pulses']:
            if p['obj'] != max(p['segs'][0][0], p['segs'][1][0]):
                chk.violation(dict(stage='c17-oracle', what='junction owner'), 'pulse %d belongs to object %d but joins %r' % (p['idx'] + 1, p['obj'], p['segs']), r['spec'])
    for r in errs:
        if r['error']['exception'] != 'ValueError':
            report_error(chk, 'addr', r)
    return chk.finish()
