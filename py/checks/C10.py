"""C10 — Far field is the radiation integral of the currents; dBi and V/m agree."""
from checks.ffcommon import *

def run(tier, seed):
    chk = Check('C10', tier, seed)
    chk.rule = ('generated antennas in free space / over ideal ground (and real ground for the correspondence), 1-4 complex sources, '
                'random zenith/azimuth grids, power levels and distances; non-trivial = more than one pulse; distinct by full spec')
    chk.assumptions = ['the 1e-4 and 2 % clauses (moment placement vs exact half-segment integral) are measured by the search oracle on the real code',
                       'libm sin/cos/exp modelled by Base/FloatLib.v on the executable side (<= 1 ulp), by Reals on the theorem side']
    standard_front(chk, 'Props/C10.v',
                   needs_items=('ff_k9', 'ff_f3', 'ff_theta', 'ff_phi', 'ff_t1', 'ff_t2', 'ff_t3', 'ff_above', 'ff_db', 'ff_rat', 'ffp_scale'),
                   extra_vo=('Model/FarField.v', 'Proofs/FarFieldP.v', 'Proofs/Zenith.v', 'Corr/FFDriver.v'))
    rng = random.Random(seed)
    ff_cases(chk, rng, 48 if tier == 'quick' else 1600, (None, None, 'ideal', 'ideal', 'real'))
    nor = 16 if (tier == 'quick' and not chk.broken) else (48 if tier == 'quick' else 800)
    run_oracle(chk, rng, nor, 'ff.c10_oracle', 'c10-oracle', (None, 'ideal'), probes=[os.path.join(ROOT, 'probes', f) for f in ('C10-sloper.json', 'C10-zigzag.json')])
    return chk.finish()
